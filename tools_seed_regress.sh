#!/bin/bash
# Re-runs every stored seeded change against the check(s) recorded in its meta.json (first entry of detected_by),
# on the current /repo HEAD and the current /verif.  usage: tools_seed_regress.sh [tier] [name-glob]
TIER=${1:-quick}; GLOB=${2:-*}
for d in /verif/seeded/$GLOB/; do
  n=$(basename $d); P=$(python3 -c "import json;print(json.load(open('$d/meta.json'))['detected_by'][0])")
  out=$(VERIF_JOBS=${VERIF_JOBS:-12} /verif/tools_seed_eval.sh $P $d/patch.diff $TIER 2>&1 | grep "SEED-EVAL\|does not" | tail -1 | cut -c1-200)
  echo "$n -> $out"
done
