#!/usr/bin/env python3
"""prints the prompt for a mutation-seeding sub-agent: tools_seed_prompt.py <ID> <worktree>"""
import json, sys
pid, wt = sys.argv[1], sys.argv[2]
ROUND2 = len(sys.argv) > 3 and sys.argv[3] == "round2"
p = [json.loads(l) for l in open('/verif/properties.jsonl') if json.loads(l)['id'] == pid][0]
extra = ""
if ROUND2:
    extra = """  IMPORTANT (second round): the verification team is known to use property-based tests that generate many SMALL random inputs (a few records, short sequences, a handful of batches), compare against brute-force reference models, run the real commands on small files with various --max-cpu/--batch-size values, and run a few large-input cases.  A first round of seeded defects of the obvious kinds (off-by-one at a length boundary, missed reset between records, scratch buffer shared between goroutines, non-injective cache key, dropped error check, wrong primer length in one branch) was caught.  Aim for defects such tests are LIKELY TO MISS yet a real user can hit: behaviour that only shows beyond a size threshold (more than 64K records, sequences longer than 64 KiB or than the 1 MiB read chunk, more than 255 distinct values, ids longer than a buffer), after many operations (a counter wrapping, a pool/cache filling up, the n-th reuse of an object), with a specific combination of three or more options, with a rarely used but documented option or input variant, with particular byte values (non-ASCII identifiers, tabs, very long lines), on the second file / second call / second sample only, or through an interaction of two features that are each tested alone.  Say in the README why you expect small-input randomized testing to miss it."""
print(f"""You are a software engineer asked to SEED A REALISTIC DEFECT into a Go code base, to test whether an independent verification team can detect it. You work ONLY inside the scratch git worktree {wt} (a checkout of the repository "obitools4", a Go 1.23 + cgo command-line toolkit for DNA metabarcoding). Do NOT read or write anything under /verif or /repo; do not look at other directories of /tmp. The sandbox has no network. The machine is shared: avoid needless heavy loads.

THE PROPERTY the code currently satisfies (and that your change must break):

Title: {p['title']}
Statement: {p['statement']}
Quantified over: {p['quantifier']['text']}
Where it lives: {', '.join(p['anchors']['files'])}
Mechanisms that make it hold: {'; '.join(m['name'] + ' (' + m.get('where','') + ')' for m in p['anchors']['mechanism'])}

YOUR TASK: produce TWO different, independent changes (call them m1 and m2) to the source code under {wt}/pkg (or cmd) such that each one, applied alone:
  1. still compiles: `cd {wt} && go build ./... ` (cgo warnings are noise);
  2. still passes the existing unit tests exactly as before: `cd {wt} && go test -vet=off -count=1 ./pkg/...` — today every test passes except these five, which already fail and do not count: obifp TestUint128_Cmp64, TestUint128_Div, TestUint128_QuoRem; obiseq TestNewBioSequenceWithQualities; obiformats Test (network). Do not edit or add *_test.go files inside pkg/ as part of the change;
  3. BREAKS the property above in a way a user could really hit, but NOT in a way that ordinary use exposes at once. It must need something specific to manifest: a particular interleaving or worker count, a fault at a particular point, a multi-step sequence of operations, an unusual but valid input (a boundary length, a rare symbol, an empty batch, a specific position), or two cooperating sites that each look fine alone. Make it look like a plausible programming slip or a well-meant "optimisation"/refactoring (an off-by-one at a boundary, a missed reset, a dropped synchronisation, a wrong branch for a rare case, a cache that is not invalidated...), not sabotage: no dead giveaways in comments, names or special constants that single out one input by value.
  m1 and m2 must be of different kinds and touch different functions.
{extra}

For each change deliver, under {wt}/SEED/m1 and {wt}/SEED/m2:
  - patch.diff : `git -C {wt} diff` of that change alone (against the worktree's HEAD), applicable with `git apply`;
  - a DEMONSTRATION that fails with the change and passes without it: either a Go test file demo_test.go plus the exact command to run it (it may be copied temporarily into a package directory of the worktree to run, but is not part of the patch), or a small shell script demo.sh using the built commands (build them with `cd {wt} && go build -o /tmp/<yourdir>/ ./cmd/obitools/<cmd>`); it must exit non-zero / FAIL when the defect is present and exit 0 / PASS on the unmodified code; if the manifestation is probabilistic (a race), make the demo repeat enough to fail reliably and say how often it shows;
  - README.md : what the change is, why it breaks the property, what exactly is needed for it to manifest, and the output of your demonstration with and without the change.
Verify all of this yourself (build, unit tests, demo with and without). Leave the worktree's tracked files UNMODIFIED at the end (`git -C {wt} checkout -- . ` so that `git -C {wt} status --short` shows only the untracked SEED directory). Clean up any build output you created outside the worktree.

Final reply: for m1 and m2, one paragraph each: the idea, files/functions touched, what is needed to manifest, and the demo command.""")
