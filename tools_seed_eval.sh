#!/bin/bash
# usage: tools_seed_eval.sh <PROPERTY-ID> <patch.diff> [tier] [other IDs to run as well...]
# Applies a seeded change to a scratch worktree of /repo HEAD, checks it builds and that the
# pinned unit tests of the touched packages still pass, then runs the property check against it.
ID=$1; PATCH=$(readlink -f $2); TIER=${3:-quick}; shift 3 2>/dev/null
NAME=$(echo "$PATCH" | md5sum | cut -c1-8)
WT=/tmp/wt-seedeval-$ID-$NAME
git -C /repo worktree add -q --detach $WT HEAD || exit 2
trap "git -C /repo worktree remove --force $WT; rm -rf /tmp/alt-seedeval-$ID-$NAME" EXIT
cd $WT
if ! git apply "$PATCH" 2>/tmp/apply-$NAME.err; then
  if ! git apply -3 "$PATCH" 2>>/tmp/apply-$NAME.err; then echo "SEED-EVAL $ID $PATCH: patch does not apply: $(head -3 /tmp/apply-$NAME.err)"; exit 3; fi
fi
PKGS=$(git diff --name-only HEAD | grep '\.go$\|\.c$\|\.h$' | xargs -n1 dirname | sort -u | sed 's|^|./|' | tr '\n' ' ')
if ! go build ./pkg/... ./cmd/obitools/... >/tmp/build-$NAME.log 2>&1; then echo "SEED-EVAL $ID: does not build"; grep -v warning /tmp/build-$NAME.log | grep -i "error\|cannot\|undefined" | head; exit 4; fi
go test -vet=off -count=1 -json $PKGS 2>/dev/null | python3 -c "
import sys,json
base=set(json.load(open('/root/.vp/BASELINE.json'))['stable_pass'])
res={}
for l in sys.stdin:
    try: e=json.loads(l)
    except: continue
    if e.get('Test') and e.get('Action') in ('pass','fail'): res[e['Package']+'::'+e['Test']]=e['Action']
broken=[t for t,a in res.items() if a=='fail' and t in base]
print('unit tests of touched packages: %d run, pinned tests broken: %s' % (len(res), broken))
"
cd /verif
for P in $ID "$@"; do
  VERIF_REPO=$WT VERIF_ALT_OUT=/tmp/alt-seedeval-$ID-$NAME VERIF_JOBS=${VERIF_JOBS:-12} timeout 3000 ./check $P $TIER > /tmp/seedeval-$P-$NAME.log 2>&1; rc=$?
  echo "SEED-EVAL $P $TIER on $(basename $(dirname $PATCH)): rc=$rc ; $(grep -m1 '^----' /tmp/seedeval-$P-$NAME.log | cut -c1-260)"
done
