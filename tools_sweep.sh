#!/bin/bash
# usage: tools_sweep.sh <tier> <seed> [IDs...]  — runs the checks one after the other, prints one line each
TIER=${1:-quick}; SEED=${2:-1}; shift 2
IDS=${@:-$(python3 -c "import json;print(' '.join(c['property_id'] for c in json.load(open('/verif/MANIFEST.json'))['checks']))")}
for p in $IDS; do
  t0=$(date +%s)
  VERIF_SEED=$SEED VERIF_EVIDENCE_KEEP=1 /verif/check $p $TIER > /tmp/sweep-$p-$TIER-$SEED.log 2>&1; rc=$?
  echo "$p $TIER seed=$SEED rc=$rc $(( $(date +%s) - t0 ))s $(grep -c VIOLATION /tmp/sweep-$p-$TIER-$SEED.log) violations $(grep -m1 '^----\|INCONCL' /tmp/sweep-$p-$TIER-$SEED.log | cut -c1-160)"
done
