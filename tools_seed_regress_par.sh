#!/bin/bash
# Parallel variant of tools_seed_regress.sh: usage tools_seed_regress_par.sh [tier] [streams] ; results in /tmp/regress-par.log
TIER=${1:-quick}; N=${2:-3}
ls -d /verif/seeded/*/ | xargs -n1 basename > /tmp/regress-names.txt
: > /tmp/regress-par.log
for k in $(seq 0 $((N-1))); do
  ( awk -v n=$N -v k=$k 'NR%n==k' /tmp/regress-names.txt | while read n; do
      P=$(python3 -c "import json;print(json.load(open('/verif/seeded/$n/meta.json'))['detected_by'][0])")
      out=$(VERIF_JOBS=${VERIF_JOBS:-5} /verif/tools_seed_eval.sh $P /verif/seeded/$n/patch.diff $TIER 2>&1 | grep "SEED-EVAL\|does not" | tail -1 | cut -c1-200)
      echo "$n -> $out" >> /tmp/regress-par.log
    done ) &
done
wait
