package c06

import (
	"encoding/json"
	"fmt"
	"testing"

	"pgregory.net/rapid"

	"verifharness/internal/evid"
	"verifharness/internal/gen"
)

func init() {
	evid.Reg("uniq", checkUniq)
	evid.Reg("roundtrip", checkRoundTrip)
}

func TestReplay(t *testing.T) { evid.Replay(t) }

// ---------------------------------------------------------------- generators

var (
	keyNames   = []string{"sample", "k", "taxid", "flag", "x_y"}
	strValues  = []string{"a", "b", "A", "x y", "s-1", "é", "zz_a_longer_value", ""}
	intValues  = []int64{0, 1, -1, 2, 10, 42, 1000000, 123456789012, 9007199254740992, -1000000, -123456789012, 999999, 20000000, -9007199254740992}
	naValues   = []string{"NA", "NA", "NA", "na", "missing", "N A", ""}
	batchSizes = []int{1, 2, 3, 5, 10, 100, 5000}
)

// genPool draws distinct sequences, some of them one substitution away from another.
func genPool(t *rapid.T, n int) []string {
	var pool []string
	have := map[string]bool{}
	for i := 0; i < n; i++ {
		var s string
		if i > 0 && rapid.Bool().Draw(t, "related") {
			base := pool[rapid.IntRange(0, i-1).Draw(t, "base")]
			s, _ = gen.Mutate(t, "mut", base, 1, gen.ACGT, "sid")
		} else {
			s = gen.SeqMix(t, "seq", gen.Len(t, "len", 1, 70, 1, 2, 60, 61), gen.ACGT, "n", rapid.SampledFrom([]int{0, 0, 10}).Draw(t, "n_rate"))
		}
		for j := 0; have[s] || s == ""; j++ {
			s += string(gen.ACGT[j%4])
		}
		have[s] = true
		pool = append(pool, s)
	}
	return pool
}

// genValuePool: 1..4 values with pairwise different renderings; may hold the NA string itself.
func genValuePool(t *rapid.T, na string) []Val {
	n := rapid.IntRange(1, 4).Draw(t, "nvalues")
	var out []Val
	seen := map[string]bool{}
	for len(out) < n {
		var v Val
		switch rapid.SampledFrom([]string{"s", "s", "i", "b", "na", "s", "i", "f"}).Draw(t, "kind") {
		case "f":
			v = Val{K: "f", I: rapid.SampledFrom(intValues).Draw(t, "float")}
		case "s":
			v = Val{K: "s", S: rapid.SampledFrom(strValues).Draw(t, "str")}
		case "i":
			v = Val{K: "i", I: rapid.SampledFrom(intValues).Draw(t, "int")}
		case "b":
			v = Val{K: "b", B: rapid.Bool().Draw(t, "bool")}
		case "na":
			v = Val{K: "s", S: na}
		}
		if seen[v.render()] {
			// by construction: fall back to a fresh string
			v = Val{K: "s", S: fmt.Sprintf("v%d", len(out))}
		}
		seen[v.render()] = true
		out = append(out, v)
	}
	return out
}

func genRun(t *rapid.T, diskOdds int) Run {
	var r Run
	if rapid.IntRange(0, 3).Draw(t, "permuted") > 0 {
		r.PermSeed = rapid.Uint32Range(1, 1<<31).Draw(t, "perm_seed")
	}
	np := rapid.IntRange(1, 5).Draw(t, "npattern")
	for i := 0; i < np; i++ {
		r.Sizes = append(r.Sizes, rapid.SampledFrom([]int{0, 1, 1, 2, 3, 5, 10, 50}).Draw(t, "size"))
	}
	if rapid.IntRange(0, 3).Draw(t, "arr_permuted") > 0 {
		r.ArrSeed = rapid.Uint32Range(1, 1<<31).Draw(t, "arr_seed")
	}
	r.Producers = rapid.IntRange(1, 3).Draw(t, "producers")
	r.Chunks = rapid.IntRange(1, 8).Draw(t, "chunks")
	r.Disk = rapid.IntRange(0, diskOdds).Draw(t, "disk") == 0
	r.Workers = rapid.IntRange(1, 8).Draw(t, "workers")
	r.BatchSize = rapid.SampledFrom(batchSizes).Draw(t, "batchsize")
	r.Jitter = rapid.SampledFrom([]int{0, 0, 20, 200}).Draw(t, "jitter")
	r.Procs = rapid.SampledFrom([]int{0, 0, 1, 2}).Draw(t, "procs")
	return r
}

func genCase(t *rapid.T, maxRecs, diskOdds int) Case {
	var c Case
	c.NA = rapid.SampledFrom(naValues).Draw(t, "na")
	c.Pool = genPool(t, rapid.IntRange(1, 6).Draw(t, "nseq"))

	nkeys := rapid.SampledFrom([]int{2, 1, 3, 0, 4, 2, 3}).Draw(t, "nkeys")
	c.Keys = append(c.Keys, rapid.Permutation(keyNames).Draw(t, "keys")[:nkeys]...)
	// every key is a category attribute, a merge attribute, both, or a plain annotation
	for k := range c.Keys {
		role := rapid.SampledFrom([]string{"cat", "mrg", "mrg", "both", "plain"}).Draw(t, "role")
		if (role == "cat" || role == "both") && len(c.Cat) < 2 {
			c.Cat = append(c.Cat, k)
		}
		if (role == "mrg" || role == "both") && len(c.Mrg) < 2 {
			c.Mrg = append(c.Mrg, k)
		}
	}
	if rapid.Bool().Draw(t, "cat_order") && len(c.Cat) == 2 {
		c.Cat[0], c.Cat[1] = c.Cat[1], c.Cat[0]
	}
	isMrg := map[int]bool{}
	for _, k := range c.Mrg {
		isMrg[k] = true
	}
	pools := make([][]Val, len(c.Keys))
	for k := range c.Keys {
		pools[k] = genValuePool(t, c.NA)
	}
	premergedOdds := rapid.SampledFrom([]int{0, 0, 2, 5}).Draw(t, "premerged_odds") // 0 = never
	absentOdds := rapid.SampledFrom([]int{2, 4, 4, 1000}).Draw(t, "absent_odds")

	n := rapid.IntRange(1, maxRecs).Draw(t, "nrecs")
	if rapid.IntRange(0, 99).Draw(t, "empty_input") == 57 {
		n = 0
	}
	for i := 0; i < n; i++ {
		r := Rec{ID: fmt.Sprintf("r%d", i), Seq: rapid.IntRange(0, len(c.Pool)-1).Draw(t, "seq")}
		switch rapid.IntRange(0, 3).Draw(t, "count_kind") {
		case 0:
			r.Count = 0
		case 1:
			r.Count = 1
		default:
			r.Count = rapid.IntRange(2, 60).Draw(t, "count")
		}
		r.Attr = make([]Val, len(c.Keys))
		r.Pre = make([]*Merged, len(c.Keys))
		for k := range c.Keys {
			if rapid.IntRange(0, absentOdds).Draw(t, "absent") != 0 {
				r.Attr[k] = rapid.SampledFrom(pools[k]).Draw(t, "value")
			}
			if isMrg[k] && premergedOdds > 0 && rapid.IntRange(0, premergedOdds).Draw(t, "premerged") == 0 {
				// the record is the result of an earlier dereplication: merged map consistent with its count
				cnt := r.count()
				parts := rapid.IntRange(1, min(3, cnt)).Draw(t, "parts")
				renders := []string{c.NA}
				for _, v := range pools[k] {
					if v.render() != c.NA {
						renders = append(renders, v.render())
					}
				}
				renders = rapid.Permutation(renders).Draw(t, "pre_values")
				parts = min(parts, len(renders))
				m := &Merged{Repr: rapid.IntRange(0, 3).Draw(t, "repr")}
				left := cnt
				for j := 0; j < parts; j++ {
					w := left - (parts - 1 - j)
					if j < parts-1 {
						w = rapid.IntRange(1, left-(parts-1-j)).Draw(t, "weight")
					}
					m.V = append(m.V, renders[j])
					m.W = append(m.W, w)
					left -= w
				}
				r.Pre[k] = m
				// the plain attribute of a merged record: absent, or the single value all its members shared
				r.Attr[k] = Val{}
				if parts == 1 && rapid.Bool().Draw(t, "keep_plain") {
					for _, v := range pools[k] {
						if v.render() == m.V[0] {
							// same Go type as on the other records (an int 0 next to a
							// string "0" is left out, see Domain decisions)
							r.Attr[k] = v
						}
					}
				}
			}
		}
		c.Recs = append(c.Recs, r)
	}
	c.NoSingleton = rapid.IntRange(0, 2).Draw(t, "nosingleton") == 0

	// round trip key: a merge attribute if there is one.  When the key is also a
	// category attribute it must not be already merged in some record (demerge
	// rewrites k from the map, which would move such a record to another key).
	c.RT = -1
	var rtCandidates []int
	for k := range c.Keys {
		ok := len(c.Mrg) == 0 || isMrg[k]
		for _, ck := range c.Cat {
			if ck == k {
				for _, r := range c.Recs {
					if r.Pre[k] != nil {
						ok = false
					}
				}
			}
		}
		if ok {
			rtCandidates = append(rtCandidates, k)
		}
	}
	if len(rtCandidates) > 0 && rapid.Bool().Draw(t, "roundtrip") {
		c.RT = rapid.SampledFrom(rtCandidates).Draw(t, "rt_key")
	}
	nruns := rapid.IntRange(1, 3).Draw(t, "nruns")
	if c.RT >= 0 {
		nruns = max(nruns, 2)
	}
	for i := 0; i < nruns; i++ {
		c.Runs = append(c.Runs, genRun(t, diskOdds))
	}
	return c
}

// ---------------------------------------------------------------- evidence classes

func bucket(n int) string {
	switch {
	case n <= 1:
		return fmt.Sprint(n)
	case n <= 5:
		return "2-5"
	case n <= 20:
		return "6-20"
	}
	return ">20"
}

func classesOf(c Case, s stats) []string {
	cl := []string{
		fmt.Sprintf("ncat:%d", len(c.Cat)),
		fmt.Sprintf("nmerge:%d", len(c.Mrg)),
		"max_class_members:" + bucket(s.maxMembers),
		"nseq:" + bucket(len(c.Pool)),
	}
	for _, k := range c.Cat {
		for _, m := range c.Mrg {
			if k == m {
				cl = append(cl, "attribute_both_category_and_merge")
			}
		}
	}
	if c.NA != "NA" {
		cl = append(cl, "na_value:custom")
	}
	if c.NA == "" {
		cl = append(cl, "na_value:empty_string")
	}
	if s.explicitNA {
		cl = append(cl, "category_value_equal_to_NA_string")
	}
	if s.missingCat {
		cl = append(cl, "category_value_missing")
	}
	if s.missingAndNAMix {
		cl = append(cl, "class_mixing_missing_and_explicit_NA")
	}
	if s.premerged {
		cl = append(cl, "already_merged_records")
	}
	if s.countAbsent {
		cl = append(cl, "count_attribute_absent")
	}
	if s.mergeDiffers {
		cl = append(cl, "class_members_differ_in_merge_value")
	}
	if s.sharedChunk {
		cl = append(cl, "hash_chunk_with_several_sequences")
	}
	if len(c.Recs) == 0 {
		cl = append(cl, "empty_input")
	}
	if c.NoSingleton {
		cl = append(cl, "no_singleton")
		if s.singletons > 0 {
			cl = append(cl, "no_singleton_drops_a_class")
		}
		if s.oneMemberBig > 0 {
			cl = append(cl, "no_singleton_keeps_one_member_class_of_count_gt1")
		}
	}
	kinds := map[string]bool{}
	big, neg := false, false
	for _, r := range c.Recs {
		for _, v := range r.Attr {
			if v.present() {
				kinds[v.K] = true
				if (v.K == "i" || v.K == "f") && (v.I >= 1000000 || v.I <= -1000000) {
					big = true
				}
				if (v.K == "i" || v.K == "f") && v.I < 0 {
					neg = true
				}
			}
		}
	}
	for k := range map[string]string{"s": "", "i": "", "b": "", "f": ""} {
		if kinds[k] {
			cl = append(cl, "value_kind:"+k)
		}
	}
	if big {
		cl = append(cl, "int_value_ge_1e6")
	}
	if neg {
		cl = append(cl, "negative_numeric_value")
	}
	for _, r := range c.Runs {
		cl = append(cl, fmt.Sprintf("chunks:%d", r.Chunks))
		if r.Disk {
			cl = append(cl, "mode:disk")
		} else {
			cl = append(cl, "mode:memory")
		}
		cl = append(cl, "workers:"+bucket(r.Workers))
		if r.PermSeed != 0 {
			cl = append(cl, "input_permuted")
		}
		if r.Jitter > 0 {
			cl = append(cl, "push_jitter")
		}
		for _, z := range r.Sizes {
			if z == 0 {
				cl = append(cl, "empty_batches")
				break
			}
		}
		if r.BatchSize < len(c.Recs) {
			cl = append(cl, "dispatcher_batches_smaller_than_input")
		}
	}
	if c.RT >= 0 {
		cl = append(cl, "round_trip")
	}
	return cl
}

func caseHash(c Case) uint64 {
	b, _ := json.Marshal(c)
	return evid.Hash(b)
}

// ---------------------------------------------------------------- properties

func TestPropUniq(t *testing.T) {
	rapid.Check(t, func(rt *rapid.T) {
		c := genCase(rt, evid.Pick(40, 60), 3)
		s := c.stats()
		nt := s.mergeDiffers && s.sharedChunk
		evid.Eval("uniq", caseHash(c), nt, c, classesOf(c, s)...)
		if err := checkUniq(c); err != nil {
			evid.Fail(rt, "uniq", c, err)
		}
		if c.RT >= 0 {
			evid.Eval("roundtrip", caseHash(c), nt, nil)
			if err := checkRoundTrip(c); err != nil {
				evid.Fail(rt, "roundtrip", c, err)
			}
		}
	})
}

// TestPropLarge: data sets of several hundred records over a larger pool, so
// that hash chunks hold many sequences and classes are spread over many
// dispatcher batches.
func TestPropLarge(t *testing.T) {
	rapid.Check(t, func(rt *rapid.T) {
		c := genCase(rt, 40, 2)
		// blow the data set up: every record is repeated with fresh identifiers over an enlarged pool
		extra := rapid.IntRange(5, 25).Draw(rt, "pool_extra")
		base := len(c.Pool)
		c.Pool = append(c.Pool, genPoolExtra(rt, c.Pool, extra)...)
		times := rapid.IntRange(3, 12).Draw(rt, "times")
		orig := c.Recs
		for k := 1; k < times; k++ {
			for i, r := range orig {
				r2 := r
				r2.ID = fmt.Sprintf("r%d_%d", i, k)
				r2.Seq = (r.Seq + k*(1+i%3)) % (base + extra)
				c.Recs = append(c.Recs, r2)
			}
		}
		s := c.stats()
		nt := s.mergeDiffers && s.sharedChunk
		evid.Eval("uniq", caseHash(c), nt, nil, append(classesOf(c, s), "large_data_set")...)
		if err := checkUniq(c); err != nil {
			evid.Fail(rt, "uniq", c, err)
		}
	})
}

func genPoolExtra(t *rapid.T, have []string, n int) []string {
	seen := map[string]bool{}
	for _, s := range have {
		seen[s] = true
	}
	var out []string
	for i := 0; i < n; i++ {
		s := gen.Seq(t, "xseq", rapid.IntRange(5, 40).Draw(t, "xlen"), gen.ACGT)
		for j := 0; seen[s]; j++ {
			s += string(gen.ACGT[j%4])
		}
		seen[s] = true
		out = append(out, s)
	}
	return out
}

func TestPropCLI(t *testing.T) {
	rapid.Check(t, func(rt *rapid.T) {
		c := genCase(rt, 30, 1)
		if len(c.Runs) > 2 {
			c.Runs = c.Runs[:2]
		}
		for i := range c.Runs {
			c.Runs[i].Procs = 0
		}
		s := c.stats()
		nt := s.mergeDiffers && s.sharedChunk
		evid.Eval("cli", caseHash(c), nt, c, append(classesOf(c, s), "command_tier")...)
		if err := checkCLI(c); err != nil {
			evid.Fail(rt, "cli", c, err)
		}
	})
}

// Hundreds of classes, most of them singletons, through the real command (and
// its ordered writer): the merged classes leave the dereplicator in batches of
// 100, --no-singleton can empty whole batches, and the output must still hold
// every class that is kept.
func TestPropManyClasses(t *testing.T) {
	rapid.Check(t, func(rt *rapid.T) {
		c := genCase(rt, 12, 1)
		extra := rapid.IntRange(120, 600).Draw(rt, "n_singleton_classes")
		base := len(c.Pool)
		c.Pool = append(c.Pool, genPoolExtra(rt, c.Pool, extra)...)
		blank := func() Rec {
			return Rec{Attr: make([]Val, len(c.Keys)), Pre: make([]*Merged, len(c.Keys))}
		}
		// where the few non-singleton classes sit among the singletons decides which output batches are emptied
		dupEvery := rapid.SampledFrom([]int{0, 0, 97, 150, 211}).Draw(rt, "duplicate_every")
		for i := 0; i < extra; i++ {
			r := blank()
			r.ID = fmt.Sprintf("x%d", i)
			r.Seq = base + i
			c.Recs = append(c.Recs, r)
			if (dupEvery > 0 && i%dupEvery == dupEvery-1) || i == extra-1 {
				r2 := blank()
				r2.ID = fmt.Sprintf("x%d_again", i)
				r2.Seq = base + i
				r2.Count = rapid.IntRange(0, 3).Draw(rt, "dup_count")
				c.Recs = append(c.Recs, r2)
			}
		}
		c.NoSingleton = rapid.IntRange(0, 3).Draw(rt, "no_singleton") > 0
		c.RT = -1
		if len(c.Runs) > 2 {
			c.Runs = c.Runs[:2]
		}
		for i := range c.Runs {
			c.Runs[i].Procs = 0
		}
		s := c.stats()
		evid.Eval("cli", caseHash(c), c.NoSingleton, nil, append(classesOf(c, s), "command_tier", "hundreds_of_classes")...)
		if err := checkCLI(c); err != nil {
			evid.Fail(rt, "cli", c, err)
		}
	})
}
