package c06

import (
	"bytes"
	"encoding/json"
	"fmt"
	"os"
	"path/filepath"
	"strconv"
	"strings"
	"time"

	"verifharness/internal/evid"
	"verifharness/internal/ref"
	"verifharness/internal/run"
)

// The command tier: the same data sets written as FASTA files with JSON title
// lines, dereplicated by the real obiuniq command, and the round trip through
// `obiuniq -m k | obidemerge -d k | obiuniq -m k`.

func init() { evid.Reg("cli", checkCLI) }

// fasta renders the records in the order perm.
func (c *Case) fasta(perm []int) []byte {
	var b bytes.Buffer
	for _, j := range perm {
		r := c.Recs[j]
		ann := map[string]any{}
		if r.Count > 0 {
			ann["count"] = r.Count
		}
		for k, v := range r.Attr {
			if v.present() {
				ann[c.Keys[k]] = v.jsonValue()
			}
		}
		for k, p := range r.Pre {
			if p != nil {
				m := map[string]int{}
				for i := range p.V {
					m[p.V[i]] += p.W[i]
				}
				ann["merged_"+c.Keys[k]] = m
			}
		}
		b.WriteString(">" + r.ID)
		if len(ann) > 0 {
			js, _ := json.Marshal(ann)
			b.WriteString(" ")
			b.Write(js)
		}
		b.WriteString("\n")
		s := c.Pool[r.Seq]
		for p := 0; p < len(s); p += 60 {
			b.WriteString(s[p:min(len(s), p+60)])
			b.WriteByte('\n')
		}
	}
	return b.Bytes()
}

// parseOut reads what a command wrote (FASTA, JSON annotations) with the
// harness' own reader and encoding/json.
func parseOut(data []byte) ([]outRec, error) {
	recs, err := ref.ParseFasta(data)
	if err != nil {
		return nil, err
	}
	out := make([]outRec, len(recs))
	for i, r := range recs {
		o := outRec{ID: r.ID, Seq: r.Seq, Count: 1, Attr: map[string]string{}, Merged: map[string]map[string]int{}}
		js, _, ok := ref.SplitJSONTitle(r.Title)
		if ok {
			dec := json.NewDecoder(strings.NewReader(js))
			dec.UseNumber()
			var ann map[string]any
			if err := dec.Decode(&ann); err != nil {
				return nil, fmt.Errorf("record %s: annotations %q are not JSON: %v", r.ID, js, err)
			}
			for k, v := range ann {
				switch {
				case k == "count":
					n, ok := intAny(v)
					if !ok {
						o.Bad = fmt.Sprintf("count attribute is %v", v)
					}
					o.Count, o.HasCnt = n, true
				case strings.HasPrefix(k, "merged_"):
					mm, ok := v.(map[string]any)
					if !ok {
						o.Bad = fmt.Sprintf("%s is %v, not a map", k, v)
						continue
					}
					m := map[string]int{}
					for a, b := range mm {
						n, ok := intAny(b)
						if !ok {
							o.Bad = fmt.Sprintf("%s is %v, not a map of integer weights", k, v)
						}
						m[a] = n
					}
					o.Merged[strings.TrimPrefix(k, "merged_")] = m
				default:
					if s, ok := renderAny(v); ok {
						o.Attr[k] = s
					}
				}
			}
		} else if r.Title != "" {
			return nil, fmt.Errorf("record %s: title %q does not start with JSON annotations", r.ID, r.Title)
		}
		out[i] = o
	}
	return out, nil
}

func (c *Case) uniqArgs(r Run, cat, mrg []string, noSingleton bool) []string {
	args := []string{"--max-cpu", strconv.Itoa(max(1, r.Workers)), "--batch-size", strconv.Itoa(max(1, r.BatchSize)), "--chunk-count", strconv.Itoa(max(1, r.Chunks))}
	if !r.Disk {
		args = append(args, "--in-memory")
	}
	if noSingleton {
		args = append(args, "--no-singleton")
	}
	if c.NA != "NA" {
		args = append(args, "--na-value", c.NA)
	}
	for _, k := range mrg {
		args = append(args, "-m", k)
	}
	for _, k := range cat {
		args = append(args, "-c", k)
	}
	return args
}

// tail quotes the end of a command's stderr; a Go panic / runtime fatal error is quoted from its first line.
func tail(b []byte) string {
	for _, mark := range []string{"panic:", "fatal error:"} {
		if i := bytes.Index(b, []byte(mark)); i >= 0 {
			b = b[i:]
			if len(b) > 2500 {
				b = b[:2500]
			}
			return string(b)
		}
	}
	if len(b) > 800 {
		b = b[len(b)-800:]
	}
	return string(b)
}

type inconclusive struct{}

func (inconclusive) Error() string { return "time-out" }

// command runs one real command; stderr (progress bars, logs) is only quoted on failure.
func command(tmp string, r Run, stdin []byte, name string, args ...string) ([]byte, error) {
	env := []string{"TMPDIR=" + tmp}
	if r.Jitter > 0 {
		env = append(env, fmt.Sprintf("VERIF_JITTER=%d:%d", r.Jitter*31+1, r.Jitter))
	}
	if stdin == nil {
		stdin = []byte{}
	}
	res := run.Cmd(run.Opt{Env: env, Stdin: stdin, Timeout: 120 * time.Second}, name, args...)
	if res.TimedOut {
		return nil, inconclusive{}
	}
	if res.Exit != 0 {
		return nil, fmt.Errorf("%s %q exited with status %d: %s", name, args, res.Exit, tail(res.Stderr))
	}
	return res.Stdout, nil
}

func checkCLI(c Case) error {
	dir, err := os.MkdirTemp(run.WorkDir(), "c06cli")
	if err != nil {
		return nil
	}
	defer os.RemoveAll(dir)
	tmp := filepath.Join(dir, "tmp")
	if os.Mkdir(tmp, 0o755) != nil {
		return nil
	}
	in := c.inRecs()
	cat, mrg := c.keyNames(c.Cat), c.keyNames(c.Mrg)
	for ri, r := range c.Runs {
		perm := lcgPerm(len(c.Recs), r.PermSeed)
		file := filepath.Join(dir, fmt.Sprintf("in%d.fasta", ri))
		if os.WriteFile(file, c.fasta(perm), 0o644) != nil {
			return nil
		}
		args := append(c.uniqArgs(r, cat, mrg, c.NoSingleton), file)
		stdout, err := command(tmp, r, nil, "obiuniq", args...)
		if _, inc := err.(inconclusive); inc {
			evid.Class("timeout_inconclusive", 1)
			continue
		}
		what := fmt.Sprintf("run %d: obiuniq %q on the records in order %v", ri, args, perm)
		if err != nil {
			return fmt.Errorf("%s: %v", what, err)
		}
		got, err := parseOut(stdout)
		if err != nil {
			return fmt.Errorf("%s: output not readable: %v\n%s", what, err, tail(stdout))
		}
		if err := compare(what, got, in, cat, mrg, c.NA, c.NoSingleton); err != nil {
			return err
		}
	}
	if c.RT < 0 || len(c.Runs) < 2 {
		return nil
	}
	// uniq -m k | demerge -d k | uniq -m k
	k := c.Keys[c.RT]
	mrg = []string{k}
	r1, r2 := c.Runs[0], c.Runs[1]
	perm := lcgPerm(len(c.Recs), r1.PermSeed)
	a1 := c.uniqArgs(r1, cat, mrg, false)
	out1, err := command(tmp, r1, c.fasta(perm), "obiuniq", a1...)
	if _, inc := err.(inconclusive); inc {
		evid.Class("timeout_inconclusive", 1)
		return nil
	}
	if err != nil {
		return fmt.Errorf("round trip, first obiuniq %q (stdin): %v", a1, err)
	}
	first, err := parseOut(out1)
	if err != nil {
		return fmt.Errorf("round trip, first obiuniq %q: output not readable: %v", a1, err)
	}
	if err := compare(fmt.Sprintf("round trip, first obiuniq %q (stdin, order %v)", a1, perm), first, in, cat, mrg, c.NA, false); err != nil {
		return err
	}
	ad := []string{"-d", k, "--max-cpu", strconv.Itoa(max(1, r2.Workers)), "--batch-size", strconv.Itoa(max(1, r2.BatchSize))}
	out2, err := command(tmp, r2, out1, "obidemerge", ad...)
	if _, inc := err.(inconclusive); inc {
		evid.Class("timeout_inconclusive", 1)
		return nil
	}
	if err != nil {
		return fmt.Errorf("round trip, obidemerge %q on the output of obiuniq %q: %v", ad, a1, err)
	}
	dem, err := parseOut(out2)
	if err != nil {
		return fmt.Errorf("round trip, obidemerge %q: output not readable: %v", ad, err)
	}
	// one record per value with exactly that count
	wantDem := map[string]int{}
	for _, o := range first {
		for v, w := range o.Merged[k] {
			wantDem[classKey(o.Seq, catVals(o, cat, c.NA))+"\x00"+v] += w
		}
	}
	gotDem := map[string]int{}
	for _, o := range dem {
		if o.Bad != "" {
			return fmt.Errorf("round trip, obidemerge output record %s: %s", o.ID, o.Bad)
		}
		v, ok := o.Attr[k]
		if !ok {
			return fmt.Errorf("round trip: obidemerge -d %s delivered the record %v without attribute %s (input %v)", k, o, k, first)
		}
		if _, still := o.Merged[k]; still {
			return fmt.Errorf("round trip: obidemerge -d %s delivered the record %v still carrying merged_%s", k, o, k)
		}
		key := classKey(o.Seq, catVals(o, cat, c.NA)) + "\x00" + v
		if _, dup := gotDem[key]; dup {
			return fmt.Errorf("round trip: obidemerge -d %s delivered two records for sequence %s value %q", k, o.Seq, v)
		}
		gotDem[key] = o.Count
	}
	if !sameIntMap(gotDem, wantDem) {
		return fmt.Errorf("round trip: obidemerge -d %s gives (key,value)->count %s, the merged maps of its input say %s\ninput %v\noutput %v", k, showMap(gotDem), showMap(wantDem), first, dem)
	}
	a3 := c.uniqArgs(r2, cat, mrg, false)
	out3, err := command(tmp, r2, out2, "obiuniq", a3...)
	if _, inc := err.(inconclusive); inc {
		evid.Class("timeout_inconclusive", 1)
		return nil
	}
	if err != nil {
		return fmt.Errorf("round trip, second obiuniq %q: %v", a3, err)
	}
	second, err := parseOut(out3)
	if err != nil {
		return fmt.Errorf("round trip, second obiuniq %q: output not readable: %v", a3, err)
	}
	a, b := setOf(first, cat, mrg, c.NA), setOf(second, cat, mrg, c.NA)
	for key, x := range a {
		y, ok := b[key]
		if !ok {
			return fmt.Errorf("round trip obiuniq %q | obidemerge %q | obiuniq %q: key %q (%s) of the first obiuniq is missing at the end\nfirst %v\nsecond %v", a1, ad, a3, key, x, first, second)
		}
		if x != y {
			return fmt.Errorf("round trip obiuniq %q | obidemerge %q | obiuniq %q: key %q: first %s, at the end %s", a1, ad, a3, key, x, y)
		}
	}
	for key, y := range b {
		if _, ok := a[key]; !ok {
			return fmt.Errorf("round trip obiuniq %q | obidemerge %q | obiuniq %q: key %q (%s) only exists at the end\nfirst %v\nsecond %v", a1, ad, a3, key, y, first, second)
		}
	}
	return nil
}

func catVals(o outRec, cat []string, na string) []string {
	cv := make([]string, len(cat))
	for j, k := range cat {
		if v, ok := o.Attr[k]; ok {
			cv[j] = v
		} else {
			cv[j] = na
		}
	}
	return cv
}
