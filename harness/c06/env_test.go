package c06

import (
	"encoding/json"
	"fmt"
	"os"
	"path/filepath"
	"strconv"
	"strings"
	"testing"
	"time"
	"unicode"
	"unicode/utf8"

	"pgregory.net/rapid"

	"verifharness/internal/evid"
	"verifharness/internal/run"
)

// The environment as a configuration axis.
//
// On-disk dereplication keeps its chunk files in a scratch directory created
// under os.TempDir() ($TMPDIR); the commands read and write files named on the
// command line, relative names being resolved against the working directory.
// The statement quantifies over all configurations and says that the set of
// output records does not depend on the mode (memory / disk): nothing in it
// allows the result to depend on how the directories and files are *called*.
// Every directory that the operating system accepts is therefore a legal
// TMPDIR / working directory, every file name a legal input / output name.
//
// Generated here: TMPDIR, the working directory, the directory and the names
// of the 1..2 input files and of the output file (-o) built from components
// holding blanks, glob metacharacters ([..] * ? \ and an unclosed [), shell
// metacharacters, non-ASCII letters, a leading dash, control characters (tab,
// newline), dots / misleading extensions, names of 200..255 bytes and deep
// paths of about a kilobyte; given absolute, relative to the working directory
// ("./x" and "x"), with a trailing slash, or through a symbolic link to a
// directory.  The data and the oracle are those of the command tier: every
// case is dereplicated on disk and in memory in the same environment and both
// results must be the reference set (so on-disk == in-memory == model, total
// count conserved).  The in-process variant points $TMPDIR of the test process
// at such a directory and drains obichunk.IUniqueSequence.
//
// Domain decisions (environment)
//   - '%' never occurs in TMPDIR: ISequenceChunkOnDisk uses "<dir>/chunk_%s.fastx"
//     as a fmt.Sprintf format, a '%' in $TMPDIR makes obiuniq die with "Cannot
//     open the output file for key N" (exit status 1, nothing written).  Reported
//     to the coordinator, not generated ('%' is generated in the working
//     directory and in the file names, where it is harmless).
//   - A file name is handed to the command as an absolute path, as "./name", or
//     bare only when it starts with a letter or a digit: a bare "-x" is an
//     option, "-" is stdin, "|cmd" is run as a command, "~x" is expanded to a
//     home directory and "http://" is fetched (documented behaviours of the
//     commands, not file names).  For the same reason a relative TMPDIR starts
//     with "./" or with a letter or digit (the chunk files are opened through the
//     same name interpreter).  The library joins directory and file names with
//     filepath.Join / filepath.Walk, which drop a leading "./": the first
//     component of a relative TMPDIR or input directory, and the names of the
//     files of an input directory given relative, do not start with '~' or '|'
//     (a file "|x.fasta" below a directory given as "." would be *executed*; told
//     to the coordinator).
//   - Input files given through their directory carry the extension ".fasta"
//     (directories are filtered on the extension).
//   - NUL and '/' cannot occur in a component; invalid UTF-8 is left out (the
//     case must be JSON serialisable).
//   - The total length of every path stays below PATH_MAX (4096) with room for
//     the names the commands append themselves.

func init() {
	evid.Reg("envcli", checkEnvCLI)
	evid.Reg("envinproc", checkEnvInproc)
	evid.Tests(
		evid.Spec{Name: "TestPropEnvCLI", Kind: "rapid", Quick: 400, Thorough: 8000, QuickShards: 8, ThoroughShards: 16},
		evid.Spec{Name: "TestPropEnvInproc", Kind: "rapid", Quick: 1200, Thorough: 16000, QuickShards: 4, ThoroughShards: 16},
	)
}

// envRule is appended to the rule note of the package (main_test.go).
const envRule = ("Environment axis, TestPropEnvCLI / TestPropEnvInproc: a case = a data set of the command tier (<= 20 records) + an environment: TMPDIR, working directory, directory and names of the 1..2 input files (the permuted records are cut in two; files named one by one or through their directory) and of the -o output file (or stdout), each path made of 1..3 components assembled from pieces with blanks, glob metacharacters, shell metacharacters, non-ASCII letters, leading dashes, tab / newline, dots and misleading extensions, '%' (not in TMPDIR: known defect of the Sprintf file name template), 200..255 byte names, deep paths (~1 kB); absolute / ./relative / bare relative, trailing slash, symbolic link to a directory. Run 0 is forced on disk, run 1 in memory, both in the same environment; oracle = the reference set of the command tier for both (on disk == in memory == model, total count conserved, no key lost or doubled). In-process: $TMPDIR of the test process is pointed at the directory (absolute or relative to the process' working directory) while IUniqueSequence runs (run 0 on disk). Non-trivial = some path of the environment has a non-plain feature (any piece category other than 'plain', relative, trailing slash, symbolic link) and the data set has >= 2 classes and >= 1 class of >= 2 members. Distinct = hash of the whole case.")

// ---------------------------------------------------------------- the case

// Path describes one directory of the environment.
type Path struct {
	Comps []string // components, created below the private root of the case (below the working directory when Rel > 0)
	Rel   int      // 0 absolute; 1 given as "./a/b" relative to the working directory; 2 given as "a/b"
	Link  bool     // the last component is a symbolic link to a real directory elsewhere below the root
	Trail bool     // given with a trailing slash
}

type EnvCase struct {
	C       Case
	Tmp     Path
	Cwd     Path     // Rel is not used
	InDir   *Path    // nil: the input files live in the working directory
	In      []string // names of the input files
	InStyle int      // how a file in the working directory is named: 0 "./name", 1 absolute, 2 bare when the name allows it
	InAsDir bool     // the directory of the input files is given instead of the files
	Out     string   // "" = standard output; else name of the -o file (same directory and style as the input files)
}

type piece struct{ cat, s string }

var envPieces = []piece{
	{"plain", "scratch"}, {"plain", "job42"}, {"plain", "x"},
	{"space", "sp ace"}, {"space", " lead"}, {"space", "trail "}, {"space", " "},
	{"bracket", "[7]"}, {"bracket", "pbs.4242[7].node"}, {"bracket", "[a-z]"}, {"bracket", "[!x]"}, {"bracket", "[^0]"},
	{"bracket_unbalanced", "[unclosed"}, {"bracket_unbalanced", "]"}, {"bracket_unbalanced", "x[]y"},
	{"star", "*"}, {"star", "a*b"}, {"question", "?"}, {"question", "q?x"},
	{"backslash", "back\\slash"}, {"backslash", "\\[7\\]"}, {"backslash", "\\"}, {"backslash", "end\\"},
	{"nonascii", "é-ü"}, {"nonascii", "日本"}, {"nonascii", "Ω№"},
	{"shell", "{a,b}"}, {"shell", "$HOME"}, {"shell", "it's"}, {"shell", "d\"q"}, {"shell", "a;b&c"}, {"shell", "#hash"},
	{"shell", "~tilde"}, {"shell", "a:b=c,d"}, {"shell", "<in>"}, {"shell", "|pipe"}, {"shell", "`bq`"}, {"shell", "!bang"},
	{"dash", "-dash"}, {"dash", "--in-memory"}, {"dash", "-"},
	{"control", "tab\tchar"}, {"control", "new\nline"}, {"control", "\r"},
	{"dot", ".hidden"}, {"dot", "a.fasta.gz"}, {"dot", "..."}, {"dot", "x.fastq"},
	{"percent", "100%"}, {"percent", "%s"}, {"percent", "50%done"}, {"percent", "%d%%"},
}

func pieceCats(s string) []string {
	var out []string
	has := func(set string) bool { return strings.ContainsAny(s, set) }
	if has(" ") {
		out = append(out, "space")
	}
	if strings.Contains(s, "[") && strings.Contains(s[strings.Index(s, "["):], "]") && !strings.Contains(s, "[]") {
		out = append(out, "bracket_pair")
	} else if has("[]") {
		out = append(out, "bracket_unbalanced")
	}
	if has("*") {
		out = append(out, "star")
	}
	if has("?") {
		out = append(out, "question")
	}
	if has("\\") {
		out = append(out, "backslash")
	}
	if has("{}$'\"`;&#~:=,<>|!") {
		out = append(out, "shell_meta")
	}
	if has("\t\n\r") {
		out = append(out, "control_char")
	}
	if has("%") {
		out = append(out, "percent")
	}
	if strings.HasPrefix(s, "-") {
		out = append(out, "leading_dash")
	}
	if strings.HasPrefix(s, ".") {
		out = append(out, "leading_dot")
	}
	for _, r := range s {
		if r > unicode.MaxASCII {
			out = append(out, "non_ascii")
			break
		}
	}
	if len(s) >= 200 {
		out = append(out, "name_ge_200_bytes")
	}
	return out
}

// genComp draws one path component.
func genComp(t *rapid.T, label string, percentOK bool, longOdds int, leads []string) string {
	if rapid.IntRange(0, longOdds).Draw(t, label+"_long") == 0 {
		n := rapid.SampledFrom([]int{200, 254, 255}).Draw(t, label+"_long_len")
		fill := rapid.SampledFrom([]string{"L", "é", "[7]", "a b"}).Draw(t, label+"_long_fill")
		return clip(strings.Repeat(fill, n/len(fill)+1), n)
	}
	n := rapid.SampledFrom([]int{1, 1, 2}).Draw(t, label+"_npieces")
	var b strings.Builder
	for i := 0; i < n; i++ {
		p := rapid.SampledFrom(envPieces).Draw(t, label+"_piece")
		if p.cat == "percent" && !percentOK {
			p = piece{"bracket", "[7]"} // by construction: no '%' where it is excluded
		}
		b.WriteString(p.s)
	}
	s := rapid.SampledFrom(leads).Draw(t, label+"_lead") + b.String()
	if s == "." || s == ".." || s == "" {
		s = "dir" + s
	}
	return s
}

var (
	dirLeads  = []string{"", "", "", "", "", "", "", "-", "."}
	fileLeads = []string{"", "", "", "", "-", "--", "."}
)

// clip cuts s to at most n bytes on a character boundary.
func clip(s string, n int) string {
	if len(s) <= n {
		return s
	}
	s = s[:n]
	for !utf8.ValidString(s) {
		s = s[:len(s)-1]
	}
	return s
}

func bareOK(s string) bool {
	if s == "" {
		return false
	}
	c := s[0]
	return c >= 'a' && c <= 'z' || c >= 'A' && c <= 'Z' || c >= '0' && c <= '9'
}

// interpreted: a name that the file name interpreter of the commands does not
// take as a file when nothing precedes it ("~user" expansion, "|command").
func interpreted(s string) bool { return strings.HasPrefix(s, "~") || strings.HasPrefix(s, "|") }

func genPath(t *rapid.T, label string, percentOK, relOK bool) Path {
	var p Path
	n := rapid.SampledFrom([]int{1, 1, 2, 3}).Draw(t, label+"_ncomp")
	if rapid.IntRange(0, 9).Draw(t, label+"_deep") == 0 {
		n = rapid.IntRange(4, 12).Draw(t, label+"_depth")
	}
	longOdds := 11
	if n >= 4 {
		longOdds = 2
	}
	total := 0
	for i := 0; i < n; i++ {
		c := genComp(t, label, percentOK, longOdds, dirLeads)
		if total+len(c)+1 > 1100 {
			c = "d" + strconv.Itoa(i)
		}
		total += len(c) + 1
		p.Comps = append(p.Comps, c)
	}
	if relOK {
		p.Rel = rapid.SampledFrom([]int{0, 0, 1, 2}).Draw(t, label+"_rel")
		if p.Rel == 2 && !bareOK(p.Comps[0]) {
			p.Rel = 1
		}
		if p.Rel > 0 && interpreted(p.Comps[0]) {
			// filepath.Join / Walk drop the "./": the files below would be named "~x/..." or "|x/..."
			p.Comps[0] = clip("r"+p.Comps[0], 255)
		}
	}
	p.Link = rapid.IntRange(0, 5).Draw(t, label+"_symlink") == 0
	p.Trail = rapid.IntRange(0, 5).Draw(t, label+"_trailing_slash") == 0
	return p
}

func genEnvCase(t *rapid.T, maxRecs int, cli bool) EnvCase {
	var e EnvCase
	e.C = genCase(t, maxRecs, 1)
	// the same data on disk and in memory, in the same environment
	for len(e.C.Runs) < 2 {
		e.C.Runs = append(e.C.Runs, genRun(t, 1))
	}
	e.C.Runs = e.C.Runs[:2]
	e.C.Runs[0].Disk = true
	e.C.Runs[1].Disk = false
	e.Tmp = genPath(t, "tmpdir", false, true)
	if !cli {
		return e
	}
	for i := range e.C.Runs {
		e.C.Runs[i].Procs = 0
	}
	e.Cwd = genPath(t, "cwd", true, false)
	if rapid.Bool().Draw(t, "input_in_other_dir") {
		p := genPath(t, "indir", true, true)
		e.InDir = &p
	}
	if e.InDir != nil && e.InDir.Rel > 0 && e.Tmp.Rel > 0 && e.InDir.Comps[0] == e.Tmp.Comps[0] {
		// both live in the working directory: distinct by construction
		e.InDir.Comps[0] = clip("i"+e.InDir.Comps[0], 255)
	}
	e.InAsDir = rapid.IntRange(0, 3).Draw(t, "input_as_directory") == 0
	nin := rapid.SampledFrom([]int{1, 1, 2}).Draw(t, "ninput")
	seen := map[string]bool{}
	if e.InDir == nil && e.Tmp.Rel > 0 {
		// the files share the working directory with the relative TMPDIR
		seen[e.Tmp.Comps[0]] = true
	}
	// a directory given relative hands its files to the name interpreter as "name" / "x/name"
	relDir := e.InAsDir && (e.InDir == nil || e.InDir.Rel > 0)
	name := func(label string, exts []string) string {
		s := genComp(t, label, true, 11, fileLeads)
		ext := rapid.SampledFrom(exts).Draw(t, label+"_ext")
		if relDir && interpreted(s) {
			s = "f" + s
		}
		for seen[clip(s, 255-len(ext))+ext] {
			s = "n" + s
		}
		s = clip(s, 255-len(ext)) + ext
		seen[s] = true
		return s
	}
	exts := []string{".fasta", ".fasta", ".fa", "", ".txt"}
	if e.InAsDir {
		exts = []string{".fasta"}
	}
	for i := 0; i < nin; i++ {
		e.In = append(e.In, name("infile", exts))
	}
	e.InStyle = rapid.IntRange(0, 2).Draw(t, "file_style")
	if rapid.Bool().Draw(t, "output_file") {
		exts = []string{".out", "", ".fa", ".res.txt", ".fasta"}
		if e.InAsDir {
			// never an extension that the directory filter of the input would pick up
			exts = []string{".out", ".res.txt"}
		}
		e.Out = name("outfile", exts)
	}
	return e
}

// ---------------------------------------------------------------- building the environment

// materialise creates the directory described by p below base (real targets of
// symbolic links below root) and returns its real path and the text under
// which it is given to the command.
func materialise(root, base string, p Path, serial *int) (real, given string, err error) {
	comps := p.Comps
	parent := base
	if len(comps) > 1 {
		parent = base + "/" + strings.Join(comps[:len(comps)-1], "/")
	}
	if err = os.MkdirAll(parent, 0o755); err != nil {
		return
	}
	last := parent + "/" + comps[len(comps)-1]
	if p.Link {
		*serial++
		real = fmt.Sprintf("%s/target%d", root, *serial)
		if err = os.Mkdir(real, 0o755); err != nil {
			return
		}
		if err = os.Symlink(real, last); err != nil {
			return
		}
	} else {
		real = last
		if err = os.Mkdir(real, 0o755); err != nil {
			return
		}
	}
	switch p.Rel {
	case 1:
		given = "./" + strings.Join(comps, "/")
	case 2:
		given = strings.Join(comps, "/")
	default:
		given = last
	}
	if p.Trail {
		given += "/"
	}
	return
}

func (p Path) classes(label string) []string {
	var cl []string
	seen := map[string]bool{}
	add := func(s string) {
		if !seen[s] {
			seen[s] = true
			cl = append(cl, label+":"+s)
		}
	}
	plain := true
	total := 0
	for _, c := range p.Comps {
		total += len(c) + 1
		for _, k := range pieceCats(c) {
			add(k)
			plain = false
		}
	}
	if total >= 600 {
		add("path_ge_600_bytes")
		plain = false
	}
	if len(p.Comps) >= 4 {
		add("depth_ge_4")
	}
	switch p.Rel {
	case 1:
		add("relative_dot_slash")
		plain = false
	case 2:
		add("relative_bare")
		plain = false
	}
	if p.Link {
		add("symbolic_link")
		plain = false
	}
	if p.Trail {
		add("trailing_slash")
		plain = false
	}
	if plain {
		add("plain")
	}
	return cl
}

func (p Path) special() bool {
	cl := p.classes("x")
	return !(len(cl) == 1 && cl[0] == "x:plain") && !(len(cl) == 2 && cl[0] == "x:depth_ge_4" && cl[1] == "x:plain")
}

func (e EnvCase) classes(cli bool) []string {
	cl := e.Tmp.classes("tmpdir")
	if !cli {
		return append(cl, "environment_axis", "in_process")
	}
	cl = append(cl, e.Cwd.classes("cwd")...)
	if e.InDir != nil {
		cl = append(cl, e.InDir.classes("indir")...)
	} else {
		cl = append(cl, "input_files_in_cwd")
	}
	for _, n := range e.In {
		for _, k := range pieceCats(n) {
			cl = append(cl, "infile:"+k)
		}
	}
	cl = append(cl, fmt.Sprintf("input_files:%d", len(e.In)), fmt.Sprintf("file_style:%d", e.InStyle))
	if e.InAsDir {
		cl = append(cl, "input_given_as_directory")
	}
	if e.Out != "" {
		cl = append(cl, "output:file")
		for _, k := range pieceCats(e.Out) {
			cl = append(cl, "outfile:"+k)
		}
	} else {
		cl = append(cl, "output:stdout")
	}
	return append(cl, "environment_axis", "command_tier")
}

func (e EnvCase) special(cli bool) bool {
	if e.Tmp.special() {
		return true
	}
	if !cli {
		return false
	}
	if e.Cwd.special() || (e.InDir != nil && e.InDir.special()) {
		return true
	}
	for _, n := range append(append([]string(nil), e.In...), e.Out) {
		if len(pieceCats(n)) > 0 {
			return true
		}
	}
	return false
}

// ---------------------------------------------------------------- the command check

func checkEnvCLI(e EnvCase) error {
	c := e.C
	if len(c.Runs) == 0 || len(e.In) == 0 || len(e.Tmp.Comps) == 0 || len(e.Cwd.Comps) == 0 {
		return nil
	}
	root, err := os.MkdirTemp(run.WorkDir(), "c06env")
	if err != nil {
		evid.Class("env_setup_failed", 1)
		return nil
	}
	defer os.RemoveAll(root)
	serial := 0
	setup := func(err error) error {
		evid.Class("env_setup_failed", 1)
		if os.Getenv("VERIF_DEBUG") != "" {
			fmt.Fprintf(os.Stderr, "env setup failed: %v\n", err)
		}
		return nil
	}
	cwd := e.Cwd
	cwd.Rel = 0
	cwdReal, cwdGiven, err := materialise(root, root+"/w", cwd, &serial)
	if err != nil {
		return setup(err)
	}
	tmpBase := root + "/t"
	if e.Tmp.Rel > 0 {
		tmpBase = cwdReal
	}
	_, tmpGiven, err := materialise(root, tmpBase, e.Tmp, &serial)
	if err != nil {
		return setup(err)
	}
	// the directory of the input and output files, and how a file in it is named
	dirReal, dirGiven := cwdReal, "."
	style := e.InStyle
	if e.InDir != nil {
		base := root + "/i"
		if e.InDir.Rel > 0 {
			base = cwdReal
		}
		dirReal, dirGiven, err = materialise(root, base, *e.InDir, &serial)
		if err != nil {
			return setup(err)
		}
		style = -1
	}
	nameOf := func(n string) string {
		switch {
		case style == -1:
			return strings.TrimSuffix(dirGiven, "/") + "/" + n
		case style == 1:
			return strings.TrimSuffix(cwdGiven, "/") + "/" + n
		case style == 2 && bareOK(n):
			return n
		}
		return "./" + n
	}
	in := c.inRecs()
	cat, mrg := c.keyNames(c.Cat), c.keyNames(c.Mrg)
	for ri, r := range c.Runs {
		perm := lcgPerm(len(c.Recs), r.PermSeed)
		// the permuted records are cut into len(e.In) files
		var fileArgs []string
		for fi, n := range e.In {
			lo, hi := fi*len(perm)/len(e.In), (fi+1)*len(perm)/len(e.In)
			if err := os.WriteFile(dirReal+"/"+n, c.fasta(perm[lo:hi]), 0o644); err != nil {
				return setup(err)
			}
			fileArgs = append(fileArgs, nameOf(n))
		}
		if e.InAsDir {
			if e.InDir == nil {
				fileArgs = []string{"."}
			} else {
				fileArgs = []string{dirGiven}
			}
		}
		args := c.uniqArgs(r, cat, mrg, c.NoSingleton)
		if e.Out != "" {
			os.Remove(dirReal + "/" + e.Out)
			args = append(args, "-o", nameOf(e.Out))
		}
		args = append(args, fileArgs...)
		env := []string{"TMPDIR=" + tmpGiven}
		if r.Jitter > 0 {
			env = append(env, fmt.Sprintf("VERIF_JITTER=%d:%d", r.Jitter*31+1, r.Jitter))
		}
		res := run.Cmd(run.Opt{Env: env, Dir: cwdGiven, Stdin: []byte{}, Timeout: 120 * time.Second}, "obiuniq", args...)
		if res.Inconclusive() {
			evid.Class("timeout_inconclusive", 1)
			continue
		}
		mode := "in memory"
		if r.Disk {
			mode = "on disk"
		}
		what := fmt.Sprintf("run %d (%s): TMPDIR=%q, working directory %q, obiuniq %q (records in order %v cut into %d input file(s))", ri, mode, tmpGiven, cwdGiven, args, perm, len(e.In))
		if res.Exit != 0 {
			return fmt.Errorf("%s: exited with status %d: %s", what, res.Exit, tail(res.Stderr))
		}
		data := res.Stdout
		if e.Out != "" {
			data, err = os.ReadFile(dirReal + "/" + e.Out)
			if err != nil {
				return fmt.Errorf("%s: exit status 0 but the output file cannot be read back: %v\nstderr: %s", what, err, tail(res.Stderr))
			}
			if len(res.Stdout) != 0 {
				return fmt.Errorf("%s: with -o the records go to the file, yet standard output holds %q", what, tail(res.Stdout))
			}
		}
		got, err := parseOut(data)
		if err != nil {
			return fmt.Errorf("%s: output not readable: %v\n%s", what, err, tail(data))
		}
		if err := compare(what, got, in, cat, mrg, c.NA, c.NoSingleton); err != nil {
			return fmt.Errorf("%v\nstderr of the command: %s", err, tail(res.Stderr))
		}
	}
	return nil
}

// ---------------------------------------------------------------- the in-process check

func checkEnvInproc(e EnvCase) error {
	if len(e.Tmp.Comps) == 0 {
		return nil
	}
	base := privateTmp()
	root, err := os.MkdirTemp(base, "env")
	if err != nil {
		evid.Class("env_setup_failed", 1)
		return nil
	}
	defer os.RemoveAll(root)
	serial := 0
	tmp := e.Tmp
	rel := tmp.Rel
	tmp.Rel = 0
	_, given, err := materialise(root, root+"/t", tmp, &serial)
	if err != nil {
		evid.Class("env_setup_failed", 1)
		return nil
	}
	if rel > 0 {
		// relative to the working directory of the test process
		wd, err1 := os.Getwd()
		r, err2 := filepath.Rel(wd, strings.TrimSuffix(given, "/"))
		if err1 == nil && err2 == nil && !strings.HasPrefix(r, "..") {
			if rel == 1 || !bareOK(r) {
				r = "./" + r
			}
			if tmp.Trail {
				r += "/"
			}
			given = r
		} else {
			evid.Class("env_relative_not_possible", 1)
		}
	}
	old, had := os.LookupEnv("TMPDIR")
	os.Setenv("TMPDIR", given)
	defer func() {
		if had {
			os.Setenv("TMPDIR", old)
		} else {
			os.Unsetenv("TMPDIR")
		}
	}()
	if err := checkUniq(e.C); err != nil {
		return fmt.Errorf("with TMPDIR=%q: %v", given, err)
	}
	return nil
}

// ---------------------------------------------------------------- properties

func envNontrivial(e EnvCase, cli bool) bool {
	s := e.C.stats()
	return e.special(cli) && s.classes >= 2 && s.maxMembers >= 2
}

func envHash(e EnvCase) uint64 {
	b, _ := json.Marshal(e)
	return evid.Hash(b)
}

func TestPropEnvCLI(t *testing.T) {
	rapid.Check(t, func(rt *rapid.T) {
		e := genEnvCase(rt, 20, true)
		evid.Eval("envcli", envHash(e), envNontrivial(e, true), e, append(classesOf(e.C, e.C.stats()), e.classes(true)...)...)
		if err := checkEnvCLI(e); err != nil {
			evid.Fail(rt, "envcli", e, err)
		}
	})
}

func TestPropEnvInproc(t *testing.T) {
	rapid.Check(t, func(rt *rapid.T) {
		e := genEnvCase(rt, 25, false)
		evid.Eval("envinproc", envHash(e), envNontrivial(e, false), e, append(classesOf(e.C, e.C.stats()), e.classes(false)...)...)
		if err := checkEnvInproc(e); err != nil {
			evid.Fail(rt, "envinproc", e, err)
		}
	})
}
