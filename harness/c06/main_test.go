// Property C06 — dereplication conserves counts and merges exactly the
// identical records (obichunk.IUniqueSequence, obiuniq, obidemerge).
//
// Domain decisions
//   - The identifier of a merged record is the id of whichever member reached
//     the merge first; it changes with --max-cpu / --batch-size / arrival order
//     while key, count and merged maps do not.  The statement defines a record
//     by its key: ids are only checked for membership in the class.
//   - Annotations other than count / merged_<k>: only the documented merge rule
//     is checked — an annotation that every member of the class carries with one
//     and the same value survives with that value (this is also what makes the
//     key of an output record readable).  Annotations the members disagree on,
//     the definition and the qualities are not looked at.
//   - merged_<x> maps for attributes that were not requested with -m are kept
//     from one member only (arrival dependent); the statement speaks of the
//     requested ones, the others are not compared.
//   - Values of one attribute always have pairwise different textual forms (no
//     int 1 next to string "1", no bool true next to string "true"): whether
//     those are "the same value" is not decided by the statement.  The NA string
//     itself is generated as an explicit value (the statement decides: same key
//     as a missing value).  NA strings are not numerals / booleans.
//   - Values are strings of letters, digits, blanks, '-', '_', one non-ASCII
//     letter, the empty string; ints |x| <= 2^53 (also as float64 holding that
//     integer, spelt 1e+06 / 1000000.0 in a title line); booleans.  Quotes, backslashes
//     and braces in values belong to the title-line round trip (C02) that the
//     on-disk mode goes through.
//   - An already merged input record carries merged_<k> whose weights sum to its
//     count (>= 1 each); its plain attribute k is absent, or — when the map has a
//     single value — that value.  A record with merged_<k>={a:2} and k="b" is
//     contradictory data the statement does not rank.
//   - "-m key:weight_attribute" (weights from another attribute) is parsed by
//     MakeStatsOnDescription but documented nowhere: not generated.
//   - Sequences: lower case acgt (+ n), length >= 1, no qualities (the obiuniq
//     command switches quality reading off; in-process records have none).
//   - Round trip: run with exactly one -m k (a second merged map would be
//     copied into every demerged record and legitimately summed several times)
//     and without --no-singleton.  When k is also a category attribute, no
//     input record is already merged on k: obidemerge rewrites k from the map,
//     which moves a record whose plain k is absent to another key.
//   - Leftover obiseq_chunks_* directories are swept after each on-disk case
//     (hygiene; TMPDIR is a private directory of the test process).
//   - Termination is C03's subject: a dereplication that does not end within
//     60 s is retried, and reported only when it hangs three times in a row.
package c06

import (
	"os"
	"testing"

	"verifharness/internal/evid"
	"verifharness/internal/fatal"
)

func TestMain(m *testing.M) {
	if os.Getenv("VERIF_DEBUG") == "" {
		fatal.Install()
	}
	evid.Tests(
		evid.Spec{Name: "TestReplay", Kind: "plain", QuickShards: 1, ThoroughShards: 1},
		evid.Spec{Name: "TestPropUniq", Kind: "rapid", Quick: 3200, Thorough: 40000, QuickShards: 8, ThoroughShards: 16},
		evid.Spec{Name: "TestPropLarge", Kind: "rapid", Quick: 320, Thorough: 6400, QuickShards: 4, ThoroughShards: 16},
		evid.Spec{Name: "TestPropCLI", Kind: "rapid", Quick: 160, Thorough: 4000, QuickShards: 8, ThoroughShards: 16},
		evid.Spec{Name: "TestPropManyClasses", Kind: "rapid", Quick: 64, Thorough: 1600, QuickShards: 8, ThoroughShards: 16},
	)
	evid.Commands("obiuniq", "obidemerge")
	evid.Note("rule", "a case = a multiset of records over a pool of 1..6 sequences (some one substitution apart; classes of 1..20+ members), count attribute absent / 1 / 2..60, 0-4 attributes each in the role category (-c, at most 2), merge (-m, at most 2), both, or plain annotation, each value present / absent / (merge attributes) already merged with a merged_<k> map whose weights sum to the count (4 in-memory representations), values string / int / integral float64 (|x| <= 2^53, negative and >= 1e6 included) / bool with pairwise different textual forms incl. the NA string and the empty string; NA value; --no-singleton; 1..3 runs each with its own input permutation, batch partition (empty batches included), batch arrival order, 1..3 producers, chunk count 1..8, memory / disk, 1..8 workers, dispatcher batch size, push jitter, GOMAXPROCS. Oracle (independent): group by (sequence, category values with NA) -> count = sum of counts, merged_<k> = sum of weights per value (weights of an already merged record = its map); the output is compared as a set key -> (count, merged maps): every output key exists, no key twice, no key missing, ids belong to the class, annotations shared by all members survive, sum of counts conserved minus exactly the classes of total count 1 under --no-singleton; every run of a case is compared with the same oracle set (hence equal across permutations / chunk counts / modes / workers). Round trip: uniq -m k -> real demerge worker (exactly one record per value with that count) -> uniq -m k gives the set of the first uniq. Large tier: the same blown up to several hundred records over up to 31 sequences. Command tier: the same data as FASTA files through the real obiuniq (--max-cpu, --batch-size, --chunk-count, --in-memory or on disk, --na-value, --no-singleton, -m, -c) and obiuniq | obidemerge | obiuniq through pipes; stderr is ignored. Non-trivial = some class has >= 2 members contributing different values to a requested merge attribute and, in some run, a hash chunk (CRC32 of the sequence modulo the chunk count) holds >= 2 distinct sequences. Distinct = hash of the whole case. "+envRule+dirtyRule)
	evid.Note("assumptions", "inputs are a pure function of the seed; goroutine interleavings are not (perturbed with push jitter and GOMAXPROCS).")
	evid.Main(m, "C06")
}
