package c06

import (
	"fmt"
	"os"
	"path/filepath"
	"runtime"
	"strings"
	"sync"
	"time"

	"git.metabarcoding.org/obitools/obitools4/obitools4/pkg/obichunk"
	"git.metabarcoding.org/obitools/obitools4/obitools4/pkg/obiiter"
	"git.metabarcoding.org/obitools/obitools4/obitools4/pkg/obioptions"
	"git.metabarcoding.org/obitools/obitools4/obitools4/pkg/obiseq"
	"git.metabarcoding.org/obitools/obitools4/obitools4/pkg/obitools/obidemerge"

	"verifharness/internal/evid"
	"verifharness/internal/fatal"
	"verifharness/internal/run"
)

// ---------------------------------------------------------------- private temporary directory

var (
	tmpOnce sync.Once
	tmpDir  string
)

// privateTmp points TMPDIR (read by obichunk.tempDir through os.TempDir) at a
// directory of our own inside the working directory of this test process.
func privateTmp() string {
	tmpOnce.Do(func() {
		d, err := os.MkdirTemp(run.WorkDir(), "c06tmp")
		if err != nil {
			d = run.WorkDir()
		}
		tmpDir = d
		os.Setenv("TMPDIR", d)
	})
	return tmpDir
}

// sweepTmp removes what obiuniq left behind (hygiene, not a property).
func sweepTmp() {
	left, _ := filepath.Glob(filepath.Join(privateTmp(), "obiseq_chunks_*"))
	for _, d := range left {
		os.RemoveAll(d)
	}
}

// ---------------------------------------------------------------- building real records

func (c *Case) build(r Rec) *obiseq.BioSequence {
	bs := obiseq.NewBioSequence(r.ID, []byte(c.Pool[r.Seq]), "")
	if r.Count > 0 {
		bs.SetAttribute("count", r.Count)
	}
	for k, v := range r.Attr {
		if v.present() {
			bs.SetAttribute(c.Keys[k], v.goValue())
		}
	}
	for k, p := range r.Pre {
		if p == nil {
			continue
		}
		name := "merged_" + c.Keys[k]
		switch p.Repr {
		case 1:
			m := obiseq.StatsOnValues{}
			for j := range p.V {
				m[p.V[j]] += p.W[j]
			}
			bs.SetAttribute(name, m)
		case 2:
			m := map[string]interface{}{}
			for j := range p.V {
				m[p.V[j]] = p.W[j]
			}
			bs.SetAttribute(name, m)
		case 3:
			m := map[string]interface{}{}
			for j := range p.V {
				m[p.V[j]] = float64(p.W[j])
			}
			bs.SetAttribute(name, m)
		default:
			m := map[string]int{}
			for j := range p.V {
				m[p.V[j]] += p.W[j]
			}
			bs.SetAttribute(name, m)
		}
	}
	return bs
}

// observe turns a record delivered by the library into an outRec.
func observe(s *obiseq.BioSequence) outRec {
	o := outRec{Attr: map[string]string{}, Merged: map[string]map[string]int{}}
	if s == nil {
		o.Bad = "nil record in an output batch"
		return o
	}
	o.ID, o.Seq = s.Id(), s.String()
	o.Count = 1
	if !s.HasAnnotation() {
		return o
	}
	for k, v := range s.Annotations() {
		switch {
		case k == "count":
			n, ok := intAny(v)
			if !ok {
				o.Bad = fmt.Sprintf("count attribute is %v (%T)", v, v)
				return o
			}
			o.Count, o.HasCnt = n, true
		case strings.HasPrefix(k, "merged_"):
			m := map[string]int{}
			bad := false
			switch x := v.(type) {
			case obiseq.StatsOnValues:
				for a, b := range x {
					m[a] = b
				}
			case map[string]int:
				for a, b := range x {
					m[a] = b
				}
			case map[string]interface{}:
				for a, b := range x {
					n, ok := intAny(b)
					if !ok {
						bad = true
					}
					m[a] = n
				}
			default:
				bad = true
			}
			if bad {
				o.Bad = fmt.Sprintf("%s is %v (%T), not a map of integer weights", k, v, v)
				return o
			}
			o.Merged[strings.TrimPrefix(k, "merged_")] = m
		default:
			if r, ok := renderAny(v); ok {
				o.Attr[k] = r
			}
		}
	}
	return o
}

// ---------------------------------------------------------------- one dereplication

type hang struct{ dump string }

func (h hang) Error() string { return "dereplication did not terminate within 60 s:\n" + h.dump }

var runLock sync.Mutex

// uniq feeds the records (already permuted) to obichunk.IUniqueSequence under
// the configuration of r and returns the records it delivers.
func uniq(seqs []*obiseq.BioSequence, r Run, cat, mrg []string, na string, noSingleton bool) ([]*obiseq.BioSequence, error) {
	runLock.Lock()
	defer runLock.Unlock()
	fatal.Install()
	privateTmp()
	defer sweepTmp()
	if r.Jitter > 0 {
		obiiter.VerifSetJitter(uint64(r.Jitter)*7919+uint64(r.ArrSeed)+1, uint64(r.Jitter))
		defer obiiter.VerifSetJitter(0, 0)
	}
	if r.Procs > 0 {
		defer runtime.GOMAXPROCS(runtime.GOMAXPROCS(r.Procs))
	}
	oldBatch := obioptions.CLIBatchSize()
	defer obioptions.SetBatchSize(oldBatch)
	obioptions.SetBatchSize(max(1, r.BatchSize))

	sizes := partition(len(seqs), r.Sizes)
	batches := make([]obiseq.BioSequenceSlice, len(sizes))
	pos := 0
	for k, n := range sizes {
		sl := make(obiseq.BioSequenceSlice, 0, n)
		sl = append(sl, seqs[pos:pos+n]...)
		pos += n
		batches[k] = sl
	}
	arrival := lcgPerm(len(sizes), r.ArrSeed)
	src := obiiter.MakeIBioSequence()
	np := max(1, r.Producers)
	src.Add(np)
	for p := 0; p < np; p++ {
		p := p
		go func() {
			defer src.Done()
			for i, k := range arrival {
				if i%np == p {
					src.Push(obiiter.MakeBioSequenceBatch("c06", k, batches[k]))
				}
			}
		}()
	}
	go src.WaitAndClose()

	opts := []obichunk.WithOption{
		obichunk.OptionBatchCount(max(1, r.Chunks)),
		obichunk.OptionsParallelWorkers(max(1, r.Workers)),
		obichunk.OptionNAValue(na),
		obichunk.OptionStatOn(mrg...),
		obichunk.OptionSubCategory(cat...),
	}
	if r.Disk {
		opts = append(opts, obichunk.OptionSortOnDisk())
	} else {
		opts = append(opts, obichunk.OptionSortOnMemory())
	}
	if noSingleton {
		opts = append(opts, obichunk.OptionsNoSingleton())
	} else {
		opts = append(opts, obichunk.OptionsWithSingleton())
	}

	fatalsBefore := fatal.Count()
	var out []*obiseq.BioSequence
	var callErr error
	done := make(chan struct{})
	var outcome fatal.Outcome
	go func() {
		defer close(done)
		outcome = fatal.Run(func() {
			it, err := obichunk.IUniqueSequence(src, opts...)
			if err != nil {
				callErr = err
				return
			}
			for it.Next() {
				b := it.Get()
				out = append(out, b.Slice()...)
			}
		})
	}()
	select {
	case <-done:
	case <-time.After(60 * time.Second):
		if fatal.Count() != fatalsBefore {
			return nil, fmt.Errorf("a library goroutine called log.Fatal during the dereplication: %s", fatal.LastMessage())
		}
		buf := make([]byte, 1<<20)
		buf = buf[:runtime.Stack(buf, true)]
		return nil, hang{dump: string(buf)}
	}
	if !outcome.Completed {
		return nil, fmt.Errorf("IUniqueSequence did not complete: %v\n%s", outcome, outcome.Stack)
	}
	if callErr != nil {
		return nil, fmt.Errorf("IUniqueSequence returned the error %v", callErr)
	}
	if fatal.Count() != fatalsBefore {
		return nil, fmt.Errorf("a library goroutine called log.Fatal during the dereplication: %s", fatal.LastMessage())
	}
	return out, nil
}

// uniqRetry repeats a run whose drain did not terminate; only a hang that
// reproduces three times in a row is reported.
func uniqRetry(mk func() []*obiseq.BioSequence, r Run, cat, mrg []string, na string, noSingleton bool) ([]*obiseq.BioSequence, error) {
	var last error
	for attempt := 0; attempt < 3; attempt++ {
		out, err := uniq(mk(), r, cat, mrg, na, noSingleton)
		if _, isHang := err.(hang); !isHang {
			if attempt > 0 && err == nil {
				evid.Class("timeout_not_reproduced", 1)
			}
			return out, err
		}
		last = err
	}
	return nil, last
}

func (r Run) String() string {
	mode := "memory"
	if r.Disk {
		mode = "disk"
	}
	return fmt.Sprintf("[%s, %d chunks, %d workers, dispatch batch %d, perm seed %d, batch pattern %v, arrival seed %d, %d producers, jitter %d, procs %d]",
		mode, r.Chunks, r.Workers, r.BatchSize, r.PermSeed, r.Sizes, r.ArrSeed, r.Producers, r.Jitter, r.Procs)
}

// ---------------------------------------------------------------- the in-process check

func observeAll(seqs []*obiseq.BioSequence) []outRec {
	out := make([]outRec, len(seqs))
	for i, s := range seqs {
		out[i] = observe(s)
	}
	return out
}

// toIn re-reads observed records as the input of a further stage.
func toIn(recs []outRec) []inRec {
	out := make([]inRec, len(recs))
	for i, o := range recs {
		out[i] = inRec{ID: o.ID, Seq: o.Seq, Count: o.Count, Attr: o.Attr, Merged: o.Merged}
	}
	return out
}

func checkUniq(c Case) error {
	in := c.inRecs()
	cat, mrg := c.keyNames(c.Cat), c.keyNames(c.Mrg)
	for ri, r := range c.Runs {
		perm := lcgPerm(len(c.Recs), r.PermSeed)
		mk := func() []*obiseq.BioSequence {
			seqs := make([]*obiseq.BioSequence, len(perm))
			for i, j := range perm {
				seqs[i] = c.build(c.Recs[j])
			}
			return seqs
		}
		out, err := uniqRetry(mk, r, cat, mrg, c.NA, c.NoSingleton)
		what := fmt.Sprintf("run %d %v of IUniqueSequence(categories %q, merge %q, NA %q, no-singleton %v)", ri, r, cat, mrg, c.NA, c.NoSingleton)
		if err != nil {
			return fmt.Errorf("%s: %v", what, err)
		}
		if err := compare(what, observeAll(out), in, cat, mrg, c.NA, c.NoSingleton); err != nil {
			return err
		}
	}
	return nil
}

// checkRoundTrip: uniq -m k | demerge -d k | uniq -m k  ==  uniq -m k, and the
// demerged records are exactly one record per value carrying that weight.
func checkRoundTrip(c Case) error {
	if c.RT < 0 || len(c.Runs) < 2 {
		return nil
	}
	k := c.Keys[c.RT]
	cat, mrg := c.keyNames(c.Cat), []string{k}
	in := c.inRecs()
	r1, r2 := c.Runs[0], c.Runs[1]
	perm := lcgPerm(len(c.Recs), r1.PermSeed)
	mk := func() []*obiseq.BioSequence {
		seqs := make([]*obiseq.BioSequence, len(perm))
		for i, j := range perm {
			seqs[i] = c.build(c.Recs[j])
		}
		return seqs
	}
	first, err := uniqRetry(mk, r1, cat, mrg, c.NA, false)
	what1 := fmt.Sprintf("first uniq -m %s %v (categories %q, NA %q)", k, r1, cat, c.NA)
	if err != nil {
		return fmt.Errorf("%s: %v", what1, err)
	}
	firstObs := observeAll(first)
	if err := compare(what1, firstObs, in, cat, mrg, c.NA, false); err != nil {
		return err
	}
	// demerge with the real worker
	worker := obidemerge.MakeDemergeWorker(k)
	var demerged []*obiseq.BioSequence
	for i, s := range first {
		var sl obiseq.BioSequenceSlice
		var werr error
		o := fatal.Run(func() { sl, werr = worker(s) })
		if !o.Completed || werr != nil {
			return fmt.Errorf("demerge worker on output record %v of %s: %v %v\n%s", firstObs[i], what1, o, werr, o.Stack)
		}
		// exactly one record per value with exactly that weight
		want := firstObs[i].Merged[k]
		gotM := map[string]int{}
		for _, d := range sl {
			od := observe(d)
			if od.Bad != "" {
				return fmt.Errorf("demerge of %v: %s", firstObs[i], od.Bad)
			}
			v, ok := od.Attr[k]
			if !ok {
				return fmt.Errorf("demerge -d %s of %v: demerged record %v has no attribute %s", k, firstObs[i], od, k)
			}
			if _, dup := gotM[v]; dup {
				return fmt.Errorf("demerge -d %s of %v: two demerged records for the value %q", k, firstObs[i], v)
			}
			gotM[v] = od.Count
			if od.Seq != firstObs[i].Seq {
				return fmt.Errorf("demerge -d %s of %v: demerged record %v has another sequence", k, firstObs[i], od)
			}
			if _, still := od.Merged[k]; still {
				return fmt.Errorf("demerge -d %s of %v: demerged record %v still carries merged_%s", k, firstObs[i], od, k)
			}
		}
		if !sameIntMap(gotM, want) {
			return fmt.Errorf("demerge -d %s of %v: records per value %s, the merged map says %s", k, firstObs[i], showMap(gotM), showMap(want))
		}
		demerged = append(demerged, sl...)
	}
	demObs := observeAll(demerged)
	// give the demerged records distinct identifiers so that class membership of ids stays checkable
	for i := range demerged {
		id := fmt.Sprintf("%s#%d", demObs[i].ID, i)
		demerged[i].SetId(id)
		demObs[i].ID = id
	}
	perm2 := lcgPerm(len(demerged), r2.PermSeed)
	// copies are taken for every attempt: merging mutates its input
	mk2 := func() []*obiseq.BioSequence {
		seqs := make([]*obiseq.BioSequence, len(perm2))
		for i, j := range perm2 {
			seqs[i] = demerged[j].Copy()
		}
		return seqs
	}
	second, err := uniqRetry(mk2, r2, cat, mrg, c.NA, false)
	what2 := fmt.Sprintf("second uniq -m %s %v after `uniq -m %s %v | demerge -d %s` (categories %q, NA %q)", k, r2, k, r1, k, cat, c.NA)
	if err != nil {
		return fmt.Errorf("%s: %v", what2, err)
	}
	secondObs := observeAll(second)
	// (a) the second dereplication is correct on its own input
	if err := compare(what2, secondObs, toIn(demObs), cat, mrg, c.NA, false); err != nil {
		return err
	}
	// (b) and gives the set of the first one
	a, b := setOf(firstObs, cat, mrg, c.NA), setOf(secondObs, cat, mrg, c.NA)
	for key, x := range a {
		y, ok := b[key]
		if !ok {
			return fmt.Errorf("round trip: key %q of the first uniq (%s) is missing after demerge + uniq\nfirst: %v\nsecond: %v", key, x, firstObs, secondObs)
		}
		if x != y {
			return fmt.Errorf("round trip: key %q: first uniq gives %s, uniq|demerge|uniq gives %s", key, x, y)
		}
	}
	for key, y := range b {
		if _, ok := a[key]; !ok {
			return fmt.Errorf("round trip: key %q (%s) appears after demerge + uniq but not in the first uniq\nfirst: %v\nsecond: %v", key, y, firstObs, secondObs)
		}
	}
	return nil
}

// setOf: key -> "count + merged maps" as text.
func setOf(recs []outRec, cat, mrg []string, na string) map[string]string {
	out := map[string]string{}
	for i, o := range recs {
		cv := make([]string, len(cat))
		for j, k := range cat {
			if v, ok := o.Attr[k]; ok {
				cv[j] = v
			} else {
				cv[j] = na
			}
		}
		key := classKey(o.Seq, cv)
		if _, dup := out[key]; dup {
			key = fmt.Sprintf("%s\x00duplicate%d", key, i)
		}
		s := fmt.Sprintf("count=%d", o.Count)
		for _, k := range mrg {
			s += fmt.Sprintf(" merged_%s=%s", k, showMap(o.Merged[k]))
		}
		out[key] = s
	}
	return out
}
