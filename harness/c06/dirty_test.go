package c06

import (
	"bytes"
	"encoding/json"
	"fmt"
	"io/fs"
	"os"
	"os/exec"
	"path/filepath"
	"regexp"
	"strconv"
	"strings"
	"sync"
	"syscall"
	"testing"
	"time"

	"pgregory.net/rapid"

	"verifharness/internal/evid"
	"verifharness/internal/run"
)

// The environment axis, continued: the scratch directory is NOT EMPTY.
//
// A scratch directory ($TMPDIR) shared by successive jobs holds what earlier
// runs left behind: an on-disk dereplication that is killed (SIGKILL, OOM
// killer, scheduler time limit) never runs its clean-up, so its chunk
// directory "obiseq_chunks_<something>" with its "chunk_<n>.fastx" files stays.
// The statement says that the output is a function of the INPUT (on disk ==
// in memory == model): whatever lies in the scratch directory before the run,
// and whatever process id the run happens to get, is not part of the input.
//
// Generated here: the data set and the runs of the command tier (run 0 on disk,
// run 1 in memory, an optional run 2 on disk again in the same, by then older,
// scratch directory) in a TMPDIR that holds 1..6 leftovers before each run:
//   - directories named like the tool's own scratch entries ("obiseq_chunks_" +
//     digits as the unchanged tree makes them) and variations: the identifying
//     part is the process id the command IS GOING TO HAVE (the command is
//     started through `sh -c '...; exec "$@"'`: $$ of the shell is the pid of
//     the command), the pid of its parent, the uid, a small integer, 9-10
//     random digits or nothing, optionally followed by a small counter
//     (_0, _1, .0, -0 ...), behind the tool's prefix or a neighbouring one;
//   - in them (optionally in a sub-directory: the tool collects its chunk files
//     recursively) stale chunk files chunk_<k>.fastx, k below and above the
//     chunk count of the runs, and otherwise named *.fastx / other extensions,
//     holding well-formed FASTA or FASTQ records with JSON annotations over the
//     attribute names of the case, a share of them carrying sequences of the
//     input (they would be merged INTO real classes) the others foreign
//     sequences (phantom classes); optionally the last record is cut in the
//     middle, as a killed writer leaves it;
//   - the same names as plain files, and stale chunk files directly in TMPDIR;
//   - optionally the whole case runs with every command being process 1 of a
//     new PID namespace (`unshare -pf`, what container runtimes do: successive
//     runs then all have the same pid), when the machine permits it;
//   - optionally a REAL earlier run: obiuniq on disk on several thousand reads
//     fed through a pipe that is never closed, SIGKILLed once chunk data are on
//     disk, in the same TMPDIR (and the same PID namespace setting).
// Oracle unchanged: every run must give the reference set of the input alone.
//
// Domain decisions (dirty scratch directory)
//   - Leftover names are made of [A-Za-z0-9_.-] only (the odd characters are the
//     subject of the TMPDIR path itself, which is drawn as in TestPropEnvCLI,
//     always absolute here).
//   - What the run does to the leftovers (it must not read them; whether it may
//     delete them is not decided by the statement) is not checked.
//   - When the killed run cannot be started or leaves nothing (slow machine) the
//     case goes on without it: the verdict never depends on the kill timing.

func init() {
	evid.Reg("dirtytmp", checkDirtyTmp)
	evid.Tests(
		evid.Spec{Name: "TestPropDirtyTmp", Kind: "rapid", Quick: 160, Thorough: 4000, QuickShards: 8, ThoroughShards: 16},
	)
}

// dirtyRule is appended to the rule note of the package (main_test.go).
const dirtyRule = (" Dirty scratch directory, TestPropDirtyTmp: a case = a data set of the command tier (<= 20 records; run 0 on disk, run 1 in memory, optional run 2 on disk) + an absolute TMPDIR drawn as in TestPropEnvCLI that holds, before every run, 1..6 leftovers of earlier runs: directories (or plain files) named <prefix><id><counter> with prefix = the tool's own 'obiseq_chunks_' (70 %) or a neighbouring one, id = the pid the command is going to have (known in advance: the command is exec'ed by a shell, 50 %), its parent's pid, the uid, a small integer, 9-10 random digits or nothing, counter = none / _0.._3 / .0 / -0, holding 1..3 stale files chunk_<k>.fastx (k < 8, k >= 8) or otherwise named, with 1..30 well-formed FASTA/FASTQ records (JSON annotations over the attribute names of the case; a drawn share of them with sequences of the input) rebuilt from a seed, optionally in a sub-directory, optionally cut in the middle of the last record; stale chunk files directly in TMPDIR; optionally all commands run as process 1 of a new PID namespace (unshare -pf); optionally a real earlier on-disk run on 3000-6000 reads SIGKILLed once it has chunk data on disk. Oracle unchanged: every run == reference set of the input alone. Non-trivial = some leftover directory carries the tool's own prefix 'obiseq_chunks_' and holds >= 1 stale *.fastx file with >= 1 record, and the data set has >= 2 classes and >= 1 class of >= 2 members. Distinct = hash of the whole case.")

// ---------------------------------------------------------------- the case

// StaleFile is one file of a leftover; its records are rebuilt from Seed.
type StaleFile struct {
	Sub   string // "" or the sub-directory of the leftover directory it lies in
	Name  string
	N     int    // number of records
	Seed  uint32 // content
	Own   int    // percentage of the records whose sequence is one of the input's
	Fastq bool
	Cut   bool // the file ends in the middle of its last record
}

// Leftover is one entry of TMPDIR present before a run.
type Leftover struct {
	Name   string      // [A-Za-z0-9_.-] and the placeholders {PID} {PPID} {UID}
	IsFile bool        // a plain file (content Files[0]) instead of a directory
	Files  []StaleFile // files of the directory
}

// KilledRun is a real earlier on-disk run, killed while it splits its input.
type KilledRun struct {
	N      int // reads
	Seed   uint32
	Chunks int
}

type DirtyCase struct {
	C     Case
	Tmp   Path
	Left  []Leftover
	PidNS bool
	Kill  *KilledRun
}

const ownPrefix = "obiseq_chunks_"

var (
	leftPrefixes = []string{ownPrefix, ownPrefix, ownPrefix, ownPrefix, ownPrefix, ownPrefix, ownPrefix, "obiseq_chunks", "obiseq_", "obiuniq_", ""}
	leftIDs      = []string{"{PID}", "{PID}", "{PID}", "{PID}", "{PPID}", "{UID}", "#small", "#random", ""}
	leftCounters = []string{"", "", "", "_0", "_0", "_0", "_1", "_2", "_3", ".0", "-0"}
	staleSubs    = []string{"", "", "", "", "sub", "chunk_1.fastx.d"}
	safeName     = regexp.MustCompile(`^([A-Za-z0-9_.-]|\{PID\}|\{PPID\}|\{UID\})+$`)
)

func genStaleFile(t *rapid.T, top bool) StaleFile {
	var f StaleFile
	switch rapid.IntRange(0, 9).Draw(t, "stale_name_kind") {
	case 0, 1, 2, 3:
		f.Name = fmt.Sprintf("chunk_%d.fastx", rapid.IntRange(0, 7).Draw(t, "stale_chunk_low"))
	case 4, 5, 6, 7:
		f.Name = fmt.Sprintf("chunk_%d.fastx", rapid.SampledFrom([]int{8, 9, 15, 16, 31, 99, 100, 734, 999, 1000}).Draw(t, "stale_chunk_high"))
	case 8:
		f.Name = rapid.SampledFrom([]string{"chunk_NA.fastx", "part.fastx", "chunk_.fastx", ".fastx", "chunk_-1.fastx", "chunk_00.fastx"}).Draw(t, "stale_other_fastx")
	default:
		f.Name = rapid.SampledFrom([]string{"chunk_3.fasta", "chunk_3.fastq", "chunk_3.fastx.gz", "chunk_3", "chunk_3.fastx.tmp"}).Draw(t, "stale_other_ext")
	}
	if !top {
		f.Sub = rapid.SampledFrom(staleSubs).Draw(t, "stale_sub")
	}
	f.N = rapid.SampledFrom([]int{1, 2, 5, 5, 12, 30}).Draw(t, "stale_nrec")
	f.Seed = rapid.Uint32Range(1, 1<<31).Draw(t, "stale_seed")
	f.Own = rapid.SampledFrom([]int{0, 50, 50, 100}).Draw(t, "stale_own_share")
	f.Fastq = rapid.IntRange(0, 3).Draw(t, "stale_fastq") == 0
	f.Cut = rapid.IntRange(0, 4).Draw(t, "stale_cut") == 0
	return f
}

func genLeftover(t *rapid.T) Leftover {
	var l Leftover
	if rapid.IntRange(0, 7).Draw(t, "left_top_level_chunk_file") == 0 {
		// a stale chunk file directly in TMPDIR
		f := genStaleFile(t, true)
		return Leftover{Name: f.Name, IsFile: true, Files: []StaleFile{f}}
	}
	id := rapid.SampledFrom(leftIDs).Draw(t, "left_id")
	switch id {
	case "#small":
		id = strconv.Itoa(rapid.IntRange(0, 9).Draw(t, "left_small"))
	case "#random":
		id = strconv.FormatUint(uint64(rapid.Uint32Range(100000000, 1<<32-1).Draw(t, "left_random")), 10)
	}
	l.Name = rapid.SampledFrom(leftPrefixes).Draw(t, "left_prefix") + id + rapid.SampledFrom(leftCounters).Draw(t, "left_counter")
	if l.Name == "" || l.Name == "." || l.Name == ".." {
		l.Name = ownPrefix
	}
	l.IsFile = rapid.IntRange(0, 9).Draw(t, "left_is_file") == 0
	n := 1
	if !l.IsFile {
		n = rapid.IntRange(1, 3).Draw(t, "left_nfiles")
	}
	for i := 0; i < n; i++ {
		l.Files = append(l.Files, genStaleFile(t, l.IsFile))
	}
	return l
}

func genDirtyCase(t *rapid.T) DirtyCase {
	var d DirtyCase
	d.C = genCase(t, 20, 1)
	for len(d.C.Runs) < 2 {
		d.C.Runs = append(d.C.Runs, genRun(t, 1))
	}
	for i := range d.C.Runs {
		d.C.Runs[i].Disk = i != 1
		d.C.Runs[i].Procs = 0
	}
	d.Tmp = genPath(t, "tmpdir", false, false)
	n := rapid.IntRange(1, 6).Draw(t, "nleftovers")
	seen := map[string]bool{}
	for i := 0; i < n; i++ {
		l := genLeftover(t)
		if seen[l.Name] {
			continue
		}
		seen[l.Name] = true
		d.Left = append(d.Left, l)
	}
	d.PidNS = rapid.IntRange(0, 2).Draw(t, "pid_namespace") == 0
	if rapid.IntRange(0, 4).Draw(t, "killed_run") == 0 {
		d.Kill = &KilledRun{
			N:      rapid.SampledFrom([]int{3000, 4000, 6000}).Draw(t, "killed_nreads"),
			Seed:   rapid.Uint32Range(1, 1<<31).Draw(t, "killed_seed"),
			Chunks: rapid.SampledFrom([]int{3, 7, 8, 50, 100, 1000}).Draw(t, "killed_chunks"),
		}
	}
	return d
}

// ---------------------------------------------------------------- stale content

type lcg struct{ x uint64 }

func (g *lcg) next(n int) int {
	g.x = g.x*6364136223846793005 + 1442695040888963407
	return int((g.x >> 33) % uint64(max(1, n)))
}

func (g *lcg) dna(n int) string {
	b := make([]byte, n)
	for i := range b {
		b[i] = "acgt"[g.next(4)]
	}
	return string(b)
}

// staleData renders the records of a stale file: well formed, not the input's.
func (d *DirtyCase) staleData(f StaleFile) []byte {
	c := &d.C
	g := &lcg{uint64(f.Seed)*2862933555777941757 + 3037000493}
	var b bytes.Buffer
	last := 0
	for i := 0; i < f.N; i++ {
		last = b.Len()
		var s string
		if len(c.Pool) > 0 && g.next(100) < f.Own {
			s = c.Pool[g.next(len(c.Pool))]
		} else {
			s = g.dna(20 + g.next(60))
		}
		ann := map[string]any{}
		if g.next(3) > 0 {
			ann["count"] = 1 + g.next(40)
		}
		for k, name := range c.Keys {
			switch g.next(3) {
			case 0:
				ann[name] = "stale"
			case 1:
				if len(c.Recs) > 0 {
					r := c.Recs[g.next(len(c.Recs))]
					if k < len(r.Attr) && r.Attr[k].present() {
						ann[name] = r.Attr[k].jsonValue()
					}
				}
			}
		}
		js, _ := json.Marshal(ann)
		if f.Fastq {
			fmt.Fprintf(&b, "@stale%d %s\n%s\n+\n%s\n", i, js, s, strings.Repeat("I", len(s)))
		} else {
			fmt.Fprintf(&b, ">stale%d %s\n%s\n", i, js, s)
		}
	}
	data := b.Bytes()
	if f.Cut && len(data) > 0 {
		data = data[:last+(len(data)-last)/2]
	}
	return data
}

// bigInput is the input of the killed run: n reads over 40 sequences of length 60.
func bigInput(k KilledRun) []byte {
	g := &lcg{uint64(k.Seed)*2862933555777941757 + 7}
	seqs := make([]string, 40)
	for i := range seqs {
		seqs[i] = g.dna(60)
	}
	var b bytes.Buffer
	for i := 0; i < k.N; i++ {
		fmt.Fprintf(&b, ">old%d {\"sample\":\"s%d\"}\n%s\n", i, g.next(3), seqs[g.next(len(seqs))])
	}
	return b.Bytes()
}

// ---------------------------------------------------------------- PID namespaces

const unshareBin = "/usr/bin/unshare"

var (
	pidnsOnce sync.Once
	pidnsOK   bool
)

func pidnsAvailable() bool {
	pidnsOnce.Do(func() {
		if _, err := os.Stat(unshareBin); err != nil {
			return
		}
		res := run.Cmd(run.Opt{Stdin: []byte{}, Timeout: 30 * time.Second}, unshareBin, "-pf", "--kill-child", "/bin/sh", "-c", "echo $$")
		pidnsOK = res.Exit == 0 && strings.TrimSpace(string(res.Stdout)) == "1"
	})
	return pidnsOK
}

// ---------------------------------------------------------------- the killed run

// killedRun really runs obiuniq on disk in TMPDIR and kills it (SIGKILL, the
// whole process group) once it has written chunk data; the pipe feeding it is
// never closed, so the run cannot end by itself.  Reports whether the run left
// chunk files.
func killedRun(k KilledRun, tmpGiven, tmpReal string, pidns bool, before map[string]bool) bool {
	data := bigInput(k)
	path := run.Bin("obiuniq")
	args := []string{"--chunk-count", strconv.Itoa(max(1, k.Chunks)), "-m", "sample"}
	if pidns {
		args = append([]string{"-pf", "--kill-child", path}, args...)
		path = unshareBin
	}
	cmd := exec.Command(path, args...)
	cmd.Env = []string{"PATH=/usr/bin:/bin", "HOME=" + run.WorkDir(), "TMPDIR=" + tmpGiven}
	cmd.Dir = run.WorkDir()
	cmd.SysProcAttr = &syscall.SysProcAttr{Setpgid: true}
	stdin, err := cmd.StdinPipe()
	if err != nil {
		return false
	}
	if err := cmd.Start(); err != nil {
		stdin.Close()
		return false
	}
	fed := make(chan struct{})
	go func() {
		stdin.Write(data) // not closed: the command goes on waiting for more
		close(fed)
	}()
	left := false
	for i := 0; i < 200 && !left; i++ { // at most 10 s; the verdict does not depend on it
		time.Sleep(50 * time.Millisecond)
		left = newChunkData(tmpReal, before)
	}
	syscall.Kill(-cmd.Process.Pid, syscall.SIGKILL)
	cmd.Wait()
	stdin.Close()
	<-fed
	return left
}

// newChunkData: a non-empty chunk file exists below an entry of dir that was not there before.
func newChunkData(dir string, before map[string]bool) bool {
	ents, err := os.ReadDir(dir)
	if err != nil {
		return false
	}
	for _, e := range ents {
		if before[e.Name()] || !e.IsDir() {
			continue
		}
		found := false
		filepath.WalkDir(filepath.Join(dir, e.Name()), func(p string, f fs.DirEntry, err error) error {
			if err == nil && !f.IsDir() {
				if st, err := f.Info(); err == nil && st.Size() > 0 {
					found = true
				}
			}
			return nil
		})
		if found {
			return true
		}
	}
	return false
}

// ---------------------------------------------------------------- the check

func (l Leftover) valid() bool {
	if !safeName.MatchString(l.Name) || l.Name == "." || l.Name == ".." || len(l.Files) == 0 {
		return false
	}
	for _, f := range l.Files {
		if !safeName.MatchString(f.Name) || strings.Contains(f.Name, "{") || f.Name == "." || f.Name == ".." {
			return false
		}
		if f.Sub != "" && (!safeName.MatchString(f.Sub) || strings.Contains(f.Sub, "{") || f.Sub == "." || f.Sub == "..") {
			return false
		}
		if f.N < 0 || f.N > 10000 {
			return false
		}
	}
	return true
}

func checkDirtyTmp(d DirtyCase) error {
	c := d.C
	if len(c.Runs) == 0 || len(d.Tmp.Comps) == 0 {
		return nil
	}
	root, err := os.MkdirTemp(run.WorkDir(), "c06dirty")
	if err != nil {
		evid.Class("env_setup_failed", 1)
		return nil
	}
	defer os.RemoveAll(root)
	setup := func(err error) error {
		evid.Class("env_setup_failed", 1)
		if os.Getenv("VERIF_DEBUG") != "" {
			fmt.Fprintf(os.Stderr, "dirty tmp setup failed: %v\n", err)
		}
		return nil
	}
	serial := 0
	tmp := d.Tmp
	tmp.Rel = 0
	tmpReal, tmpGiven, err := materialise(root, root+"/t", tmp, &serial)
	if err != nil {
		return setup(err)
	}
	// the leftovers are staged outside TMPDIR and copied into it, under their
	// final names, by the shell that then becomes the command
	stage := root + "/stage"
	if err := os.Mkdir(stage, 0o755); err != nil {
		return setup(err)
	}
	var script strings.Builder
	script.WriteString("echo \"verif: pid of the command $$, pid of its parent $PPID\" >&2\n")
	script.WriteString("mk() { [ -e \"$VERIF_T/$2\" ] || [ -L \"$VERIF_T/$2\" ] || cp -R \"$VERIF_S/$1\" \"$VERIF_T/$2\"; }\n")
	var names []string
	for i, l := range d.Left {
		if !l.valid() {
			continue
		}
		src := fmt.Sprintf("%s/%d", stage, i)
		if l.IsFile {
			if err := os.WriteFile(src, d.staleData(l.Files[0]), 0o640); err != nil {
				return setup(err)
			}
		} else {
			for _, f := range l.Files {
				dir := src
				if f.Sub != "" {
					dir += "/" + f.Sub
				}
				if err := os.MkdirAll(dir, 0o700); err != nil {
					return setup(err)
				}
				if err := os.WriteFile(dir+"/"+f.Name, d.staleData(f), 0o640); err != nil {
					return setup(err)
				}
			}
		}
		name := strings.NewReplacer("{PID}", "$$", "{PPID}", "$PPID", "{UID}", strconv.Itoa(os.Getuid())).Replace(l.Name)
		fmt.Fprintf(&script, "mk %d \"%s\"\n", i, name)
		names = append(names, l.Name)
	}
	script.WriteString("exec \"$@\"\n")

	pidns := d.PidNS
	if pidns && !pidnsAvailable() {
		evid.Class("pid_namespace_unavailable", 1)
		pidns = false
	}

	if d.Kill != nil && d.Kill.N > 0 && d.Kill.N <= 200000 {
		before := map[string]bool{}
		if ents, err := os.ReadDir(tmpReal); err == nil {
			for _, e := range ents {
				before[e.Name()] = true
			}
		}
		if killedRun(*d.Kill, tmpGiven, tmpReal, pidns, before) {
			evid.Class("killed_run_left_chunk_files", 1)
		} else {
			evid.Class("killed_run_left_nothing", 1)
		}
	}

	in := c.inRecs()
	cat, mrg := c.keyNames(c.Cat), c.keyNames(c.Mrg)
	for ri, r := range c.Runs {
		perm := lcgPerm(len(c.Recs), r.PermSeed)
		file := fmt.Sprintf("%s/in%d.fasta", root, ri)
		if err := os.WriteFile(file, c.fasta(perm), 0o644); err != nil {
			return setup(err)
		}
		args := append(c.uniqArgs(r, cat, mrg, c.NoSingleton), file)
		env := []string{"TMPDIR=" + tmpGiven, "VERIF_T=" + tmpReal, "VERIF_S=" + stage}
		if r.Jitter > 0 {
			env = append(env, fmt.Sprintf("VERIF_JITTER=%d:%d", r.Jitter*31+1, r.Jitter))
		}
		launcher := "/bin/sh"
		largs := append([]string{"-c", script.String(), "sh", run.Bin("obiuniq")}, args...)
		if pidns {
			largs = append([]string{"-pf", "--kill-child", launcher}, largs...)
			launcher = unshareBin
		}
		res := run.Cmd(run.Opt{Env: env, Stdin: []byte{}, Timeout: 120 * time.Second}, launcher, largs...)
		if res.Inconclusive() {
			evid.Class("timeout_inconclusive", 1)
			continue
		}
		mode := "in memory"
		if r.Disk {
			mode = "on disk"
		}
		first, _, _ := strings.Cut(string(res.Stderr), "\n")
		what := fmt.Sprintf("run %d (%s): TMPDIR=%q holding before the run the leftovers %q of earlier runs (stale chunk files, none of them part of the input; new PID namespace: %v; really killed earlier run: %v; %s), obiuniq %q on the records in order %v", ri, mode, tmpGiven, names, pidns, d.Kill != nil, first, args, perm)
		if res.Exit != 0 {
			return fmt.Errorf("%s: exited with status %d: %s", what, res.Exit, tail(res.Stderr))
		}
		got, err := parseOut(res.Stdout)
		if err != nil {
			return fmt.Errorf("%s: output not readable: %v\n%s", what, err, tail(res.Stdout))
		}
		if err := compare(what, got, in, cat, mrg, c.NA, c.NoSingleton); err != nil {
			return fmt.Errorf("%v\nleftovers: %+v\nstderr of the command: %s", err, d.Left, tail(res.Stderr))
		}
	}
	return nil
}

// ---------------------------------------------------------------- property

var digitsOnly = regexp.MustCompile(`^[0-9]+$`)

func (d DirtyCase) classes() []string {
	cl := d.Tmp.classes("tmpdir")
	seen := map[string]bool{}
	add := func(s string) {
		if !seen[s] {
			seen[s] = true
			cl = append(cl, s)
		}
	}
	add("dirty_tmpdir")
	add(fmt.Sprintf("leftovers:%d", len(d.Left)))
	for _, l := range d.Left {
		own := strings.HasPrefix(l.Name, ownPrefix)
		rest := strings.TrimPrefix(l.Name, ownPrefix)
		switch {
		case l.IsFile && len(l.Files) > 0 && l.Name == l.Files[0].Name:
			add("leftover:chunk_file_directly_in_tmpdir")
		case own:
			add("leftover:own_prefix")
		default:
			add("leftover:other_prefix")
		}
		if l.IsFile {
			add("leftover:plain_file")
		} else {
			add("leftover:directory")
		}
		if strings.Contains(l.Name, "{PID}") {
			add("leftover:pid_of_the_command_in_name")
			if own && rest == "{PID}" {
				add("leftover:own_prefix+pid")
			}
			if own && strings.HasPrefix(rest, "{PID}") && rest != "{PID}" {
				add("leftover:own_prefix+pid+counter")
			}
		}
		if strings.Contains(l.Name, "{PPID}") {
			add("leftover:pid_of_the_parent_in_name")
		}
		if strings.Contains(l.Name, "{UID}") {
			add("leftover:uid_in_name")
		}
		if own && digitsOnly.MatchString(rest) {
			if len(rest) >= 9 {
				add("leftover:own_prefix+random_digits")
			} else {
				add("leftover:own_prefix+small_integer")
			}
		}
		if own && rest == "" {
			add("leftover:own_prefix_alone")
		}
		for _, f := range l.Files {
			var k int
			switch {
			case filepath.Ext(f.Name) != ".fastx":
				add("stale:not_fastx_extension")
			case func() bool { n, err := fmt.Sscanf(f.Name, "chunk_%d.fastx", &k); return n == 1 && err == nil && k >= 0 && k < 8 }():
				add("stale:chunk_index_lt_8")
			case func() bool { n, err := fmt.Sscanf(f.Name, "chunk_%d.fastx", &k); return n == 1 && err == nil && k >= 8 }():
				add("stale:chunk_index_ge_8")
			default:
				add("stale:other_fastx_name")
			}
			if f.Sub != "" {
				add("stale:in_sub_directory")
			}
			if f.Fastq {
				add("stale:fastq")
			} else {
				add("stale:fasta")
			}
			if f.Cut {
				add("stale:cut_in_last_record")
			}
			switch {
			case f.Own == 0:
				add("stale:foreign_sequences_only")
			case f.Own >= 100:
				add("stale:sequences_of_the_input_only")
			default:
				add("stale:foreign_and_input_sequences")
			}
		}
	}
	if d.PidNS {
		add("commands_are_pid_1_of_a_new_pid_namespace")
	} else {
		add("commands_in_the_host_pid_namespace")
	}
	if d.Kill != nil {
		add("really_killed_earlier_run")
		if d.PidNS {
			add("really_killed_earlier_run+pid_namespace")
		}
	}
	if len(d.C.Runs) >= 3 {
		add("second_on_disk_run_in_the_same_tmpdir")
	}
	return cl
}

func (d DirtyCase) nontrivial() bool {
	s := d.C.stats()
	if s.classes < 2 || s.maxMembers < 2 {
		return false
	}
	for _, l := range d.Left {
		if l.IsFile || !strings.HasPrefix(l.Name, ownPrefix) {
			continue
		}
		for _, f := range l.Files {
			if filepath.Ext(f.Name) == ".fastx" && f.N >= 1 {
				return true
			}
		}
	}
	return false
}

func TestPropDirtyTmp(t *testing.T) {
	rapid.Check(t, func(rt *rapid.T) {
		d := genDirtyCase(rt)
		b, _ := json.Marshal(d)
		evid.Eval("dirtytmp", evid.Hash(b), d.nontrivial(), d, append(classesOf(d.C, d.C.stats()), d.classes()...)...)
		if err := checkDirtyTmp(d); err != nil {
			evid.Fail(rt, "dirtytmp", d, err)
		}
	})
}
