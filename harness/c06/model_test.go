package c06

import (
	"encoding/json"
	"fmt"
	"hash/crc32"
	"sort"
	"strconv"
	"strings"
)

// ---------------------------------------------------------------- the case

// Val is one attribute value of an input record.
type Val struct {
	K string // "" = attribute absent, "s" string, "i" int, "b" bool, "f" a float64 whose value is the integer I (|I| <= 2^53)
	S string `json:",omitempty"`
	I int64  `json:",omitempty"`
	B bool   `json:",omitempty"`
}

func (v Val) present() bool { return v.K != "" }

// render is the textual form of a value: the text of a merged_<k> map key (and
// of the value obidemerge writes back).
func (v Val) render() string {
	switch v.K {
	case "s":
		return v.S
	case "i", "f":
		return strconv.FormatInt(v.I, 10)
	case "b":
		return strconv.FormatBool(v.B)
	}
	return ""
}

func (v Val) goValue() any {
	switch v.K {
	case "s":
		return v.S
	case "i":
		return int(v.I)
	case "f":
		return float64(v.I)
	case "b":
		return v.B
	}
	return nil
}

// jsonValue is what is written in a title line: an integral float is spelt as
// a float ("1e+06" or "1000000.0"), everything else as encoding/json does.
func (v Val) jsonValue() any {
	if v.K == "f" {
		if v.I%2 == 0 {
			return json.Number(strconv.FormatFloat(float64(v.I), 'e', -1, 64))
		}
		return json.Number(strconv.FormatInt(v.I, 10) + ".0")
	}
	return v.goValue()
}

// Merged is a merged_<k> map already carried by an input record (the record is
// itself the result of an earlier dereplication): Σ W = count of the record.
type Merged struct {
	V    []string
	W    []int
	Repr int // in-process representation: 0 map[string]int, 1 obiseq.StatsOnValues, 2 map[string]interface{} of int, 3 map[string]interface{} of float64 (what the file readers deliver)
}

// Rec is one input record.  Attr and Pre are parallel to Case.Keys.
type Rec struct {
	ID    string
	Seq   int // index into Case.Pool
	Count int // 0 = no count attribute (the record stands for one read)
	Attr  []Val
	Pre   []*Merged
}

func (r Rec) count() int {
	if r.Count <= 0 {
		return 1
	}
	return r.Count
}

// Run is one configuration + schedule under which the data set is dereplicated.
type Run struct {
	PermSeed  uint32 // input permutation (0 = as listed)
	Sizes     []int  // batch size pattern, repeated until all records are placed (0 = an empty batch)
	ArrSeed   uint32 // arrival order of the batches (0 = in order)
	Producers int
	Chunks    int
	Disk      bool
	Workers   int
	BatchSize int // obioptions batch size = size of the batches of the hash dispatcher
	Jitter    int // max µs of push jitter (0 = off)
	Procs     int // GOMAXPROCS (0 = unchanged)
}

type Case struct {
	Pool        []string
	Keys        []string // attribute names
	Cat         []int    // indices into Keys: category attributes, in option order
	Mrg         []int    // indices into Keys: merge attributes
	NA          string
	NoSingleton bool
	Recs        []Rec
	Runs        []Run
	// round trip (in-process and CLI): uniq -m Keys[RT] | demerge -d Keys[RT] | uniq -m Keys[RT]; -1 = none
	RT int
}

func (c *Case) keyNames(idx []int) []string {
	out := make([]string, len(idx))
	for i, k := range idx {
		out[i] = c.Keys[k]
	}
	return out
}

// ---------------------------------------------------------------- deterministic permutations

func lcgPerm(n int, seed uint32) []int {
	p := make([]int, n)
	for i := range p {
		p[i] = i
	}
	if seed == 0 {
		return p
	}
	x := uint64(seed)*2862933555777941757 + 3037000493
	for i := n - 1; i > 0; i-- {
		x = x*6364136223846793005 + 1442695040888963407
		j := int((x >> 33) % uint64(i+1))
		p[i], p[j] = p[j], p[i]
	}
	return p
}

// partition cuts n records into batches following the size pattern.
func partition(n int, pattern []int) []int {
	var sizes []int
	pos := 0
	allZero := true
	for _, s := range pattern {
		if s > 0 {
			allZero = false
		}
	}
	if allZero {
		pattern = append(append([]int(nil), pattern...), 1)
	}
	for i := 0; pos < n; i++ {
		s := pattern[i%len(pattern)]
		if s > n-pos {
			s = n - pos
		}
		sizes = append(sizes, s)
		pos += s
	}
	return sizes
}

// ---------------------------------------------------------------- reference oracle

// class is what the statement says about one output record.
type class struct {
	Seq     string
	CatVals []string         // category values, NA substituted
	Count   int              // Σ counts of the members
	Merged  []map[string]int // per merge attribute: value -> Σ weights
	IDs     map[string]bool  // identifiers of the members
	Members int
	Agreed  map[string]string // attribute name -> rendering, for the attributes all members carry with one and the same value
}

func classKey(seq string, cats []string) string {
	var b strings.Builder
	b.WriteString(seq)
	for _, c := range cats {
		b.WriteString("\x00")
		b.WriteString(strconv.Quote(c))
	}
	return b.String()
}

// inRec is a record reduced to what the oracle needs (also used for the
// second stage of the round trip, where the input is the demerged output).
type inRec struct {
	ID     string
	Seq    string
	Count  int
	Attr   map[string]string         // rendering of the plain attributes present
	Merged map[string]map[string]int // merged_<k> maps present
}

func (c *Case) inRecs() []inRec {
	out := make([]inRec, len(c.Recs))
	for i, r := range c.Recs {
		ir := inRec{ID: r.ID, Seq: c.Pool[r.Seq], Count: r.count(), Attr: map[string]string{}, Merged: map[string]map[string]int{}}
		for k, v := range r.Attr {
			if v.present() {
				ir.Attr[c.Keys[k]] = v.render()
			}
		}
		for k, p := range r.Pre {
			if p != nil {
				m := map[string]int{}
				for j := range p.V {
					m[p.V[j]] += p.W[j]
				}
				ir.Merged[c.Keys[k]] = m
			}
		}
		out[i] = ir
	}
	return out
}

// reference groups the records by (sequence, category values with NA).
func reference(recs []inRec, cat, mrg []string, na string, noSingleton bool) (kept map[string]*class, dropped int, total int) {
	all := map[string]*class{}
	for _, r := range recs {
		cv := make([]string, len(cat))
		for i, k := range cat {
			if v, ok := r.Attr[k]; ok {
				cv[i] = v
			} else {
				cv[i] = na
			}
		}
		key := classKey(r.Seq, cv)
		cl := all[key]
		if cl == nil {
			cl = &class{Seq: r.Seq, CatVals: cv, IDs: map[string]bool{}, Merged: make([]map[string]int, len(mrg))}
			for i := range mrg {
				cl.Merged[i] = map[string]int{}
			}
			cl.Agreed = map[string]string{}
			for k, v := range r.Attr {
				cl.Agreed[k] = v
			}
			all[key] = cl
		} else {
			for k, v := range cl.Agreed {
				if w, ok := r.Attr[k]; !ok || w != v {
					delete(cl.Agreed, k)
				}
			}
		}
		cl.Members++
		cl.Count += r.Count
		cl.IDs[r.ID] = true
		total += r.Count
		for i, k := range mrg {
			if m, ok := r.Merged[k]; ok {
				for v, w := range m {
					cl.Merged[i][v] += w
				}
				continue
			}
			v, ok := r.Attr[k]
			if !ok {
				v = na
			}
			cl.Merged[i][v] += r.Count
		}
	}
	kept = map[string]*class{}
	for k, cl := range all {
		if noSingleton && cl.Count == 1 {
			dropped++
			continue
		}
		kept[k] = cl
	}
	return kept, dropped, total
}

// ---------------------------------------------------------------- observed records

// outRec is an output record as observed (in-process or parsed from a file).
type outRec struct {
	ID     string
	Seq    string
	Count  int  // value of the count attribute (1 when absent, as documented)
	HasCnt bool // count attribute present
	Attr   map[string]string
	Merged map[string]map[string]int
	Bad    string // non-empty: an annotation that could not be interpreted
}

func renderAny(v any) (string, bool) {
	switch x := v.(type) {
	case string:
		return x, true
	case bool:
		return strconv.FormatBool(x), true
	case int:
		return strconv.Itoa(x), true
	case int64:
		return strconv.FormatInt(x, 10), true
	case float64:
		if x == float64(int64(x)) {
			return strconv.FormatInt(int64(x), 10), true
		}
		return strconv.FormatFloat(x, 'g', -1, 64), true
	case json.Number:
		if i, err := x.Int64(); err == nil {
			return strconv.FormatInt(i, 10), true
		}
		f, err := x.Float64()
		if err == nil && f == float64(int64(f)) {
			return strconv.FormatInt(int64(f), 10), true
		}
		return x.String(), true
	}
	return "", false
}

func intAny(v any) (int, bool) {
	switch x := v.(type) {
	case int:
		return x, true
	case int64:
		return int(x), true
	case float64:
		if x == float64(int(x)) {
			return int(x), true
		}
	case json.Number:
		if i, err := x.Int64(); err == nil {
			return int(i), true
		}
		if f, err := x.Float64(); err == nil && f == float64(int(f)) {
			return int(f), true
		}
	}
	return 0, false
}

func (o outRec) String() string {
	return fmt.Sprintf("{id %s seq %s count %d attrs %v merged %v}", o.ID, o.Seq, o.Count, o.Attr, o.Merged)
}

func sameIntMap(a, b map[string]int) bool {
	if len(a) != len(b) {
		return false
	}
	for k, v := range a {
		if w, ok := b[k]; !ok || w != v {
			return false
		}
	}
	return true
}

func sortedKeys[V any](m map[string]V) []string {
	ks := make([]string, 0, len(m))
	for k := range m {
		ks = append(ks, k)
	}
	sort.Strings(ks)
	return ks
}

func showMap(m map[string]int) string {
	var b strings.Builder
	b.WriteString("{")
	for i, k := range sortedKeys(m) {
		if i > 0 {
			b.WriteString(", ")
		}
		fmt.Fprintf(&b, "%q:%d", k, m[k])
	}
	b.WriteString("}")
	return b.String()
}

// compare judges the observed output against the statement.
//
//	what       names the run in messages
//	checkAgree also requires the annotations all members agree on to survive
func compare(what string, got []outRec, in []inRec, cat, mrg []string, na string, noSingleton bool) error {
	want, dropped, total := reference(in, cat, mrg, na, noSingleton)
	seen := map[string]outRec{}
	sum := 0
	for _, o := range got {
		if o.Bad != "" {
			return fmt.Errorf("%s: output record %s: %s", what, o.ID, o.Bad)
		}
		if strings.ContainsRune(o.Seq, '!') {
			return fmt.Errorf("%s: output record %s carries recycled (poisoned) sequence bytes %q", what, o.ID, o.Seq)
		}
		cv := make([]string, len(cat))
		for i, k := range cat {
			if v, ok := o.Attr[k]; ok {
				cv[i] = v
			} else {
				cv[i] = na
			}
		}
		key := classKey(o.Seq, cv)
		cl, ok := want[key]
		if !ok {
			all, _, _ := reference(in, cat, mrg, na, false)
			if d, isDropped := all[key]; isDropped {
				return fmt.Errorf("%s: output record %v has key (sequence %s, categories %q) whose total count is %d: --no-singleton must drop it",
					what, o, o.Seq, cv, d.Count)
			}
			return fmt.Errorf("%s: output record %v has key (sequence %s, categories %v=%q) which no input record has", what, o, o.Seq, cat, cv)
		}
		if prev, dup := seen[key]; dup {
			return fmt.Errorf("%s: two output records for the key (sequence %s, categories %v=%q): %v and %v (the %d input records with that key must be merged into one record of count %d)",
				what, o.Seq, cat, cv, prev, o, cl.Members, cl.Count)
		}
		seen[key] = o
		sum += o.Count
		if o.Count != cl.Count {
			return fmt.Errorf("%s: key (sequence %s, categories %v=%q): output record %s has count %d, the %d input records with that key have counts summing to %d",
				what, o.Seq, cat, cv, o.ID, o.Count, cl.Members, cl.Count)
		}
		if !o.HasCnt && cl.Count != 1 {
			return fmt.Errorf("%s: output record %s has no count attribute, expected count %d", what, o.ID, cl.Count)
		}
		for i, k := range mrg {
			m, ok := o.Merged[k]
			if !ok {
				return fmt.Errorf("%s: key (sequence %s, categories %v=%q): output record %s has no merged_%s map, expected %s",
					what, o.Seq, cat, cv, o.ID, k, showMap(cl.Merged[i]))
			}
			if !sameIntMap(m, cl.Merged[i]) {
				return fmt.Errorf("%s: key (sequence %s, categories %v=%q): output record %s has merged_%s = %s, the summed weights of the %d input records are %s",
					what, o.Seq, cat, cv, o.ID, k, showMap(m), cl.Members, showMap(cl.Merged[i]))
			}
		}
		if !cl.IDs[o.ID] {
			return fmt.Errorf("%s: output record id %s is not the id of a member of its class (sequence %s, categories %q; members %v)",
				what, o.ID, o.Seq, cv, sortedKeys(cl.IDs))
		}
		for k, v := range cl.Agreed {
			w, ok := o.Attr[k]
			if !ok {
				return fmt.Errorf("%s: output record %v lost annotation %s=%q that all %d members of its class carry with that value", what, o, k, v, cl.Members)
			}
			if w != v {
				return fmt.Errorf("%s: output record %v has annotation %s=%q, all %d members of its class carry %q", what, o, k, w, cl.Members, v)
			}
		}
	}
	for key, cl := range want {
		if _, ok := seen[key]; !ok {
			return fmt.Errorf("%s: no output record for the key (sequence %s, categories %v=%q): %d input records (ids %v) with total count %d are lost (no-singleton=%v)",
				what, cl.Seq, cat, cl.CatVals, cl.Members, sortedKeys(cl.IDs), cl.Count, noSingleton)
		}
	}
	if sum != total-dropped {
		return fmt.Errorf("%s: total count not conserved: Σ output counts = %d, Σ input counts = %d, classes of total count 1 dropped by --no-singleton = %d", what, sum, total, dropped)
	}
	return nil
}

// ---------------------------------------------------------------- case statistics (evidence classes, non-trivial rule)

type stats struct {
	maxMembers      int
	classes         int
	mergeDiffers    bool // a class with >= 2 members contributing different values to a merge attribute
	sharedChunk     bool // in some run a hash chunk holds >= 2 distinct sequences
	singletons      int  // classes of total count 1
	oneMemberBig    int  // classes of one member with count > 1
	explicitNA      bool
	missingCat      bool
	premerged       bool
	countAbsent     bool
	missingAndNAMix bool // a class whose members include both a missing category value and the explicit NA string
}

func (c *Case) stats() stats {
	var s stats
	in := c.inRecs()
	cat, mrg := c.keyNames(c.Cat), c.keyNames(c.Mrg)
	all, _, _ := reference(in, cat, mrg, c.NA, false)
	s.classes = len(all)
	for _, cl := range all {
		s.maxMembers = max(s.maxMembers, cl.Members)
		if cl.Count == 1 {
			s.singletons++
		}
		if cl.Members == 1 && cl.Count > 1 {
			s.oneMemberBig++
		}
		if cl.Members >= 2 {
			for _, m := range cl.Merged {
				if len(m) >= 2 {
					s.mergeDiffers = true
				}
			}
		}
	}
	for _, r := range c.Recs {
		if r.Count == 0 {
			s.countAbsent = true
		}
		for _, k := range c.Cat {
			if !r.Attr[k].present() {
				s.missingCat = true
			} else if r.Attr[k].render() == c.NA {
				s.explicitNA = true
			}
		}
		for _, p := range r.Pre {
			if p != nil {
				s.premerged = true
			}
		}
	}
	if s.missingCat && s.explicitNA {
		// same class?
		type pm struct{ miss, expl bool }
		seen := map[string]*pm{}
		for i, r := range in {
			cv := make([]string, len(cat))
			var miss, expl bool
			for j, k := range cat {
				if v, ok := r.Attr[k]; ok {
					cv[j] = v
					if v == c.NA {
						expl = true
					}
				} else {
					cv[j] = c.NA
					miss = true
				}
			}
			_ = i
			key := classKey(r.Seq, cv)
			if seen[key] == nil {
				seen[key] = &pm{}
			}
			seen[key].miss = seen[key].miss || miss
			seen[key].expl = seen[key].expl || expl
		}
		for _, p := range seen {
			if p.miss && p.expl {
				s.missingAndNAMix = true
			}
		}
	}
	used := map[int]bool{}
	for _, r := range c.Recs {
		used[r.Seq] = true
	}
	for _, run := range c.Runs {
		per := map[uint32]int{}
		for i := range c.Pool {
			if used[i] {
				per[crc32.ChecksumIEEE([]byte(c.Pool[i]))%uint32(max(1, run.Chunks))]++
			}
		}
		for _, n := range per {
			if n >= 2 {
				s.sharedChunk = true
			}
		}
	}
	return s
}
