package c05

import (
	"encoding/json"
	"fmt"
	"os"
	"os/exec"
	"runtime"
	"strings"
	"sync"
	"testing"

	"git.metabarcoding.org/obitools/obitools4/obitools4/pkg/obiseq"
	"pgregory.net/rapid"

	"verifharness/internal/evid"
)

// The mechanism the property names: "annotation maps guarded by a per-sequence mutex".
// One sequence, several goroutines: some take copies of it (Copy - what the tee of a
// stream or a non-inplace pairing do) while another annotates that same sequence
// through the API (SetAttribute, DeleteAttribute, SetCount - what every annotating
// worker does).  The accessors of the annotations take the per-sequence lock so
// that this is safe: every derived object must be a consistent snapshot (the base
// annotations intact, each volatile key either absent or holding one of the values
// it was given), and the process must survive - an unprotected map makes the Go
// runtime kill the whole command ("concurrent map iteration and map write"), which
// no recover can catch: the scenario therefore runs in a child process (the test
// binary re-executed).
//
// Domain decision: only Copy is asserted.  Subsequence and ReverseComplement(false)
// do not take the mutex in the tree as it is pinned (deriving them while another
// goroutine annotates the same object kills the process there too); no command
// shares a sequence between a deriving and an annotating goroutine (each worker
// owns its batch), and neither the statement nor the code promises more than the
// guarded Copy: they are not generated.
type sharedCase struct {
	SeqLen   int    `json:"seq_len"`
	Base     int    `json:"base_keys"`     // annotations present from the start, never touched
	Volatile int    `json:"volatile_keys"` // keys written and deleted by the annotating goroutine
	Writes   int    `json:"writes"`
	Readers  int    `json:"readers"`
	Derive   string `json:"derive"` // copy, subseq, revcomp
	Runs     int    `json:"runs"`
}

func init() {
	evid.Reg("shared", checkShared)
	evid.Tests(evid.Spec{Name: "TestPropSharedSequence", Kind: "rapid", Quick: 24, Thorough: 400, QuickShards: 4, ThoroughShards: 8, TimeoutS: 1200})
	evid.Note("rule_shared", "shared: one sequence (8..200 nt, 1..12 base annotations) is annotated by one goroutine (30000..300000 SetAttribute / DeleteAttribute / SetCount on 1..64 volatile keys) while 1..4 goroutines derive objects from it (Copy); in 3 (thorough 6) child processes. Oracle: the child survives and every derived object holds the base annotations intact and, for each volatile key, nothing or a value that key was given. Non-trivial = at least 2 goroutines deriving and 8 volatile keys.")
}

const sharedEnv = "VERIF_C05_SHARED_CASE"

func TestHelperSharedSequence(t *testing.T) {
	raw := os.Getenv(sharedEnv)
	if raw == "" {
		t.Skip("helper of TestPropSharedSequence")
	}
	var c sharedCase
	if json.Unmarshal([]byte(raw), &c) != nil {
		fmt.Println("SHARED-HARNESS-ERROR")
		return
	}
	if msg := runShared(c); msg != "" {
		fmt.Println("SHARED-VIOLATION", msg)
		return
	}
	fmt.Println("SHARED-OK")
}

func runShared(c sharedCase) string {
	defer runtime.GOMAXPROCS(runtime.GOMAXPROCS(max(4, runtime.NumCPU())))
	nuc := make([]byte, c.SeqLen)
	for i := range nuc {
		nuc[i] = "acgt"[(i*7+i/3)%4]
	}
	seq := obiseq.NewBioSequence("s1", nuc, "")
	for i := 0; i < c.Base; i++ {
		seq.SetAttribute(fmt.Sprintf("base%d", i), 1000+i)
	}
	var wg sync.WaitGroup
	done := make(chan struct{})
	wg.Add(1)
	go func() {
		defer wg.Done()
		defer close(done)
		for i := 0; i < c.Writes; i++ {
			k := fmt.Sprintf("v%d", i%c.Volatile)
			switch i % 5 {
			case 3:
				seq.DeleteAttribute(k)
			case 4:
				seq.SetCount(1 + i%9)
			default:
				seq.SetAttribute(k, i%c.Volatile) // a key only ever holds its own index
			}
		}
	}()
	errs := make([]string, c.Readers)
	for r := 0; r < c.Readers; r++ {
		wg.Add(1)
		go func(r int) {
			defer wg.Done()
			for n := 0; ; n++ {
				select {
				case <-done:
					if n > 0 {
						return
					}
				default:
				}
				var d *obiseq.BioSequence
				switch c.Derive {
				case "subseq":
					d, _ = seq.Subsequence(0, max(1, c.SeqLen/2), false)
				case "revcomp":
					d = seq.ReverseComplement(false)
				default:
					d = seq.Copy()
				}
				if d == nil {
					errs[r] = "a derived object is nil"
					return
				}
				for k, v := range d.Annotations() {
					switch {
					case strings.HasPrefix(k, "base"):
						var i int
						fmt.Sscanf(k, "base%d", &i)
						if fmt.Sprint(v) != fmt.Sprint(1000+i) {
							errs[r] = fmt.Sprintf("derived object %d of goroutine %d: base annotation %s = %v, it was set to %d before the goroutines started", n, r, k, v, 1000+i)
							return
						}
					case strings.HasPrefix(k, "v"):
						var i int
						fmt.Sscanf(k, "v%d", &i)
						if fmt.Sprint(v) != fmt.Sprint(i) {
							errs[r] = fmt.Sprintf("derived object %d of goroutine %d: annotation %s = %v, that key was only ever given the value %d", n, r, k, v, i)
							return
						}
					}
				}
				nb := 0
				for k := range d.Annotations() {
					if strings.HasPrefix(k, "base") {
						nb++
					}
				}
				if nb != c.Base {
					errs[r] = fmt.Sprintf("derived object %d of goroutine %d holds %d of the %d base annotations", n, r, nb, c.Base)
					return
				}
			}
		}(r)
	}
	wg.Wait()
	for _, e := range errs {
		if e != "" {
			return e
		}
	}
	return ""
}

func checkShared(c sharedCase) error {
	raw, err := json.Marshal(c)
	if err != nil {
		return nil
	}
	for r := 0; r < c.Runs; r++ {
		cmd := exec.Command(os.Args[0], "-test.run", "^TestHelperSharedSequence$", "-test.count=1")
		for _, kv := range os.Environ() {
			if !strings.HasPrefix(kv, "VERIF_EVIDENCE_OUT=") && !strings.HasPrefix(kv, "VERIF_FAIL_DIR=") && !strings.HasPrefix(kv, "VERIF_REPLAY_") {
				cmd.Env = append(cmd.Env, kv)
			}
		}
		cmd.Env = append(cmd.Env, sharedEnv+"="+string(raw))
		out, _ := cmd.CombinedOutput()
		s := string(out)
		if os.Getenv("VERIF_SHARED_DEBUG") != "" {
			fmt.Fprintf(os.Stderr, "CHILD OUTPUT (%d bytes): %.600s\n", len(s), s)
		}
		what := fmt.Sprintf("one goroutine annotating a %d nt sequence (%d writes on %d keys) while %d goroutine(s) take %s of it, child process %d of %d", c.SeqLen, c.Writes, c.Volatile, c.Readers, c.Derive, r+1, c.Runs)
		switch {
		case strings.Contains(s, "SHARED-VIOLATION"):
			i := strings.Index(s, "SHARED-VIOLATION")
			line := s[i:]
			if j := strings.IndexByte(line, '\n'); j > 0 {
				line = line[:j]
			}
			return fmt.Errorf("%s: %s", what, strings.TrimPrefix(line, "SHARED-VIOLATION "))
		case strings.Contains(s, "SHARED-OK"):
		case strings.Contains(s, "concurrent map"):
			i := strings.Index(s, "fatal error")
			if i < 0 {
				i = strings.Index(s, "concurrent map")
			}
			return fmt.Errorf("%s: the process was killed by the Go runtime: %s", what, strings.SplitN(s[i:], "\n", 2)[0])
		case strings.Contains(s, "panic:") || strings.Contains(s, "SIGSEGV"):
			i := strings.Index(s, "panic:")
			if i < 0 {
				i = strings.Index(s, "SIGSEGV")
			}
			return fmt.Errorf("%s: the process died: %s", what, strings.SplitN(s[i:], "\n", 2)[0])
		default:
			evid.Class("shared_child_inconclusive", 1)
		}
	}
	return nil
}

func TestPropSharedSequence(t *testing.T) {
	rapid.Check(t, func(rt *rapid.T) {
		c := sharedCase{
			SeqLen:   rapid.SampledFrom([]int{8, 16, 60, 200}).Draw(rt, "seq_len"),
			Base:     rapid.IntRange(1, 12).Draw(rt, "base"),
			Volatile: rapid.SampledFrom([]int{1, 8, 16, 64}).Draw(rt, "volatile"),
			Writes:   rapid.SampledFrom([]int{100000, 30000, 300000}).Draw(rt, "writes"),
			Readers:  rapid.SampledFrom([]int{3, 2, 4, 1}).Draw(rt, "readers"),
			Derive:   "copy",
			Runs:     evid.Pick(3, 6),
		}
		evid.Eval("shared", evid.Hash(fmt.Sprintf("%+v", c)), c.Readers >= 2 && c.Volatile >= 8, c, "shared:"+c.Derive)
		if err := checkShared(c); err != nil {
			evid.Fail(rt, "shared", c, err)
		}
	})
}
