// Property C05 — command output is a function of input and options, not of
// parallelism (--max-cpu, --batch-size, GOMAXPROCS, scheduling); recycling of
// sequence buffers never alters a record still to be output.
//
// All binaries are built with -tags verif: recycled byte slices are poisoned
// with '!' (hook H1) and VERIF_JITTER perturbs batch arrival orders (hook H2).
//
// Domain decisions
//   - obicsv --auto derives its columns "from the first sequences" (i.e. from the
//     first batch): by its own documentation it depends on the batch size; it is
//     not generated.
//   - obisummary / obicount print aggregated values; they are compared as parsed
//     values (JSON object / number lines), not as bytes.
//   - obiuniq, obiclean and other non record-wise commands are C06 / C13.
//   - obisummary --map crashes on every input whatever the parallelism (nil
//     summary dereferenced before the workers start): not a dependence on
//     parallelism, the option is simply not generated.
package c05

import (
	"bytes"
	"encoding/json"
	"fmt"
	"os"
	"path/filepath"
	"reflect"
	"strconv"
	"strings"
	"testing"
	"time"

	"pgregory.net/rapid"

	"verifharness/internal/evid"
	"verifharness/internal/ref"
	"verifharness/internal/run"
)

func TestMain(m *testing.M) {
	evid.Tests(
		evid.Spec{Name: "TestReplay", Kind: "plain", QuickShards: 1, ThoroughShards: 1},
		evid.Spec{Name: "TestPropParallelism", Kind: "rapid", Quick: 720, Thorough: 9600, QuickShards: 16, ThoroughShards: 16},
	)
	evid.Commands("obiconvert", "obigrep", "obiannotate", "obicomplement", "obipairing", "obimultiplex", "obipcr", "obicount", "obisummary", "obicsv")
	evid.Note("rule", "a case = (command, functional options, generated input: FASTA/FASTQ records with annotations; paired reads cut from fragments for obipairing; tagged amplicon reads + sample sheet for obimultiplex; templates with planted priming sites for obipcr) run once with default parallelism and then under 5 generated configurations of --max-cpu {1..32} x --batch-size {1,2,3,7,n/2,n,2000} x GOMAXPROCS {1,2,16} x push jitter on/off x the non-functional options --debug / --no-progressbar x standard error a pseudo-terminal (progress bars drawn) or not x, for a fifth of the single-input cases, the input on standard input, once delivered in two pieces 1.3 s apart; obimultiplex reads include concatemers of 2-4 amplicons, generic inputs carry obiclean-style annotations in a quarter of the cases (always for obisummary) (binaries built with recycled-buffer poisoning). Oracle: stdout (and the -u file of obimultiplex) byte-identical to the baseline run, exit status 0, no poison byte in any sequence line; obisummary/obicount compared as parsed values. Non-trivial = the compared run used >= 2 CPUs and the input holds more records than the batch size (>= 2 batches). Distinct = hash(command, options, input, configuration).")
	evid.Main(m, "C05")
}

func TestReplay(t *testing.T) { evid.Replay(t) }

// ---------------------------------------------------------------- case

type Config struct {
	MaxCPU int  // 0 = option not given
	Batch  int  // 0 = option not given
	Procs  int  // GOMAXPROCS, 0 = unset
	Jitter int  // microseconds, 0 = off
	Debug  bool // --debug: log level only, the output must not change
	NoBar  bool // --no-progressbar
	TTY    bool // the standard error of the command is a (pseudo-)terminal, as for an interactive user: progress bars are drawn
	SlowIn bool // Case.Stdin only: the input arrives in two pieces 1.3 s apart (a slow producer at the other end of the pipe)
}

type Case struct {
	Tool     string
	Opts     []string
	N        int
	SeqLen   int
	Salt     int
	Fastq    bool
	Genome   int  // > 0: the input is three FASTA records, the middle one of this many nucleotides
	Stdin    bool // the input file is given on standard input (every run of the case, baseline included)
	Chimeras bool // obimultiplex: some reads are concatemers of two to four amplicons
	Cleaned  bool // the records carry the annotations obiclean writes (merged_sample, obiclean_status, obiclean_weight, ...)
	Configs  []Config
}

func init() { evid.Reg("parallelism", checkCase) }

// ---------------------------------------------------------------- inputs

type lcg uint32

func (x *lcg) next() uint32 { *x = *x*1664525 + 1013904223; return uint32(*x) >> 8 }

func randSeq(x *lcg, n int, alphabet string) string {
	b := make([]byte, n)
	for i := range b {
		b[i] = alphabet[int(x.next())%len(alphabet)]
	}
	return string(b)
}

func fq(id, title, s string, x *lcg) string {
	q := make([]byte, len(s))
	for i := range q {
		q[i] = byte(34 + x.next()%40) // never '!'
	}
	if title != "" {
		title = " " + title
	}
	return "@" + id + title + "\n" + s + "\n+\n" + string(q) + "\n"
}

func fa(id, title, s string) string {
	if title != "" {
		title = " " + title
	}
	return ">" + id + title + "\n" + s + "\n"
}

const fwdPrimer = "ttagataccccactatgc"
const revPrimer = "tagaacaggctcctctag"

var tags = []string{"aattaac", "gaagtag", "gaatatc", "gcctcct"}

// writeInputs creates the input files of the case and returns the command line arguments naming them.
func writeInputs(c Case, dir string) ([]string, []string, int) {
	x := lcg(c.Salt*7919 + 17)
	n := c.N
	switch c.Tool {
	case "obipairing":
		var f, r strings.Builder
		for i := 0; i < n; i++ {
			fl := c.SeqLen + int(x.next()%40)
			frag := randSeq(&x, fl, "acgt")
			rl := fl*2/3 + int(x.next()%10)
			a := frag[:min(fl, rl)]
			b := ref.RevComp(frag)[:min(fl, rl)]
			if x.next()%7 == 0 && len(a) > 10 { // a sequencing error
				p := int(x.next()) % len(a)
				a = a[:p] + string("acgt"[x.next()%4]) + a[p+1:]
			}
			if x.next()%11 == 0 { // unrelated mate
				b = randSeq(&x, len(b), "acgt")
			}
			id := fmt.Sprintf("p%d", i)
			f.WriteString(fq(id, "", a, &x))
			r.WriteString(fq(id, "", b, &x))
		}
		fp, rp := filepath.Join(dir, "fwd.fastq"), filepath.Join(dir, "rev.fastq")
		os.WriteFile(fp, []byte(f.String()), 0o644)
		os.WriteFile(rp, []byte(r.String()), 0o644)
		return []string{"-F", fp, "-R", rp}, nil, n
	case "obimultiplex":
		var sheet strings.Builder
		for i, t := range tags {
			fmt.Fprintf(&sheet, "exp\tsample%d\t%s\t%s\t%s\tF\t@\n", i, t, fwdPrimer, revPrimer)
		}
		sp := filepath.Join(dir, "sheet.txt")
		os.WriteFile(sp, []byte(sheet.String()), 0o644)
		var b strings.Builder
		for i := 0; i < n; i++ {
			t := tags[int(x.next())%len(tags)]
			bar := randSeq(&x, 20+int(x.next()%40), "acgt")
			read := randSeq(&x, int(x.next()%5), "acgt") + t + fwdPrimer + bar + ref.RevComp(revPrimer) + ref.RevComp(t) + randSeq(&x, int(x.next()%5), "acgt")
			if c.Chimeras && x.next()%4 == 0 {
				// a concatemer: several amplicons (any samples) in one read
				for k := 1 + int(x.next()%3); k > 0; k-- {
					t2 := tags[int(x.next())%len(tags)]
					unit := t2 + fwdPrimer + randSeq(&x, 20+int(x.next()%40), "acgt") + ref.RevComp(revPrimer) + ref.RevComp(t2)
					if x.next()%3 == 0 {
						unit = ref.RevComp(unit)
					}
					read += randSeq(&x, int(x.next()%6), "acgt") + unit
				}
			}
			switch x.next() % 6 {
			case 0:
				read = ref.RevComp(read)
			case 1:
				read = randSeq(&x, 60, "acgt") // no priming site
			case 2:
				read = "ccccccc" + read[7:] // unknown tag
			}
			id := fmt.Sprintf("m%d", i)
			if c.Fastq {
				b.WriteString(fq(id, "", read, &x))
			} else {
				b.WriteString(fa(id, "", read))
			}
		}
		ip := filepath.Join(dir, "reads."+ext(c))
		os.WriteFile(ip, []byte(b.String()), 0o644)
		up := filepath.Join(dir, "unidentified."+ext(c))
		return []string{"-t", sp, "-u", up, ip}, []string{up}, n
	case "obipcr":
		var b strings.Builder
		for i := 0; i < n; i++ {
			tpl := randSeq(&x, c.SeqLen+int(x.next()%100), "acgt")
			nsites := int(x.next() % 3)
			if n >= 2000 && i > n/5 && i < 4*n/5 {
				nsites = 0 // a long stretch of templates without amplicon: whole reading chunks yield empty batches
			}
			for k := nsites; k > 0; k-- {
				bar := randSeq(&x, 15+int(x.next()%60), "acgt")
				site := fwdPrimer + bar + ref.RevComp(revPrimer)
				if x.next()%2 == 0 {
					site = ref.RevComp(site)
				}
				p := int(x.next()) % (len(tpl) + 1)
				tpl = tpl[:p] + site + tpl[p:]
			}
			b.WriteString(fa(fmt.Sprintf("t%d", i), fmt.Sprintf(`{"k":%d}`, i%5), tpl))
		}
		ip := filepath.Join(dir, "templates.fasta")
		os.WriteFile(ip, []byte(b.String()), 0o644)
		return []string{"--forward", fwdPrimer, "--reverse", revPrimer, ip}, nil, n
	}
	var b strings.Builder
	if c.Genome > 0 {
		// a few records, one of them a whole chromosome: single sequences larger than every buffer and threshold
		for i := 0; i < 3; i++ {
			l := 200 + int(x.next()%300)
			if i == 1 {
				l = c.Genome
			}
			b.WriteString(fa(fmt.Sprintf("g%d", i), fmt.Sprintf(`{"k":%d}`, i), randSeq(&x, l, "acgt")))
		}
		ip := filepath.Join(dir, "genome.fasta")
		os.WriteFile(ip, []byte(b.String()), 0o644)
		return []string{ip}, nil, 3
	}
	for i := 0; i < n; i++ {
		s := randSeq(&x, c.SeqLen+int(x.next()%50), "acgtACGT")
		extra := ""
		if n >= 2000 { // many attributes on the large inputs: more work (and more shared scratch state, if any) per record
			for a := 0; a < 10; a++ {
				extra += fmt.Sprintf(`,"a%d":%d`, a, (i*7+a)%13)
			}
		}
		if c.Cleaned {
			// what obiclean leaves on its output: per-sample counts, status and weight
			c1, c2 := 1+int(x.next()%40), int(x.next()%9)
			st := []string{"h", "i", "s"}
			s1, s2 := st[x.next()%3], st[x.next()%3]
			extra += fmt.Sprintf(`,"merged_sample":{"sa":%d,"sb":%d},"obiclean_status":{"sa":"%s","sb":"%s"},"obiclean_weight":{"sa":%d,"sb":%d},"obiclean_head":%v,"obiclean_headcount":%d,"obiclean_internalcount":%d,"obiclean_singletoncount":%d,"obiclean_samplecount":2`,
				c1, c2+1, s1, s2, c1+int(x.next()%5), c2+1, s1 != "i" || s2 != "i", b2i(s1 == "h")+b2i(s2 == "h"), b2i(s1 == "i")+b2i(s2 == "i"), b2i(s1 == "s")+b2i(s2 == "s"))
		}
		title := fmt.Sprintf(`{"count":%d,"k":%d,"label":"x %d","m":{"a":%d,"b":2}%s} some definition %d`, 1+x.next()%5, i%5, i, i%3, extra, i)
		id := fmt.Sprintf("s%d", i)
		if c.Fastq {
			b.WriteString(fq(id, title, s, &x))
		} else {
			b.WriteString(fa(id, title, s))
		}
	}
	ip := filepath.Join(dir, "in."+ext(c))
	os.WriteFile(ip, []byte(b.String()), 0o644)
	return []string{ip}, nil, n
}

func b2i(b bool) int {
	if b {
		return 1
	}
	return 0
}

func ext(c Case) string {
	if c.Fastq {
		return "fastq"
	}
	return "fasta"
}

// ---------------------------------------------------------------- running

type output struct {
	stdout []byte
	files  [][]byte
}

func runOnce(c Case, cfg Config, inArgs, outFiles []string) (output, run.Result) {
	var args []string
	if cfg.MaxCPU > 0 {
		args = append(args, "--max-cpu", strconv.Itoa(cfg.MaxCPU))
	}
	if cfg.Batch > 0 {
		args = append(args, "--batch-size", strconv.Itoa(cfg.Batch))
	}
	if cfg.Debug {
		args = append(args, "--debug")
	}
	if cfg.NoBar && c.Tool != "obicount" && c.Tool != "obisummary" { // these two have no such option
		args = append(args, "--no-progressbar")
	}
	args = append(args, c.Opts...)
	args = append(args, inArgs...)
	var env []string
	if cfg.Procs > 0 {
		env = append(env, "GOMAXPROCS="+strconv.Itoa(cfg.Procs))
	}
	if cfg.Jitter > 0 {
		env = append(env, fmt.Sprintf("VERIF_JITTER=%d:%d", cfg.Jitter*13+5, cfg.Jitter))
	}
	for _, f := range outFiles {
		os.Remove(f)
	}
	opt := run.Opt{Env: env, StderrTTY: cfg.TTY}
	if c.Stdin && len(inArgs) >= 1 {
		// (the input file is the last argument; --batch-size cuts the batches of the standard
		// input reader only: a file is cut into batches by the 1 MiB reading chunks)
		data, err := os.ReadFile(inArgs[len(inArgs)-1])
		if err != nil {
			return output{}, run.Result{NoTTY: true, Exit: -1}
		}
		args = args[:len(args)-1]
		opt.Stdin = data
		if cfg.SlowIn {
			opt.StdinPieces, opt.StdinPause = 2, 1300*time.Millisecond
		}
	}
	res := run.Cmd(opt, c.Tool, args...)
	out := output{stdout: res.Stdout}
	for _, f := range outFiles {
		b, _ := os.ReadFile(f)
		out.files = append(out.files, b)
	}
	return out, res
}

func parsedEqual(tool string, a, b []byte) (bool, string) {
	switch tool {
	case "obisummary":
		var x, y any
		if json.Unmarshal(a, &x) != nil || json.Unmarshal(b, &y) != nil {
			return bytes.Equal(a, b), "not JSON; compared as bytes"
		}
		return reflect.DeepEqual(x, y), ""
	case "obicount":
		return strings.Join(strings.Fields(string(a)), " ") == strings.Join(strings.Fields(string(b)), " "), ""
	}
	return bytes.Equal(a, b), ""
}

func poisoned(data []byte) string {
	lines := bytes.Split(data, []byte("\n"))
	for i, l := range lines {
		if len(l) == 0 {
			continue
		}
		isSeqLine := false
		switch {
		case l[0] == '>' || l[0] == '@' || l[0] == '+' || l[0] == '{' || l[0] == '[' || l[0] == ']' || l[0] == ' ' || l[0] == '"':
		default:
			// a sequence line of FASTA, or the line following a FASTQ title
			if i > 0 && len(lines[i-1]) > 0 && (lines[i-1][0] == '>' || lines[i-1][0] == '@') {
				isSeqLine = true
			}
		}
		if isSeqLine && bytes.IndexByte(l, '!') >= 0 {
			return string(l)
		}
	}
	return ""
}

func firstDiff(a, b []byte) string {
	n := min(len(a), len(b))
	d := n
	for i := 0; i < n; i++ {
		if a[i] != b[i] {
			d = i
			break
		}
	}
	lo := max(0, d-100)
	return fmt.Sprintf("first difference at byte %d (lengths %d / %d)\n this run: %q\n baseline: %q", d, len(a), len(b), a[lo:min(len(a), d+100)], b[lo:min(len(b), d+100)])
}

func checkCase(c Case) error {
	dir, err := os.MkdirTemp(run.WorkDir(), "c05")
	if err != nil {
		return nil
	}
	defer os.RemoveAll(dir)
	inArgs, outFiles, _ := writeInputs(c, dir)
	base, res := runOnce(c, Config{}, inArgs, outFiles)
	if res.Inconclusive() {
		evid.Class("inconclusive_run", 1)
		return nil
	}
	what := fmt.Sprintf("%s %v (n=%d)", c.Tool, c.Opts, c.N)
	if res.Exit != 0 {
		return fmt.Errorf("%s: baseline run exits %d: %s", what, res.Exit, tail(res.Stderr))
	}
	if p := poisoned(base.stdout); p != "" {
		return fmt.Errorf("%s: baseline output carries recycled (poisoned) bytes in a sequence line: %q", what, p)
	}
	for _, cfg := range c.Configs {
		out, r := runOnce(c, cfg, inArgs, outFiles)
		if r.Inconclusive() {
			evid.Class("inconclusive_run", 1)
			continue
		}
		if r.Exit != 0 {
			return fmt.Errorf("%s with %+v exits %d (default configuration exits 0): %s", what, cfg, r.Exit, tail(r.Stderr))
		}
		if ok, _ := parsedEqual(c.Tool, out.stdout, base.stdout); !ok {
			return fmt.Errorf("%s: output with %+v differs from the default configuration: %s", what, cfg, firstDiff(out.stdout, base.stdout))
		}
		for i := range out.files {
			if !bytes.Equal(out.files[i], base.files[i]) {
				return fmt.Errorf("%s: file %s with %+v differs from the default configuration: %s", what, filepath.Base(outFiles[i]), cfg, firstDiff(out.files[i], base.files[i]))
			}
			if p := poisoned(out.files[i]); p != "" {
				return fmt.Errorf("%s with %+v: file %s carries recycled (poisoned) bytes: %q", what, cfg, filepath.Base(outFiles[i]), p)
			}
		}
		if p := poisoned(out.stdout); p != "" {
			return fmt.Errorf("%s with %+v: output carries recycled (poisoned) bytes in a sequence line: %q", what, cfg, p)
		}
	}
	return nil
}

func tail(b []byte) string {
	s := string(b)
	head := ""
	for _, marker := range []string{"panic:", "fatal error:", "level=fatal", "level=panic", "level=error"} {
		if i := strings.Index(s, marker); i >= 0 {
			head = s[i:min(len(s), i+1200)] + "\n...\n"
			break
		}
	}
	if len(s) > 300 {
		s = s[len(s)-300:]
	}
	return strings.TrimSpace(head + s)
}

// ---------------------------------------------------------------- generator

var toolOpts = map[string][][]string{
	"obiconvert":    {{}, {"--fasta-output"}, {"--json-output"}, {"--fastq-output"}},
	"obigrep":       {{"-l", "40"}, {"-L", "60"}, {"-c", "3"}, {"-s", "acg[acgt]t"}, {"-a", "k=[0-2]"}, {"-l", "30", "-v"}, {"-A", "label", "-l", "45"}},
	"obiannotate":   {{"--length"}, {"--delete-tag", "k"}, {"--clear"}, {"--length", "--delete-tag", "label"}, {"-k", "count"}, {"-k", "count", "-k", "label"}, {"-R", "k=kk", "--delete-tag", "m"}, {"-S", "twice=annotations.count * 2"}},
	"obicomplement": {{}},
	"obipairing":    {{}, {"--exact-mode"}, {"--fast-absolute"}, {"--min-overlap", "10"}, {"-S"}},
	"obimultiplex":  {{"-e", "2"}, {"-e", "0"}, {"-e", "2", "--keep-errors"}},
	"obipcr":        {{"-e", "2", "-l", "5", "-L", "300"}, {"-e", "0", "-L", "200"}, {"-e", "1", "-L", "300", "-c"}, {"-e", "2", "-L", "300", "-D", "10"}},
	"obicount":      {{}, {"-v"}, {"-r"}, {"-s"}},
	"obisummary":    {{}},
	"obicsv":        {{"-i", "-s"}, {"-i", "-s", "--count", "-k", "k"}, {"-i", "-d", "-k", "label", "-k", "count"}},
}

var tools = []string{"obiconvert", "obigrep", "obiannotate", "obicomplement", "obipairing", "obimultiplex", "obipcr", "obicount", "obisummary", "obicsv", "obipairing", "obimultiplex", "obipcr"}

func TestPropParallelism(t *testing.T) {
	rapid.Check(t, func(rt *rapid.T) {
		var c Case
		c.Tool = rapid.SampledFrom(tools).Draw(rt, "tool")
		c.Opts = rapid.SampledFrom(toolOpts[c.Tool]).Draw(rt, "opts")
		c.N = rapid.SampledFrom([]int{1, 2, 3, 8, 20, 50, 120, 300, 700}).Draw(rt, "n")
		c.SeqLen = rapid.IntRange(30, 120).Draw(rt, "seqlen")
		c.Salt = rapid.IntRange(0, 100000).Draw(rt, "salt")
		c.Fastq = rapid.Bool().Draw(rt, "fastq")
		if c.Tool == "obipairing" {
			c.Fastq = true
		}
		if c.Tool == "obipcr" {
			c.Fastq = false
			c.SeqLen = rapid.IntRange(100, 500).Draw(rt, "tpllen")
			c.N = min(c.N, 300)
			if rapid.IntRange(0, 5).Draw(rt, "pcr_large") == 0 {
				// several MiB of templates (several 1 MiB reading chunks), amplicons only at both ends
				c.N, c.SeqLen = rapid.IntRange(3000, 5000).Draw(rt, "pcr_n"), rapid.IntRange(900, 1200).Draw(rt, "pcr_len")
			}
		} else if (c.Tool == "obicomplement" || c.Tool == "obiconvert" || c.Tool == "obigrep" || c.Tool == "obicount") && rapid.IntRange(0, 3).Draw(rt, "genome") == 0 {
			c.Genome = rapid.IntRange(1050000, 3300000).Draw(rt, "genome_len")
			c.Fastq = false
			if len(c.Opts) > 0 && c.Opts[0] == "--fastq-output" {
				c.Opts = []string{}
			}
		} else if c.Tool == "obiannotate" && rapid.IntRange(0, 2).Draw(rt, "annotate_large") == 0 {
			// the edit workers run as one closure shared by all worker goroutines: give them many batches at once
			c.N = rapid.IntRange(15000, 25000).Draw(rt, "annotate_n")
		} else if c.Tool != "obipairing" && c.Tool != "obimultiplex" && rapid.IntRange(0, 7).Draw(rt, "large") == 0 {
			c.N = rapid.IntRange(3000, 9000).Draw(rt, "large_n") // hundreds of batches in flight
		}
		if len(c.Opts) > 0 && c.Opts[0] == "--fastq-output" && !c.Fastq {
			c.Opts = []string{}
		}
		c.Chimeras = c.Tool == "obimultiplex" && rapid.Bool().Draw(rt, "chimeras")
		generic := c.Tool != "obipairing" && c.Tool != "obimultiplex" && c.Tool != "obipcr"
		c.Cleaned = generic && c.Genome == 0 && c.N < 2000 && (c.Tool == "obisummary" || rapid.IntRange(0, 3).Draw(rt, "cleaned") == 0)
		c.Stdin = c.Tool != "obipairing" && c.Genome == 0 && c.N < 2000 && rapid.IntRange(0, 4).Draw(rt, "stdin") <= b2i(!generic)
		nontrivial := false
		for i := 0; i < 5; i++ {
			cfg := Config{
				MaxCPU: rapid.SampledFrom([]int{0, 1, 2, 3, 4, 8, 16, 32}).Draw(rt, "maxcpu"),
				Batch:  rapid.SampledFrom([]int{0, 1, 2, 3, 7, max(1, c.N/2), c.N, 2000}).Draw(rt, "batch"),
				Procs:  rapid.SampledFrom([]int{0, 0, 1, 2, 16}).Draw(rt, "gomaxprocs"),
				Jitter: rapid.SampledFrom([]int{0, 0, 100, 1000}).Draw(rt, "jitter"),
				Debug:  rapid.IntRange(0, 5).Draw(rt, "debug") == 0,
				NoBar:  rapid.IntRange(0, 5).Draw(rt, "nobar") == 0,
			}
			cfg.TTY = rapid.IntRange(0, 5).Draw(rt, "tty") == 0
			if c.Stdin && i == 0 && generic {
				// the input dribbles in while the user watches the progress bar
				cfg.SlowIn, cfg.TTY = true, rapid.IntRange(0, 3).Draw(rt, "slow_tty") != 0
			}
			if c.N >= 300 && cfg.Batch > 0 && cfg.Batch < 3 {
				cfg.Batch = 7 // one-record batches on large inputs only cost time
			}
			if c.N >= 2000 && cfg.Batch > 0 && cfg.Batch < 20 {
				cfg.Batch = 20
			}
			c.Configs = append(c.Configs, cfg)
			if cfg.MaxCPU != 1 && cfg.Procs != 1 && cfg.Batch > 0 && cfg.Batch < c.N {
				nontrivial = true
			}
		}
		cl := []string{"tool:" + c.Tool}
		if c.Fastq {
			cl = append(cl, "fastq_input")
		}
		if c.N >= 120 {
			cl = append(cl, "n>=120")
		}
		if c.N >= 2000 {
			cl = append(cl, "n>=2000_many_batches_or_chunks")
		}
		if c.Genome > 0 {
			cl = append(cl, "one_record_longer_than_1MiB")
		}
		if c.Chimeras {
			cl = append(cl, "multiplex_concatemers")
		}
		if c.Cleaned {
			cl = append(cl, "obiclean_annotated_input")
		}
		if c.Stdin {
			cl = append(cl, "input_on_stdin")
		}
		_ = nontrivial
		for i, cfg := range c.Configs {
			// one evaluation per compared run (baseline vs this configuration)
			nt := cfg.MaxCPU != 1 && cfg.Procs != 1 && cfg.Batch > 0 && cfg.Batch < c.N
			var sample any
			if i == 0 {
				sample = c
			}
			ccl := cl
			if cfg.TTY {
				ccl = append(append([]string{}, cl...), "stderr_is_a_terminal")
			}
			if cfg.SlowIn {
				ccl = append(append([]string{}, ccl...), "slow_stdin")
			}
			evid.Eval("parallelism", evid.Hash(fmt.Sprintf("%+v|%+v", c, cfg)), nt, sample, ccl...)
		}
		if err := checkCase(c); err != nil {
			evid.Fail(rt, "parallelism", c, err)
		}
	})
}
