package c08dbg
import ("testing";"fmt"
 "git.metabarcoding.org/obitools/obitools4/obitools4/pkg/obialign"
 "git.metabarcoding.org/obitools/obitools4/obitools4/pkg/obitools/obipairing"
 "git.metabarcoding.org/obitools/obitools4/obitools4/pkg/obiseq")
func mk(s string) *obiseq.BioSequence { b:=obiseq.NewBioSequence("x",[]byte(s),""); q:=make([]byte,len(s)); for i:=range q {q[i]=40}; b.SetQualities(q); return b}
func TestD(t *testing.T){
  A:="ccggccggaa"+"acgtgcatcgatgactagct"+"ttt"+"acgtg"+"a"
  B:="acgtgcatcgatgactagct"
  for _,rel:=range []bool{true,false}{
  sh:=map[int]int{}
  ar:=obialign.MakePEAlignArena(50,50)
  fmt.Println(obialign.PEAlign(mk(A),mk(B),0.5,0.5,true,5,rel,ar,&sh))
  c:=obipairing.AssemblePESequences(mk(A),mk(B),0.5,0.5,5,10,0.9,true,false,true,rel,ar,&sh)
  fmt.Println(c.String(), c.Annotations())
  }
  sh:=map[int]int{}
  ar:=obialign.MakePEAlignArena(50,50)
  fmt.Println(obialign.PEAlign(mk(A),mk(B),0.5,0.5,false,5,true,ar,&sh))
}
