package c02

import (
	"encoding/json"
	"fmt"
	"strings"
	"testing"

	"pgregory.net/rapid"

	"verifharness/internal/evid"
	"verifharness/internal/gen"
)

// Generators of title lines for oracle (c).  A title is what the sequence
// readers hand to the header parser: the rest of the title line after the
// identifier and the blanks that follow it (so it never starts with a blank and
// never holds a line break).

func ws(t *rapid.T) string {
	return rapid.SampledFrom([]string{"", "", "", " ", "  ", "\t"}).Draw(t, "ws")
}

// jsonString writes s as a JSON string literal, choosing among the equivalent
// spellings of each character (raw, \uXXXX, short escapes, surrogate pairs).
func jsonString(t *rapid.T, s string) string {
	var sb strings.Builder
	sb.WriteByte('"')
	for _, r := range s {
		how := rapid.IntRange(0, 9).Draw(t, "esc")
		switch {
		case r == '"' || r == '\\':
			if how == 0 {
				fmt.Fprintf(&sb, `\u%04x`, r)
			} else {
				sb.WriteByte('\\')
				sb.WriteRune(r)
			}
		case r == '/' && how < 3:
			sb.WriteString(`\/`)
		case how == 0 && r <= 0xffff:
			fmt.Fprintf(&sb, `\u%04X`, r)
		case how == 0 && r > 0xffff:
			r2 := r - 0x10000
			fmt.Fprintf(&sb, `\u%04x\u%04x`, 0xd800+(r2>>10), 0xdc00+(r2&0x3ff))
		default:
			sb.WriteRune(r)
		}
	}
	// now and then an escaped control character (the decoded value then holds it)
	if rapid.IntRange(0, 15).Draw(t, "ctl") == 0 {
		sb.WriteString(rapid.SampledFrom([]string{`\n`, `\t`, `\r`, `\b`, `\f`, `\u0000`, `\u001f`, `\u007f`}).Draw(t, "ctlesc"))
	}
	sb.WriteByte('"')
	return sb.String()
}

var numberSpellings = []string{"0", "-0", "1", "-1", "12", "1.0", "1.50", "-2.25", "1e3", "1E3", "1e+2", "1E-2", "0.0", "0.000001", "1e-7",
	"9007199254740992", "9007199254740993", "-9007199254740993", "12345678901234567890", "1e21", "1e22", "123456789.123456789", "1e308", "1e400", "4.9e-324", "2.5e-324"}

func jsonValue(t *rapid.T, depth int) string {
	k := rapid.IntRange(0, 9).Draw(t, "jkind")
	if depth <= 0 && k >= 7 {
		k = k % 7
	}
	switch k {
	case 0, 1, 2:
		return jsonString(t, gen.Text(t, "js", 8))
	case 3:
		return rapid.SampledFrom(numberSpellings).Draw(t, "jnum")
	case 4:
		return fmt.Sprint(gen.Int(t, "jint"))
	case 5:
		b, _ := json.Marshal(gen.Float(t, "jfloat"))
		return string(b)
	case 6:
		return rapid.SampledFrom([]string{"true", "false"}).Draw(t, "jbool")
	case 7, 8:
		return jsonObject(t, depth-1)
	default:
		n := rapid.IntRange(0, 3).Draw(t, "jarrn")
		parts := make([]string, n)
		for i := range parts {
			parts[i] = ws(t) + jsonValue(t, depth-1) + ws(t)
		}
		return "[" + strings.Join(parts, ",") + "]"
	}
}

func jsonObject(t *rapid.T, depth int) string {
	n := rapid.IntRange(0, 4).Draw(t, "jobjn")
	parts := make([]string, 0, n)
	var keys []string
	for i := 0; i < n; i++ {
		var key string
		switch m := rapid.IntRange(0, 11).Draw(t, "jkeymode"); {
		case m == 0 && len(keys) > 0:
			key = keys[rapid.IntRange(0, len(keys)-1).Draw(t, "jdup")] // duplicate key
		case m == 1:
			key = rapid.SampledFrom([]string{"definition", "id", "sequence", "qualities", "count", ""}).Draw(t, "jreserved")
		default:
			key = gen.Key(t, "jkey", true)
		}
		keys = append(keys, key)
		parts = append(parts, ws(t)+jsonString(t, key)+ws(t)+":"+ws(t)+jsonValue(t, depth)+ws(t))
	}
	body := strings.Join(parts, ",")
	if n == 0 {
		body = ws(t)
	}
	return "{" + body + "}"
}

func obiValue(t *rapid.T) string {
	switch rapid.IntRange(0, 8).Draw(t, "okind") {
	case 0:
		return rapid.SampledFrom(numberSpellings).Draw(t, "onum")
	case 1:
		return fmt.Sprint(gen.Int(t, "oint"))
	case 2:
		return rapid.SampledFrom([]string{"True", "False", "true", "false", "T", "F", "TRUE", "t"}).Draw(t, "obool")
	case 3:
		q := rapid.SampledFrom([]string{"'", `"`}).Draw(t, "oq")
		return q + strings.NewReplacer(";", ",", q, "").Replace(gen.Text(t, "ostr", 8)) + q
	case 4, 5:
		n := rapid.IntRange(0, 3).Draw(t, "odictn")
		parts := make([]string, n)
		for i := range parts {
			v := fmt.Sprint(rapid.IntRange(0, 500).Draw(t, "odictv"))
			if rapid.IntRange(0, 3).Draw(t, "odicts") == 0 {
				v = "'" + strings.NewReplacer("'", "", `"`, "", `\`, "").Replace(gen.Text(t, "odictsv", 5)) + "'"
			}
			parts[i] = "'" + gen.Key(t, "odictk", false) + "':" + ws(t) + v
		}
		return "{" + strings.Join(parts, ","+ws(t)) + "}"
	case 6:
		return jsonObject(t, 1)
	default:
		return strings.ReplaceAll(gen.Text(t, "oword", 8), ";", "")
	}
}

func obiTitle(t *rapid.T) string {
	n := rapid.IntRange(1, 4).Draw(t, "on")
	var sb strings.Builder
	for i := 0; i < n; i++ {
		key := gen.Key(t, "okey", false)
		if rapid.IntRange(0, 9).Draw(t, "oreserved") == 0 {
			key = rapid.SampledFrom([]string{"definition", "id", "count", "merged_sample", "obiclean_status", "x_count"}).Draw(t, "oreservedkey")
		}
		sb.WriteString(key + ws(t) + "=" + ws(t) + obiValue(t) + ws(t) + ";" + rapid.SampledFrom([]string{" ", "", "  "}).Draw(t, "osep"))
	}
	if rapid.Bool().Draw(t, "otrail") {
		sb.WriteString(gen.Text(t, "odef", 12))
	}
	return sb.String()
}

func mutate(t *rapid.T, s string) string {
	k := rapid.IntRange(1, 3).Draw(t, "nmut")
	r := []rune(s)
	toks := []string{`"`, `\`, `{`, `}`, `\"`, `"}`, `{"`, `,`, `:`, ` `, `[`, `]`, `a`}
	for i := 0; i < k; i++ {
		switch rapid.IntRange(0, 2).Draw(t, "mutkind") {
		case 0: // delete
			if len(r) > 0 {
				p := rapid.IntRange(0, len(r)-1).Draw(t, "mutpos")
				r = append(r[:p], r[p+1:]...)
			}
		case 1: // insert
			p := rapid.IntRange(0, len(r)).Draw(t, "mutpos")
			ins := []rune(rapid.SampledFrom(toks).Draw(t, "muttok"))
			r = append(r[:p], append(ins, r[p:]...)...)
		default: // truncate
			if len(r) > 0 {
				r = r[:rapid.IntRange(0, len(r)-1).Draw(t, "mutcut")]
			}
		}
	}
	return string(r)
}

// cleanTitle enforces the shape the readers deliver: no line break or other
// control character but the tab, no leading blank.
func cleanTitle(s string) string {
	s = strings.Map(func(r rune) rune {
		if r == '\t' {
			return r
		}
		if r < 0x20 || (r >= 0x7f && r <= 0x9f) {
			return -1
		}
		return r
	}, s)
	return strings.TrimLeft(s, " \t")
}

func genTitle(t *rapid.T) (string, int) {
	mode := rapid.IntRange(0, 7).Draw(t, "title_mode")
	var s string
	switch mode {
	case 0, 1: // JSON object, optional trailing definition
		s = jsonObject(t, 2)
		if rapid.Bool().Draw(t, "trail") {
			s += rapid.SampledFrom([]string{" ", "", "  "}).Draw(t, "trailsep") + gen.Text(t, "trailtxt", 12)
		}
	case 2: // text before the object
		s = gen.Text(t, "prefix", 6) + " " + jsonObject(t, 1) + " " + gen.Text(t, "trailtxt", 6)
	case 3, 4:
		s = obiTitle(t)
	case 5:
		s = gen.Text(t, "free", 30)
	case 6: // a title as the toolkit's users write them (encoding/json), damaged
		r := gen.Record(t, "mr", gen.RecordOpt{HostileKeys: true, MaxLen: 1})
		title, _ := harnessTitle(r, rapid.Bool().Draw(t, "mtrail"))
		s = mutate(t, title)
	default: // two objects / object followed by hostile text
		s = jsonObject(t, 1) + ws(t) + rapid.SampledFrom([]string{`{`, `}`, `"`, `{"a":1}`, `\"}`, `} {`, `"{`}).Draw(t, "second") + gen.Text(t, "trailtxt", 6)
	}
	return cleanTitle(s), mode
}

func TestPropTitle(t *testing.T) {
	rapid.Check(t, func(rt *rapid.T) {
		var c titleCase
		var mode int
		c.Title, mode = genTitle(rt)
		c.Parser = rapid.SampledFrom([]string{"json", "guessed"}).Draw(rt, "parser")
		c.Format = rapid.SampledFrom([]string{"fasta", "fasta", "fastq"}).Draw(rt, "format")
		accepted, nAnnot, def, how := titleAccepted(c)
		nontrivial := accepted && (nAnnot > 0 || strings.ContainsAny(def, markers))
		labels := []string{fmt.Sprintf("title_mode:%d", mode), "title_" + how, "title_parser:" + c.Parser}
		if accepted {
			if nAnnot > 0 {
				labels = append(labels, "title_accepted_with_annotations")
			}
			if def != "" {
				labels = append(labels, "title_accepted_with_definition")
			}
			if nAnnot > 0 && def != "" {
				labels = append(labels, "title_accepted_annotations+definition")
			}
			if !strings.HasPrefix(c.Title, "{") && nAnnot > 0 {
				labels = append(labels, "title_accepted_obi_or_prefixed")
			}
		}
		evid.Eval("title", caseKey(c), nontrivial, c, labels...)
		if err := checkTitle(c); err != nil {
			evid.Fail(rt, "title", c, err)
		}
	})
}
