package c02

import (
	"strings"
	"testing"
	"unicode/utf8"

	"verifharness/internal/evid"
)

// Native coverage-guided fuzzing of oracle (c): for any title line the header
// parser accepts, parse∘format∘parse = parse.  Thorough tier only.  The bytes
// are brought into the domain of the rapid generator (cleanTitle: what a reader
// can deliver as a title) and the value grammar of the property (no null, no
// \u escapes that can form lone surrogates).
func FuzzTitle(f *testing.F) {
	for _, s := range []string{
		`{"count":3,"note":"a\"b}"} a definition`,
		`{"a":{"b":1,"c":2},"l":[1,2,3],"s":"x;y=z>@"} def`,
		`count=3; merged_sample={'a':1,'b':2}; text`,
		`{"k":"v"} {"second":1}`,
		`free text with } and { and "`,
		`{"x":1.5e3,"y":-0,"z":true,"definition":"d  "}`,
	} {
		f.Add(s, byte(0), byte(0))
	}
	f.Fuzz(func(t *testing.T, title string, parser, format byte) {
		if len(title) > 600 || !utf8.ValidString(title) {
			return
		}
		title = cleanTitle(title)
		if strings.Contains(title, "null") || strings.Contains(title, `\u`) || strings.Contains(title, `\U`) {
			return
		}
		c := titleCase{Title: title, Parser: []string{"json", "guessed"}[parser%2], Format: []string{"fasta", "fastq"}[format%2]}
		if err := checkTitle(c); err != nil {
			evid.Fail(t, "title", c, err)
		}
	})
}
