// Property C02 — write then read round-trips records unchanged (FASTA/FASTQ + JSON header).
//
// Domain decisions
//
//   - Records: identifier non-empty, without any Unicode blank or control
//     character; definition and string values are valid, control-free Unicode
//     (C0/C1 controls and invalid UTF-8 are not generated: the statement says
//     "arbitrary Unicode", and a raw line break cannot be told from a record
//     boundary by any line-based format); blanks at both ends of a definition or
//     of a string value ARE generated (they travel inside a JSON string and must
//     come back verbatim).
//   - Annotation values follow the grammar of the statement: string, int with
//     |x| <= 2^53, finite float64, bool, map[string]int, map[string]string, []int.
//     JSON null (nil maps / nil slices) is outside the grammar and never
//     generated.  The keys "id", "sequence", "qualities" (redirected by
//     BioSequence.SetAttribute to the record fields) and "definition" (where the
//     definition itself is stored) are not generated as annotation keys.
//   - Annotation keys are usually identifier-like, sometimes arbitrary text
//     (they are JSON-representable, and the header scanner must skip them as it
//     skips any other JSON string).  Empty keys are allowed.
//   - Numbers are compared by value as float64 (the reader returns float64 for
//     every JSON number); -0 == 0.
//   - FASTQ output is exercised only for records that carry qualities (a record
//     without qualities written as FASTQ receives the default quality 40, which
//     is a conversion, not a round trip).  Records with qualities written as
//     FASTA lose them by design; everything else is compared.
//   - Qualities above 93 (outside "0-93") are generated in a minority of cases to
//     observe the writer's clamp; they are compared after clamping to 93.
//   - Quality offsets: in-process both offsets of obioptions are set to the same
//     value in {33, 64} and restored afterwards.  On the command line only the
//     defaults (33/33) are used: --solexa changes the input offset only, which
//     makes obiconvert a converter (64 -> 33), not an identity.
//   - Oracle (c) title lines: valid UTF-8, no control characters, no leading blank
//     (the sequence readers strip it), JSON escapes only for valid code points
//     (no lone surrogates), no JSON null.  A title on which the header parser
//     reports an error (logrus fatal) or panics is "not accepted" and only counted.
//   - Oracle (c), OBI-style titles: the OBI parser converts integral numbers to Go
//     int; a number beyond the int range ("count=12345678901234567890;") becomes
//     an int of magnitude above 2^53, outside the value grammar: such cases are
//     still compared by value, but not for byte-identity of the second writing.
//     A "definition" annotation that is not a string ("definition=12;") is compared
//     by value with the other annotations, not through BioSequence.Definition()
//     (its %v rendering depends on int vs float64).
//   - Oracle (d): obiconvert with default options (format guessed from the
//     content, header format guessed), 1-6 records per file so that the whole
//     file is one batch (ordering of batches is C03/C04's subject).  The second
//     obiconvert is run both on a file (Go readers named by the property) and on
//     its standard input (literal pipe).
package c02

import (
	"bytes"
	"encoding/json"
	"fmt"
	"math"
	"os"
	"path/filepath"
	"reflect"
	"sort"
	"strings"
	"sync/atomic"
	"testing"
	"unicode/utf8"

	"git.metabarcoding.org/obitools/obitools4/obitools4/pkg/obiformats"
	"git.metabarcoding.org/obitools/obitools4/obitools4/pkg/obiiter"
	"git.metabarcoding.org/obitools/obitools4/obitools4/pkg/obioptions"
	"git.metabarcoding.org/obitools/obitools4/obitools4/pkg/obiseq"
	"pgregory.net/rapid"

	"verifharness/internal/evid"
	"verifharness/internal/fatal"
	"verifharness/internal/gen"
	"verifharness/internal/ref"
	"verifharness/internal/run"
)

func TestMain(m *testing.M) {
	evid.Tests(
		evid.Spec{Name: "FuzzTitle", Kind: "fuzz", Thorough: 120, ThoroughOnly: true, QuickShards: 1, ThoroughShards: 1},
		evid.Spec{Name: "TestReplay", Kind: "plain", QuickShards: 1, ThoroughShards: 1},
		evid.Spec{Name: "TestPropRoundTrip", Kind: "rapid", Quick: 48000, Thorough: 2400000, QuickShards: 8, ThoroughShards: 16},
		evid.Spec{Name: "TestPropTitle", Kind: "rapid", Quick: 64000, Thorough: 2400000, QuickShards: 8, ThoroughShards: 16},
		evid.Spec{Name: "TestPropCLI", Kind: "rapid", Quick: 480, Thorough: 8000, QuickShards: 8, ThoroughShards: 16},
	)
	evid.Commands("obiconvert")
	evid.Note("rule", "roundtrip: sets of 1-4 generated records (identifier without blanks incl. > @ + { } \" = ;, optional definition, IUPAC sequence of length 1..300 biased to 1/59-61/119-121, optional qualities, 0-5 annotations drawn from str|int(|x|<=2^53)|finite float|bool|map[string]int|map[string]string|[]int with hostile Unicode strings) x format fasta/fastq x quality offset 33/64 (same on both sides) x header parser json/guessed; the records are formatted by FormatFastaBatch/FormatFastqBatch + FormatFastSeqJsonHeader, the text is read (1) by an independent line reader + encoding/json and (2) by FastaChunkParser/FastqChunkParser + the header parser; both readings must give back identifiers, nucleotides, qualities (clamped at 93), definition and annotation keys/values (numbers by value as float64, nested recursively, nothing missing and nothing extra), and re-formatting the re-read records must be byte-identical. title: structured random title lines (JSON objects with random spacing/escapes/nesting/number syntax, OBI key=value headers, free hostile text, mutated tool output); when the parser accepts a title, parse(format(parse(title))) must equal parse(title) and the second formatting must be byte-identical to the first. cli: harness-written FASTA/FASTQ files (JSON written by encoding/json) -> obiconvert -> out1, read by the independent reader and compared with the records; out1 -> obiconvert (file and stdin) must be byte-identical to out1, for default, --fasta-output and --fastq-output. Non-trivial = at least one string (value, nested key/value, definition or key) containing one of \" \\ { } ; = > @, or a nested map/list, or a sequence longer than 60 (title check: the parser accepted the title and produced at least one annotation besides the definition, or a definition containing one of those characters). Distinct = hash of the whole case.")
	evid.Main(m, "C02")
}

func TestReplay(t *testing.T) { evid.Replay(t) }

func init() {
	evid.Reg("roundtrip", checkRoundTrip)
	evid.Reg("title", checkTitle)
	evid.Reg("cli", checkCLI)
}

// ------------------------------------------------------------------ value comparison

// norm maps every supported annotation value to a canonical tree:
// numbers -> float64, maps -> map[string]any, lists -> []any.
func norm(v any) (any, error) {
	switch x := v.(type) {
	case nil:
		return nil, nil
	case string:
		return x, nil
	case bool:
		return x, nil
	case int:
		return float64(x), nil
	case int64:
		return float64(x), nil
	case float64:
		if x == 0 {
			return float64(0), nil // -0 == 0
		}
		return x, nil
	case json.Number:
		f, err := x.Float64()
		return f, err
	}
	rv := reflect.ValueOf(v)
	switch rv.Kind() {
	case reflect.Map:
		if rv.Type().Key().Kind() != reflect.String {
			return nil, fmt.Errorf("map with non-string keys %T", v)
		}
		out := make(map[string]any, rv.Len())
		it := rv.MapRange()
		for it.Next() {
			n, err := norm(it.Value().Interface())
			if err != nil {
				return nil, err
			}
			out[it.Key().String()] = n
		}
		return out, nil
	case reflect.Slice, reflect.Array:
		out := make([]any, rv.Len())
		for i := range out {
			n, err := norm(rv.Index(i).Interface())
			if err != nil {
				return nil, err
			}
			out[i] = n
		}
		return out, nil
	case reflect.Int, reflect.Int8, reflect.Int16, reflect.Int32, reflect.Int64:
		return float64(rv.Int()), nil
	case reflect.Uint, reflect.Uint8, reflect.Uint16, reflect.Uint32, reflect.Uint64:
		return float64(rv.Uint()), nil
	case reflect.Float32, reflect.Float64:
		return rv.Float(), nil
	}
	return nil, fmt.Errorf("value of unsupported type %T", v)
}

func normMap(m map[string]any) (map[string]any, error) {
	out := make(map[string]any, len(m))
	for k, v := range m {
		n, err := norm(v)
		if err != nil {
			return nil, fmt.Errorf("key %q: %v", k, err)
		}
		out[k] = n
	}
	return out, nil
}

// diffMaps describes the first differences between two normalised maps (sorted
// keys, so that the message is a pure function of the case).
func diffMaps(want, got map[string]any) string {
	var keys []string
	for k := range want {
		keys = append(keys, k)
	}
	for k := range got {
		if _, ok := want[k]; !ok {
			keys = append(keys, k)
		}
	}
	sort.Strings(keys)
	var msgs []string
	for _, k := range keys {
		w, okw := want[k]
		g, okg := got[k]
		switch {
		case !okg:
			msgs = append(msgs, fmt.Sprintf("key %q lost (expected %s)", k, show(w)))
		case !okw:
			msgs = append(msgs, fmt.Sprintf("unexpected key %q = %s", k, show(g)))
		case !reflect.DeepEqual(w, g):
			msgs = append(msgs, fmt.Sprintf("key %q: expected %s, got %s", k, show(w), show(g)))
		}
		if len(msgs) >= 4 {
			break
		}
	}
	return strings.Join(msgs, "; ")
}

func show(v any) string {
	b, err := json.Marshal(v)
	if err != nil {
		return fmt.Sprintf("%#v", v)
	}
	return fmt.Sprintf("%s (%T)", b, v)
}

// ------------------------------------------------------------------ helpers around the real code

type headerParser func(*obiseq.BioSequence)

func parserByName(name string) (headerParser, error) {
	switch name {
	case "json":
		return obiformats.ParseFastSeqJsonHeader, nil
	case "guessed":
		return obiformats.ParseGuessedFastSeqHeader, nil
	}
	return nil, fmt.Errorf("unknown header parser %q", name)
}

// withShift runs f with both quality offsets of obioptions set to shift and
// restores the previous values afterwards.
func withShift(shift int, f func()) {
	in, out := obioptions.InputQualityShift(), obioptions.OutputQualityShift()
	obioptions.SetInputQualityShift(shift)
	obioptions.SetOutputQualityShift(shift)
	defer func() {
		obioptions.SetInputQualityShift(in)
		obioptions.SetOutputQualityShift(out)
	}()
	f()
}

func build(r gen.Rec) *obiseq.BioSequence {
	s := obiseq.NewBioSequence(r.ID, []byte(r.Seq), r.Def)
	if r.Qual != nil {
		s.SetQualities(r.QualBytes())
	}
	for _, a := range r.Annots {
		s.SetAttribute(a.Key, a.Val.Go())
	}
	return s
}

func formatSet(format string, seqs obiseq.BioSequenceSlice) []byte {
	batch := obiiter.MakeBioSequenceBatch("c02", 0, seqs)
	if format == "fastq" {
		return FormatFastqBatchBytes(batch)
	}
	return obiformats.FormatFastaBatch(batch, obiformats.FormatFastSeqJsonHeader, false).Bytes()
}

func FormatFastqBatchBytes(batch obiiter.BioSequenceBatch) []byte {
	return obiformats.FormatFastqBatch(batch, obiformats.FormatFastSeqJsonHeader, false).Bytes()
}

func parseSet(format string, shift int, text []byte, hp headerParser) (obiseq.BioSequenceSlice, error) {
	var seqs obiseq.BioSequenceSlice
	var err error
	if format == "fastq" {
		seqs, err = obiformats.FastqChunkParser(byte(shift), true)("c02", bytes.NewReader(text))
	} else {
		seqs, err = obiformats.FastaChunkParser()("c02", bytes.NewReader(text))
	}
	if err != nil {
		return nil, err
	}
	for _, s := range seqs {
		hp(s)
	}
	return seqs, nil
}

func clampQ(q []int) []byte {
	if q == nil {
		return nil
	}
	out := make([]byte, len(q))
	for i, v := range q {
		if v > 93 {
			v = 93
		}
		out[i] = byte(v)
	}
	return out
}

// expectedAnnotations is the normalised annotation map of a generated record,
// definition excluded.
func expectedAnnotations(r gen.Rec) map[string]any {
	m, err := normMap(r.Annotations())
	if err != nil {
		panic(err)
	}
	return m
}

// compareSeq compares one re-read BioSequence with the generated record.
func compareSeq(r gen.Rec, s *obiseq.BioSequence, withQual bool) error {
	if s.Id() != r.ID {
		return fmt.Errorf("identifier %q read back as %q", r.ID, s.Id())
	}
	if s.String() != r.Seq {
		return fmt.Errorf("nucleotides of %q: wrote %q (%d nt), read back %q (%d nt)", r.ID, r.Seq, len(r.Seq), s.String(), s.Len())
	}
	if withQual {
		want := clampQ(r.Qual)
		if !s.HasQualities() || !bytes.Equal([]byte(s.Qualities()), want) {
			return fmt.Errorf("qualities of %q: wrote %v (clamped at 93: %v), read back %v (has qualities: %v)", r.ID, r.Qual, want, []byte(s.Qualities()), s.HasQualities())
		}
	} else if s.HasQualities() {
		return fmt.Errorf("record %q read from FASTA carries qualities %v", r.ID, []byte(s.Qualities()))
	}
	if s.Definition() != r.Def {
		return fmt.Errorf("definition of %q: wrote %q, read back %q", r.ID, r.Def, s.Definition())
	}
	got := map[string]any{}
	for k, v := range s.Annotations() {
		if k == "definition" {
			continue
		}
		got[k] = v
	}
	gotN, err := normMap(got)
	if err != nil {
		return fmt.Errorf("annotations of %q read back with %v", r.ID, err)
	}
	if want := expectedAnnotations(r); !reflect.DeepEqual(want, gotN) {
		return fmt.Errorf("annotations of %q differ after the round trip: %s", r.ID, diffMaps(want, gotN))
	}
	return nil
}

// compareRef compares one record read by the independent reader (ref) from
// tool-written text with the generated record.  shift is the quality offset of
// the text (0: FASTA).
func compareRef(r gen.Rec, x ref.Rec, shift int) error {
	if x.ID != r.ID {
		return fmt.Errorf("identifier %q written as %q", r.ID, x.ID)
	}
	if x.Seq != r.Seq {
		return fmt.Errorf("nucleotides of %q: %q (%d nt) written as %q (%d nt)", r.ID, r.Seq, len(r.Seq), x.Seq, len(x.Seq))
	}
	if shift > 0 {
		want := clampQ(r.Qual)
		got := make([]byte, len(x.Qual))
		for i, c := range x.Qual {
			got[i] = c - byte(shift)
		}
		if !bytes.Equal(got, want) {
			return fmt.Errorf("qualities of %q: %v (clamped at 93: %v) written as %v (offset %d)", r.ID, r.Qual, want, got, shift)
		}
	}
	want := expectedAnnotations(r)
	if r.Def != "" {
		want["definition"] = r.Def
	}
	got := map[string]any{}
	if x.Title != "" {
		js, rest, ok := ref.SplitJSONTitle(x.Title)
		if !ok {
			return fmt.Errorf("title of %q is not a JSON object: %q", r.ID, x.Title)
		}
		if rest != "" {
			return fmt.Errorf("title of %q: unexpected text %q after the JSON object %q", r.ID, rest, js)
		}
		if err := json.Unmarshal([]byte(js), &got); err != nil {
			return fmt.Errorf("title of %q: encoding/json rejects the written annotations %q: %v", r.ID, js, err)
		}
	}
	gotN, err := normMap(got)
	if err != nil {
		return err
	}
	if !reflect.DeepEqual(want, gotN) {
		return fmt.Errorf("annotations of %q as written (%q) differ from the record: %s", r.ID, x.Title, diffMaps(want, gotN))
	}
	return nil
}

// ------------------------------------------------------------------ (a) + (b): in-process round trip

type rtCase struct {
	Recs   []gen.Rec `json:"recs"`
	Format string    `json:"format"` // fasta | fastq
	Shift  int       `json:"shift"`  // 33 | 64
	Parser string    `json:"parser"` // json | guessed
}

func checkRoundTrip(c rtCase) (err error) {
	hp, err := parserByName(c.Parser)
	if err != nil {
		return err
	}
	if c.Format != "fasta" && c.Format != "fastq" {
		return fmt.Errorf("unknown format %q", c.Format)
	}
	withShift(c.Shift, func() { err = roundTrip(c, hp) })
	return err
}

func roundTrip(c rtCase, hp headerParser) error {
	what := fmt.Sprintf("format=%s offset=%d parser=%s", c.Format, c.Shift, c.Parser)
	var text []byte
	out := fatal.Run(func() {
		seqs := make(obiseq.BioSequenceSlice, len(c.Recs))
		for i, r := range c.Recs {
			seqs[i] = build(r)
		}
		text = append([]byte(nil), formatSet(c.Format, seqs)...)
	})
	if !out.Completed {
		return fmt.Errorf("%s: formatting the records did not return: %v\n%s", what, out, out.Stack)
	}

	// reading 1: independent reader
	var refs []ref.Rec
	var err error
	refShift := 0
	if c.Format == "fastq" {
		refs, err = ref.ParseFastq(text)
		refShift = c.Shift
	} else {
		refs, err = ref.ParseFasta(text)
	}
	if err != nil {
		return fmt.Errorf("%s: the written text is not well-formed %s: %v\ntext: %q", what, c.Format, err, text)
	}
	if len(refs) != len(c.Recs) {
		return fmt.Errorf("%s: %d records written, the text holds %d\ntext: %q", what, len(c.Recs), len(refs), text)
	}
	for i, r := range c.Recs {
		if err := compareRef(r, refs[i], refShift); err != nil {
			return fmt.Errorf("%s: record %d as written: %v\ntext: %q", what, i, err, text)
		}
	}

	// reading 2: the real chunk parser + header parser
	var back obiseq.BioSequenceSlice
	out = fatal.Run(func() { back, err = parseSet(c.Format, c.Shift, text, hp) })
	if !out.Completed {
		return fmt.Errorf("%s: reading back the written text did not return: %v\ntext: %q\n%s", what, out, text, out.Stack)
	}
	if err != nil {
		return fmt.Errorf("%s: reading back the written text failed: %v\ntext: %q", what, err, text)
	}
	if len(back) != len(c.Recs) {
		return fmt.Errorf("%s: %d records written, %d read back\ntext: %q", what, len(c.Recs), len(back), text)
	}
	for i, r := range c.Recs {
		if err := compareSeq(r, back[i], c.Format == "fastq"); err != nil {
			return fmt.Errorf("%s: record %d: %v\ntext: %q", what, i, err, text)
		}
	}

	// (b) fixed point
	var text2 []byte
	out = fatal.Run(func() { text2 = append([]byte(nil), formatSet(c.Format, back)...) })
	if !out.Completed {
		return fmt.Errorf("%s: formatting the re-read records did not return: %v\n%s", what, out, out.Stack)
	}
	if !bytes.Equal(text, text2) {
		return fmt.Errorf("%s: write-after-read is not a fixed point\nfirst : %q\nsecond: %q", what, text, text2)
	}
	return nil
}

// ------------------------------------------------------------------ (c): title lines

type titleCase struct {
	Title  string `json:"title"`
	Parser string `json:"parser"`
	Format string `json:"format"`
}

// parseTitle runs the header parser on a record whose raw title is title.
func parseTitle(title string, hp headerParser) (*obiseq.BioSequence, fatal.Outcome) {
	var s *obiseq.BioSequence
	out := fatal.Run(func() {
		s = obiseq.NewBioSequence("id1", []byte("acgt"), title)
		hp(s)
	})
	return s, out
}

func snapshot(s *obiseq.BioSequence) (def string, annots map[string]any, err error) {
	annots, err = normMap(s.Annotations())
	return s.Definition(), annots, err
}

// titleAccepted reports (for the evidence) whether the parser accepts the title
// and what it extracts.
func titleAccepted(c titleCase) (accepted bool, nAnnot int, def string, how string) {
	hp, err := parserByName(c.Parser)
	if err != nil {
		return false, 0, "", "bad_case"
	}
	s, out := parseTitle(c.Title, hp)
	switch {
	case out.Fatal:
		return false, 0, "", "rejected_fatal"
	case out.Panicked:
		return false, 0, "", "rejected_panic"
	}
	n := len(s.Annotations())
	if s.HasDefinition() {
		n--
	}
	return true, n, s.Definition(), "accepted"
}

func checkTitle(c titleCase) error {
	hp, err := parserByName(c.Parser)
	if err != nil {
		return err
	}
	a, out := parseTitle(c.Title, hp)
	if !out.Completed {
		return nil // not accepted: outside the claim
	}
	defA, annA, err := snapshot(a)
	if err != nil {
		return nil // the parser produced a value outside the JSON-representable grammar: outside the claim
	}
	for _, s := range stringsOf(annA) {
		if !utf8.ValidString(s) {
			return nil
		}
	}
	what := fmt.Sprintf("title %q parser=%s format=%s", c.Title, c.Parser, c.Format)
	bigInt := hasBigInt(a.Annotations())
	if c.Format == "fastq" {
		a.SetQualities([]byte{30, 31, 0, 40})
	}
	var text, text2 []byte
	var back obiseq.BioSequenceSlice
	withShift(33, func() {
		out = fatal.Run(func() { text = append([]byte(nil), formatSet(c.Format, obiseq.BioSequenceSlice{a})...) })
		if !out.Completed {
			return
		}
		out = fatal.Run(func() { back, err = parseSet(c.Format, 33, text, hp) })
		if !out.Completed || err != nil || len(back) != 1 {
			return
		}
		out = fatal.Run(func() { text2 = append([]byte(nil), formatSet(c.Format, back)...) })
	})
	if text == nil {
		return fmt.Errorf("%s: accepted (definition %q, annotations %s) but formatting the parsed record did not return: %v\n%s", what, defA, show(annA), out, out.Stack)
	}
	if !out.Completed {
		return fmt.Errorf("%s: accepted (definition %q, annotations %s), formatted as %q, but re-reading / re-formatting did not return: %v\n%s", what, defA, show(annA), text, out, out.Stack)
	}
	if err != nil || len(back) != 1 {
		return fmt.Errorf("%s: formatted as %q; reading it back gives %d records, error %v", what, text, len(back), err)
	}
	b := back[0]
	defB, annB, err := snapshot(b)
	if err != nil {
		return fmt.Errorf("%s: formatted as %q; re-read annotations: %v", what, text, err)
	}
	if b.Id() != a.Id() || b.String() != a.String() {
		return fmt.Errorf("%s: formatted as %q; identifier/sequence read back as %q/%q", what, text, b.Id(), b.String())
	}
	// (a "definition" annotation that is not a string - e.g. the OBI-style header
	// "definition=12;" - is compared by value with the other annotations below;
	// its %v rendering by Definition() depends on the numeric type)
	if _, isString := a.Annotations()["definition"].(string); (isString || !a.HasDefinition()) && defA != defB {
		return fmt.Errorf("%s: first parse gives definition %q; formatted as %q; second parse gives definition %q", what, defA, text, defB)
	}
	if !reflect.DeepEqual(annA, annB) {
		return fmt.Errorf("%s: re-parsing the formatted header changes the annotations: %s\nformatted: %q", what, diffMaps(annA, annB), text)
	}
	if bigInt {
		// the first parse produced an integer beyond 2^53 (OBI-style headers only):
		// outside the value grammar of the byte-level fixed point; compared by value above
		return nil
	}
	if !bytes.Equal(text, text2) {
		return fmt.Errorf("%s: write-after-read is not a fixed point\nfirst : %q\nsecond: %q", what, text, text2)
	}
	return nil
}

// hasBigInt reports whether v holds a Go integer of magnitude above 2^53.
func hasBigInt(v any) bool {
	switch x := v.(type) {
	case int:
		return int64(x) > gen.MaxExactInt || int64(x) < -gen.MaxExactInt
	case map[string]int:
		for _, e := range x {
			if hasBigInt(e) {
				return true
			}
		}
	case map[string]any:
		for _, e := range x {
			if hasBigInt(e) {
				return true
			}
		}
	case obiseq.Annotation:
		for _, e := range x {
			if hasBigInt(e) {
				return true
			}
		}
	case []any:
		for _, e := range x {
			if hasBigInt(e) {
				return true
			}
		}
	}
	return false
}

func stringsOf(v any) []string {
	switch x := v.(type) {
	case string:
		return []string{x}
	case map[string]any:
		var out []string
		for k, e := range x {
			out = append(out, k)
			out = append(out, stringsOf(e)...)
		}
		return out
	case []any:
		var out []string
		for _, e := range x {
			out = append(out, stringsOf(e)...)
		}
		return out
	}
	return nil
}

// ------------------------------------------------------------------ (d): obiconvert | obiconvert

type cliCase struct {
	Recs        []gen.Rec `json:"recs"`
	OutOpt      string    `json:"out_opt"`      // "" | --fasta-output | --fastq-output
	DefTrailing bool      `json:"def_trailing"` // input file: definition written after the JSON object instead of inside it
	Debug       bool      `json:"debug"`        // --debug on every obiconvert run: the log level must not change what is written
}

var cliSeq atomic.Int64

// harnessTitle writes the title the harness feeds to the first obiconvert:
// encoding/json (HTML-escaping on: < > & and U+2028/9 appear as \uXXXX), keys sorted.
func harnessTitle(r gen.Rec, trailing bool) (title string, expectDef string) {
	m := r.Annotations()
	def := r.Def
	trail := ""
	if def != "" {
		if trailing && len(m) > 0 && strings.TrimSpace(def) == def {
			trail = " " + def
		} else {
			m["definition"] = def
		}
	}
	if len(m) == 0 {
		return "", def
	}
	b, err := json.Marshal(m)
	if err != nil {
		panic(err)
	}
	return string(b) + trail, def
}

func cliInput(c cliCase) (text []byte, fastq bool) {
	fastq = true
	for _, r := range c.Recs {
		if r.Qual == nil {
			fastq = false
		}
	}
	var sb bytes.Buffer
	for _, r := range c.Recs {
		title, _ := harnessTitle(r, c.DefTrailing)
		if fastq {
			fmt.Fprintf(&sb, "@%s %s\n%s\n+\n", r.ID, title, r.Seq)
			for _, q := range clampQ(r.Qual) {
				sb.WriteByte(q + 33)
			}
			sb.WriteByte('\n')
		} else {
			fmt.Fprintf(&sb, ">%s %s\n", r.ID, title)
			for i := 0; i < len(r.Seq); i += 70 {
				sb.WriteString(r.Seq[i:min(i+70, len(r.Seq))])
				sb.WriteByte('\n')
			}
		}
	}
	return sb.Bytes(), fastq
}

var errInconclusive = fmt.Errorf("inconclusive")

func convert(dir, name string, content []byte, stdin bool, args ...string) ([]byte, error) {
	var res run.Result
	if stdin {
		res = run.Cmd(run.Opt{Stdin: content, Dir: dir}, "obiconvert", args...)
	} else {
		path := filepath.Join(dir, name)
		if err := os.WriteFile(path, content, 0o644); err != nil {
			return nil, fmt.Errorf("harness cannot write %s: %v", path, err)
		}
		res = run.Cmd(run.Opt{Dir: dir}, "obiconvert", append(args, path)...)
	}
	if res.TimedOut {
		return nil, errInconclusive
	}
	if res.Exit != 0 {
		how := "file " + name
		if stdin {
			how = "standard input"
		}
		return nil, fmt.Errorf("obiconvert %s on %s exits with status %d\ninput: %q\nstderr: %s", strings.Join(args, " "), how, res.Exit, content, tail(res.Stderr, 1500))
	}
	return res.Stdout, nil
}

func tail(b []byte, n int) string {
	if len(b) > n {
		b = b[len(b)-n:]
	}
	return string(b)
}

func checkCLI(c cliCase) error {
	if !run.Have("obiconvert") {
		return fmt.Errorf("obiconvert was not built by the driver")
	}
	input, inFastq := cliInput(c)
	outFastq := inFastq
	switch c.OutOpt {
	case "":
	case "--fasta-output":
		outFastq = false
	case "--fastq-output":
		if !inFastq {
			return fmt.Errorf("case asks for --fastq-output on records without qualities")
		}
	default:
		return fmt.Errorf("unknown output option %q", c.OutOpt)
	}
	dir, err := os.MkdirTemp(run.WorkDir(), fmt.Sprintf("cli%d-", cliSeq.Add(1)))
	if err != nil {
		return fmt.Errorf("harness cannot create a directory: %v", err)
	}
	defer os.RemoveAll(dir)
	args := []string{"--no-progressbar"}
	if c.Debug {
		args = append(args, "--debug")
	}
	if c.OutOpt != "" {
		args = append(args, c.OutOpt)
	}
	ext := map[bool]string{true: ".fastq", false: ".fasta"}

	out1, err := convert(dir, "in"+ext[inFastq], input, false, args...)
	if err == errInconclusive {
		evid.Class("timeout_inconclusive", 1)
		return nil
	}
	if err != nil {
		return fmt.Errorf("first pass: %v", err)
	}
	// what the first pass wrote, read independently, must be the records
	var refs []ref.Rec
	shift := 0
	if outFastq {
		refs, err = ref.ParseFastq(out1)
		shift = 33
	} else {
		refs, err = ref.ParseFasta(out1)
	}
	if err != nil {
		return fmt.Errorf("obiconvert %s wrote text that is not well-formed: %v\ninput : %q\noutput: %q", c.OutOpt, err, input, out1)
	}
	if len(refs) != len(c.Recs) {
		return fmt.Errorf("obiconvert %s: %d records in, %d records out\ninput : %q\noutput: %q", c.OutOpt, len(c.Recs), len(refs), input, out1)
	}
	for i, r := range c.Recs {
		if err := compareRef(r, refs[i], shift); err != nil {
			return fmt.Errorf("obiconvert %s, record %d: %v\ninput : %q\noutput: %q", c.OutOpt, i, err, input, out1)
		}
	}
	// second pass: file (Go readers) and standard input (literal pipe)
	for _, stdin := range []bool{false, true} {
		how := "given as a file"
		if stdin {
			how = "piped to standard input"
		}
		out2, err := convert(dir, "pass1"+ext[outFastq], out1, stdin, args...)
		if err == errInconclusive {
			evid.Class("timeout_inconclusive", 1)
			return nil
		}
		if err != nil {
			return fmt.Errorf("second pass (output of the first pass %s): %v", how, err)
		}
		if !bytes.Equal(out1, out2) {
			return fmt.Errorf("obiconvert %s | obiconvert %s is not the identity on obiconvert's own output (%s)\nfirst : %q\nsecond: %q", c.OutOpt, c.OutOpt, how, out1, out2)
		}
	}
	return nil
}

// ------------------------------------------------------------------ evidence helpers

const markers = "\"\\{};=>@"

func recStrings(r gen.Rec) []string {
	out := []string{r.Def}
	for _, a := range r.Annots {
		out = append(out, a.Key)
		out = append(out, a.Val.Strings()...)
	}
	return out
}

// recClasses returns the class labels of a record and whether it is non-trivial.
func recClasses(r gen.Rec, set map[string]bool) bool {
	nontrivial := false
	n := len(r.Seq)
	switch {
	case n == 1:
		set["len:1"] = true
	case n >= 59 && n <= 61:
		set[fmt.Sprintf("len:%d", n)] = true
	case n >= 119 && n <= 121:
		set[fmt.Sprintf("len:%d", n)] = true
	}
	if n > 60 {
		set["len>60"] = true
		nontrivial = true
	}
	if n > 120 {
		set["len>120"] = true
	}
	if r.Def != "" {
		set["has_definition"] = true
		if strings.TrimSpace(r.Def) != r.Def {
			set["definition_blank_at_end"] = true
		}
	}
	if len(r.Annots) == 0 {
		set["no_annotation"] = true
		if r.Def == "" {
			set["empty_title"] = true
		}
	}
	if strings.ContainsAny(r.ID, "{}\"") {
		set["id_brace_or_quote"] = true
	}
	if strings.ContainsAny(r.ID, ">@+=;") {
		set["id_>@+=;"] = true
	}
	if !isASCII(r.ID) {
		set["id_non_ascii"] = true
	}
	for _, a := range r.Annots {
		set["val:"+a.Val.Kind] = true
		if a.Val.Nested() {
			nontrivial = true
			set["nested"] = true
		}
		if !identLike(a.Key) {
			set["key_hostile"] = true
		}
		switch a.Val.Kind {
		case "int":
			if a.Val.Int >= 1<<53-1 || a.Val.Int <= -(1<<53-1) {
				set["int_at_2^53"] = true
			}
		case "float":
			f := a.Val.Float
			if f == math.Trunc(f) {
				set["float_integral"] = true
			}
			if af := math.Abs(f); af != 0 && (af >= 1e21 || af < 1e-6) {
				set["float_exponent_form"] = true
			}
		}
	}
	for _, s := range recStrings(r) {
		if strings.ContainsAny(s, markers) {
			nontrivial = true
		}
		strClasses(s, set)
	}
	if r.Qual != nil {
		set["has_qualities"] = true
		for i, q := range r.Qual {
			if q > 93 {
				set["qual>93"] = true
			}
			if q == 93 {
				set["qual==93"] = true
			}
			if q == 0 {
				set["qual==0"] = true
			}
			if i == 0 && (q == 31 || q == 0) {
				set["qual_first_31_or_0('@')"] = true
			}
		}
	}
	return nontrivial
}

func strClasses(s string, set map[string]bool) {
	if s == "" {
		return
	}
	if strings.Contains(s, `"`) {
		set["str_quote"] = true
		if i := strings.Index(s, `"`); strings.ContainsAny(s[i:], "{}") {
			set["str_quote_then_brace"] = true
		}
	}
	if strings.Contains(s, `\`) {
		set["str_backslash"] = true
	}
	if strings.HasSuffix(s, `\`) {
		set["str_ends_with_backslash"] = true
	}
	if strings.Contains(s, `\"`) {
		set["str_backslash_quote"] = true
	}
	if strings.ContainsAny(s, "{}") {
		set["str_brace"] = true
	}
	if strings.Count(s, "{") != strings.Count(s, "}") {
		set["str_unbalanced_braces"] = true
	}
	if strings.Count(s, `"`)%2 == 1 {
		set["str_odd_quotes"] = true
	}
	if strings.ContainsAny(s, ";=") {
		set["str_;="] = true
	}
	if strings.ContainsAny(s, ">@") {
		set["str_>@"] = true
	}
	if !isASCII(s) {
		set["str_non_ascii"] = true
	}
	for _, r := range s {
		if r > 0xffff {
			set["str_astral"] = true
		}
		if r == 0x2028 || r == 0x2029 {
			set["str_u2028"] = true
		}
	}
	if strings.TrimSpace(s) != s {
		set["str_blank_at_end"] = true
	}
}

func isASCII(s string) bool {
	for i := 0; i < len(s); i++ {
		if s[i] >= 0x80 {
			return false
		}
	}
	return true
}

func identLike(s string) bool {
	if s == "" {
		return false
	}
	for _, r := range s {
		if !(r >= 'a' && r <= 'z' || r >= 'A' && r <= 'Z' || r >= '0' && r <= '9' || r == '_' || r == '-' || r == '.') {
			return false
		}
	}
	return true
}

func setToList(set map[string]bool) []string {
	out := make([]string, 0, len(set))
	for k := range set {
		out = append(out, k)
	}
	sort.Strings(out)
	return out
}

func caseKey(c any) uint64 {
	b, _ := json.Marshal(c)
	return evid.Hash(b)
}

// ------------------------------------------------------------------ properties

func TestPropRoundTrip(t *testing.T) {
	rapid.Check(t, func(rt *rapid.T) {
		var c rtCase
		c.Format = rapid.SampledFrom([]string{"fasta", "fastq"}).Draw(rt, "format")
		c.Shift = rapid.SampledFrom([]int{33, 64}).Draw(rt, "shift")
		c.Parser = rapid.SampledFrom([]string{"json", "guessed"}).Draw(rt, "parser")
		n := rapid.SampledFrom([]int{1, 1, 1, 2, 2, 3, 4}).Draw(rt, "nrec")
		opt := gen.RecordOpt{HostileKeys: true}
		if c.Format == "fastq" {
			opt.Qualities = +1
		}
		if rapid.IntRange(0, 7).Draw(rt, "allow_q>93") == 0 {
			opt.MaxQual = 255
		}
		for i := 0; i < n; i++ {
			c.Recs = append(c.Recs, gen.Record(rt, fmt.Sprintf("r%d", i), opt))
		}
		hugeTitle := 0
		if rapid.IntRange(0, 39).Draw(rt, "huge_title") == 0 {
			// what obiuniq -m sample writes for a few thousand samples: a title line of tens of kilobytes
			// (beyond bufio's 4 KiB and a 64 KiB scanner token)
			hugeTitle = rapid.SampledFrom([]int{400, 2500, 6000}).Draw(rt, "n_samples")
			m := map[string]int64{}
			for k := 0; k < hugeTitle; k++ {
				m[fmt.Sprintf("sample_%05d", k)] = int64(k%17 + 1)
			}
			i := rapid.IntRange(0, n-1).Draw(rt, "huge_title_rec")
			c.Recs[i].Annots = append(c.Recs[i].Annots, gen.Annot{Key: "merged_verifsample", Val: gen.Val{Kind: "mapint", MapInt: m}})
		}
		set := map[string]bool{"fmt:" + c.Format: true, fmt.Sprintf("offset:%d", c.Shift): true, "parser:" + c.Parser: true, fmt.Sprintf("nrec:%d", n): true}
		if hugeTitle > 0 {
			set[fmt.Sprintf("title_with_%d_samples", hugeTitle)] = true
		}
		nontrivial := false
		for _, r := range c.Recs {
			if recClasses(r, set) {
				nontrivial = true
			}
		}
		evid.Eval("roundtrip", caseKey(c), nontrivial, c, setToList(set)...)
		evid.Class("records", int64(n))
		if err := checkRoundTrip(c); err != nil {
			evid.Fail(rt, "roundtrip", c, err)
		}
	})
}

func TestPropCLI(t *testing.T) {
	rapid.Check(t, func(rt *rapid.T) {
		var c cliCase
		n := rapid.IntRange(1, 6).Draw(rt, "nrec")
		q := rapid.SampledFrom([]int{-1, +1}).Draw(rt, "qualities")
		opt := gen.RecordOpt{HostileKeys: true, Qualities: q}
		for i := 0; i < n; i++ {
			c.Recs = append(c.Recs, gen.Record(rt, fmt.Sprintf("r%d", i), opt))
		}
		if q > 0 {
			c.OutOpt = rapid.SampledFrom([]string{"", "", "--fastq-output", "--fasta-output"}).Draw(rt, "outopt")
		} else {
			c.OutOpt = rapid.SampledFrom([]string{"", "--fasta-output"}).Draw(rt, "outopt")
		}
		c.DefTrailing = rapid.IntRange(0, 3).Draw(rt, "def_trailing") == 0
		c.Debug = rapid.IntRange(0, 4).Draw(rt, "debug") == 0
		set := map[string]bool{"cli_out:" + c.OutOpt: true, fmt.Sprintf("cli_in_fastq:%v", q > 0): true}
		nontrivial := false
		for _, r := range c.Recs {
			if recClasses(r, set) {
				nontrivial = true
			}
		}
		labels := []string{}
		for k := range set {
			if strings.HasPrefix(k, "cli_") {
				labels = append(labels, k)
			} else {
				labels = append(labels, "cli:"+k)
			}
		}
		sort.Strings(labels)
		evid.Eval("cli", caseKey(c), nontrivial, c, labels...)
		if err := checkCLI(c); err != nil {
			evid.Fail(rt, "cli", c, err)
		}
	})
}
