package c04

import (
	"fmt"
	"testing"

	"verifharness/internal/evid"
)

// history is what the model of the re-sequencing buffer derives from an arrival
// permutation: the emission order, which chunks waited in the buffer, and the
// longest run of buffered chunks drained after one in-order arrival.
type history struct {
	Emitted     []int // chunk numbers in the order they are put on the output
	Buffered    []int // chunk numbers that arrived early and waited
	MaxDrainRun int   // longest run of consecutive buffered chunks drained at once
	Left        int   // chunks still buffered at the end (0 for a permutation)
}

// reseqModel is the specification of the writer goroutine: chunk k is emitted
// when k is the next expected number, then every consecutive buffered chunk.
func reseqModel(arrival []int) history {
	var h history
	next := 0
	waiting := map[int]bool{}
	for _, k := range arrival {
		if k != next {
			waiting[k] = true
			h.Buffered = append(h.Buffered, k)
			continue
		}
		h.Emitted = append(h.Emitted, k)
		next++
		run := 0
		for waiting[next] {
			delete(waiting, next)
			h.Emitted = append(h.Emitted, next)
			next++
			run++
		}
		h.MaxDrainRun = max(h.MaxDrainRun, run)
	}
	h.Left = len(waiting)
	return h
}

// permutations calls f with every permutation of 0..n-1 (lexicographic order;
// the slice is reused).
func permutations(n int, f func(p []int)) {
	p := make([]int, n)
	used := make([]bool, n)
	var rec func(i int)
	rec = func(i int) {
		if i == n {
			f(p)
			return
		}
		for v := 0; v < n; v++ {
			if !used[v] {
				used[v] = true
				p[i] = v
				rec(i + 1)
				used[v] = false
			}
		}
	}
	rec(0)
}

// TestModelExhaustive checks the model against its own specification on every
// permutation up to 8 batches: everything emitted once, in increasing order,
// nothing left in the buffer.  (It validates the oracle side only; it evaluates
// no obitools4 code and counts no evaluation.)
func TestModelExhaustive(t *testing.T) {
	total := 0
	for n := 0; n <= 8; n++ {
		permutations(n, func(p []int) {
			total++
			h := reseqModel(p)
			if h.Left != 0 || len(h.Emitted) != n {
				t.Fatalf("model: arrival %v leaves %d buffered, emits %v", p, h.Left, h.Emitted)
			}
			for i, k := range h.Emitted {
				if k != i {
					t.Fatalf("model: arrival %v emits %v", p, h.Emitted)
				}
			}
			inOrder := true
			for i, k := range p {
				if k != i {
					inOrder = false
				}
			}
			if inOrder != (len(h.Buffered) == 0) {
				t.Fatalf("model: arrival %v buffered %v", p, h.Buffered)
			}
		})
	}
	evid.Class("model_permutations_checked", int64(total))
	evid.Note("model", fmt.Sprintf("re-sequencing model validated on all %d permutations of up to 8 batches", total))
}
