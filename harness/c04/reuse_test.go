package c04

import (
	"bytes"
	"fmt"
	"os"
	"path/filepath"
	"strings"
	"testing"

	"pgregory.net/rapid"

	"git.metabarcoding.org/obitools/obitools4/obitools4/pkg/obiformats"
	"git.metabarcoding.org/obitools/obitools4/obitools4/pkg/obiiter"

	"verifharness/internal/evid"
	"verifharness/internal/fatal"
	"verifharness/internal/run"
)

// Histories that REUSE an output path (library level).
//
// The commands hand their output to WriteSequencesToFile, WriteFastaToFile,
// WriteFastqToFile, WriteJSONToFile (obiconvert.CLIWriteBioSequences,
// obidistribute through obiformats.WriterDispatcher).  "Emit every batch exactly
// once ... and close the output after the last one" is a statement on the file
// the user finds after the run: it holds the batches of THIS run and nothing
// else, whatever the path held before - nothing, an empty file, a shorter, an
// equal or a longer file, text of an earlier run or binary junk.  With the
// append option (OptionsAppendFile, obidistribute --append) the file is its
// previous content followed by the output of the run.
//
// A case is a history: the content found at the path before the first run
// (absent / empty / junk of a length given relative to the first output) and
// 1..4 successive runs writing to the same path outputs of shrinking, growing,
// equal and random sizes, each with its own compression and append flags; with
// paired reads the reverse file (WritePairedReadsTo) has the same history.
//
// Oracle, after every run: (1) the same run written to a fresh path is judged
// by the oracle of the package (independent parsers: every record once, in
// batch order, valid JSON); (2) the reused file is exactly [previous content
// when append is requested +] what the run wrote to the fresh path (compared on
// the gunzipped text when compression is on: the compressed bytes must be one
// complete gzip stream with nothing after it).

func init() {
	evid.Reg("reuse_tofile", checkReuse)
	evid.Tests(evid.Spec{Name: "TestPropReuseToFile", Kind: "rapid", Quick: 1600, Thorough: 60000, QuickShards: 8, ThoroughShards: 16})
}

type reuseRun struct {
	Sizes   []int `json:"sizes"`
	SeqLen  int   `json:"seqlen"`
	Append  bool  `json:"append"`
	Gzip    bool  `json:"gzip"`
	Workers int   `json:"workers"`
}

type reuseCase struct {
	Func     string     `json:"func"`      // sequences | fasta | fastq | json (| csv: replay only)
	Qual     bool       `json:"qual"`      // sequences / json: records carry qualities
	Paired   bool       `json:"paired"`    // paired reads: a reverse file is written as well
	PreKind  string     `json:"pre_kind"`  // absent | empty | junk | zeros | newlines
	PreDelta int        `json:"pre_delta"` // bytes found before the first run = max(0, bytes of the first output + PreDelta)
	PreSeed  uint32     `json:"pre_seed"`
	Runs     []reuseRun `json:"runs"`
}

// reuseFuncs is what the generator draws from (WriteCSVToFile joined the list once
// its missing O_TRUNC was repaired in the repository: see known_findings.txt).
var reuseFuncs = []string{"sequences", "fasta", "fastq", "json", "csv"}

func (c reuseCase) key() string { return fmt.Sprintf("%+v", c) }

func (c reuseCase) validate() error {
	ok := false
	for _, f := range reuseFuncs {
		ok = ok || f == c.Func
	}
	if !ok {
		return fmt.Errorf("unknown function %q", c.Func)
	}
	switch c.PreKind {
	case "absent", "empty", "junk", "zeros", "newlines":
	default:
		return fmt.Errorf("unknown kind of previous content %q", c.PreKind)
	}
	if len(c.Runs) == 0 {
		return fmt.Errorf("no run")
	}
	for _, r := range c.Runs {
		if r.Workers < 1 || r.SeqLen < 1 {
			return fmt.Errorf("workers and seqlen must be >= 1")
		}
		if c.Func == "sequences" && len(r.Sizes) == 0 {
			return fmt.Errorf("WriteSequence on zero batches is outside the generated domain")
		}
		for _, s := range r.Sizes {
			if s < 0 {
				return fmt.Errorf("negative batch size")
			}
		}
	}
	return nil
}

// wcase describes the forward (rev=false) or reverse output of one run to the
// oracle of the package.
func (c reuseCase) wcase(r reuseRun, rev bool) wcase {
	w := wcase{Sizes: r.Sizes, Workers: r.Workers, Gzip: r.Gzip, Close: true, SeqLen: r.SeqLen, Qual: c.Qual}
	switch c.Func {
	case "sequences":
		w.Writer = "sequence"
	default:
		w.Writer = c.Func
	}
	if rev {
		w.SeqLen += 3 // the mates are different reads with the same identifiers
	}
	w.Arrival = make([]int, len(r.Sizes))
	for i := range w.Arrival {
		w.Arrival[i] = i
	}
	return w
}

func (c reuseCase) funcName() string {
	switch c.Func {
	case "sequences":
		return "WriteSequencesToFile"
	case "fasta":
		return "WriteFastaToFile"
	case "fastq":
		return "WriteFastqToFile"
	case "csv":
		return "WriteCSVToFile"
	}
	return "WriteJSONToFile"
}

// writeToFile runs the real ...ToFile function of the case on the batches of
// one run and waits for everything the library offers as a completion signal.
func writeToFile(c reuseCase, r reuseRun, path, revPath string) error {
	fatal.Install()
	fatalsBefore := fatal.Count()
	fw := c.wcase(r, false)
	rw := c.wcase(r, true)
	deadline, stopDeadline := patientAfter(waitLimit) // see patientAfter: a pause of the machine costs one slice
	defer stopDeadline()

	src := obiiter.MakeIBioSequence()
	src.Add(1)
	go src.WaitAndClose()
	go func() {
		for b := range fw.Sizes {
			batch := fw.batch(b)
			if c.Paired {
				mates := rw.batch(b)
				batch.PairTo(&mates)
			}
			src.Push(batch)
		}
		src.Done()
	}()
	if c.Paired {
		src.MarkAsPaired()
	}
	opts := []obiformats.WithOption{
		obiformats.OptionsParallelWorkers(r.Workers),
		obiformats.OptionsCompressed(r.Gzip),
		obiformats.OptionsAppendFile(r.Append),
	}
	if c.Paired {
		opts = append(opts, obiformats.WritePairedReadsTo(revPath))
	}
	var it obiiter.IBioSequence
	var err error
	called := make(chan fatal.Outcome, 1)
	go func() {
		called <- fatal.Run(func() {
			switch c.Func {
			case "sequences":
				it, err = obiformats.WriteSequencesToFile(src, path, opts...)
			case "fasta":
				it, err = obiformats.WriteFastaToFile(src, path, opts...)
			case "fastq":
				it, err = obiformats.WriteFastqToFile(src, path, opts...)
			case "json":
				it, err = obiformats.WriteJSONToFile(src, path, opts...)
			case "csv":
				it, err = obiformats.WriteCSVToFile(src, path, append(opts, obiformats.CSVKey("batch"))...)
			}
		})
	}()
	select {
	case o := <-called:
		if !o.Completed || err != nil {
			poisoned.Store(true)
			return fmt.Errorf("%s did not return an iterator: %v, err=%v", c.funcName(), o, err)
		}
	case <-deadline:
		poisoned.Store(true)
		return fmt.Errorf("%s did not return within %v", c.funcName(), waitLimit)
	}
	consumed := make(chan struct{})
	go func() {
		defer close(consumed)
		for it.Next() {
			it.Get()
		}
	}()
	if !waitFor(consumed, deadline) {
		poisoned.Store(true)
		return fmt.Errorf("the iterator returned by %s never finished", c.funcName())
	}
	pipes := make(chan struct{})
	go func() { obiiter.WaitForLastPipe(); close(pipes) }()
	if !waitFor(pipes, deadline) {
		poisoned.Store(true)
		return fmt.Errorf("obiiter.WaitForLastPipe never returned after %s (a writer pipe stayed registered)", c.funcName())
	}
	if n := fatal.Count() - fatalsBefore; n > 0 {
		return fmt.Errorf("the library reported %d fatal error(s): %s", n, fatal.LastMessage())
	}
	return nil
}

// junkBytes is the content found at the path before the first run.
func junkBytes(kind string, n int, seed uint32) []byte {
	out := make([]byte, n)
	switch kind {
	case "junk":
		x := seed | 1
		for i := range out {
			x ^= x << 13
			x ^= x >> 17
			x ^= x << 5
			out[i] = byte(x >> 8)
		}
	case "newlines":
		for i := range out {
			out[i] = '\n'
		}
	}
	return out
}

// textOf decodes the bytes a run produced (gunzip when compression is on).
func textOf(data []byte, gz bool) ([]byte, error) {
	if !gz || len(data) == 0 {
		return data, nil
	}
	return gunzipAll(data)
}

// sameAsFresh compares the file found after a run with what is expected from
// the previous content and the output of the same run on a fresh path.
func sameAsFresh(what string, got, prev, fresh []byte, r reuseRun) error {
	rest := got
	if r.Append {
		if !bytes.HasPrefix(got, prev) {
			d := 0
			for d < len(got) && d < len(prev) && got[d] == prev[d] {
				d++
			}
			return fmt.Errorf("%s held %d bytes before the run with the append option; after the run it holds %d bytes and does not start with the previous content (first difference at byte %d)", what, len(prev), len(got), d)
		}
		rest = got[len(prev):]
	}
	tail := func() string {
		// recognise the tail of the previous content after the new output
		if !r.Append && len(got) > len(fresh) && len(got) == len(prev) && bytes.Equal(got[len(fresh):], prev[len(fresh):]) && bytes.Equal(got[:len(fresh)], fresh) {
			return fmt.Sprintf(": bytes %d..%d of the file are still those of the previous content (the file was not truncated)", len(fresh), len(got))
		}
		return ""
	}
	if !r.Gzip {
		if !bytes.Equal(rest, fresh) {
			after := ""
			if r.Append {
				after = " after the previous content"
			}
			return fmt.Errorf("%s held %d bytes before the run (append=%v); the run writes %d bytes to a fresh path, but %d bytes are found%s%s; found %q, fresh path %q",
				what, len(prev), r.Append, len(fresh), len(rest), after, tail(), abbr(string(rest)), abbr(string(fresh)))
		}
		return nil
	}
	want, err := textOf(fresh, true)
	if err != nil {
		return fmt.Errorf("%s: the output on a fresh path is not a complete gzip stream: %v", what, err)
	}
	text, err := textOf(rest, true)
	if err != nil {
		return fmt.Errorf("%s held %d bytes before the run (append=%v); the run writes one gzip stream of %d bytes to a fresh path, but the %d bytes found are not one complete gzip stream followed by nothing: %v%s",
			what, len(prev), r.Append, len(fresh), len(rest), err, tail())
	}
	if !bytes.Equal(text, want) {
		return fmt.Errorf("%s held %d bytes before the run (append=%v); the gunzipped output is %d bytes on a fresh path, %d bytes here; found %q, fresh path %q",
			what, len(prev), r.Append, len(want), len(text), abbr(string(text)), abbr(string(want)))
	}
	return nil
}

func readOrNil(path string) []byte {
	b, err := os.ReadFile(path)
	if err != nil {
		return nil
	}
	return b
}

func checkReuse(c reuseCase) error {
	if err := c.validate(); err != nil {
		return fmt.Errorf("invalid case: %v", err)
	}
	if poisoned.Load() {
		return fmt.Errorf("an earlier run of this process never finished: its pipe is still registered, later runs cannot be judged in this process")
	}
	dir, err := os.MkdirTemp(run.WorkDir(), "c04reuse")
	if err != nil {
		return nil
	}
	defer os.RemoveAll(dir)
	path, revPath := filepath.Join(dir, "out.dat"), filepath.Join(dir, "out_rev.dat")
	var hist []string
	fail := func(i int, err error) error {
		return fmt.Errorf("%s (paired=%v), history on one path: %s; run %d: %v", c.funcName(), c.Paired, strings.Join(hist, "; "), i, err)
	}
	for i, r := range c.Runs {
		fresh, freshRev := filepath.Join(dir, fmt.Sprintf("fresh%d.dat", i)), filepath.Join(dir, fmt.Sprintf("fresh%d_rev.dat", i))
		fr := r
		fr.Append = false
		if err := writeToFile(c, fr, fresh, freshRev); err != nil {
			return fail(i, fmt.Errorf("writing to a fresh path: %v", err))
		}
		sides := []struct {
			what        string
			path, fresh string
			rev         bool
		}{{"the output file", path, fresh, false}}
		if c.Paired {
			sides = append(sides, struct {
				what        string
				path, fresh string
				rev         bool
			}{"the reverse file (WritePairedReadsTo)", revPath, freshRev, true})
		}
		// (1) what the run writes to a fresh path is a well-formed output
		for _, s := range sides {
			data := readOrNil(s.fresh)
			w := c.wcase(r, s.rev)
			if data == nil {
				return fail(i, fmt.Errorf("%s: the fresh path was not created", s.what))
			}
			if r.Gzip && len(data) == 0 && w.emptyTextExpected() {
				continue
			}
			text, err := textOf(data, r.Gzip)
			if err != nil {
				return fail(i, fmt.Errorf("%s on a fresh path (%d bytes) is not a complete gzip stream: %v", s.what, len(data), err))
			}
			if err := judgeText(w, text); err != nil {
				return fail(i, fmt.Errorf("%s on a fresh path, record counts %v of %d nucleotides, gzip=%v, %d workers: %v", s.what, r.Sizes, w.SeqLen, r.Gzip, r.Workers, err))
			}
		}
		// the content found before the first run
		if i == 0 && c.PreKind != "absent" {
			for _, s := range sides {
				n := 0
				if c.PreKind != "empty" {
					n = max(0, len(readOrNil(s.fresh))+c.PreDelta)
				}
				if os.WriteFile(s.path, junkBytes(c.PreKind, n, c.PreSeed), 0o644) != nil {
					return nil
				}
			}
			hist = append(hist, fmt.Sprintf("before: %s content of (first output %+d) bytes", c.PreKind, c.PreDelta))
		} else if i == 0 {
			hist = append(hist, "before: no file")
		}
		prev := make([][]byte, len(sides))
		for k, s := range sides {
			prev[k] = readOrNil(s.path)
		}
		hist = append(hist, fmt.Sprintf("run %d: record counts %v x %d nt, gzip=%v, append=%v, %d workers (file holds %d bytes before)", i, r.Sizes, r.SeqLen, r.Gzip, r.Append, r.Workers, len(prev[0])))
		if err := writeToFile(c, r, path, revPath); err != nil {
			return fail(i, err)
		}
		// (2) the reused path holds [previous content +] the output of this run, nothing else
		for k, s := range sides {
			got := readOrNil(s.path)
			if got == nil {
				return fail(i, fmt.Errorf("%s does not exist after the run", s.what))
			}
			if err := sameAsFresh(s.what, got, prev[k], readOrNil(s.fresh), r); err != nil {
				return fail(i, err)
			}
		}
		os.Remove(fresh)
		os.Remove(freshRev)
	}
	return nil
}

// ------------------------------------------------------------------ generator

func genReuse(t *rapid.T) reuseCase {
	c := reuseCase{}
	c.Func = rapid.SampledFrom(reuseFuncs).Draw(t, "func")
	if c.Func == "sequences" || c.Func == "json" {
		c.Qual = rapid.Bool().Draw(t, "qual")
	}
	c.Paired = rapid.IntRange(0, 3).Draw(t, "paired") == 0
	c.PreKind = rapid.SampledFrom([]string{"absent", "absent", "empty", "junk", "junk", "junk", "zeros", "newlines"}).Draw(t, "pre_kind")
	if c.PreKind == "junk" || c.PreKind == "zeros" || c.PreKind == "newlines" {
		c.PreDelta = rapid.SampledFrom([]int{-1 << 30, -4097, -100, -1, 0, 0, 1, 1, 7, 100, 4095, 4096, 4097, 70000}).Draw(t, "pre_delta")
		c.PreSeed = rapid.Uint32().Draw(t, "pre_seed")
	}
	nruns := rapid.SampledFrom([]int{1, 2, 2, 3, 3, 4}).Draw(t, "runs")
	if c.PreKind == "absent" && nruns == 1 {
		nruns = 2
	}
	gzMode := rapid.SampledFrom([]string{"never", "never", "always", "mixed"}).Draw(t, "gzip_mode")
	appendMode := rapid.SampledFrom([]string{"never", "never", "never", "mixed", "always"}).Draw(t, "append_mode")
	trend := rapid.SampledFrom([]string{"shrink", "shrink", "grow", "same", "random", "random"}).Draw(t, "trend")
	minN := 0
	if c.Func == "sequences" {
		minN = 1
	}
	genRun := func(scale int) reuseRun {
		r := reuseRun{Workers: rapid.SampledFrom([]int{1, 1, 2, 4}).Draw(t, "workers")}
		n := rapid.IntRange(minN, 4).Draw(t, "n")
		r.SeqLen = rapid.SampledFrom([]int{1, 7, 60, 61, 300}).Draw(t, "seqlen")
		r.Sizes = genSizes(t, n, []int{1, 1, 2, 5, scale, scale})
		return r
	}
	scales := []int{40, 17, 5, 2}
	var first reuseRun
	for i := 0; i < nruns; i++ {
		var r reuseRun
		switch trend {
		case "shrink":
			r = genRun(scales[i])
		case "grow":
			r = genRun(scales[len(scales)-1-i])
		case "same":
			if i == 0 {
				first = genRun(17)
			}
			r = first
			r.Sizes = append([]int(nil), first.Sizes...)
		default:
			r = genRun(rapid.SampledFrom(scales).Draw(t, "scale"))
		}
		switch gzMode {
		case "always":
			r.Gzip = true
		case "mixed":
			r.Gzip = rapid.Bool().Draw(t, "gzip")
		}
		switch appendMode {
		case "always":
			r.Append = true
		case "mixed":
			r.Append = rapid.Bool().Draw(t, "append")
		}
		c.Runs = append(c.Runs, r)
	}
	return c
}

// reuseClasses labels the history with the sizes of the uncompressed outputs
// (estimated from the record counts) and says whether some run found a
// non-empty file at its path.
func reuseClasses(c reuseCase) ([]string, bool) {
	cl := []string{"reuse", "reuse:func:" + c.Func, "reuse:pre:" + c.PreKind, fmt.Sprintf("reuse:paired:%v", c.Paired), fmt.Sprintf("reuse:runs:%d", len(c.Runs))}
	add := func(s string) {
		for _, x := range cl {
			if x == s {
				return
			}
		}
		cl = append(cl, s)
	}
	est := func(r reuseRun) int {
		n := 0
		for _, s := range r.Sizes {
			n += s * (r.SeqLen + 30)
		}
		return n
	}
	nontrivial := false
	held := 0 // estimated size of the content at the path
	if c.PreKind != "absent" && c.PreKind != "empty" {
		held = max(0, est(c.Runs[0])+c.PreDelta)
		switch {
		case c.PreDelta > 0:
			add("reuse:previous_content_longer")
		case c.PreDelta == 0:
			add("reuse:previous_content_same_length")
		case held == 0:
			add("reuse:previous_content_empty")
		default:
			add("reuse:previous_content_shorter")
		}
	}
	for i, r := range c.Runs {
		if held > 0 {
			nontrivial = true
		}
		e := est(r)
		if i > 0 {
			p := c.Runs[i-1]
			switch {
			case r.Append:
				add("reuse:append_run")
			case e < est(p):
				add("reuse:rerun_shorter")
			case e == est(p):
				add("reuse:rerun_same_length")
			default:
				add("reuse:rerun_longer")
			}
			if r.Gzip != p.Gzip {
				add(fmt.Sprintf("reuse:rerun_gzip_%v_after_%v", r.Gzip, p.Gzip))
			}
			if e == 0 {
				add("reuse:rerun_without_record")
			}
		} else if r.Append {
			add("reuse:append_first_run")
		}
		if r.Gzip {
			add("reuse:gzip")
		}
		if r.Append {
			held += e
		} else {
			held = e
		}
		if c.Func == "json" {
			held = max(held, 3) // the brackets of the array
		}
	}
	return cl, nontrivial
}

func TestPropReuseToFile(t *testing.T) {
	rapid.Check(t, func(rt *rapid.T) {
		skipIfPoisoned(rt)
		c := genReuse(rt)
		cl, nontrivial := reuseClasses(c)
		evid.Eval("reuse_tofile", evid.Hash(c.key()), nontrivial, c, cl...)
		if err := checkReuse(c); err != nil {
			evid.Fail(rt, "reuse_tofile", c, err)
		}
	})
}
