// Property C04 — writers emit every batch once, in order, as well-formed
// FASTA/FASTQ/JSON/CSV, and close the output after the last batch.
//
// Domain decisions
//
//   - "Empty batch" means a batch holding zero records.  Records with an empty
//     nucleotide sequence are a different subject (FormatFastaBatch reports them
//     with log.Fatalf unless --skip-empty): every generated record has >= 1
//     nucleotide.
//   - A history is a permutation of the batch numbers 0..n-1 (each number exactly
//     once, none missing): that is what every producer in the tree delivers.
//     Streams with a missing or a repeated number are out of the statement.
//   - Controlled histories use ONE formatting worker: the single formatting
//     goroutine takes batches from the unbuffered source channel in push order and
//     hands each formatted chunk to the writer goroutine before taking the next
//     one, so the arrival order at the writer goroutine is exactly the push order.
//     WriteSeqFileChunk is fed from one goroutine through its own channel.
//   - With several formatting workers the arrival order at the writer goroutine
//     cannot be observed without a hook; those runs are judged by the same output
//     oracle but are never counted as non-trivial (only the order seen at the
//     returned iterator is recorded, as the class "uncontrolled:iterator_out_of_order").
//   - CloseFile requested: Close of the caller's io.WriteCloser exactly once, after
//     the last byte.  CloseFile not requested (WriteJSONToStdout/WriteCSVToStdout
//     use this): Close of the caller's stream is never called, and every byte —
//     including the gzip trailer when compression is on — has reached the stream
//     when the writer's pipes are unregistered (obiiter.WaitForLastPipe, the
//     signal every command waits on before exiting).
//   - Zero batches: JSON must still be one valid (empty) array ("always");
//     FASTA/FASTQ must be empty text; the CSV sentence of the statement starts at
//     one batch, so for zero batches only "no data row" is required (header
//     optional).  With compression on, an output of zero bytes and a complete
//     gzip stream of zero bytes are both accepted for empty text.
//   - WriteSequence (universal_write.go) chooses FASTA or FASTQ from the first
//     batch that *arrives*; which of the two is right when that batch is empty is
//     not decided by the statement: the output is read in the format it
//     announces by its first byte and must hold every record once, in order.
//     WriteSequence on a stream of zero batches returns its input iterator
//     without creating any writer: not generated (nothing to observe).
//   - CSV with automatic columns takes its columns from the first arriving batch;
//     which columns are right is not part of the statement: the header must be
//     one line holding "id" and "sequence", rows are judged on these two columns
//     (and on the "batch" column when present) and on a constant field count.
//   - Record formatting itself (headers, folding, escaping) belongs to C02; records
//     here carry plain identifiers, one integer annotation, acgt sequences.
//   - Write errors belong to C18: the harness stream never fails.
package c04

import (
	"testing"

	"verifharness/internal/evid"
)

func TestMain(m *testing.M) {
	evid.Tests(
		evid.Spec{Name: "TestReplay", Kind: "plain", QuickShards: 1, ThoroughShards: 1},
		evid.Spec{Name: "TestModelExhaustive", Kind: "plain", QuickShards: 1, ThoroughShards: 1},
		evid.Spec{Name: "TestExhaustiveHistories", Kind: "plain", QuickShards: 16, ThoroughShards: 16, TimeoutS: 3000},
		evid.Spec{Name: "TestExhaustivePermutations", Kind: "plain", QuickShards: 4, ThoroughShards: 16, TimeoutS: 3000},
		evid.Spec{Name: "TestPropRandomHistories", Kind: "rapid", Quick: 16000, Thorough: 400000, QuickShards: 8, ThoroughShards: 16},
		evid.Spec{Name: "TestPropUncontrolled", Kind: "rapid", Quick: 1600, Thorough: 40000, QuickShards: 8, ThoroughShards: 16},
	)
	evid.Note("rule", "A case = writer (WriteFasta, WriteFastq, WriteJSON, WriteCSV, WriteSequence, WriteSeqFileChunk) x n batches with a record count each (0 = empty batch) x arrival permutation x gzip on/off x CloseFile on/off. Controlled cases use one formatting worker, so the push order is the arrival order at the writer goroutine; a small model of the re-sequencing buffer derives from the permutation which chunks are buffered and how long each drained run is. Exhaustive: every permutation x every subset of empty batches x 6 writers x gzip x close for n<=5 (quick) / n<=6 (thorough), and every permutation for n=6 / n=7..8 with three empty patterns (none, even batches, odd batches); random histories up to 12 batches with record sizes that cross the 4 KiB buffer of the stream wrapper; uncontrolled runs with 2..8 formatting workers, unequal batch sizes and schedule jitter. Oracle: the bytes received by the harness io.WriteCloser (gunzipped with compress/gzip when compression is on) re-read with independent parsers: FASTA/FASTQ ids, sequences, qualities in batch order each exactly once; encoding/json accepts the whole JSON output as one array whose i-th object is the i-th record; encoding/csv reads one header row then one row per record in order; Close exactly once after the last byte when CloseFile is requested, never otherwise, and nothing missing when the pipes are unregistered. Non-trivial = controlled history in which some batch k+1 reaches the writer before batch k (the buffered branch runs). Distinct = hash of (writer, record counts, arrival, options).")
	evid.Main(m, "C04")
}

func checkName(writer string) string { return "write_" + writer }

func TestReplay(t *testing.T) { evid.Replay(t) }

func init() {
	// one replayable check per writer, so that violations of different writers
	// are reported (and saved) separately
	for _, w := range writers {
		evid.Reg(checkName(w), checkWriter)
	}
}
