// Property C04 — writers emit every batch once, in order, as well-formed
// FASTA/FASTQ/JSON/CSV, and close the output after the last batch.
//
// Domain decisions
//
//   - "Empty batch" means a batch holding zero records.  Records with an empty
//     nucleotide sequence are a different subject (FormatFastaBatch reports them
//     with log.Fatalf unless --skip-empty): every generated record has >= 1
//     nucleotide - except under the skip-empty option (skipempty_test.go), where
//     records of length zero are part of the histories of the writers that honour
//     the option (WriteFasta, WriteFastq, WriteSequence) and are expected to be
//     left out of the output ("sequences of length equal to zero are suppressed
//     from the output"), every other record being written once, in order.
//   - A history is a permutation of the batch numbers 0..n-1 (each number exactly
//     once, none missing): that is what every producer in the tree delivers.
//     Streams with a missing or a repeated number are out of the statement.
//   - Controlled histories use ONE formatting worker: the single formatting
//     goroutine takes batches from the unbuffered source channel in push order and
//     hands each formatted chunk to the writer goroutine before taking the next
//     one, so the arrival order at the writer goroutine is exactly the push order.
//     WriteSeqFileChunk is fed from one goroutine through its own channel.
//   - With several formatting workers the arrival order at the writer goroutine
//     cannot be observed without a hook; those runs are judged by the same output
//     oracle but are never counted as non-trivial (only the order seen at the
//     returned iterator is recorded, as the class "uncontrolled:iterator_out_of_order").
//   - CloseFile requested: Close of the caller's io.WriteCloser exactly once, after
//     the last byte.  CloseFile not requested (WriteJSONToStdout/WriteCSVToStdout
//     use this): Close of the caller's stream is never called, and every byte —
//     including the gzip trailer when compression is on — has reached the stream
//     when the writer's pipes are unregistered (obiiter.WaitForLastPipe, the
//     signal every command waits on before exiting).
//   - Zero batches: JSON must still be one valid (empty) array ("always");
//     FASTA/FASTQ must be empty text; the CSV sentence of the statement starts at
//     one batch, so for zero batches only "no data row" is required (header
//     optional).  With compression on, an output of zero bytes and a complete
//     gzip stream of zero bytes are both accepted for empty text.
//   - WriteSequence (universal_write.go) chooses FASTA or FASTQ from the first
//     batch that *arrives*; which of the two is right when that batch is empty is
//     not decided by the statement: the output is read in the format it
//     announces by its first byte and must hold every record once, in order.
//     WriteSequence on a stream of zero batches returns its input iterator
//     without creating any writer: not generated (nothing to observe).
//   - CSV with automatic columns takes its columns from the first arriving batch;
//     which columns are right is not part of the statement: the header must be
//     one line holding "id" and "sequence", rows are judged on these two columns
//     (and on the "batch" column when present) and on a constant field count.
//   - Record formatting itself (headers, folding, escaping) belongs to C02; records
//     here carry plain identifiers, one integer annotation, acgt sequences.
//   - Write errors belong to C18: the harness stream never fails.
//   - Chunk sizes (huge_test.go): "every batch exactly once in increasing batch
//     number" holds whatever the size of a formatted chunk; the statement names
//     pkg/obiutils/gzipfile.go (the 4 KiB buffer + pgzip wrapper every writer
//     writes into) among its anchors.  Histories therefore mix chunks of 0 bytes,
//     of a few bytes, of 4 KiB, 64 KiB, 1 MiB (one pgzip block) and 4 MiB.  The
//     direct WriteSeqFileChunk runs can be placed in front of that wrapper
//     (wcase.Wfile), as WriteFasta/WriteFastq do.
//   - Output files used again (reuse_test.go, cli_test.go): "emit every batch
//     exactly once ... and close the output after the last one" is read on the
//     file found after the run: it holds the output of that run and nothing else,
//     whatever the path held before; with the append option (OptionsAppendFile,
//     obidistribute --append) it holds its previous content followed by the
//     output of the run.  The oracle is differential (the same run on a fresh
//     path) on top of the oracle of the package.
//   - WriteCSVToFile was found to open its file without O_TRUNC (a shorter output
//     left the tail of the previous content; no command reaches it, obicsv writes
//     to stdout and ignores -o).  Repaired in the repository; the function is in
//     the generator of reuse_test.go since then.
//   - Command level (cli_test.go): the output of a command is compared with the
//     output of the same command line without --compress / in an empty directory;
//     inputs of the path-reuse histories stay below one reader piece (<= 300 short
//     records), so that the record order inside the obidistribute files does not
//     depend on the schedule.  obicsv ignores -o: stdout only.  A generated FASTQ
//     record is at most 0.8 MB (sequence + qualities): a file whose first record
//     does not fit in the first MiB is not recognised as FASTQ by the readers
//     ("guessed format text/plain ... not yet implemented"), which concerns the
//     reading side, not the writers.
//   - Long backlogs (backlog_test.go): the statement puts no bound on the number
//     of chunks that wait for a late one, nor on the number of formatting
//     workers: thousands of chunks parked behind one chunk, with holes, are in the
//     domain.  With several workers the arrival order is forced by holding
//     chosen batches back INSIDE their formatting worker (an annotation value
//     whose text form is produced late); the text written is the same as for the
//     plain integer.  The harness type is formatted once on one goroutine before
//     the first gated run (goccy/go-json compiles encoders at first use in an
//     unsynchronised cache; two workers meeting a NEW type at the same moment
//     garbled a record about once in 40 fresh processes - an artefact of the
//     type brought by the harness, the types of the repository showed nothing in
//     600 fresh processes).
package c04

import (
	"testing"

	"verifharness/internal/evid"
)

func TestMain(m *testing.M) {
	evid.Tests(
		evid.Spec{Name: "TestReplay", Kind: "plain", QuickShards: 1, ThoroughShards: 1},
		evid.Spec{Name: "TestModelExhaustive", Kind: "plain", QuickShards: 1, ThoroughShards: 1},
		evid.Spec{Name: "TestExhaustiveHistories", Kind: "plain", QuickShards: 16, ThoroughShards: 16, TimeoutS: 3000},
		evid.Spec{Name: "TestExhaustivePermutations", Kind: "plain", QuickShards: 4, ThoroughShards: 16, TimeoutS: 3000},
		evid.Spec{Name: "TestPropRandomHistories", Kind: "rapid", Quick: 16000, Thorough: 400000, QuickShards: 8, ThoroughShards: 16},
		evid.Spec{Name: "TestPropUncontrolled", Kind: "rapid", Quick: 1600, Thorough: 40000, QuickShards: 8, ThoroughShards: 16},
	)
	evid.Note("rule", "A case = writer (WriteFasta, WriteFastq, WriteJSON, WriteCSV, WriteSequence, WriteSeqFileChunk) x n batches with a record count each (0 = empty batch) x arrival permutation x gzip on/off x CloseFile on/off. Controlled cases use one formatting worker, so the push order is the arrival order at the writer goroutine; a small model of the re-sequencing buffer derives from the permutation which chunks are buffered and how long each drained run is. Exhaustive: every permutation x every subset of empty batches x 6 writers x gzip x close for n<=5 (quick) / n<=6 (thorough), and every permutation for n=6 / n=7..8 with three empty patterns (none, even batches, odd batches); random histories up to 12 batches with record sizes that cross the 4 KiB buffer of the stream wrapper; uncontrolled runs with 2..8 formatting workers, unequal batch sizes and schedule jitter. Oracle: the bytes received by the harness io.WriteCloser (gunzipped with compress/gzip when compression is on) re-read with independent parsers: FASTA/FASTQ ids, sequences, qualities in batch order each exactly once; encoding/json accepts the whole JSON output as one array whose i-th object is the i-th record; encoding/csv reads one header row then one row per record in order; Close exactly once after the last byte when CloseFile is requested, never otherwise, and nothing missing when the pipes are unregistered. Non-trivial = controlled history in which some batch k+1 reaches the writer before batch k (the buffered branch runs). Distinct = hash of (writer, record counts, arrival, options). "+
		"TestPropHugeChunks: the same writers (WriteSeqFileChunk placed in front of the real obiutils.CompressStream wrapper) x 1..6 batches of a few long records (case = record lengths; sequences rebuilt from batch, index, length) whose formatted chunks are 0 bytes, < 4 KiB, around 4 KiB, 5..60 KiB, around 64 KiB, 0.1..0.9 MiB, around 1 MiB (-1, 0, +1 exactly for the chunk writer), 1..2 MiB, around 4 MiB, 4..5 MiB, in the patterns free / small..HUGE..small / HUGE first / alternating / all huge x arrival permutation x gzip (3 in 4) x CloseFile; same oracle; non-trivial = a chunk of >= 64 KiB is written after a smaller non-empty write (a smaller non-empty batch or the opening of the JSON array). "+
		"TestPropReuseToFile: WriteSequencesToFile / WriteFastaToFile / WriteFastqToFile / WriteJSONToFile (1 in 4 with paired reads and WritePairedReadsTo) x content found at the path before the first run (absent, empty, random bytes / zeros / newlines of the length of the first output -4097..+70000) x 1..4 successive runs to the same path with shrinking / growing / equal / random outputs, per-run gzip and append flags, 1..4 workers; oracle: each run on a fresh path passes the oracle above, and the reused file is exactly [previous content if append +] the fresh output (gunzipped text compared when compressed: one complete gzip stream, nothing after it); non-trivial = some run finds a non-empty file at its path. "+
		"TestPropCLICompress: obiconvert (FASTA/FASTQ/JSON output) / obigrep -l / obicsv -i -s [...] on 1..3 generated input files (a few records; 20..400 records; 0.5..4 MB of thousands of records; 1..5 sequences of 0.2..4 MB; FASTA one-line or folded, FASTQ) in the orders small+BIG, BIG, BIG+small, small+BIG+small, BIG+BIG, medium+BIG, stdout or -o, --max-cpu default/1/2/8; oracle: the run without -Z holds every (selected) input record once in input order (independent FASTA/FASTQ parsers, encoding/json array, encoding/csv header + rows), the run with -Z is one complete gzip stream of exactly the same bytes; non-trivial = an input file of >= 0.5 MB. "+
		"TestPropCLIReuse: obiconvert -o (also --paired-with: _R1/_R2 files), obigrep -o --save-discarded, obidistribute -c -p [--append], with/without -Z and output format flags, 1..3 runs in one directory on inputs of shrinking / growing / equal / random sizes (1..300 records), directory optionally holding files of any content under the output names before the first run; oracle: after each run every output file equals what the same command line writes in an empty directory (previous content + that with --append); non-trivial = some run finds its output names in use. "+
		"TestPropLongBacklog / TestPropGatedBacklog (backlog_test.go): histories of up to ~6000 batches (thorough: up to 140000) of 1..2 tiny records, stored compactly as (n, base order = identity or blocks of B numbers in decreasing order, displaced chunks {chunk, arrives right after chunk}) and rebuilt: 8..5000 chunks (thorough also 16384, 65536 +-1 and any size up to 70000; sizes drawn on 255..257, 1023..1027, 2047..2049, 4095..4097) parked behind ONE late chunk, with 0..3 holes inside the backlog (chunks that arrive just after the late one, or up to 60 chunks later), then 0..1100 further chunks; two such backlogs in a row; blocks in decreasing order (the list fills to B-1 and empties, again and again) with displaced chunks; 1..6 chunks displaced at random; one chunk more than 1020 positions early or late; empty batches every 2nd/3rd/7th; gzip, CloseFile, the 6 writers. Controlled = one formatting worker or WriteSeqFileChunk fed directly (arrival order = the rebuilt permutation). Gated = WriteFasta/WriteFastq/WriteJSON/WriteCSV/WriteSequence with 2..8 formatting workers, batches pushed in increasing number, at most workers-1 displaced batches held back inside their formatting worker (the text form of the annotation 'batch' of their first record is produced only when the returned iterator has delivered the batch they follow and as many batches as precede them in the rebuilt permutation): the backlog and the holes are guaranteed without any timing assumption. Same oracle. Non-trivial = the model of the waiting list reaches 256 waiting chunks and some drain stops at a hole (chunks left waiting behind a number that has not arrived). "+
		"TestExhaustiveSkipEmpty / TestPropSkipEmpty (skipempty_test.go): the writers are given OptionsSkipEmptySequence(true) (--skip-empty) and, for WriteFasta / WriteFastq / WriteSequence, records of length zero are mixed in (case = record lengths per batch): each batch holds no record / only records of length zero / some records of length zero (first, last, inner) / none, at any batch position (spreads: mixed, mostly blank, all blank, exactly one blank batch, mostly full), x arrival permutation x 1 worker (3 in 4) or 2..8 workers with jitter x gzip x CloseFile; exhaustive for 1..4 (quick) / 1..5 (thorough) batches over all permutations x all assignments of the four batch kinds; random histories of 1..12 and 66..200 batches; WriteJSON / WriteCSV with the option on and no record of length zero (the option changes nothing). Oracle: the one above on the records of non-zero length: each exactly once in batch order, nothing else, nothing left parked, Close as requested. Non-trivial = some batch holding only records of length zero (its formatted text is empty) has a batch with a record to write after it.")
	evid.Main(m, "C04")
}

func checkName(writer string) string { return "write_" + writer }

func TestReplay(t *testing.T) { evid.Replay(t) }

func init() {
	// one replayable check per writer, so that violations of different writers
	// are reported (and saved) separately
	for _, w := range writers {
		evid.Reg(checkName(w), checkWriter)
	}
}
