package c04

import (
	"fmt"
	"sort"
	"testing"

	"pgregory.net/rapid"

	"verifharness/internal/evid"
	"verifharness/internal/gen"
)

// The skip-empty option as an axis of the writer histories.
//
// "Whether or not some batches are empty": a batch can be empty for the writer
// in two ways.  It holds no record (the other tests), or - with the option
// OptionsSkipEmptySequence(true), --skip-empty of the commands: "sequences of
// length equal to zero are suppressed from the output" - all of its records have
// length zero and its formatted text is empty.  The option is honoured by
// FormatFastaBatch and FormatFastqBatch, hence by WriteFasta, WriteFastq and
// WriteSequence; WriteJSON and WriteCSV accept it and ignore it.
//
// Domain: with skip-empty on, records of length zero are mixed in for the three
// writers that honour the option: per batch none / some / all of the records are
// empty, or the batch holds no record, at any batch position, combined with the
// arrival orders, worker counts, gzip and CloseFile of the other tests.  For
// JSON and CSV only the option is switched on (it must change nothing); what
// these two writers do with a record of length zero is not decided by the
// statement nor by the help text, so none is generated for them.  Without
// skip-empty the domain of the package is unchanged (no record of length zero:
// the formatting functions report them with log.Fatalf).
//
// Oracle: the one of the package, on the NON-EMPTY records: the output holds
// every record of non-zero length of every batch exactly once, in batch order,
// nothing else; nothing is left parked in the writer; Close as requested; empty
// text when no record is left.

func init() {
	evid.Tests(
		evid.Spec{Name: "TestExhaustiveSkipEmpty", Kind: "plain", QuickShards: 8, ThoroughShards: 16, TimeoutS: 3000},
		evid.Spec{Name: "TestPropSkipEmpty", Kind: "rapid", Quick: 8000, Thorough: 200000, QuickShards: 8, ThoroughShards: 16},
	)
}

// batch kinds
const (
	kindNoRecord = iota // the batch holds no record
	kindAllZero         // every record of the batch has length zero
	kindSomeZero        // records of length zero next to records with nucleotides
	kindNoneZero        // no record of length zero
)

// kindsOf classifies the batches of a case from its record lengths.
func kindsOf(c wcase) []int {
	out := make([]int, c.n())
	for b := range out {
		zero, full := 0, 0
		for i := 0; i < c.Sizes[b]; i++ {
			if c.seqLen(b, i) == 0 {
				zero++
			} else {
				full++
			}
		}
		switch {
		case zero+full == 0:
			out[b] = kindNoRecord
		case full == 0:
			out[b] = kindAllZero
		case zero == 0:
			out[b] = kindNoneZero
		default:
			out[b] = kindSomeZero
		}
	}
	return out
}

func skipClasses(c wcase) (cl []string, nontrivial bool) {
	kinds := kindsOf(c)
	n := len(kinds)
	cl = append(cl, "skipempty", "skipempty:writer:"+c.Writer)
	count := [4]int{}
	lastFull := -1 // last batch holding a record that must be written
	for b, k := range kinds {
		count[k]++
		if k == kindSomeZero || k == kindNoneZero {
			lastFull = b
		}
	}
	if count[kindAllZero]+count[kindSomeZero] == 0 {
		cl = append(cl, "skipempty:option_only_no_zero_length_record")
	}
	if count[kindSomeZero] > 0 {
		cl = append(cl, "skipempty:batch_some_records_zero")
	}
	if count[kindAllZero] > 0 {
		cl = append(cl, "skipempty:batch_all_records_zero")
		if kinds[0] == kindAllZero {
			cl = append(cl, "skipempty:all_zero_batch_at_0")
		}
		if kinds[n-1] == kindAllZero {
			cl = append(cl, "skipempty:all_zero_batch_last")
		}
		for b := 1; b < n-1; b++ {
			if kinds[b] == kindAllZero {
				cl = append(cl, "skipempty:all_zero_batch_middle")
				break
			}
		}
	}
	if count[kindAllZero] > 0 && count[kindNoRecord] > 0 {
		cl = append(cl, "skipempty:all_zero_batch_and_batch_without_record")
	}
	if n > 0 && lastFull < 0 {
		cl = append(cl, "skipempty:no_record_left_in_the_output")
	}
	run, best := 0, 0
	for b, k := range kinds {
		if k == kindAllZero || k == kindNoRecord {
			run++
		} else {
			run = 0
		}
		if run > best {
			best = run
		}
		// a batch whose text is empty although it holds records, with records to
		// write after it
		if k == kindAllZero && b < lastFull {
			nontrivial = true
		}
	}
	if nontrivial {
		cl = append(cl, "skipempty:all_zero_batch_followed_by_records")
	}
	if best >= 2 {
		cl = append(cl, "skipempty:run_of_blank_batches>=2")
	}
	return cl, nontrivial
}

// evalSkipAndCheck counts a skip-empty case, runs it, and fails on a violation.
func evalSkipAndCheck(t evid.TB, c wcase, extra ...string) {
	h := reseqModel(c.Arrival)
	obs, err := checkWriterObs(c)
	cl := append(classesOf(c, h), extra...)
	scl, nontrivial := skipClasses(c)
	cl = append(cl, scl...)
	if c.Workers > 1 && !sort.IntsAreSorted(obs.IterOrder) {
		cl = append(cl, "uncontrolled:iterator_out_of_order")
	}
	if nontrivial && c.Workers == 1 && len(h.Buffered) > 0 {
		cl = append(cl, "skipempty:all_zero_batch_followed_by_records+buffered_branch")
	}
	evid.Eval(checkName(c.Writer), evid.Hash(c.key()), nontrivial, c, cl...)
	if err != nil {
		evid.Fail(t, checkName(c.Writer), c, err)
	}
}

// ------------------------------------------------------------------ exhaustive

// lensForKind gives the record lengths of batch b of the given kind in the
// exhaustive enumeration (deterministic; the place of the empty records
// alternates with the batch number).
func lensForKind(kind, b int) []int {
	switch kind {
	case kindAllZero:
		if b%2 == 0 {
			return []int{0}
		}
		return []int{0, 0}
	case kindSomeZero:
		if b%2 == 0 {
			return []int{0, 5}
		}
		return []int{5, 0, 0}
	case kindNoneZero:
		if b%2 == 0 {
			return []int{5}
		}
		return []int{5, 61}
	}
	return []int{}
}

func skipCaseFromKinds(writer string, kinds, arrival []int) wcase {
	c := wcase{Writer: writer, Arrival: arrival, Workers: 1, Close: true, SkipEmpty: true}
	c.Lens = make([][]int, len(kinds))
	c.Sizes = make([]int, len(kinds))
	for b, k := range kinds {
		c.Lens[b] = lensForKind(k, b)
		c.Sizes[b] = len(c.Lens[b])
	}
	return c
}

// TestExhaustiveSkipEmpty: every arrival permutation x every assignment of the
// four batch kinds to the batches, 1..4 (quick) / 1..5 (thorough) batches, for
// the three writers that honour skip-empty.
func TestExhaustiveSkipEmpty(t *testing.T) {
	maxN := evid.Pick(4, 5)
	shard, ns := evid.Shard(), evid.NShards()
	idx := 0
	type variant struct {
		writer            string
		qual, gzip, close bool
	}
	vs := []variant{
		{"fasta", false, false, true}, {"fasta", false, false, false}, {"fasta", false, true, true},
		{"fastq", true, false, true}, {"fastq", true, false, false}, {"fastq", true, true, true},
		{"sequence", false, false, true}, {"sequence", true, false, true}, {"sequence", true, true, false},
	}
	for n := 1; n <= maxN; n++ {
		nk := 1
		for i := 0; i < n; i++ {
			nk *= 4
		}
		permutations(n, func(p []int) {
			for code := 0; code < nk; code++ {
				idx++
				if idx%ns != shard {
					continue
				}
				kinds := make([]int, n)
				for b, x := 0, code; b < n; b, x = b+1, x/4 {
					kinds[b] = x % 4
				}
				arrival := append([]int(nil), p...)
				for _, v := range vs {
					c := skipCaseFromKinds(v.writer, kinds, arrival)
					c.Qual, c.Gzip, c.Close = v.qual, v.gzip, v.close
					evalSkipAndCheck(t, c, "exhaustive_skipempty")
				}
			}
		})
	}
	evid.Exhaustive(fmt.Sprintf("skip-empty on: all arrival permutations x all assignments of {no record, all records of length zero, some records of length zero, no record of length zero} to the batches for 1..%d batches x {WriteFasta, WriteFastq, WriteSequence (with and without qualities)} x 3 gzip/CloseFile combinations, one formatting worker", maxN))
}

// ------------------------------------------------------------------ random

func genSkipEmpty(t *rapid.T) wcase {
	c := wcase{SkipEmpty: true, Workers: 1}
	c.Writer = rapid.SampledFrom([]string{"fasta", "fasta", "fasta", "fastq", "fastq", "fastq", "sequence", "sequence", "json", "csv"}).Draw(t, "writer")
	zeroOK := c.Writer == "fasta" || c.Writer == "fastq" || c.Writer == "sequence"
	n := gen.Len(t, "n", 1, 12, 2, 3)
	counts := []int{1, 1, 2, 3, 5, 17}
	lens := []int{1, 7, 59, 60, 61, 120, 300}
	if rapid.IntRange(0, 9).Draw(t, "long") == 0 {
		// a long history: many blank chunks in a row, or records waiting behind many blank chunks
		n = rapid.IntRange(66, 200).Draw(t, "n_long")
		counts = []int{1, 1, 2}
		lens = []int{7, 60}
	}
	if rapid.IntRange(0, 3).Draw(t, "several_workers") == 0 {
		c.Workers = rapid.IntRange(2, 8).Draw(t, "workers")
		c.JitterMaxUs = rapid.SampledFrom([]uint64{0, 20, 200}).Draw(t, "jitter_max_us")
		if c.JitterMaxUs > 0 {
			c.JitterSeed = rapid.Uint64Range(1, 1<<32).Draw(t, "jitter_seed")
		}
		counts = append(counts, 40, 150)
	}
	// how the batch kinds are spread over the stream
	weights := map[string][]int{ // no record, all zero, some zero, none zero
		"mixed":        {kindNoRecord, kindAllZero, kindAllZero, kindSomeZero, kindSomeZero, kindNoneZero, kindNoneZero},
		"mostly_blank": {kindNoRecord, kindAllZero, kindAllZero, kindAllZero, kindAllZero, kindSomeZero, kindNoneZero},
		"all_blank":    {kindNoRecord, kindAllZero, kindAllZero, kindAllZero},
		"all_zero":     {kindAllZero},
		"mostly_full":  {kindAllZero, kindSomeZero, kindNoneZero, kindNoneZero, kindNoneZero, kindNoneZero, kindNoneZero},
		"some_only":    {kindSomeZero, kindNoneZero},
	}
	spread := rapid.SampledFrom([]string{"mixed", "mixed", "mixed", "mostly_blank", "mostly_blank", "all_blank", "all_zero", "mostly_full", "mostly_full", "some_only", "one_blank"}).Draw(t, "spread")
	if !zeroOK {
		spread = "option_only"
	}
	kinds := make([]int, n)
	switch spread {
	case "option_only": // JSON / CSV: the option is on, no record of length zero
		for b := range kinds {
			kinds[b] = kindNoneZero
			if rapid.IntRange(0, 3).Draw(t, "no_record") == 0 {
				kinds[b] = kindNoRecord
			}
		}
	case "one_blank": // exactly one batch of empty records, anywhere, the others full
		for b := range kinds {
			kinds[b] = kindNoneZero
		}
		kinds[rapid.IntRange(0, n-1).Draw(t, "blank_at")] = kindAllZero
	default:
		for b := range kinds {
			kinds[b] = rapid.SampledFrom(weights[spread]).Draw(t, "kind")
		}
	}
	c.Lens = make([][]int, n)
	c.Sizes = make([]int, n)
	for b, k := range kinds {
		sz := 0
		if k != kindNoRecord {
			sz = rapid.SampledFrom(counts).Draw(t, "records")
		}
		if k == kindSomeZero && sz < 2 {
			sz = 2
		}
		ls := make([]int, sz)
		for i := range ls {
			ls[i] = rapid.SampledFrom(lens).Draw(t, "len")
		}
		switch k {
		case kindAllZero:
			for i := range ls {
				ls[i] = 0
			}
		case kindSomeZero:
			// at least one empty and one non-empty record; first / last / inner records empty
			keep := rapid.IntRange(0, sz-1).Draw(t, "kept")
			zero := (keep + 1 + rapid.IntRange(0, sz-2).Draw(t, "zero_at")) % sz
			ls[zero] = 0
			for i := range ls {
				if i != keep && i != zero && rapid.IntRange(0, 2).Draw(t, "also_zero") == 0 {
					ls[i] = 0
				}
			}
		}
		c.Lens[b] = ls
		c.Sizes[b] = sz
	}
	if c.Workers == 1 || rapid.IntRange(0, 4).Draw(t, "permuted_push") == 0 {
		c.Arrival = genArrival(t, n)
	} else {
		c.Arrival = make([]int, n)
		for i := range c.Arrival {
			c.Arrival[i] = i
		}
	}
	c.Gzip = rapid.IntRange(0, 2).Draw(t, "gzip") == 0
	c.Close = rapid.Bool().Draw(t, "close")
	switch c.Writer {
	case "csv":
		c.CSVAuto = rapid.Bool().Draw(t, "csvauto")
	case "sequence", "json":
		c.Qual = rapid.Bool().Draw(t, "qual")
	}
	return c
}

func TestPropSkipEmpty(t *testing.T) {
	rapid.Check(t, func(rt *rapid.T) {
		skipIfPoisoned(rt)
		c := genSkipEmpty(rt)
		extra := []string{"random_skipempty"}
		if c.Workers > 1 {
			extra = append(extra, "skipempty:several_workers")
		}
		evalSkipAndCheck(rt, c, extra...)
	})
}
