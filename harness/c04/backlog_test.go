package c04

import (
	"fmt"
	"sort"
	"strconv"
	"strings"
	"sync"
	"testing"

	"pgregory.net/rapid"

	"git.metabarcoding.org/obitools/obitools4/obitools4/pkg/obiformats"
	"git.metabarcoding.org/obitools/obitools4/obitools4/pkg/obiseq"

	"verifharness/internal/evid"
)

// Long backlogs: thousands of chunks parked behind one late chunk.
//
// "Whatever the order in which formatted batches reach a writer ... every batch
// exactly once in increasing batch number" does not bound the number of chunks
// that wait for a late one: a formatting worker that is late by thousands of
// batches (one chromosome among barcodes, a tiny --batch-size) leaves the
// waiting list of the writer goroutine with thousands of entries, and, with
// three formatting workers or more, with holes in it (a second chunk still
// being formatted somewhere inside the backlog) at the moment the late chunk
// arrives.  The other tests of the package stop at 300 batches.
//
// A case is stored compactly (bcase): n batches, a base order (the identity or
// blocks of Block consecutive numbers delivered in decreasing order) and a short
// list of displaced chunks {Chunk, After}: the chunk is taken out of the base
// order and reaches the writer right after chunk After has (After may itself be
// a displaced chunk; several chunks attached to the same one arrive in
// increasing number).  The arrival permutation is rebuilt from these parameters.
//
//   - TestPropLongBacklog (controlled): one formatting worker, or
//     WriteSeqFileChunk fed directly: the arrival order at the writer goroutine
//     is exactly the rebuilt permutation (domain decision of the package).
//   - TestPropGatedBacklog (3..8 formatting workers, the real WriteFasta /
//     WriteFastq / WriteJSON / WriteCSV / WriteSequence): batches are pushed in
//     increasing number; the displaced batches are held back inside their
//     formatting worker: their first record carries the annotation "batch" as a
//     value whose text form (MarshalJSON for the FASTA/FASTQ header and the JSON
//     writer, String for the CSV writer) is the same digits as the integer, but
//     is produced only once the iterator returned by the writer has delivered
//     (a) batch After and (b) as many batches as precede the displaced one in the
//     rebuilt permutation.  A batch is delivered by that iterator after its chunk
//     has been received by the writer goroutine, so when a held-back chunk
//     arrives at least that many others have arrived before it, whatever the
//     scheduler does: the size of the backlog and the hole are guaranteed, no
//     timing involved.  At most workers-1 batches are held back, so one worker
//     is always free and every gate opens on a correct tree.
//
// Oracle: the one of the package (judge).  Non-trivial = the model of the waiting
// list (backlogModel on the rebuilt permutation) reaches 256 waiting chunks or
// more and some drain stops at a hole, i.e. leaves chunks waiting behind a
// number that has not arrived yet.

func init() {
	for _, w := range writers {
		evid.Reg(backlogCheckName(w), checkBacklog)
	}
	evid.Tests(
		evid.Spec{Name: "TestBacklogModel", Kind: "plain", QuickShards: 1, ThoroughShards: 1},
		evid.Spec{Name: "TestPropLongBacklog", Kind: "rapid", Quick: 1600, Thorough: 8000, QuickShards: 8, ThoroughShards: 16},
		evid.Spec{Name: "TestPropGatedBacklog", Kind: "rapid", Quick: 800, Thorough: 4000, QuickShards: 8, ThoroughShards: 16},
	)
}

func backlogCheckName(writer string) string { return "backlog_" + writer }

// ------------------------------------------------------------------ the compact case

type lateSpec struct {
	Chunk int `json:"chunk"` // the displaced chunk
	After int `json:"after"` // it reaches the writer right after this one
}

type bcase struct {
	Writer string     `json:"writer"`
	N      int        `json:"n"`
	Block  int        `json:"block"` // base order: blocks of Block numbers, each block in decreasing order (1 = identity)
	Lates  []lateSpec `json:"lates"`
	// batch k is empty when EmptyMod > 0 and k % EmptyMod == EmptyRem (held-back
	// batches of the gated runs are never empty: the gate sits on a record)
	EmptyMod int `json:"empty_mod"`
	EmptyRem int `json:"empty_rem"`
	Recs     int `json:"recs"` // records of a non-empty batch
	SeqLen   int `json:"seqlen"`
	// Workers = 1: controlled history.  Workers >= 2: gated run (see above).
	Workers int  `json:"workers"`
	Gzip    bool `json:"gzip"`
	Close   bool `json:"close"`
	Qual    bool `json:"qual"`
	CSVAuto bool `json:"csvauto"`
	Wfile   bool `json:"wfile"`
}

func (b bcase) key() string { return fmt.Sprintf("%+v", b) }

func (b bcase) lateSet() map[int]int {
	m := make(map[int]int, len(b.Lates))
	for _, l := range b.Lates {
		m[l.Chunk] = l.After
	}
	return m
}

// arrival rebuilds the permutation; an error tells why the parameters do not
// describe one.
func (b bcase) arrival() ([]int, error) {
	if b.N < 1 || b.Block < 1 {
		return nil, fmt.Errorf("n and block must be >= 1")
	}
	late := map[int]bool{}
	attached := map[int][]int{}
	for _, l := range b.Lates {
		if l.Chunk < 0 || l.Chunk >= b.N || l.After < 0 || l.After >= b.N || l.After == l.Chunk {
			return nil, fmt.Errorf("displaced chunk %+v outside 0..%d", l, b.N-1)
		}
		if late[l.Chunk] {
			return nil, fmt.Errorf("chunk %d is displaced twice", l.Chunk)
		}
		late[l.Chunk] = true
		attached[l.After] = append(attached[l.After], l.Chunk)
	}
	for _, a := range attached {
		sort.Ints(a)
	}
	out := make([]int, 0, b.N)
	var deliver func(k int)
	deliver = func(k int) {
		out = append(out, k)
		for _, l := range attached[k] {
			deliver(l)
		}
	}
	for start := 0; start < b.N; start += b.Block {
		end := min(start+b.Block, b.N)
		for k := end - 1; k >= start; k-- {
			if !late[k] {
				deliver(k)
			}
		}
	}
	if len(out) != b.N {
		return nil, fmt.Errorf("the displaced chunks %v form a cycle: %d chunks of %d arrive", b.Lates, len(out), b.N)
	}
	return out, nil
}

func (b bcase) gated() bool { return b.Workers > 1 }

func (b bcase) empty(k int, late map[int]int) bool {
	if b.EmptyMod <= 0 || k%b.EmptyMod != b.EmptyRem {
		return false
	}
	if _, isLate := late[k]; isLate && b.gated() {
		return false
	}
	return true
}

// wcase expands the compact case.
func (b bcase) wcase() (wcase, error) {
	arr, err := b.arrival()
	if err != nil {
		return wcase{}, err
	}
	if b.Recs < 1 || b.SeqLen < 1 || b.Workers < 1 {
		return wcase{}, fmt.Errorf("recs, seqlen and workers must be >= 1")
	}
	c := wcase{Writer: b.Writer, Workers: b.Workers, Gzip: b.Gzip, Close: b.Close, SeqLen: b.SeqLen,
		Qual: b.Qual, CSVAuto: b.CSVAuto, Wfile: b.Wfile}
	late := b.lateSet()
	c.Sizes = make([]int, b.N)
	for k := range c.Sizes {
		if !b.empty(k, late) {
			c.Sizes[k] = b.Recs
		}
	}
	if !b.gated() {
		c.Arrival = arr
		return c, c.validate()
	}
	// gated run: pushed in increasing number, the displaced batches held back
	if b.Writer == "chunk" {
		return wcase{}, fmt.Errorf("the gated runs go through the formatting workers of the real writers")
	}
	if len(b.Lates) > b.Workers-1 {
		return wcase{}, fmt.Errorf("%d batches held back with %d workers: no worker would be left", len(b.Lates), b.Workers)
	}
	if b.Block != 1 {
		return wcase{}, fmt.Errorf("the gated runs push the batches in increasing number")
	}
	if b.CSVAuto {
		return wcase{}, fmt.Errorf("the gated runs request the CSV column batch explicitly")
	}
	pos := make([]int, b.N)
	for i, k := range arr {
		pos[k] = i
	}
	for _, l := range b.Lates {
		// the chunk of the base order the displaced one finally waits for
		a := l.After
		for {
			next, isLate := late[a]
			if !isLate {
				break
			}
			a = next
		}
		if a <= l.Chunk {
			return wcase{}, fmt.Errorf("chunk %d would arrive early (after chunk %d): a gate can only hold a batch back", l.Chunk, a)
		}
	}
	c.Arrival = make([]int, b.N)
	for i := range c.Arrival {
		c.Arrival[i] = i
	}
	g := newGateCtl(b.N)
	for _, l := range b.Lates {
		g.after[l.Chunk] = l.After
		g.need[l.Chunk] = pos[l.Chunk]
	}
	c.gate = g
	return c, c.validate()
}

// ------------------------------------------------------------------ the gates

type gateCtl struct {
	mu      sync.Mutex
	cond    *sync.Cond
	seen    []bool
	count   int
	after   map[int]int // held-back batch -> batch that must have been delivered
	need    map[int]int // held-back batch -> number of batches that must have been delivered
	aborted bool
	blocked map[int]bool // held-back batches whose formatting really had to wait
	asked   map[int]bool // held-back batches whose gate was reached at all
}

// gateWarmUp formats one record carrying an (open) gate, once per process and
// on one goroutine, before any gated run.  goccy/go-json compiles the encoder
// of a type at its first use and publishes it in an unsynchronised cache (the
// repository warms the decoders of its own types up for the same reason, see
// pkg/obiformats/json_decoder_warmup.go): two formatting workers meeting the
// harness type gateVal for the first time at the same moment produced a garbled
// record or an encoding error about 1 fresh process in 40.  That is an artefact
// of the type brought by the harness, not a behaviour of the writers.
var gateWarmUp sync.Once

func newGateCtl(n int) *gateCtl {
	gateWarmUp.Do(func() {
		g := &gateCtl{seen: make([]bool, 1), after: map[int]int{}, need: map[int]int{}, blocked: map[int]bool{}, asked: map[int]bool{}, aborted: true}
		g.cond = sync.NewCond(&g.mu)
		s := obiseq.NewBioSequenceWithQualities("warmup", []byte("acgt"), "", []byte{1, 2, 3, 4})
		s.SetAttribute("batch", g.value(0))
		_ = obiformats.JSONRecord(s)
		_ = obiformats.FormatFastSeqJsonHeader(s)
		_ = fmt.Sprintf("%v", g.value(0))
	})
	g := &gateCtl{seen: make([]bool, n), after: map[int]int{}, need: map[int]int{}, blocked: map[int]bool{}, asked: map[int]bool{}}
	g.cond = sync.NewCond(&g.mu)
	return g
}

func (g *gateCtl) gated(k int) bool { _, ok := g.after[k]; return ok }

func (g *gateCtl) value(k int) gateVal { return gateVal{g, k} }

func (g *gateCtl) saw(k int) {
	g.mu.Lock()
	if k >= 0 && k < len(g.seen) && !g.seen[k] {
		g.seen[k] = true
		g.count++
	}
	g.mu.Unlock()
	g.cond.Broadcast()
}

func (g *gateCtl) wait(k int) {
	g.mu.Lock()
	defer g.mu.Unlock()
	g.asked[k] = true
	for !g.aborted && !(g.seen[g.after[k]] && g.count >= g.need[k]) {
		g.blocked[k] = true
		g.cond.Wait()
	}
}

// abort opens every gate (end of the run, finished or not).
func (g *gateCtl) abort() {
	g.mu.Lock()
	g.aborted = true
	g.mu.Unlock()
	g.cond.Broadcast()
}

func (g *gateCtl) summary() (asked, blocked int) {
	g.mu.Lock()
	defer g.mu.Unlock()
	return len(g.asked), len(g.blocked)
}

// gateVal is the annotation value of a held-back record: the digits of the
// batch number, produced when the gate opens.
type gateVal struct {
	ctl *gateCtl
	k   int
}

func (v gateVal) MarshalJSON() ([]byte, error) {
	v.ctl.wait(v.k)
	return []byte(strconv.Itoa(v.k)), nil
}

func (v gateVal) String() string {
	v.ctl.wait(v.k)
	return strconv.Itoa(v.k)
}

// ------------------------------------------------------------------ the model of the waiting list

type backlogStats struct {
	Peak          int // largest number of chunks waiting at the same time
	HoleDrains    int // drains that stop at a hole (chunks still waiting afterwards)
	PeakAtHole    int // largest waiting list seen, since it was last empty, when a drain stops at a hole
	LeftAtHole    int // most chunks left waiting after such a drain
	AfterHole     int // chunks that arrive after the first such drain
	Refills       int // times the waiting list reaches 256 after having been empty
	LongestWait   int // most arrivals a waiting chunk sees before it is written
	firstHoleStep int
}

func backlogModel(arrival []int) backlogStats {
	st := backlogStats{firstHoleStep: -1}
	next := 0
	waiting := map[int]int{} // chunk -> arrival step
	since := 0               // peak since the list was last empty
	counted := false
	for step, k := range arrival {
		if k != next {
			waiting[k] = step
			st.Peak = max(st.Peak, len(waiting))
			since = max(since, len(waiting))
			if since >= 256 && !counted {
				st.Refills++
				counted = true
			}
			continue
		}
		next++
		for {
			at, ok := waiting[next]
			if !ok {
				break
			}
			st.LongestWait = max(st.LongestWait, step-at)
			delete(waiting, next)
			next++
		}
		if len(waiting) > 0 {
			st.HoleDrains++
			st.PeakAtHole = max(st.PeakAtHole, since)
			st.LeftAtHole = max(st.LeftAtHole, len(waiting))
			if st.firstHoleStep < 0 {
				st.firstHoleStep = step
			}
		} else {
			since, counted = 0, false
		}
	}
	if st.firstHoleStep >= 0 {
		st.AfterHole = len(arrival) - 1 - st.firstHoleStep
	}
	return st
}

func sizeClass(v int) string {
	switch {
	case v == 0:
		return "0"
	case v < 256:
		return "1..255"
	case v <= 1024:
		return "256..1024"
	case v <= 4096:
		return "1025..4096"
	case v <= 65536:
		return "4097..65536"
	}
	return ">65536"
}

func (b bcase) classes(st backlogStats) ([]string, bool) {
	mode := "controlled"
	if b.gated() {
		mode = "gated"
	}
	cl := []string{"backlog", "backlog:" + mode, "backlog:writer:" + b.Writer,
		"backlog:peak:" + sizeClass(st.Peak),
		fmt.Sprintf("backlog:displaced_chunks:%d", min(len(b.Lates), 4)),
		fmt.Sprintf("backlog:gzip:%v", b.Gzip), fmt.Sprintf("backlog:closefile:%v", b.Close)}
	if b.gated() {
		cl = append(cl, fmt.Sprintf("backlog:gated:workers:%d", b.Workers))
	}
	if st.HoleDrains > 0 {
		cl = append(cl, "backlog:drain_stops_at_hole", "backlog:hole_after_peak:"+sizeClass(st.PeakAtHole),
			"backlog:left_waiting_at_hole:"+sizeClass(st.LeftAtHole))
		if st.AfterHole > 1 {
			cl = append(cl, "backlog:chunks_arrive_after_hole")
		}
	} else if st.Peak >= 256 {
		cl = append(cl, "backlog:no_hole")
	}
	if st.HoleDrains > 1 {
		cl = append(cl, "backlog:several_hole_drains")
	}
	if st.Refills > 1 {
		cl = append(cl, "backlog:list_refilled_after_being_emptied")
	}
	if st.LongestWait > 1024 {
		cl = append(cl, "backlog:chunk_waits_>1024_arrivals")
	}
	if b.Block > 1 {
		cl = append(cl, "backlog:block_reversed:"+sizeClass(b.Block))
	}
	if b.EmptyMod > 0 {
		cl = append(cl, "backlog:with_empty_batches")
	}
	if b.Wfile {
		cl = append(cl, "backlog:chunk_through_CompressStream")
	}
	return cl, st.Peak >= 256 && st.HoleDrains > 0
}

// ------------------------------------------------------------------ the check

func abbrInts(l []int) string {
	if len(l) <= 40 {
		return fmt.Sprint(l)
	}
	return fmt.Sprintf("%v … (%d numbers) … %v", l[:20], len(l), l[len(l)-12:])
}

func checkBacklog(b bcase) error {
	_, _, err := checkBacklogObs(b)
	return err
}

func checkBacklogObs(b bcase) (asked, blocked int, err error) {
	c, err := b.wcase()
	if err != nil {
		return 0, 0, fmt.Errorf("invalid case: %v", err)
	}
	if poisoned.Load() {
		return 0, 0, fmt.Errorf("an earlier run of this process never finished: its pipe is still registered, later runs cannot be judged in this process")
	}
	obs := runCase(c)
	if c.gate != nil {
		c.gate.abort()
		asked, blocked = c.gate.summary()
	}
	jerr := judge(c, obs)
	if jerr == nil && c.gate != nil && asked != len(b.Lates) {
		// harness self-check: every held-back record must have been formatted through its gate
		jerr = fmt.Errorf("harness: %d of the %d gates were reached by the formatting workers", asked, len(b.Lates))
	}
	if jerr == nil {
		return asked, blocked, nil
	}
	arr, _ := b.arrival()
	st := backlogModel(arr)
	how := fmt.Sprintf("one formatting worker, batches pushed in the order %s", abbrInts(arr))
	if b.Writer == "chunk" {
		how = fmt.Sprintf("chunks sent to WriteSeqFileChunk in the order %s", abbrInts(arr))
	}
	if b.gated() {
		how = fmt.Sprintf("%d formatting workers, batches pushed in increasing number, the formatting of the displaced batches held back until the batch they follow and as many batches as precede them in the order %s have been delivered by the returned iterator (%d gates reached, %d had to wait)",
			b.Workers, abbrInts(arr), asked, blocked)
	}
	empties := "no empty batch"
	if b.EmptyMod > 0 {
		empties = fmt.Sprintf("batches k with k%%%d==%d empty", b.EmptyMod, b.EmptyRem)
	}
	ord := obs.IterOrder
	obs.IterOrder = nil
	return asked, blocked, fmt.Errorf("%s writer, %d batches of %d record(s) of %d nt (%s), base order: blocks of %d in decreasing order, displaced chunks {chunk after} %v; %s; gzip=%v closefile=%v wfile=%v; model of the waiting list: at most %d chunks wait together, %d drain(s) stop at a hole (largest list before: %d, left waiting: %d), %d chunks arrive after the first one: %v\n%s; iterator delivered %s",
		b.Writer, b.N, b.Recs, b.SeqLen, empties, b.Block, b.Lates, how, b.Gzip, b.Close, b.Wfile,
		st.Peak, st.HoleDrains, st.PeakAtHole, st.LeftAtHole, st.AfterHole, jerr, obs.describe(), abbrInts(ord))
}

// ------------------------------------------------------------------ generators

// backlogSizes: the thresholds a waiting list is likely to be tuned on.
var backlogSizes = []int{255, 256, 257, 1023, 1024, 1025, 1026, 1027, 2047, 2048, 2049, 4095, 4096, 4097, 5000}
var backlogSizesThorough = []int{16383, 16384, 16385, 65535, 65536, 65537}

func genBacklogSize(t *rapid.T) int {
	switch rapid.IntRange(0, 19).Draw(t, "backlog_kind") {
	case 0, 1:
		return rapid.IntRange(8, 300).Draw(t, "backlog_small")
	case 2, 3, 4, 5:
		return rapid.IntRange(1025, 5000).Draw(t, "backlog_any")
	case 6, 7:
		if evid.Thorough() {
			if rapid.Bool().Draw(t, "backlog_huge_exact") {
				return rapid.SampledFrom(backlogSizesThorough).Draw(t, "backlog_huge") + rapid.IntRange(0, 2).Draw(t, "backlog_plus")
			}
			return rapid.IntRange(5001, 70000).Draw(t, "backlog_huge_any")
		}
	}
	return rapid.SampledFrom(backlogSizes).Draw(t, "backlog") + rapid.IntRange(-1, 3).Draw(t, "backlog_plus")
}

// addBacklog appends to b one late chunk with its backlog, up to maxHoles holes
// inside the backlog, and a tail of chunks after them; start is the first free
// chunk number, the return value the next one.
func addBacklog(t *rapid.T, b *bcase, start, maxHoles int) int {
	first := start + rapid.SampledFrom([]int{0, 0, 0, 0, 1, 2, 5, 31}).Draw(t, "first_late")
	size := genBacklogSize(t)
	anchor := first + size // the late chunk arrives right after this one
	b.Lates = append(b.Lates, lateSpec{first, anchor})
	end := anchor + 1
	nh := min(maxHoles, rapid.SampledFrom([]int{0, 1, 1, 1, 1, 2, 2, 3}).Draw(t, "holes"))
	used := map[int]bool{}
	for i := 0; i < nh; i++ {
		var h int
		switch rapid.SampledFrom([]string{"first", "last", "any", "any", "near_end"}).Draw(t, "hole_at") {
		case "first":
			h = first + 1
		case "last":
			h = anchor - 1
		case "near_end":
			h = anchor - rapid.IntRange(1, min(60, size-1)).Draw(t, "hole_back")
		default:
			h = rapid.IntRange(first+1, anchor-1).Draw(t, "hole")
		}
		if h <= first || h >= anchor || used[h] {
			continue
		}
		used[h] = true
		if rapid.IntRange(0, 2).Draw(t, "hole_arrives") == 0 {
			// some chunks later
			a := anchor + rapid.SampledFrom([]int{1, 1, 2, 7, 40, 60}).Draw(t, "hole_delay")
			b.Lates = append(b.Lates, lateSpec{h, a})
			end = max(end, a+1)
		} else {
			// as soon as the late chunk has arrived
			b.Lates = append(b.Lates, lateSpec{h, first})
		}
	}
	tail := rapid.SampledFrom([]int{0, 1, 2, 40, 40, 40, 300, 1100}).Draw(t, "tail")
	return end + tail
}

func genBacklogOptions(t *rapid.T, b *bcase) {
	b.Recs = rapid.SampledFrom([]int{1, 1, 1, 2}).Draw(t, "recs")
	b.SeqLen = rapid.SampledFrom([]int{1, 4, 4, 20, 61}).Draw(t, "seqlen")
	if m := rapid.SampledFrom([]int{0, 0, 0, 2, 3, 7}).Draw(t, "empty_mod"); m > 0 {
		b.EmptyMod = m
		b.EmptyRem = rapid.IntRange(0, m-1).Draw(t, "empty_rem")
	}
	b.Gzip = b.Writer != "chunk" && rapid.IntRange(0, 3).Draw(t, "gzip") == 0
	b.Close = rapid.Bool().Draw(t, "close")
	switch b.Writer {
	case "csv":
		b.CSVAuto = rapid.Bool().Draw(t, "csvauto")
	case "sequence", "json":
		b.Qual = rapid.Bool().Draw(t, "qual")
	case "chunk":
		b.Wfile = rapid.Bool().Draw(t, "wfile")
		b.Gzip = b.Wfile && rapid.IntRange(0, 3).Draw(t, "gzip_wfile") == 0
	}
}

func genBacklogControlled(t *rapid.T) bcase {
	b := bcase{Workers: 1, Block: 1}
	// the chunk writer and the two text writers built on it are drawn more often
	b.Writer = rapid.SampledFrom([]string{"chunk", "chunk", "fasta", "fasta", "fastq", "json", "csv", "sequence"}).Draw(t, "writer")
	genBacklogOptions(t, &b)
	switch rapid.SampledFrom([]string{"backlog", "backlog", "backlog", "backlog", "two_backlogs", "blocks", "blocks", "random", "far"}).Draw(t, "shape") {
	case "backlog":
		b.N = addBacklog(t, &b, 0, 3)
	case "two_backlogs":
		next := addBacklog(t, &b, 0, 2)
		b.N = addBacklog(t, &b, next, 2)
	case "blocks":
		// the list fills to Block-1 and empties, again and again; displaced chunks make holes
		b.Block = max(2, genBacklogSize(t))
		b.N = b.Block*rapid.IntRange(1, 3).Draw(t, "blocks") + rapid.SampledFrom([]int{0, 1, 2, 300}).Draw(t, "rest")
		if b.N > 20000 && !evid.Thorough() {
			b.N = 20000
		}
		b.N = min(b.N, 140000)
		genRandomLates(t, &b, rapid.IntRange(0, 3).Draw(t, "displaced"))
	case "random":
		b.N = rapid.IntRange(300, 3000).Draw(t, "n")
		b.Block = rapid.SampledFrom([]int{1, 1, 2, 16}).Draw(t, "block")
		genRandomLates(t, &b, rapid.IntRange(1, 6).Draw(t, "displaced"))
	case "far":
		// one chunk far too early or far too late, the list stays short
		b.N = rapid.IntRange(1100, 5200).Draw(t, "n")
		d := rapid.IntRange(1020, b.N-1).Draw(t, "distance")
		x := rapid.IntRange(0, b.N-1-d).Draw(t, "from")
		if rapid.Bool().Draw(t, "early") {
			b.Lates = append(b.Lates, lateSpec{x + d, x})
		} else {
			b.Lates = append(b.Lates, lateSpec{x, x + d})
		}
	}
	return b
}

// genRandomLates displaces k distinct chunks, each attached to a chunk that
// stays in the base order (no cycle by construction).
func genRandomLates(t *rapid.T, b *bcase, k int) {
	chosen := map[int]bool{}
	for _, l := range b.Lates {
		chosen[l.Chunk] = true
	}
	var chunks []int
	for i := 0; i < k && len(chosen) < b.N/2; i++ {
		c := rapid.IntRange(0, b.N-1).Draw(t, "displaced_chunk")
		if !chosen[c] {
			chosen[c] = true
			chunks = append(chunks, c)
		}
	}
	for _, c := range chunks {
		a := rapid.IntRange(0, b.N-1).Draw(t, "displaced_after")
		for chosen[a] {
			a = (a + 1) % b.N
		}
		b.Lates = append(b.Lates, lateSpec{c, a})
	}
}

func genBacklogGated(t *rapid.T) bcase {
	b := bcase{Block: 1}
	b.Writer = rapid.SampledFrom([]string{"fasta", "fasta", "fastq", "fastq", "json", "csv", "sequence"}).Draw(t, "writer")
	b.Workers = rapid.SampledFrom([]int{2, 3, 3, 3, 4, 4, 5, 8}).Draw(t, "workers")
	genBacklogOptions(t, &b)
	// the gate sits on the annotation "batch": the CSV column is requested
	// explicitly (automatic columns come from the first batch, which may be empty)
	b.CSVAuto = false
	if b.Workers >= 5 && rapid.IntRange(0, 2).Draw(t, "two") == 0 {
		// two late chunks, each with at most (workers-3)/2 holes
		next := addBacklog(t, &b, 0, (b.Workers-3)/2)
		b.N = addBacklog(t, &b, next, (b.Workers-3)/2)
	} else {
		b.N = addBacklog(t, &b, 0, b.Workers-2)
	}
	return b
}

// ------------------------------------------------------------------ the properties

func evalBacklog(rt *rapid.T, b bcase) {
	arr, err := b.arrival()
	if err != nil {
		rt.Fatalf("generator: %v (%+v)", err, b)
	}
	st := backlogModel(arr)
	cl, nontrivial := b.classes(st)
	asked, blocked, cerr := checkBacklogObs(b)
	if b.gated() && cerr == nil {
		// a gate found open = the formatting worker was itself so late that the
		// batches the gate waits for had been delivered already: same arrival order
		if blocked == asked {
			cl = append(cl, "backlog:gated:every_gate_had_to_wait")
		} else {
			cl = append(cl, "backlog:gated:some_gate_found_open_by_a_late_worker")
		}
	}
	evid.Eval(backlogCheckName(b.Writer), evid.Hash(b.key()), nontrivial, b, cl...)
	if cerr != nil {
		evid.Fail(rt, backlogCheckName(b.Writer), b, cerr)
	}
}

func TestPropLongBacklog(t *testing.T) {
	rapid.Check(t, func(rt *rapid.T) {
		skipIfPoisoned(rt)
		evalBacklog(rt, genBacklogControlled(rt))
	})
}

func TestPropGatedBacklog(t *testing.T) {
	rapid.Check(t, func(rt *rapid.T) {
		skipIfPoisoned(rt)
		evalBacklog(rt, genBacklogGated(rt))
	})
}

// TestBacklogModel validates the rebuilding of the permutation and the model of
// the waiting list on hand-computed histories (oracle side only).
func TestBacklogModel(t *testing.T) {
	b := bcase{N: 8, Block: 1, Lates: []lateSpec{{0, 5}, {3, 0}}}
	arr, err := b.arrival()
	if err != nil || fmt.Sprint(arr) != "[1 2 4 5 0 3 6 7]" {
		t.Fatalf("arrival %v %v", arr, err)
	}
	st := backlogModel(arr)
	if st.Peak != 4 || st.HoleDrains != 1 || st.LeftAtHole != 2 || st.PeakAtHole != 4 || st.AfterHole != 3 {
		t.Fatalf("model %+v", st)
	}
	b = bcase{N: 7, Block: 3, Lates: []lateSpec{{4, 6}}}
	arr, err = b.arrival()
	if err != nil || fmt.Sprint(arr) != "[2 1 0 5 3 6 4]" {
		t.Fatalf("arrival %v %v", arr, err)
	}
	if _, err := (bcase{N: 4, Block: 1, Lates: []lateSpec{{1, 2}, {2, 1}}}).arrival(); err == nil || !strings.Contains(err.Error(), "cycle") {
		t.Fatalf("cycle not detected: %v", err)
	}
	h := reseqModel(arr)
	if h.Left != 0 || len(h.Emitted) != 7 {
		t.Fatalf("reseqModel %+v", h)
	}
}
