package c04

import (
	"fmt"
	"testing"

	"pgregory.net/rapid"

	"verifharness/internal/evid"
)

// Histories mixing tiny and huge chunks.
//
// Every writer of the package writes into the obiutils.Wfile returned by
// obiutils.CompressStream: a 4 KiB bufio.Writer in front of the caller's stream
// or of a pgzip writer (blocks of 1 MiB).  "Every batch exactly once in
// increasing batch number" is a statement on the bytes that leave that wrapper,
// whatever the sizes of the formatted chunks: a chunk of zero bytes, a chunk
// shorter than the 4 KiB buffer that stays in it, a chunk of several buffers, of
// 64 KiB, of one pgzip block, of several blocks, in every order.  The other
// tests of the package write chunks of at most ~120 KB; here a batch holds a few
// long records (the case stores the record lengths only; the sequences are
// rebuilt from (batch, index, length)), so that the formatted chunks reach 1 MiB
// and 4 MiB next to chunks of a few bytes.  The direct WriteSeqFileChunk runs go
// through the same real wrapper (wcase.Wfile) and place the chunk sizes exactly
// on the boundaries 4096, 65536, 1 MiB, 4 MiB (-1, 0, +1).
//
// Oracle: the one of the package (judge): the bytes received by the harness
// stream, gunzipped with compress/gzip when compression is on, re-read with the
// independent parsers, hold every record once in batch order; valid JSON / CSV;
// Close as requested.

func init() {
	evid.Tests(evid.Spec{Name: "TestPropHugeChunks", Kind: "rapid", Quick: 320, Thorough: 5000, QuickShards: 8, ThoroughShards: 16})
}

const (
	kib = 1 << 10
	mib = 1 << 20
)

// chunkOverhead is the number of bytes WriteSeqFileChunk runs add to the
// nucleotides of a one-record chunk: identifier (8), blank, end of line.
const chunkOverhead = 10

// genChunkShape draws the record lengths of one batch of the given shape.
// exact = the chunk writer: the size of the chunk is placed exactly.
func genChunkShape(t *rapid.T, shape string, exact bool) []int {
	around := func(target int) []int {
		d := rapid.SampledFrom([]int{-1, 0, 1, -chunkOverhead, -60, 61, -4096, 4097}).Draw(t, "delta")
		l := target + d
		if exact {
			l -= chunkOverhead
		}
		return []int{max(1, l)}
	}
	split := func(total int) []int {
		k := rapid.SampledFrom([]int{1, 1, 1, 2, 3, 7}).Draw(t, "records")
		out := make([]int, k)
		for i := range out {
			out[i] = total / k
		}
		out[0] += total % k
		return out
	}
	switch shape {
	case "empty":
		return []int{}
	case "tiny":
		k := rapid.IntRange(1, 3).Draw(t, "records")
		out := make([]int, k)
		for i := range out {
			out[i] = rapid.SampledFrom([]int{1, 2, 7, 59, 60, 61, 300}).Draw(t, "len")
		}
		return out
	case "near4k":
		return around(4 * kib)
	case "mid":
		return split(rapid.IntRange(5*kib, 60*kib).Draw(t, "total"))
	case "near64k":
		return around(64 * kib)
	case "quarter":
		return split(rapid.IntRange(100*kib, 900*kib).Draw(t, "total"))
	case "near1M":
		// around one pgzip block, and around the sequence length whose FASTA
		// text (60 nucleotides + end of line) fills one block
		return around(rapid.SampledFrom([]int{mib, mib / 61 * 60, mib / 2}).Draw(t, "target"))
	case "over1M":
		return split(rapid.IntRange(mib+mib/16, 2*mib).Draw(t, "total"))
	case "near4M":
		return around(4 * mib)
	case "over4M":
		return split(rapid.IntRange(4*mib+mib/8, 5*mib).Draw(t, "total"))
	}
	panic("unknown shape " + shape)
}

func sumInts(l []int) int {
	s := 0
	for _, v := range l {
		s += v
	}
	return s
}

var smallShapes = []string{"empty", "tiny", "tiny", "tiny", "near4k", "mid", "near64k"}
var hugeShapes = []string{"near1M", "near1M", "over1M", "over1M", "over1M", "near4M", "over4M"}
var anyShapes = []string{"empty", "tiny", "tiny", "near4k", "mid", "near64k", "quarter", "near1M", "over1M", "over4M"}

func genHuge(t *rapid.T) wcase {
	c := wcase{Workers: 1}
	c.Writer = rapid.SampledFrom(writers).Draw(t, "writer")
	c.Wfile = c.Writer == "chunk"
	c.Gzip = rapid.IntRange(0, 3).Draw(t, "gzip") > 0
	c.Close = rapid.Bool().Draw(t, "close")
	switch c.Writer {
	case "csv":
		c.CSVAuto = rapid.Bool().Draw(t, "csvauto")
	case "sequence", "json":
		c.Qual = rapid.Bool().Draw(t, "qual")
	}
	exact := c.Writer == "chunk"
	n := rapid.IntRange(1, 6).Draw(t, "n")
	budget := evid.Pick(10, 24) * mib // nucleotides per case
	shapes := make([]string, n)
	switch rapid.SampledFrom([]string{"free", "free", "small_then_huge", "small_then_huge", "huge_then_small", "alternate", "all_huge"}).Draw(t, "pattern") {
	case "free":
		for k := range shapes {
			shapes[k] = rapid.SampledFrom(anyShapes).Draw(t, "shape")
		}
		// at least one chunk of a pgzip block or more in most of the cases
		if rapid.IntRange(0, 3).Draw(t, "force_huge") > 0 {
			shapes[rapid.IntRange(0, n-1).Draw(t, "huge_at")] = rapid.SampledFrom(hugeShapes).Draw(t, "shape")
		}
	case "small_then_huge": // small ... small HUGE small ...
		at := rapid.IntRange(0, n-1).Draw(t, "huge_at")
		for k := range shapes {
			shapes[k] = rapid.SampledFrom(smallShapes).Draw(t, "shape")
		}
		shapes[at] = rapid.SampledFrom(hugeShapes).Draw(t, "shape")
	case "huge_then_small":
		for k := range shapes {
			shapes[k] = rapid.SampledFrom(smallShapes).Draw(t, "shape")
		}
		shapes[0] = rapid.SampledFrom(hugeShapes).Draw(t, "shape")
	case "alternate":
		first := rapid.IntRange(0, 1).Draw(t, "huge_first")
		for k := range shapes {
			if k%2 == first {
				shapes[k] = rapid.SampledFrom(smallShapes).Draw(t, "shape")
			} else {
				shapes[k] = rapid.SampledFrom(hugeShapes).Draw(t, "shape")
			}
		}
	case "all_huge":
		for k := range shapes {
			shapes[k] = rapid.SampledFrom(hugeShapes).Draw(t, "shape")
		}
	}
	c.Lens = make([][]int, n)
	c.Sizes = make([]int, n)
	for k, sh := range shapes {
		ls := genChunkShape(t, sh, exact)
		if s := sumInts(ls); s > budget {
			// the budget of the case is spent: the remaining batches are tiny
			ls = genChunkShape(t, "tiny", exact)
		}
		budget -= sumInts(ls)
		c.Lens[k] = ls
		c.Sizes[k] = len(ls)
	}
	c.Arrival = genArrival(t, n)
	return c
}

// hugeClasses labels the size history of the case (in batch order = the order
// on the output) and says whether it is non-trivial: a chunk of at least 64 KiB
// is written after a smaller, non-empty write (a smaller non-empty batch, or the
// opening of the JSON array).
func hugeClasses(c wcase) ([]string, bool) {
	bb := c.batchBytes()
	cl := []string{}
	add := func(s string) {
		for _, x := range cl {
			if x == s {
				return
			}
		}
		cl = append(cl, s)
	}
	maxb := 0
	prev := -1 // size of the previous non-empty batch
	prevEmpty := false
	nontrivial := false
	for k, b := range bb {
		maxb = max(maxb, b)
		if b == 0 {
			add("huge:zero_byte_chunk")
			prevEmpty = true
			continue
		}
		if b >= 64*kib && (prev >= 0 && prev < b || c.Writer == "json") {
			nontrivial = true
		}
		if b >= mib {
			switch {
			case prev < 0 && k == 0:
				add("huge:>=1MiB_first")
			case prev < 0:
				add("huge:only_empty_before_>=1MiB")
			case prev < 4*kib:
				add("huge:<4KiB_then_>=1MiB")
			case prev < mib:
				add("huge:4KiB..1MiB_then_>=1MiB")
			default:
				add("huge:>=1MiB_then_>=1MiB")
			}
			if prevEmpty {
				add("huge:empty_just_before_>=1MiB")
			}
		} else if prev >= mib {
			if b < 4*kib {
				add("huge:>=1MiB_then_<4KiB")
			} else {
				add("huge:>=1MiB_then_4KiB..1MiB")
			}
		}
		prev = b
		prevEmpty = false
	}
	switch {
	case maxb >= 4*mib:
		add("huge:max_chunk>=4MiB")
	case maxb >= mib:
		add("huge:max_chunk>=1MiB")
	case maxb >= 64*kib:
		add("huge:max_chunk>=64KiB")
	default:
		add("huge:max_chunk<64KiB")
	}
	if maxb >= mib {
		add(fmt.Sprintf("huge:>=1MiB:gzip:%v", c.Gzip))
		add("huge:>=1MiB:writer:" + c.Writer)
	}
	return cl, nontrivial
}

func TestPropHugeChunks(t *testing.T) {
	rapid.Check(t, func(rt *rapid.T) {
		skipIfPoisoned(rt)
		c := genHuge(rt)
		h := reseqModel(c.Arrival)
		hc, nontrivial := hugeClasses(c)
		cl := append(append(classesOf(c, h), "huge_chunks"), hc...)
		evid.Eval(checkName(c.Writer), evid.Hash(c.key()), nontrivial, c, cl...)
		if err := checkWriter(c); err != nil {
			evid.Fail(rt, checkName(c.Writer), c, err)
		}
	})
}
