package c04

import (
	"os"
	"strconv"
	"testing"
)

func TestZZStress(t *testing.T) {
	n, _ := strconv.Atoi(os.Getenv("ZZ_N"))
	b := bcase{Writer: "json", N: 141, Block: 1, Lates: []lateSpec{{0, 139}, {1, 0}}, Recs: 2, SeqLen: 61, Workers: 3, Qual: true}
	for i := 0; i < n; i++ {
		if err := checkBacklog(b); err != nil {
			t.Fatalf("iteration %d: %v", i, err)
		}
	}
}
