package c04

import (
	"fmt"
	"sort"
	"testing"

	"pgregory.net/rapid"

	"verifharness/internal/evid"
	"verifharness/internal/gen"
)

// ------------------------------------------------------------------ labels

func classesOf(c wcase, h history) []string {
	n := c.n()
	cl := []string{"writer:" + c.Writer, fmt.Sprintf("n:%02d", n), fmt.Sprintf("gzip:%v", c.Gzip), fmt.Sprintf("closefile:%v", c.Close)}
	if c.Workers == 1 {
		cl = append(cl, "controlled")
		if len(h.Buffered) > 0 {
			cl = append(cl, "buffered_branch")
		}
		if h.MaxDrainRun >= 2 {
			cl = append(cl, "drained_run>=2")
		}
		for _, k := range h.Buffered {
			if c.Sizes[k] == 0 {
				cl = append(cl, "empty_chunk_buffered")
				break
			}
		}
	} else {
		cl = append(cl, fmt.Sprintf("uncontrolled:workers:%d", c.Workers))
	}
	if n == 0 {
		return append(cl, "zero_batches")
	}
	empties := 0
	for _, s := range c.Sizes {
		if s == 0 {
			empties++
		}
	}
	if c.Sizes[0] == 0 {
		cl = append(cl, "empty_at_0")
	}
	if c.Sizes[n-1] == 0 {
		cl = append(cl, "empty_last")
	}
	for k := 1; k < n-1; k++ {
		if c.Sizes[k] == 0 {
			cl = append(cl, "empty_middle")
			break
		}
	}
	if empties == n {
		cl = append(cl, "all_empty")
	} else if empties == 0 {
		cl = append(cl, "no_empty")
	}
	total := 0
	bb := c.batchBytes()
	for k, s := range c.Sizes {
		total += bb[k] + s*40
	}
	if total > 4096 {
		cl = append(cl, "output>4KiB")
	}
	if len(c.Sizes) > 64 {
		cl = append(cl, "more_than_64_batches")
	}
	for _, b := range bb {
		if b >= 65536 {
			cl = append(cl, "chunk>=64KiB")
			break
		}
	}
	if c.Writer == "csv" && c.CSVAuto {
		cl = append(cl, "csv_auto_columns")
	}
	if c.Wfile {
		cl = append(cl, fmt.Sprintf("chunk_through_CompressStream:gzip:%v", c.Gzip))
	}
	return cl
}

// evalAndCheck counts the case, runs it, and fails the test on a violation.
func evalAndCheck(t evid.TB, c wcase, extra ...string) {
	h := reseqModel(c.Arrival)
	obs, err := checkWriterObs(c)
	cl := append(classesOf(c, h), extra...)
	if c.Workers > 1 && !sort.IntsAreSorted(obs.IterOrder) {
		cl = append(cl, "uncontrolled:iterator_out_of_order")
	}
	nontrivial := c.Workers == 1 && len(h.Buffered) > 0
	evid.Eval(checkName(c.Writer), evid.Hash(c.key()), nontrivial, c, cl...)
	if err != nil {
		evid.Fail(t, checkName(c.Writer), c, err)
	}
}

// ------------------------------------------------------------------ exhaustive histories

// variants lists the writer/option combinations run for one (sizes, arrival).
func variants(sizes, arrival []int, allOptions bool) []wcase {
	var out []wcase
	bools := []bool{false, true}
	for _, w := range writers {
		if w == "sequence" && len(sizes) == 0 {
			continue
		}
		for _, gz := range bools {
			if gz && (w == "chunk" || !allOptions) {
				continue
			}
			for _, cls := range bools {
				if !cls && !allOptions {
					continue
				}
				for _, v := range bools {
					if v && w != "csv" && w != "sequence" {
						continue
					}
					c := wcase{Writer: w, Sizes: sizes, Arrival: arrival, Workers: 1, Gzip: gz, Close: cls, SeqLen: 5}
					if w == "csv" {
						c.CSVAuto = v
					}
					if w == "sequence" {
						c.Qual = v
					}
					out = append(out, c)
				}
			}
		}
	}
	return out
}

func sizesFor(n int, emptyMask int) []int {
	sizes := make([]int, n)
	for k := range sizes {
		if emptyMask&(1<<k) == 0 {
			sizes[k] = 1 + k%2
		}
	}
	return sizes
}

// TestExhaustiveHistories: every arrival permutation x every subset of empty
// batches x every writer x gzip x closefile, up to 5 (quick) / 6 (thorough) batches.
func TestExhaustiveHistories(t *testing.T) {
	maxN := evid.Pick(5, 6)
	shard, ns := evid.Shard(), evid.NShards()
	idx := 0
	for n := 0; n <= maxN; n++ {
		permutations(n, func(p []int) {
			for mask := 0; mask < 1<<n; mask++ {
				idx++
				if idx%ns != shard {
					continue
				}
				arrival := append([]int(nil), p...)
				for _, c := range variants(sizesFor(n, mask), arrival, true) {
					evalAndCheck(t, c, "exhaustive")
				}
			}
		})
	}
	evid.Exhaustive(fmt.Sprintf("all arrival permutations x all subsets of empty batches for 0..%d batches x {WriteFasta, WriteFastq, WriteJSON, WriteCSV (explicit and automatic columns), WriteSequence (with and without qualities), WriteSeqFileChunk} x gzip on/off x CloseFile on/off, one formatting worker", maxN))
}

// TestExhaustivePermutations: every arrival permutation for the next two batch
// counts, with no empty batch, the even batches empty, the odd batches empty.
func TestExhaustivePermutations(t *testing.T) {
	loN, hiN := evid.Pick(6, 7), evid.Pick(6, 8)
	shard, ns := evid.Shard(), evid.NShards()
	idx := 0
	for n := loN; n <= hiN; n++ {
		masks := []int{0, 0x55 & (1<<n - 1), 0xAA & (1<<n - 1)}
		permutations(n, func(p []int) {
			idx++
			if idx%ns != shard {
				return
			}
			arrival := append([]int(nil), p...)
			for _, mask := range masks {
				for _, c := range variants(sizesFor(n, mask), arrival, false) {
					evalAndCheck(t, c, "exhaustive_permutations")
				}
			}
		})
	}
	evid.Exhaustive(fmt.Sprintf("all arrival permutations for %d..%d batches x {no empty batch, even batches empty, odd batches empty} x 6 writers, uncompressed, CloseFile on, one formatting worker", loN, hiN))
}

// ------------------------------------------------------------------ random controlled histories

func genSizes(t *rapid.T, n int, big []int) []int {
	// how empty: never / one in three / one in two / all
	emptyMode := rapid.SampledFrom([]int{0, 3, 3, 2, 2, 1}).Draw(t, "empty_mode")
	sizes := make([]int, n)
	for k := range sizes {
		if emptyMode > 0 && rapid.IntRange(0, emptyMode-1).Draw(t, "is_empty") == 0 {
			continue
		}
		sizes[k] = rapid.SampledFrom(big).Draw(t, "size")
	}
	return sizes
}

func genArrival(t *rapid.T, n int) []int {
	id := make([]int, n)
	for i := range id {
		id[i] = i
	}
	if n < 2 {
		return id
	}
	switch rapid.SampledFrom([]string{"random", "random", "random", "reverse", "rotate", "zero_last", "swap_pairs", "late_one", "identity"}).Draw(t, "shape") {
	case "random":
		return rapid.Permutation(id).Draw(t, "arrival")
	case "reverse":
		for i := range id {
			id[i] = n - 1 - i
		}
	case "rotate": // k, k+1, ..., n-1, 0, 1, ..., k-1
		k := rapid.IntRange(1, n-1).Draw(t, "rot")
		for i := range id {
			id[i] = (i + k) % n
		}
	case "zero_last": // everything waits for batch 0, then one long drain
		p := rapid.Permutation(id[1:]).Draw(t, "arrival_tail")
		return append(append([]int{}, p...), 0)
	case "swap_pairs":
		for i := 0; i+1 < n; i += 2 {
			id[i], id[i+1] = id[i+1], id[i]
		}
	case "late_one": // one batch is delayed by d positions
		k := rapid.IntRange(0, n-2).Draw(t, "late")
		d := rapid.IntRange(1, n-1-k).Draw(t, "delay")
		out := make([]int, 0, n)
		for i := 0; i < n; i++ {
			if i != k {
				out = append(out, i)
			}
			if i == k+d {
				out = append(out, k)
			}
		}
		return out
	}
	return id
}

func genControlled(t *rapid.T) wcase {
	c := wcase{Workers: 1}
	c.Writer = rapid.SampledFrom(writers).Draw(t, "writer")
	n := gen.Len(t, "n", 1, 12, 2, 3)
	if c.Writer != "sequence" && rapid.IntRange(0, 39).Draw(t, "zero_batches") == 0 {
		n = 0
	}
	c.SeqLen = rapid.SampledFrom([]int{1, 7, 59, 60, 61, 120, 300}).Draw(t, "seqlen")
	big := []int{1, 1, 2, 3, 5, 17, 40}
	switch rapid.IntRange(0, 15).Draw(t, "scale") {
	case 0, 1: // a long history: a chunk may have to wait for more than a hundred others
		if n > 0 {
			n = rapid.IntRange(66, 300).Draw(t, "n_long")
			big = []int{1, 1, 2}
			c.SeqLen = rapid.SampledFrom([]int{7, 60}).Draw(t, "seqlen_long")
		}
	case 2: // some chunks far larger than any write buffer (64 KiB and more) next to tiny ones
		big = []int{1, 1, 2, 260, 400}
		c.SeqLen = 300
	}
	c.Sizes = genSizes(t, n, big)
	c.Arrival = genArrival(t, n)
	c.Gzip = c.Writer != "chunk" && rapid.Bool().Draw(t, "gzip")
	c.Close = rapid.Bool().Draw(t, "close")
	switch c.Writer {
	case "csv":
		c.CSVAuto = rapid.Bool().Draw(t, "csvauto")
	case "sequence", "json":
		c.Qual = rapid.Bool().Draw(t, "qual")
	case "chunk":
		// the chunk writer in front of the real stream wrapper, as WriteFasta uses it
		c.Wfile = rapid.Bool().Draw(t, "wfile")
		c.Gzip = c.Wfile && rapid.Bool().Draw(t, "gzip_wfile")
	}
	return c
}

func skipIfPoisoned(t *rapid.T) {
	if poisoned.Load() {
		t.Skip("an earlier case of this process never finished; shrinking a schedule-dependent hang is meaningless")
	}
}

func TestPropRandomHistories(t *testing.T) {
	rapid.Check(t, func(rt *rapid.T) {
		skipIfPoisoned(rt)
		c := genControlled(rt)
		evalAndCheck(rt, c, "random")
	})
}

// ------------------------------------------------------------------ several formatting workers

func genUncontrolled(t *rapid.T) wcase {
	c := wcase{}
	c.Writer = rapid.SampledFrom([]string{"fasta", "fastq", "json", "csv", "sequence"}).Draw(t, "writer")
	c.Workers = rapid.IntRange(2, 8).Draw(t, "workers")
	n := gen.Len(t, "n", 1, 30, 2, 8)
	c.SeqLen = rapid.SampledFrom([]int{20, 60, 300}).Draw(t, "seqlen")
	// unequal formatting times: heavy batches followed by light or empty ones
	c.Sizes = genSizes(t, n, []int{1, 1, 2, 40, 150, 150})
	c.Arrival = make([]int, n)
	for i := range c.Arrival {
		c.Arrival[i] = i
	}
	if rapid.IntRange(0, 4).Draw(t, "permuted_push") == 0 {
		c.Arrival = genArrival(t, n)
	}
	c.Gzip = rapid.IntRange(0, 3).Draw(t, "gzip") == 0
	c.Close = rapid.Bool().Draw(t, "close")
	c.JitterMaxUs = rapid.SampledFrom([]uint64{0, 20, 200, 200}).Draw(t, "jitter_max_us")
	if c.JitterMaxUs > 0 {
		c.JitterSeed = rapid.Uint64Range(1, 1<<32).Draw(t, "jitter_seed")
	}
	switch c.Writer {
	case "csv":
		c.CSVAuto = rapid.Bool().Draw(t, "csvauto")
	case "sequence", "json":
		c.Qual = rapid.Bool().Draw(t, "qual")
	}
	return c
}

func TestPropUncontrolled(t *testing.T) {
	rapid.Check(t, func(rt *rapid.T) {
		skipIfPoisoned(rt)
		c := genUncontrolled(rt)
		evalAndCheck(rt, c, "uncontrolled")
	})
}
