package c04

import (
	"bytes"
	"encoding/csv"
	"encoding/json"
	"fmt"
	"os"
	"path/filepath"
	"sort"
	"strings"
	"testing"

	"pgregory.net/rapid"

	"verifharness/internal/evid"
	"verifharness/internal/ref"
	"verifharness/internal/run"
)

// The writers observed from the commands.
//
// (a) TestPropCLICompress - compressed output of big inputs.  The commands
// hand chunks of the size of the reader's pieces (1 MiB of input text, more when
// a record is longer) to the writers; with --compress these chunks go through
// the gzip side of obiutils.Wfile.  Inputs of 0.5 - 4 MB (thousands of short
// records with the sequence on one line, or a few sequences of 0.4 - 2.5 MB)
// next to files of a few records, in every order, through obiconvert (FASTA,
// FASTQ, JSON output), obigrep (a length filter that empties some batches) and
// obicsv, on stdout and with -o.  Oracle: the run without --compress gives
// every input record once, in input order (independent parsers; valid JSON
// array; one CSV header then one row per record), and the gunzipped output of
// the run with --compress is one complete gzip stream holding exactly the same
// bytes.
//
// (b) TestPropCLIReuse - output paths used again.  obiconvert -o (FASTA, FASTQ,
// JSON; --paired-with: the _R1/_R2 files), obigrep -o + --save-discarded,
// obidistribute -p (with and without --append), with and without --compress:
// 1..3 successive runs of the same command on inputs of shrinking / growing /
// equal size, in one directory, which may hold files of any content under the
// output names before the first run.  Oracle: after each run every output file
// is exactly what the same command line writes in an empty directory (with
// --append: the previous content followed by it).  Inputs stay below one reader
// piece, so that the order of the records in the obidistribute files does not
// depend on the schedule.

func init() {
	evid.Reg("cli_compress", checkCLICompress)
	evid.Reg("cli_reuse", checkCLIReuse)
	evid.Commands("obiconvert", "obigrep", "obicsv", "obidistribute")
	evid.Tests(
		evid.Spec{Name: "TestPropCLICompress", Kind: "rapid", Quick: 96, Thorough: 1600, QuickShards: 8, ThoroughShards: 16},
		evid.Spec{Name: "TestPropCLIReuse", Kind: "rapid", Quick: 200, Thorough: 3000, QuickShards: 8, ThoroughShards: 16},
	)
}

// ------------------------------------------------------------------ input files

// inFile is the compact description of one generated input file.
type inFile struct {
	Format    string `json:"format"`     // fasta | fastq
	Records   int    `json:"records"`    //
	SeqLen    int    `json:"seqlen"`     // nucleotides per record
	LongEvery int    `json:"long_every"` // > 0: every LongEvery-th record (from record 0) is 3 x SeqLen long
	Fold      int    `json:"fold"`       // fasta: 0 = sequence on one line, else line width
	Annot     bool   `json:"annot"`      // title lines carry {"k":i,"sample":"k<i mod Classes>"}
	Classes   int    `json:"classes"`    // number of values of the sample tag (>= 1 when Annot)
	Seed      uint32 `json:"seed"`
}

func (f inFile) recLen(i int) int {
	if f.LongEvery > 0 && i%f.LongEvery == 0 {
		return 3 * f.SeqLen
	}
	return f.SeqLen
}

func (f inFile) bytesEstimate() int {
	n := 0
	for i := 0; i < f.Records; i++ {
		n += f.recLen(i) + 12
	}
	if f.Format == "fastq" {
		n *= 2
	}
	return n
}

// render builds the text of the file and the records it holds; tag starts the
// identifiers (unique over the files of a case).
func (f inFile) render(tag string) ([]byte, []ref.Rec) {
	var sb bytes.Buffer
	recs := make([]ref.Rec, 0, f.Records)
	x := f.Seed | 1
	for i := 0; i < f.Records; i++ {
		l := f.recLen(i)
		seq := make([]byte, l)
		for j := range seq {
			x ^= x << 13
			x ^= x >> 17
			x ^= x << 5
			seq[j] = "acgt"[x&3]
		}
		id := fmt.Sprintf("%s_%06d", tag, i)
		title := id
		if f.Annot {
			title += fmt.Sprintf(` {"k":%d,"sample":"k%d"}`, i, i%max(1, f.Classes))
		}
		r := ref.Rec{ID: id, Seq: string(seq)}
		if f.Format == "fastq" {
			q := make([]byte, l)
			for j := range q {
				q[j] = byte('A' + (i+j)%9)
			}
			r.Qual = q
			fmt.Fprintf(&sb, "@%s\n%s\n+\n%s\n", title, seq, q)
		} else {
			sb.WriteString(">" + title + "\n")
			if f.Fold <= 0 {
				sb.Write(seq)
				sb.WriteByte('\n')
			} else {
				for p := 0; p < l; p += f.Fold {
					sb.Write(seq[p:min(l, p+f.Fold)])
					sb.WriteByte('\n')
				}
			}
		}
		recs = append(recs, r)
	}
	return sb.Bytes(), recs
}

func (f inFile) String() string {
	s := fmt.Sprintf("%s, %d records of %d nt", f.Format, f.Records, f.SeqLen)
	if f.LongEvery > 0 {
		s += fmt.Sprintf(" (every %dth of %d nt)", f.LongEvery, 3*f.SeqLen)
	}
	if f.Format == "fasta" {
		if f.Fold <= 0 {
			s += ", one line per sequence"
		} else {
			s += fmt.Sprintf(", lines of %d", f.Fold)
		}
	}
	return fmt.Sprintf("%s (~%d bytes)", s, f.bytesEstimate())
}

func tail(b []byte) string {
	s := strings.TrimSpace(string(b))
	head := ""
	for _, marker := range []string{"panic:", "fatal error:", "level=fatal", "level=panic", "unexpected signal", "SIGSEGV"} {
		if i := strings.Index(s, marker); i >= 0 {
			head = s[i:min(len(s), i+900)] + " … "
			break
		}
	}
	if len(s) > 600 {
		s = "…" + s[len(s)-600:]
	}
	return head + s
}

// ------------------------------------------------------------------ (a) compressed output of big inputs

type cliZCase struct {
	Cmd    string   `json:"cmd"`     // obiconvert | obigrep | obicsv
	Out    string   `json:"out"`     // obiconvert/obigrep: "" (format of the input) | fasta | fastq | json
	CSV    []string `json:"csv"`     // obicsv: column options besides -i -s
	MinLen int      `json:"min_len"` // obigrep: -l
	ToFile bool     `json:"to_file"` // -o FILE instead of stdout (not obicsv: it ignores -o)
	MaxCPU int      `json:"max_cpu"` // 0 = default
	Files  []inFile `json:"files"`
}

func (c cliZCase) key() string { return fmt.Sprintf("%+v", c) }

func (c cliZCase) args() []string {
	a := []string{"--no-progressbar"}
	if c.MaxCPU > 0 {
		a = append(a, "--max-cpu", fmt.Sprint(c.MaxCPU))
	}
	switch c.Cmd {
	case "obicsv":
		a = append(a, "-i", "-s")
		a = append(a, c.CSV...)
	case "obigrep":
		a = append(a, "-l", fmt.Sprint(c.MinLen))
	}
	switch c.Out {
	case "fasta":
		a = append(a, "--fasta-output")
	case "fastq":
		a = append(a, "--fastq-output")
	case "json":
		a = append(a, "--json-output")
	}
	return a
}

// outFormat is the format of the output text.
func (c cliZCase) outFormat() string {
	if c.Cmd == "obicsv" {
		return "csv"
	}
	if c.Out != "" {
		return c.Out
	}
	return c.Files[0].Format
}

// judgeCLIText: the (uncompressed) output holds the expected records once, in order.
func judgeCLIText(format string, text []byte, want []ref.Rec) error {
	var got []ref.Rec
	switch format {
	case "fasta":
		var err error
		if got, err = ref.ParseFasta(text); err != nil {
			return fmt.Errorf("the output is not FASTA: %v", err)
		}
	case "fastq":
		var err error
		if got, err = ref.ParseFastq(text); err != nil {
			return fmt.Errorf("the output is not FASTQ: %v", err)
		}
	case "json":
		var arr []struct {
			ID       *string `json:"id"`
			Sequence string  `json:"sequence"`
		}
		if err := json.Unmarshal(text, &arr); err != nil {
			return fmt.Errorf("encoding/json rejects the output as one JSON array: %v (output starts with %q)", err, abbr(string(text[:min(len(text), 200)])))
		}
		if arr == nil {
			return fmt.Errorf("the output is valid JSON but not an array")
		}
		for _, o := range arr {
			if o.ID == nil {
				return fmt.Errorf("an object of the JSON array has no id")
			}
			got = append(got, ref.Rec{ID: *o.ID, Seq: o.Sequence})
		}
	case "csv":
		rd := csv.NewReader(bytes.NewReader(text))
		rows, err := rd.ReadAll()
		if err != nil {
			return fmt.Errorf("encoding/csv rejects the output: %v", err)
		}
		if len(rows) == 0 {
			return fmt.Errorf("the CSV output is empty: the header line is missing")
		}
		idc, sqc := -1, -1
		for j, name := range rows[0] {
			switch name {
			case "id":
				idc = j
			case "sequence":
				sqc = j
			}
		}
		if idc < 0 || sqc < 0 {
			return fmt.Errorf("first CSV row %s is not the header (id and sequence columns expected)", abbr(fmt.Sprint(rows[0])))
		}
		for _, r := range rows[1:] {
			got = append(got, ref.Rec{ID: r[idc], Seq: r[sqc]})
		}
	}
	for i := 0; i < len(got) || i < len(want); i++ {
		switch {
		case i >= len(got):
			return fmt.Errorf("the %s output holds %d records, %d expected: record %d (%s) is missing", format, len(got), len(want), i, want[i].ID)
		case i >= len(want):
			return fmt.Errorf("the %s output holds %d records, %d expected: extra record %d (%s)", format, len(got), len(want), i, got[i].ID)
		case got[i].ID != want[i].ID:
			return fmt.Errorf("the %s output: record %d is %s, expected %s (input order)", format, i, got[i].ID, want[i].ID)
		case got[i].Seq != want[i].Seq:
			return fmt.Errorf("the %s output: record %d (%s) has sequence %q, expected %q", format, i, got[i].ID, abbr(got[i].Seq), abbr(want[i].Seq))
		}
	}
	return nil
}

func firstDiff(a, b []byte) int {
	d := 0
	for d < len(a) && d < len(b) && a[d] == b[d] {
		d++
	}
	return d
}

func checkCLICompress(c cliZCase) error {
	if len(c.Files) == 0 {
		return fmt.Errorf("invalid case: no input file")
	}
	dir, err := os.MkdirTemp(run.WorkDir(), "c04z")
	if err != nil {
		return nil
	}
	defer os.RemoveAll(dir)
	var paths, desc []string
	var want []ref.Rec
	for i, f := range c.Files {
		data, recs := f.render(fmt.Sprintf("f%d", i))
		p := filepath.Join(dir, fmt.Sprintf("in%d.%s", i, f.Format))
		if os.WriteFile(p, data, 0o644) != nil {
			return nil
		}
		paths = append(paths, p)
		desc = append(desc, fmt.Sprintf("in%d = %s", i, f))
		for _, r := range recs {
			if c.Cmd != "obigrep" || len(r.Seq) >= c.MinLen {
				want = append(want, r)
			}
		}
	}
	exec := func(compress bool) (string, []byte, run.Result) {
		a := c.args()
		out := ""
		if compress {
			a = append(a, "-Z")
		}
		if c.ToFile {
			out = filepath.Join(dir, fmt.Sprintf("out_z%v.dat", compress))
			a = append(a, "-o", out)
		}
		a = append(a, paths...)
		r := run.Cmd(run.Opt{Dir: dir}, c.Cmd, a...)
		line := c.Cmd + " " + strings.Join(a, " ")
		line = strings.ReplaceAll(line, dir+"/", "")
		if out != "" {
			return line, readOrNil(out), r
		}
		return line, r.Stdout, r
	}
	lineP, plain, rp := exec(false)
	if rp.Inconclusive() {
		evid.Class("timeout_inconclusive", 1)
		return nil
	}
	where := fmt.Sprintf(" [%s]", strings.Join(desc, "; "))
	if rp.Exit != 0 {
		return fmt.Errorf("%s%s exits %d on well-formed input: %s", lineP, where, rp.Exit, tail(rp.Stderr))
	}
	if err := judgeCLIText(c.outFormat(), plain, want); err != nil {
		return fmt.Errorf("%s%s: %v", lineP, where, err)
	}
	lineZ, z, rz := exec(true)
	if rz.Inconclusive() {
		evid.Class("timeout_inconclusive", 1)
		return nil
	}
	if rz.Exit != 0 {
		return fmt.Errorf("%s%s exits %d although the same command without -Z exits 0: %s", lineZ, where, rz.Exit, tail(rz.Stderr))
	}
	if len(z) == 0 && len(plain) == 0 {
		return nil // an empty text may be left as an output of zero bytes
	}
	text, err := gunzipAll(z)
	if err != nil {
		return fmt.Errorf("%s%s: the output (%d bytes) is not one complete gzip stream: %v", lineZ, where, len(z), err)
	}
	if !bytes.Equal(text, plain) {
		msg := fmt.Sprintf("%s%s: the gunzipped output (%d bytes) differs from the output of the same command without -Z (%d bytes), first difference at byte %d", lineZ, where, len(text), len(plain), firstDiff(text, plain))
		if err := judgeCLIText(c.outFormat(), text, want); err != nil {
			msg += ": " + err.Error()
		}
		return fmt.Errorf("%s", msg)
	}
	return nil
}

func genInFile(t *rapid.T, format string, size string) inFile {
	f := inFile{Format: format, Seed: rapid.Uint32().Draw(t, "seed"), Classes: 1}
	f.Annot = rapid.Bool().Draw(t, "annot")
	if f.Annot {
		f.Classes = rapid.IntRange(1, 4).Draw(t, "classes")
	}
	if format == "fasta" {
		f.Fold = rapid.SampledFrom([]int{0, 0, 0, 60, 70, 1000}).Draw(t, "fold")
	}
	switch size {
	case "small": // below the 4 KiB buffer of the stream wrapper
		f.Records = rapid.IntRange(1, 6).Draw(t, "records")
		f.SeqLen = rapid.SampledFrom([]int{20, 60, 100, 200}).Draw(t, "seqlen")
	case "medium":
		f.Records = rapid.IntRange(20, 400).Draw(t, "records")
		f.SeqLen = rapid.SampledFrom([]int{60, 100, 300}).Draw(t, "seqlen")
	case "many": // thousands of short records: 0.5 - 4 MB
		f.SeqLen = rapid.SampledFrom([]int{100, 300, 300, 700}).Draw(t, "seqlen")
		total := rapid.IntRange(mib/2, 4*mib).Draw(t, "total")
		if format == "fastq" {
			total /= 2
		}
		f.Records = max(1, total/(f.SeqLen+12))
		if rapid.IntRange(0, 3).Draw(t, "sparse") == 0 {
			f.LongEvery = rapid.SampledFrom([]int{2, 50, 1000}).Draw(t, "long_every")
			f.Records = max(1, f.Records*f.SeqLen/(f.SeqLen+2*f.SeqLen/f.LongEvery+1))
		}
	case "long": // a few sequences longer than every buffer on the way
		f.Records = rapid.IntRange(1, 5).Draw(t, "records")
		total := rapid.IntRange(mib, 4*mib).Draw(t, "total")
		if format == "fastq" {
			total /= 2
		}
		f.SeqLen = total / f.Records
		if format == "fastq" {
			// a FASTQ record must fit in the first MiB of the file for the
			// format detection of the readers (an input-side matter, not this
			// property's): sequence + qualities <= 0.8 MB
			f.SeqLen = min(f.SeqLen, 400_000)
		}
	}
	return f
}

func genCLIZ(t *rapid.T) cliZCase {
	c := cliZCase{}
	c.Cmd = rapid.SampledFrom([]string{"obiconvert", "obiconvert", "obiconvert", "obigrep", "obicsv"}).Draw(t, "cmd")
	format := rapid.SampledFrom([]string{"fasta", "fasta", "fastq"}).Draw(t, "format")
	switch c.Cmd {
	case "obicsv":
		c.CSV = rapid.SampledFrom([][]string{{}, {"-d"}, {"--count", "-d"}, {"-k", "k", "-k", "sample"}, {"-q"}}).Draw(t, "csv_columns")
		if format == "fasta" && len(c.CSV) == 1 && c.CSV[0] == "-q" {
			c.CSV = []string{}
		}
	default:
		outs := []string{"", "", "json", "json", "fasta"}
		if format == "fastq" {
			outs = append(outs, "fastq")
		}
		c.Out = rapid.SampledFrom(outs).Draw(t, "out")
		c.ToFile = rapid.IntRange(0, 2).Draw(t, "to_file") == 0
	}
	c.MaxCPU = rapid.SampledFrom([]int{0, 0, 1, 2, 8}).Draw(t, "max_cpu")
	var sizes []string
	switch rapid.SampledFrom([]string{"small_big", "small_big", "big", "big_small", "small_big_small", "two_big", "medium_big"}).Draw(t, "files") {
	case "small_big":
		sizes = []string{"small", "BIG"}
	case "big":
		sizes = []string{"BIG"}
	case "big_small":
		sizes = []string{"BIG", "small"}
	case "small_big_small":
		sizes = []string{"small", "BIG", "small"}
	case "two_big":
		sizes = []string{"BIG", "BIG"}
	case "medium_big":
		sizes = []string{"medium", "BIG"}
	}
	for _, s := range sizes {
		if s == "BIG" {
			s = rapid.SampledFrom([]string{"many", "many", "long"}).Draw(t, "big_kind")
		}
		c.Files = append(c.Files, genInFile(t, format, s))
	}
	if c.Cmd == "obigrep" {
		// keep everything, or only the records of the longest kind: whole files /
		// most records of a batch are then filtered out
		lens := []int{1}
		for _, f := range c.Files {
			lens = append(lens, f.SeqLen, f.SeqLen+1)
		}
		c.MinLen = rapid.SampledFrom(lens).Draw(t, "min_len")
	}
	return c
}

func TestPropCLICompress(t *testing.T) {
	rapid.Check(t, func(rt *rapid.T) {
		c := genCLIZ(rt)
		cl := []string{"cli_compress", "cli_compress:cmd:" + c.Cmd, "cli_compress:output:" + c.outFormat(), fmt.Sprintf("cli_compress:to_file:%v", c.ToFile), fmt.Sprintf("cli_compress:files:%d", len(c.Files))}
		big, smallFirst := false, false
		for i, f := range c.Files {
			if f.bytesEstimate() >= mib/2 {
				big = true
				if i > 0 && c.Files[i-1].bytesEstimate() < 4*kib {
					smallFirst = true
				}
				if f.Records <= 5 {
					cl = append(cl, "cli_compress:few_long_sequences")
				} else {
					cl = append(cl, "cli_compress:thousands_of_records")
				}
				if f.Fold == 0 && f.Format == "fasta" {
					cl = append(cl, "cli_compress:one_line_sequences")
				}
			}
		}
		if smallFirst {
			cl = append(cl, "cli_compress:small_file_before_big_file")
		}
		sort.Strings(cl)
		// non-trivial: an input of at least 0.5 MB, i.e. formatted chunks of the
		// size of the reader's pieces reach the compressed writer
		evid.Eval("cli_compress", evid.Hash(c.key()), big, c, cl...)
		if err := checkCLICompress(c); err != nil {
			evid.Fail(rt, "cli_compress", c, err)
		}
	})
}

// ------------------------------------------------------------------ (b) output paths used again

type cliReuseRun struct {
	Records int    `json:"records"`
	SeqLen  int    `json:"seqlen"`
	Seed    uint32 `json:"seed"`
	Gzip    bool   `json:"gzip"`
	Append  bool   `json:"append"`  // distribute only
	MinLen  int    `json:"min_len"` // grep only: -l
}

type cliReuseCase struct {
	Mode     string        `json:"mode"`   // convert | paired | grep | distribute
	Format   string        `json:"format"` // input format: fasta | fastq
	Out      string        `json:"out"`    // convert: "" | fasta | fastq | json
	Classes  int           `json:"classes"`
	PreKind  string        `json:"pre_kind"`  // absent | empty | junk | newlines
	PreDelta int           `json:"pre_delta"` // relative to the size of each output file of the first run
	PreSeed  uint32        `json:"pre_seed"`
	Runs     []cliReuseRun `json:"runs"`
}

func (c cliReuseCase) key() string { return fmt.Sprintf("%+v", c) }

// commandLine gives the command and its arguments for one run; the output
// names are relative: the command runs inside the output directory.
func (c cliReuseCase) commandLine(i int, r cliReuseRun, inDir string) (string, []string) {
	a := []string{"--no-progressbar"}
	if r.Gzip {
		a = append(a, "-Z")
	}
	in := filepath.Join(inDir, fmt.Sprintf("in%d.%s", i, c.Format))
	ext := c.Format
	switch c.Out {
	case "fasta", "fastq", "json":
		a = append(a, "--"+c.Out+"-output")
		ext = c.Out
	}
	switch c.Mode {
	case "convert":
		return "obiconvert", append(a, "-o", "out."+ext, in)
	case "paired":
		return "obiconvert", append(a, "--paired-with", filepath.Join(inDir, fmt.Sprintf("rev%d.%s", i, c.Format)), "-o", "out."+ext, in)
	case "grep":
		return "obigrep", append(a, "-l", fmt.Sprint(r.MinLen), "--save-discarded", "discarded."+ext, "-o", "kept."+ext, in)
	}
	if r.Append {
		a = append(a, "--append")
	}
	return "obidistribute", append(a, "-c", "sample", "-p", "part_%s."+ext, in)
}

func (c cliReuseCase) input(r cliReuseRun, rev bool) inFile {
	f := inFile{Format: c.Format, Records: r.Records, SeqLen: r.SeqLen, Seed: r.Seed, Annot: true, Classes: max(1, c.Classes)}
	if c.Mode == "grep" {
		f.LongEvery = 3
	}
	if rev {
		f.Seed ^= 0x5bd1e995
		f.SeqLen += 5
	}
	return f
}

func listFiles(dir string) map[string][]byte {
	out := map[string][]byte{}
	es, _ := os.ReadDir(dir)
	for _, e := range es {
		if !e.IsDir() {
			out[e.Name()] = readOrNil(filepath.Join(dir, e.Name()))
		}
	}
	return out
}

func checkCLIReuse(c cliReuseCase) error {
	if len(c.Runs) == 0 {
		return fmt.Errorf("invalid case: no run")
	}
	dir, err := os.MkdirTemp(run.WorkDir(), "c04r")
	if err != nil {
		return nil
	}
	defer os.RemoveAll(dir)
	inDir, work := filepath.Join(dir, "in"), filepath.Join(dir, "work")
	if os.Mkdir(inDir, 0o755) != nil || os.Mkdir(work, 0o755) != nil {
		return nil
	}
	var hist []string
	for i, r := range c.Runs {
		data, _ := c.input(r, false).render(fmt.Sprintf("r%d", i))
		if os.WriteFile(filepath.Join(inDir, fmt.Sprintf("in%d.%s", i, c.Format)), data, 0o644) != nil {
			return nil
		}
		if c.Mode == "paired" {
			data, _ := c.input(r, true).render(fmt.Sprintf("r%d", i))
			if os.WriteFile(filepath.Join(inDir, fmt.Sprintf("rev%d.%s", i, c.Format)), data, 0o644) != nil {
				return nil
			}
		}
		cmd, args := c.commandLine(i, r, inDir)
		line := strings.ReplaceAll(cmd+" "+strings.Join(args, " "), inDir+"/", "")
		fresh := filepath.Join(dir, fmt.Sprintf("fresh%d", i))
		if os.Mkdir(fresh, 0o755) != nil {
			return nil
		}
		fargs := append([]string(nil), args...)
		for k, a := range fargs {
			if a == "--append" { // in an empty directory there is nothing to append to
				fargs = append(fargs[:k:k], fargs[k+1:]...)
				break
			}
		}
		rf := run.Cmd(run.Opt{Dir: fresh}, cmd, fargs...)
		if rf.Inconclusive() {
			evid.Class("timeout_inconclusive", 1)
			return nil
		}
		if rf.Exit != 0 {
			return fmt.Errorf("%s (input: %s) exits %d in an empty directory: %s", line, c.input(r, false), rf.Exit, tail(rf.Stderr))
		}
		want := listFiles(fresh)
		if len(want) == 0 && r.Records > 0 {
			return fmt.Errorf("%s (input: %s) creates no output file in an empty directory", line, c.input(r, false))
		}
		if i == 0 && c.PreKind != "absent" {
			for name, w := range want {
				n := 0
				if c.PreKind != "empty" {
					n = max(0, len(w)+c.PreDelta)
				}
				if os.WriteFile(filepath.Join(work, name), junkBytes(c.PreKind, n, c.PreSeed), 0o644) != nil {
					return nil
				}
			}
			hist = append(hist, fmt.Sprintf("before: every output name holds %s content of (first output %+d) bytes", c.PreKind, c.PreDelta))
		}
		prev := listFiles(work)
		hist = append(hist, line)
		rw := run.Cmd(run.Opt{Dir: work}, cmd, args...)
		if rw.Inconclusive() {
			evid.Class("timeout_inconclusive", 1)
			return nil
		}
		if rw.Exit != 0 {
			return fmt.Errorf("in one directory: %s: the last command exits %d although it exits 0 in an empty directory: %s", strings.Join(hist, "; "), rw.Exit, tail(rw.Stderr))
		}
		got := listFiles(work)
		names := make([]string, 0, len(want))
		for name := range want {
			names = append(names, name)
		}
		sort.Strings(names)
		for _, name := range names {
			g, ok := got[name]
			if !ok {
				return fmt.Errorf("in one directory: %s: the last command creates %s in an empty directory but not here", strings.Join(hist, "; "), name)
			}
			if err := sameAsFresh("file "+name, g, prev[name], want[name], reuseRun{Append: r.Append, Gzip: r.Gzip}); err != nil {
				return fmt.Errorf("in one directory: %s: after the last command, compared with the same command in an empty directory: %v", strings.Join(hist, "; "), err)
			}
		}
		os.RemoveAll(fresh)
	}
	return nil
}

func genCLIReuse(t *rapid.T) cliReuseCase {
	c := cliReuseCase{Classes: 1}
	c.Mode = rapid.SampledFrom([]string{"convert", "convert", "paired", "grep", "distribute", "distribute"}).Draw(t, "mode")
	c.Format = rapid.SampledFrom([]string{"fasta", "fastq"}).Draw(t, "format")
	switch c.Mode {
	case "convert":
		outs := []string{"", "json", "json", "fasta"}
		if c.Format == "fastq" {
			outs = append(outs, "fastq")
		}
		c.Out = rapid.SampledFrom(outs).Draw(t, "out")
	case "paired":
		c.Out = rapid.SampledFrom([]string{"", "", "json", "fasta"}).Draw(t, "out")
	case "grep":
		c.Out = rapid.SampledFrom([]string{"", "", "json"}).Draw(t, "out")
	case "distribute":
		c.Classes = rapid.IntRange(1, 4).Draw(t, "classes")
		c.Out = rapid.SampledFrom([]string{"", "", "fasta"}).Draw(t, "out")
	}
	c.PreKind = rapid.SampledFrom([]string{"absent", "absent", "absent", "empty", "junk", "junk", "newlines"}).Draw(t, "pre_kind")
	if c.PreKind == "junk" || c.PreKind == "newlines" {
		c.PreDelta = rapid.SampledFrom([]int{-1 << 30, -100, -1, 0, 1, 7, 100, 4097, 70000}).Draw(t, "pre_delta")
		c.PreSeed = rapid.Uint32().Draw(t, "pre_seed")
	}
	nruns := rapid.SampledFrom([]int{2, 2, 2, 3}).Draw(t, "runs")
	if c.PreKind != "absent" {
		nruns = rapid.SampledFrom([]int{1, 1, 2}).Draw(t, "runs_pre")
	}
	trend := rapid.SampledFrom([]string{"shrink", "shrink", "shrink", "grow", "same", "random"}).Draw(t, "trend")
	gzMode := rapid.SampledFrom([]string{"never", "never", "always", "mixed"}).Draw(t, "gzip_mode")
	appendMode := "never"
	if c.Mode == "distribute" {
		appendMode = rapid.SampledFrom([]string{"never", "never", "mixed", "always"}).Draw(t, "append_mode")
	}
	counts := []int{300, 60, 9, 1}
	var first cliReuseRun
	for i := 0; i < nruns; i++ {
		r := cliReuseRun{Seed: rapid.Uint32().Draw(t, "seed")}
		r.SeqLen = rapid.SampledFrom([]int{20, 60, 61, 150}).Draw(t, "seqlen")
		switch trend {
		case "shrink":
			r.Records = rapid.IntRange(1, counts[i]).Draw(t, "records")
			if i > 0 {
				r.Records = min(r.Records, c.Runs[i-1].Records)
				r.SeqLen = min(r.SeqLen, c.Runs[i-1].SeqLen)
			}
		case "grow":
			r.Records = rapid.IntRange(1, counts[len(counts)-1-i]).Draw(t, "records")
		case "same":
			if i == 0 {
				first = r
				first.Records = rapid.IntRange(1, 60).Draw(t, "records")
			}
			r.Records, r.SeqLen = first.Records, first.SeqLen
		default:
			r.Records = rapid.IntRange(1, 300).Draw(t, "records")
		}
		if c.Mode == "grep" {
			// records 0, 3, 6... are 3 x SeqLen long: keep all / the long ones / none
			r.MinLen = rapid.SampledFrom([]int{1, r.SeqLen + 1, r.SeqLen + 1, 3*r.SeqLen + 1}).Draw(t, "min_len")
		}
		switch gzMode {
		case "always":
			r.Gzip = true
		case "mixed":
			r.Gzip = rapid.Bool().Draw(t, "gzip")
		}
		switch appendMode {
		case "always":
			r.Append = true
		case "mixed":
			r.Append = rapid.Bool().Draw(t, "append")
		}
		c.Runs = append(c.Runs, r)
	}
	return c
}

func TestPropCLIReuse(t *testing.T) {
	rapid.Check(t, func(rt *rapid.T) {
		c := genCLIReuse(rt)
		cl := []string{"cli_reuse", "cli_reuse:mode:" + c.Mode, "cli_reuse:pre:" + c.PreKind, "cli_reuse:output:" + c.Format + "->" + c.Out, fmt.Sprintf("cli_reuse:runs:%d", len(c.Runs))}
		if c.PreKind == "junk" || c.PreKind == "newlines" {
			switch {
			case c.PreDelta > 0:
				cl = append(cl, "cli_reuse:previous_content_longer")
			case c.PreDelta == 0:
				cl = append(cl, "cli_reuse:previous_content_same_length")
			default:
				cl = append(cl, "cli_reuse:previous_content_shorter")
			}
		}
		for i, r := range c.Runs {
			if r.Gzip {
				cl = append(cl, "cli_reuse:gzip")
			}
			if i == 0 {
				continue
			}
			p := c.Runs[i-1]
			switch {
			case r.Append:
				cl = append(cl, "cli_reuse:append_run")
			case r.Records*r.SeqLen < p.Records*p.SeqLen:
				cl = append(cl, "cli_reuse:rerun_smaller_input")
			case r.Records*r.SeqLen == p.Records*p.SeqLen:
				cl = append(cl, "cli_reuse:rerun_same_size_input")
			default:
				cl = append(cl, "cli_reuse:rerun_larger_input")
			}
			if r.Gzip != p.Gzip {
				cl = append(cl, fmt.Sprintf("cli_reuse:rerun_gzip_%v_after_%v", r.Gzip, p.Gzip))
			}
		}
		sort.Strings(cl)
		uniq := cl[:0]
		for i, s := range cl {
			if i == 0 || s != cl[i-1] {
				uniq = append(uniq, s)
			}
		}
		// non-trivial: some run finds an output name already in use (a second
		// run, or content placed before the first one)
		nontrivial := len(c.Runs) > 1 || (c.PreKind != "absent")
		evid.Eval("cli_reuse", evid.Hash(c.key()), nontrivial, c, uniq...)
		if err := checkCLIReuse(c); err != nil {
			evid.Fail(rt, "cli_reuse", c, err)
		}
	})
}
