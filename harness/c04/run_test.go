package c04

import (
	"bytes"
	"compress/gzip"
	"encoding/csv"
	"encoding/json"
	"fmt"
	"io"
	"strings"
	"sync"
	"sync/atomic"
	"time"

	"git.metabarcoding.org/obitools/obitools4/obitools4/pkg/obiformats"
	"git.metabarcoding.org/obitools/obitools4/obitools4/pkg/obiiter"
	"git.metabarcoding.org/obitools/obitools4/obitools4/pkg/obiseq"
	"git.metabarcoding.org/obitools/obitools4/obitools4/pkg/obiutils"

	"verifharness/internal/fatal"
	"verifharness/internal/ref"
)

// ------------------------------------------------------------------ the case

// wcase is one complete input: which writer, the batches, the arrival history
// and the writer options.
type wcase struct {
	Writer  string `json:"writer"`  // fasta | fastq | json | csv | sequence | chunk
	Sizes   []int  `json:"sizes"`   // Sizes[k] = number of records of batch k (0 = empty batch)
	Arrival []int  `json:"arrival"` // push order: a permutation of 0..n-1
	Workers int    `json:"workers"` // formatting workers; 1 = the arrival order is the push order
	Gzip    bool   `json:"gzip"`
	Close   bool   `json:"close"`
	SeqLen  int    `json:"seqlen"`  // nucleotides per record (>= 1)
	Qual    bool   `json:"qual"`    // records carry qualities (always true for fastq)
	CSVAuto bool   `json:"csvauto"` // csv: automatic columns instead of the explicit "batch" column
	// schedule perturbation for runs with several workers (0 = off)
	JitterSeed  uint64 `json:"jitter_seed"`
	JitterMaxUs uint64 `json:"jitter_max_us"`
	// Lens, when present, gives the length of every record: Lens[k][i] nucleotides
	// for record i of batch k (len(Lens[k]) == Sizes[k]); SeqLen is then unused.
	// It is the compact description of histories mixing tiny and huge chunks
	// (huge_test.go): the sequences are rebuilt from (batch, index, length).
	Lens [][]int `json:"lens,omitempty"`
	// Wfile (writer "chunk" only): WriteSeqFileChunk writes into the real
	// obiutils.CompressStream wrapper (compressed or not) put in front of the
	// harness stream, as WriteFasta and WriteFastq do, instead of the bare stream.
	Wfile bool `json:"wfile,omitempty"`
	// SkipEmpty (skipempty_test.go): the writer is given
	// OptionsSkipEmptySequence(true), the --skip-empty option of the commands
	// ("sequences of length equal to zero are suppressed from the output").  Only
	// then, and only for the writers that honour the option (fasta, fastq,
	// sequence), Lens may hold records of length 0: they are expected to be left
	// out of the output, every other record being written once, in order.
	SkipEmpty bool `json:"skip_empty,omitempty"`
	// gate (backlog_test.go; never serialised, rebuilt from the compact case):
	// with several formatting workers, holds back the formatting of chosen
	// batches until the returned iterator has delivered given others.
	gate *gateCtl
}

var writers = []string{"fasta", "fastq", "json", "csv", "sequence", "chunk"}

func (c wcase) n() int { return len(c.Sizes) }

func (c wcase) key() string {
	k := fmt.Sprint(c.Writer, c.Sizes, c.Arrival, c.Workers, c.Gzip, c.Close, c.SeqLen, c.Qual, c.CSVAuto, c.JitterSeed, c.JitterMaxUs)
	if c.Lens != nil || c.Wfile {
		k += fmt.Sprint(c.Lens, c.Wfile)
	}
	if c.SkipEmpty {
		k += " skip_empty"
	}
	return k
}

// seqLen is the number of nucleotides of record i of batch b.
func (c wcase) seqLen(b, i int) int {
	if c.Lens != nil {
		return c.Lens[b][i]
	}
	return c.SeqLen
}

// abbr shortens a long text for an error message.
func abbr(s string) string {
	if len(s) <= 300 {
		return s
	}
	return fmt.Sprintf("%s…(%d bytes)…%s", s[:120], len(s), s[len(s)-60:])
}

func (c wcase) validate() error {
	n := c.n()
	if len(c.Arrival) != n {
		return fmt.Errorf("arrival has %d entries for %d batches", len(c.Arrival), n)
	}
	seen := make([]bool, n)
	for _, k := range c.Arrival {
		if k < 0 || k >= n || seen[k] {
			return fmt.Errorf("arrival %v is not a permutation of 0..%d", c.Arrival, n-1)
		}
		seen[k] = true
	}
	for _, s := range c.Sizes {
		if s < 0 {
			return fmt.Errorf("negative batch size")
		}
	}
	if c.Workers < 1 || (c.SeqLen < 1 && c.Lens == nil) {
		return fmt.Errorf("workers and seqlen must be >= 1")
	}
	if c.Lens != nil {
		if len(c.Lens) != n {
			return fmt.Errorf("lens describes %d batches, sizes %d", len(c.Lens), n)
		}
		for k, ls := range c.Lens {
			if len(ls) != c.Sizes[k] {
				return fmt.Errorf("lens[%d] describes %d records, sizes[%d]=%d", k, len(ls), k, c.Sizes[k])
			}
			for _, l := range ls {
				if l < 0 || (l == 0 && !c.zeroLengthAllowed()) {
					return fmt.Errorf("record lengths must be >= 1 (0 only with skip_empty on the fasta, fastq and sequence writers)")
				}
			}
		}
	}
	if c.SkipEmpty && c.Writer == "chunk" {
		return fmt.Errorf("skip_empty is not an option of WriteSeqFileChunk")
	}
	if c.Wfile && c.Writer != "chunk" {
		return fmt.Errorf("wfile is an option of the writer \"chunk\" only")
	}
	if c.Gzip && c.Writer == "chunk" && !c.Wfile {
		return fmt.Errorf("the bare WriteSeqFileChunk does not compress")
	}
	ok := false
	for _, w := range writers {
		ok = ok || w == c.Writer
	}
	if !ok {
		return fmt.Errorf("unknown writer %q", c.Writer)
	}
	if c.Writer == "sequence" && n == 0 {
		return fmt.Errorf("WriteSequence on zero batches is outside the generated domain")
	}
	return nil
}

// zeroLengthAllowed: records without any nucleotide are in the domain only when
// the writer is told to skip them and honours the option.
func (c wcase) zeroLengthAllowed() bool {
	return c.SkipEmpty && (c.Writer == "fasta" || c.Writer == "fastq" || c.Writer == "sequence")
}

// ------------------------------------------------------------------ records

type rec struct {
	ID, Seq, Qual string
	Batch         int
}

func recID(b, i int) string { return fmt.Sprintf("b%02d_r%03d", b, i) }

func recSeq(b, i, l int) string {
	x := uint32(b*7919+i*104729) | 1
	s := make([]byte, l)
	for j := range s {
		x ^= x << 13
		x ^= x >> 17
		x ^= x << 5
		s[j] = "acgt"[x&3]
	}
	return string(s)
}

func recQual(b, i, l int) []byte {
	q := make([]byte, l)
	for j := range q {
		q[j] = byte((b*5 + i*3 + j) % 41)
	}
	return q
}

func (c wcase) withQual() bool { return c.Writer == "fastq" || c.Qual }

// expected lists the records of the case in batch order.
func (c wcase) expected() []rec {
	var out []rec
	for b, sz := range c.Sizes {
		for i := 0; i < sz; i++ {
			if c.seqLen(b, i) == 0 {
				// only generated with skip_empty: suppressed from the output
				continue
			}
			r := rec{ID: recID(b, i), Seq: recSeq(b, i, c.seqLen(b, i)), Batch: b}
			if c.withQual() {
				q := recQual(b, i, c.seqLen(b, i))
				for j := range q {
					q[j] += 33
				}
				r.Qual = string(q)
			}
			out = append(out, r)
		}
	}
	return out
}

func (c wcase) batch(b int) obiiter.BioSequenceBatch {
	sl := make(obiseq.BioSequenceSlice, 0, c.Sizes[b])
	for i := 0; i < c.Sizes[b]; i++ {
		var s *obiseq.BioSequence
		if c.withQual() {
			s = obiseq.NewBioSequenceWithQualities(recID(b, i), []byte(recSeq(b, i, c.seqLen(b, i))), "", recQual(b, i, c.seqLen(b, i)))
		} else {
			s = obiseq.NewBioSequence(recID(b, i), []byte(recSeq(b, i, c.seqLen(b, i))), "")
		}
		s.SetAttribute("batch", b)
		if i == 0 && c.gate != nil && c.gate.gated(b) {
			// same text on the output as the integer b, formatted when the gate opens
			s.SetAttribute("batch", c.gate.value(b))
		}
		sl = append(sl, s)
	}
	return obiiter.MakeBioSequenceBatch("c04", b, sl)
}

// batchBytes gives, per batch, the number of nucleotides it holds (a lower
// bound of the size of its formatted chunk).
func (c wcase) batchBytes() []int {
	out := make([]int, c.n())
	for b, sz := range c.Sizes {
		for i := 0; i < sz; i++ {
			out[b] += c.seqLen(b, i)
		}
	}
	return out
}

// chunkText is the payload of chunk b for the direct WriteSeqFileChunk runs.
func (c wcase) chunkText(b int) string {
	var sb strings.Builder
	for i := 0; i < c.Sizes[b]; i++ {
		sb.WriteString(recID(b, i))
		sb.WriteByte(' ')
		sb.WriteString(recSeq(b, i, c.seqLen(b, i)))
		sb.WriteByte('\n')
	}
	return sb.String()
}

// ------------------------------------------------------------------ the observed stream

// sink is the io.WriteCloser handed to the writers: it records what it is told.
type sink struct {
	mu               sync.Mutex
	buf              bytes.Buffer
	writes, closes   int
	writesAfterClose int
	bytesAfterClose  int
	closed           chan struct{}
}

func newSink() *sink { return &sink{closed: make(chan struct{})} }

func (s *sink) Write(p []byte) (int, error) {
	s.mu.Lock()
	defer s.mu.Unlock()
	s.writes++
	if s.closes > 0 {
		s.writesAfterClose++
		s.bytesAfterClose += len(p)
	}
	s.buf.Write(p)
	return len(p), nil
}

func (s *sink) Close() error {
	s.mu.Lock()
	defer s.mu.Unlock()
	s.closes++
	if s.closes == 1 {
		close(s.closed)
	}
	return nil
}

type observation struct {
	Out              []byte
	Writes, Closes   int
	WritesAfterClose int
	BytesAfterClose  int
	IterOrder        []int // batch numbers in the order the returned iterator delivered them
	Stuck            string
	Fatals           int64
	FatalMsg         string
}

func (s *sink) snapshot(o *observation) {
	s.mu.Lock()
	defer s.mu.Unlock()
	o.Out = append([]byte(nil), s.buf.Bytes()...)
	o.Writes, o.Closes = s.writes, s.closes
	o.WritesAfterClose, o.BytesAfterClose = s.writesAfterClose, s.bytesAfterClose
}

func (o observation) describe() string {
	out := string(o.Out)
	if len(out) > 1200 {
		out = out[:1200] + "…"
	}
	return fmt.Sprintf("observed: %d bytes in %d Write calls, Close called %d times, %d writes (%d bytes) after Close, iterator delivered batches %v, fatals %d %q; output=%q",
		len(o.Out), o.Writes, o.Closes, o.WritesAfterClose, o.BytesAfterClose, o.IterOrder, o.Fatals, o.FatalMsg, out)
}

// ------------------------------------------------------------------ running the real writers

const waitLimit = 30 * time.Second

// waitLimitOf: histories of thousands of batches get 2 ms more per batch.
func (c wcase) waitLimitOf() time.Duration {
	return waitLimit + time.Duration(c.n())*2*time.Millisecond
}

// patientAfter is time.After measured in slices of 100 ms, each started when the
// previous one has ended.  The whole machine is sometimes paused for seconds
// (observed: six independent harness processes stalled at the same instant, all
// their pending timers fired together afterwards, with the goroutines doing the
// work still runnable): with one long timer such a pause ends the wait although
// the run had no chance to progress; with slices it costs one slice.  Never
// shorter than time.After(d).
func patientAfter(d time.Duration) (<-chan time.Time, func()) {
	ch := make(chan time.Time)
	stop := make(chan struct{})
	go func() {
		const slice = 100 * time.Millisecond
		tm := time.NewTimer(slice)
		defer tm.Stop()
		for left := d; left > 0; left -= slice {
			tm.Reset(min(slice, left))
			select {
			case <-tm.C:
			case <-stop:
				return
			}
		}
		close(ch)
	}()
	var once sync.Once
	return ch, func() { once.Do(func() { close(stop) }) }
}

// poisoned is set when a run left a pipe registered for ever: the global pipe
// counter of obiiter can then not signal completion to later runs of the same
// process.
var poisoned atomic.Bool

func waitFor(ch <-chan struct{}, deadline <-chan time.Time) bool {
	select {
	case <-ch:
		return true
	case <-deadline:
		return false
	}
}

func (c wcase) options() []obiformats.WithOption {
	opts := []obiformats.WithOption{
		obiformats.OptionsParallelWorkers(c.Workers),
		obiformats.OptionsCompressed(c.Gzip),
	}
	if c.Close {
		opts = append(opts, obiformats.OptionCloseFile())
	} else {
		opts = append(opts, obiformats.OptionDontCloseFile())
	}
	if c.SkipEmpty {
		opts = append(opts, obiformats.OptionsSkipEmptySequence(true))
	}
	if c.Writer == "csv" {
		if c.CSVAuto {
			opts = append(opts, obiformats.CSVAutoColumn(true))
		} else {
			opts = append(opts, obiformats.CSVKey("batch"))
		}
	}
	return opts
}

// runCase drives the real writer with the history of the case and returns what
// the harness stream received once everything the library offers as a completion
// signal has fired (or 30 s have passed).
func runCase(c wcase) observation {
	fatal.Install()
	var obs observation
	fatalsBefore := fatal.Count()
	out := newSink()
	deadline, stopDeadline := patientAfter(c.waitLimitOf())
	defer stopDeadline()

	if c.JitterMaxUs > 0 {
		obiiter.VerifSetJitter(c.JitterSeed, c.JitterMaxUs)
		defer obiiter.VerifSetJitter(0, 0)
	}

	consumed := make(chan struct{})
	var stuck []string
	var orderMu sync.Mutex // the consumer may still be running when a stuck run is reported
	var order []int

	if c.Writer == "chunk" {
		var ch obiformats.ChannelSeqFileChunk
		if o := fatal.Run(func() {
			if c.Wfile {
				// what WriteFasta / WriteFastq do: the Wfile is always closed by the
				// chunk writer, and closes the caller's stream only when asked to
				wf, _ := obiutils.CompressStream(out, c.Gzip, c.Close)
				ch = obiformats.WriteSeqFileChunk(wf, true)
			} else {
				ch = obiformats.WriteSeqFileChunk(out, c.Close)
			}
		}); !o.Completed {
			obs.Stuck = "WriteSeqFileChunk did not return: " + o.String()
			return obs
		}
		go func() {
			defer close(consumed)
			for _, b := range c.Arrival {
				ch <- obiformats.SeqFileChunk{Source: "c04", Raw: bytes.NewBufferString(c.chunkText(b)), Order: b}
			}
			close(ch)
		}()
	} else {
		src := obiiter.MakeIBioSequence()
		src.Add(1)
		go src.WaitAndClose()
		go func() {
			for _, b := range c.Arrival {
				src.Push(c.batch(b))
			}
			src.Done()
		}()
		var it obiiter.IBioSequence
		var err error
		called := make(chan fatal.Outcome, 1)
		go func() {
			called <- fatal.Run(func() {
				switch c.Writer {
				case "fasta":
					it, err = obiformats.WriteFasta(src, out, c.options()...)
				case "fastq":
					it, err = obiformats.WriteFastq(src, out, c.options()...)
				case "json":
					it, err = obiformats.WriteJSON(src, out, c.options()...)
				case "csv":
					it, err = obiformats.WriteCSV(src, out, c.options()...)
				case "sequence":
					it, err = obiformats.WriteSequence(src, out, c.options()...)
				}
			})
		}()
		select {
		case o := <-called:
			if !o.Completed || err != nil {
				poisoned.Store(true)
				obs.Stuck = fmt.Sprintf("the writer function did not return an iterator: %v, err=%v", o, err)
				out.snapshot(&obs)
				return obs
			}
		case <-deadline:
			poisoned.Store(true)
			obs.Stuck = "the writer function did not return within 30 s"
			out.snapshot(&obs)
			return obs
		}
		go func() {
			defer close(consumed)
			for it.Next() {
				b := it.Get()
				orderMu.Lock()
				order = append(order, b.Order())
				orderMu.Unlock()
				if c.gate != nil {
					// delivered by the returned iterator = handed to the writer goroutine before
					c.gate.saw(b.Order())
				}
			}
		}()
	}

	if !waitFor(consumed, deadline) {
		stuck = append(stuck, "the iterator returned by the writer never finished")
	}
	if c.Close && len(stuck) == 0 && !waitFor(out.closed, deadline) {
		stuck = append(stuck, "Close was never called on the output")
	}
	if len(stuck) == 0 {
		pipes := make(chan struct{})
		go func() { obiiter.WaitForLastPipe(); close(pipes) }()
		if !waitFor(pipes, deadline) {
			stuck = append(stuck, "obiiter.WaitForLastPipe never returned (a writer pipe stayed registered)")
		}
	}
	if len(stuck) > 0 {
		poisoned.Store(true)
		obs.Stuck = strings.Join(stuck, "; ")
	}
	out.snapshot(&obs)
	orderMu.Lock()
	obs.IterOrder = append([]int(nil), order...)
	orderMu.Unlock()
	obs.Fatals = fatal.Count() - fatalsBefore
	if obs.Fatals > 0 {
		obs.FatalMsg = fatal.LastMessage()
	}
	return obs
}

// ------------------------------------------------------------------ the oracle

func gunzipAll(data []byte) ([]byte, error) {
	zr, err := gzip.NewReader(bytes.NewReader(data))
	if err != nil {
		return nil, err
	}
	return io.ReadAll(zr)
}

func sameRecs(format string, got []ref.Rec, want []rec, withQual bool) error {
	for i := 0; i < len(got) || i < len(want); i++ {
		switch {
		case i >= len(got):
			return fmt.Errorf("%s output holds %d records, %d expected: record %d (%s, batch %d) is missing", format, len(got), len(want), i, want[i].ID, want[i].Batch)
		case i >= len(want):
			return fmt.Errorf("%s output holds %d records, %d expected: extra record %d (%s)", format, len(got), len(want), i, got[i].ID)
		case got[i].ID != want[i].ID:
			return fmt.Errorf("%s output: record %d is %s, expected %s (batch %d)", format, i, got[i].ID, want[i].ID, want[i].Batch)
		case got[i].Seq != want[i].Seq:
			return fmt.Errorf("%s output: record %d (%s) has sequence %q, expected %q", format, i, got[i].ID, abbr(got[i].Seq), abbr(want[i].Seq))
		case withQual && string(got[i].Qual) != want[i].Qual:
			return fmt.Errorf("%s output: record %d (%s) has qualities %q, expected %q", format, i, got[i].ID, abbr(string(got[i].Qual)), abbr(want[i].Qual))
		}
	}
	return nil
}

func judgeText(c wcase, text []byte) error {
	want := c.expected()
	switch c.Writer {
	case "chunk":
		var sb strings.Builder
		for b := range c.Sizes {
			sb.WriteString(c.chunkText(b))
		}
		if string(text) != sb.String() {
			exp := sb.String()
			d := 0
			for d < len(text) && d < len(exp) && text[d] == exp[d] {
				d++
			}
			return fmt.Errorf("WriteSeqFileChunk output differs from the concatenation of the chunks in increasing order (%d bytes, %d expected, first difference at byte %d): got %q, expected %q", len(text), len(exp), d, abbr(string(text)), abbr(exp))
		}
	case "fasta", "fastq", "sequence":
		format := c.Writer
		if format == "sequence" {
			format = "fasta"
			if len(text) > 0 && text[0] == '@' {
				format = "fastq"
			}
		}
		if format == "fasta" {
			got, err := ref.ParseFasta(text)
			if err != nil {
				return fmt.Errorf("output is not FASTA: %v", err)
			}
			if len(text) > 0 && text[0] != '>' {
				return fmt.Errorf("FASTA output does not start with '>'")
			}
			return sameRecs("FASTA", got, want, false)
		}
		got, err := ref.ParseFastq(text)
		if err != nil {
			return fmt.Errorf("output is not FASTQ: %v", err)
		}
		return sameRecs("FASTQ", got, want, true)
	case "json":
		var arr []struct {
			ID          *string        `json:"id"`
			Sequence    string         `json:"sequence"`
			Qualities   string         `json:"qualities"`
			Annotations map[string]any `json:"annotations"`
		}
		if err := json.Unmarshal(text, &arr); err != nil {
			return fmt.Errorf("encoding/json rejects the output as one JSON array: %v", err)
		}
		if arr == nil {
			return fmt.Errorf("the output is valid JSON but not an array")
		}
		for i := 0; i < len(arr) || i < len(want); i++ {
			switch {
			case i >= len(arr):
				return fmt.Errorf("JSON array holds %d objects, %d expected: record %d (%s, batch %d) is missing", len(arr), len(want), i, want[i].ID, want[i].Batch)
			case i >= len(want):
				return fmt.Errorf("JSON array holds %d objects, %d expected", len(arr), len(want))
			case arr[i].ID == nil || *arr[i].ID != want[i].ID:
				return fmt.Errorf("JSON array: object %d has id %v, expected %s (batch %d)", i, arr[i].ID, want[i].ID, want[i].Batch)
			case arr[i].Sequence != want[i].Seq:
				return fmt.Errorf("JSON array: object %d (%s) has sequence %q, expected %q", i, want[i].ID, abbr(arr[i].Sequence), abbr(want[i].Seq))
			case c.withQual() && arr[i].Qualities != want[i].Qual:
				return fmt.Errorf("JSON array: object %d (%s) has qualities %q, expected %q", i, want[i].ID, abbr(arr[i].Qualities), abbr(want[i].Qual))
			}
			if v, ok := arr[i].Annotations["batch"].(float64); !ok || int(v) != want[i].Batch {
				return fmt.Errorf("JSON array: object %d (%s) has annotation batch=%v, expected %d", i, want[i].ID, arr[i].Annotations["batch"], want[i].Batch)
			}
		}
	case "csv":
		rd := csv.NewReader(bytes.NewReader(text)) // FieldsPerRecord 0: every row must have the field count of the first
		rows, err := rd.ReadAll()
		if err != nil {
			return fmt.Errorf("encoding/csv rejects the output: %v", err)
		}
		if c.n() == 0 {
			if len(rows) > 1 {
				return fmt.Errorf("CSV output of a stream without batches holds %d rows", len(rows))
			}
			return nil
		}
		if len(rows) == 0 {
			return fmt.Errorf("CSV output of a stream of %d batches is empty: the header line is missing", c.n())
		}
		col := map[string]int{}
		for j, name := range rows[0] {
			if _, dup := col[name]; dup {
				return fmt.Errorf("CSV header %v names column %q twice", rows[0], name)
			}
			col[name] = j
		}
		idc, ok1 := col["id"]
		sqc, ok2 := col["sequence"]
		if !ok1 || !ok2 {
			return fmt.Errorf("first CSV row %s is not the header (id and sequence columns expected)", abbr(fmt.Sprint(rows[0])))
		}
		if !c.CSVAuto {
			if _, ok := col["batch"]; !ok {
				return fmt.Errorf("CSV header %v lacks the requested column batch", rows[0])
			}
		}
		data := rows[1:]
		for i := 0; i < len(data) || i < len(want); i++ {
			switch {
			case i >= len(data):
				return fmt.Errorf("CSV output holds %d data rows, %d expected: record %d (%s, batch %d) is missing", len(data), len(want), i, want[i].ID, want[i].Batch)
			case i >= len(want):
				return fmt.Errorf("CSV output holds %d rows after the header, %d expected: extra row %s", len(data), len(want), abbr(fmt.Sprint(data[i])))
			case data[i][idc] != want[i].ID:
				return fmt.Errorf("CSV row %d is %s, expected record %s (batch %d)", i+1, abbr(fmt.Sprint(data[i])), want[i].ID, want[i].Batch)
			case data[i][sqc] != want[i].Seq:
				return fmt.Errorf("CSV row %d (%s) has sequence %q, expected %q", i+1, want[i].ID, abbr(data[i][sqc]), abbr(want[i].Seq))
			}
			if bc, ok := col["batch"]; ok && data[i][bc] != fmt.Sprint(want[i].Batch) {
				return fmt.Errorf("CSV row %d (%s) has batch %q, expected %d", i+1, want[i].ID, data[i][bc], want[i].Batch)
			}
		}
	}
	return nil
}

// emptyTextExpected says whether the uncompressed output is the empty text.
func (c wcase) emptyTextExpected() bool {
	if c.Writer == "json" {
		return false
	}
	if c.Writer == "csv" {
		return c.n() == 0
	}
	return len(c.expected()) == 0
}

func judge(c wcase, obs observation) error {
	if obs.Stuck != "" {
		return fmt.Errorf("the run did not finish within %v: %s", c.waitLimitOf(), obs.Stuck)
	}
	if obs.Fatals > 0 {
		return fmt.Errorf("the library reported %d fatal error(s): %s", obs.Fatals, obs.FatalMsg)
	}
	if c.Close {
		if obs.Closes != 1 {
			return fmt.Errorf("Close was called %d times on the output, exactly once expected (CloseFile requested)", obs.Closes)
		}
		if obs.WritesAfterClose > 0 {
			return fmt.Errorf("%d Write calls (%d bytes) reached the output after Close", obs.WritesAfterClose, obs.BytesAfterClose)
		}
	} else if obs.Closes != 0 {
		return fmt.Errorf("Close was called %d times on the output although CloseFile was not requested", obs.Closes)
	}
	text := obs.Out
	if c.Gzip && (c.Writer != "chunk" || c.Wfile) {
		if len(obs.Out) == 0 && c.emptyTextExpected() {
			return nil
		}
		var err error
		text, err = gunzipAll(obs.Out)
		if err != nil {
			return fmt.Errorf("the compressed output (%d bytes) is not a complete gzip stream: %v (decoded so far %d bytes)", len(obs.Out), err, len(text))
		}
	}
	return judgeText(c, text)
}

// checkWriter is the replayable check: run the real writer, judge the bytes.
func checkWriter(c wcase) error {
	_, err := checkWriterObs(c)
	return err
}

func checkWriterObs(c wcase) (observation, error) {
	if err := c.validate(); err != nil {
		return observation{}, fmt.Errorf("invalid case: %v", err)
	}
	if poisoned.Load() {
		return observation{}, fmt.Errorf("an earlier run of this process never finished: its pipe is still registered, later runs cannot be judged in this process")
	}
	obs := runCase(c)
	if err := judge(c, obs); err != nil {
		h := reseqModel(c.Arrival)
		shape := ""
		if c.Lens != nil {
			shape = fmt.Sprintf(", nucleotides per batch %v", c.batchBytes())
		}
		if c.Wfile {
			shape += ", writing through obiutils.CompressStream"
		}
		if c.SkipEmpty {
			shape += fmt.Sprintf(", OptionsSkipEmptySequence(true), record lengths %s (records of length 0 must be left out, %d records expected in the output)", abbr(fmt.Sprint(c.Lens)), len(c.expected()))
		}
		return obs, fmt.Errorf("%s writer, %d batches with record counts %v%s pushed in order %v (%d formatting worker(s), gzip=%v, closefile=%v; model: chunks %v wait in the buffer, longest drained run %d): %v\n%s",
			c.Writer, c.n(), c.Sizes, shape, c.Arrival, c.Workers, c.Gzip, c.Close, h.Buffered, h.MaxDrainRun, err, obs.describe())
	}
	return obs, nil
}
