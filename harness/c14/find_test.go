package c14

// The less central commands that reach the same clade / alias / rank / path mechanisms:
//
//	obifind -t DIR [-r TAXID]... [--rank R] [-F] [-a] [-P] [PATTERN]...   listing of the taxa of the requested clades
//	obifind -t DIR -p TAXID                                               path of a taxon
//	obiannotate -t DIR --taxonomic-path --taxonomic-rank --scientific-name
//	obirefidx -t DIR                                                      (records with identical nucleotides: the index is the LCA of all of them)
//
// Domain decisions:
//   - obifind prints one line "pattern | taxid | parent taxid | rank | name" per taxon; the order of the lines of a
//     listing is not judged (map order), the order of the lines of -p is (the path runs from the taxon to the root).
//   - Name matching itself is not part of the statement: it is used to select, with the harness computing the same
//     match (Go regexp / string equality) on the scientific names.  With -a the alternative names are searched too:
//     the listing must then contain every taxon whose scientific name matches and no taxon none of whose names
//     (scientific or alternative, as written in names.dmp) matches.
//   - A taxid given to -r / -p is a taxid or a merged id; an id nothing carries given to -r is an error: the check
//     accepts a non-zero exit or an empty listing and rejects only a listing that shows taxa.  -p with such an id is not run.
//   - obiannotate --taxonomic-path / --taxonomic-rank / --scientific-name stop on a record whose taxid is not in the
//     taxonomy (documented by the fatal message): only records with a resolvable taxid are given.  The attribute of
//     --scientific-name is spelled "scienctific_name" by the code; either spelling is accepted.

import (
	"encoding/json"
	"fmt"
	"os"
	"path/filepath"
	"regexp"
	"sort"
	"strconv"
	"strings"
	"testing"

	"pgregory.net/rapid"

	"verifharness/internal/evid"
	"verifharness/internal/gen"
	"verifharness/internal/ref"
	"verifharness/internal/run"
)

// ------------------------------------------------------------------ obiannotate lineage, obirefidx

const refidxSeq = "acgtacgatcgatcgtagctagctagcatcgatcgatgcatgc"

func pathString(t *ref.Tree, n int) string {
	p := t.PathToRoot(n)
	parts := make([]string, 0, len(p))
	for i := len(p) - 1; i >= 0; i-- {
		parts = append(parts, fmt.Sprintf("%d@%s@%s", t.Taxid[p[i]], t.Name[p[i]], t.Rank[p[i]]))
	}
	return strings.Join(parts, "|")
}

func checkLineageAndRefIdx(c *cliCase, dir string) error {
	t := &c.Tree
	common := []string{"-t", dir, "--no-progressbar"}
	if c.MaxCPU > 0 {
		common = append(common, "--max-cpu", strconv.Itoa(c.MaxCPU))
	}
	var known []seqSpec
	var fa, fb strings.Builder
	for _, s := range c.Seqs {
		if _, _, ok := t.Resolve(s.Taxid); ok {
			known = append(known, s)
			fmt.Fprintf(&fa, ">%s {\"taxid\":%d}\n%s\n", s.ID, s.Taxid, seqOf(s.ID))
		}
		fmt.Fprintf(&fb, ">%s {\"taxid\":%d}\n%s\n", s.ID, s.Taxid, refidxSeq)
	}
	if c.Lineage && len(known) > 0 {
		in := filepath.Join(dir, "known.fasta")
		if err := os.WriteFile(in, []byte(fa.String()), 0o644); err != nil {
			return fmt.Errorf("harness: %v", err)
		}
		args := append(append([]string(nil), common...), "--taxonomic-path", "--taxonomic-rank", "--scientific-name", in)
		res, conclusive := runCmd("obiannotate", args)
		cmd := "obiannotate " + describe(args[2:len(args)-1])
		if conclusive {
			if res.Exit != 0 {
				return fmt.Errorf("%s exits %d on a well-formed dump and records whose taxids are all in the taxonomy\nstderr: %s", cmd, res.Exit, short(res.Stderr))
			}
			got, err := parseOut(res.Stdout)
			if err != nil {
				return fmt.Errorf("%s: output unreadable: %v\n%s", cmd, err, short(res.Stdout))
			}
			if len(got) != len(known) {
				return fmt.Errorf("%s wrote %d records for %d input records", cmd, len(got), len(known))
			}
			for _, s := range known {
				r, has := got[s.ID]
				if !has {
					return fmt.Errorf("%s: record %s is missing from the output", cmd, s.ID)
				}
				if err := sameRecord(s, r); err != nil {
					return fmt.Errorf("%s: %v", cmd, err)
				}
				n, _, _ := t.Resolve(s.Taxid)
				if v := r.Attrs["taxonomic_path"]; v != any(pathString(t, n)) {
					return fmt.Errorf("%s: record %s (taxid %d) got taxonomic_path=%v; from the root to the taxon along the parent links the tree gives %q", cmd, s.ID, s.Taxid, v, pathString(t, n))
				}
				if v := r.Attrs["taxonomic_rank"]; v != any(t.Rank[n]) {
					return fmt.Errorf("%s: record %s (taxid %d) got taxonomic_rank=%v; the taxon has rank %q", cmd, s.ID, s.Taxid, v, t.Rank[n])
				}
				v, h := r.Attrs["scientific_name"]
				if !h {
					v = r.Attrs["scienctific_name"]
				}
				if v != any(t.Name[n]) {
					return fmt.Errorf("%s: record %s (taxid %d) got scientific name %v; the taxon is named %q", cmd, s.ID, s.Taxid, v, t.Name[n])
				}
			}
		}
	}
	if c.RefIdx && len(known) > 0 {
		in := filepath.Join(dir, "refdb.fasta")
		if err := os.WriteFile(in, []byte(fb.String()), 0o644); err != nil {
			return fmt.Errorf("harness: %v", err)
		}
		args := append(append([]string(nil), common...), in)
		res, conclusive := runCmd("obirefidx", args)
		cmd := "obirefidx " + describe(args[2:len(args)-1]) + " (every record has the same nucleotides)"
		if conclusive {
			if res.Exit != 0 {
				return fmt.Errorf("%s exits %d on a well-formed dump\nstderr: %s", cmd, res.Exit, short(res.Stderr))
			}
			got, err := parseOut(res.Stdout)
			if err != nil {
				return fmt.Errorf("%s: output unreadable: %v\n%s", cmd, err, short(res.Stdout))
			}
			if len(got) != len(known) {
				return fmt.Errorf("%s wrote %d records; %d of the %d input records have a taxid of the taxonomy", cmd, len(got), len(known), len(c.Seqs))
			}
			var nodes []int
			for _, s := range known {
				n, _, _ := t.Resolve(s.Taxid)
				nodes = append(nodes, n)
			}
			l := t.LCAOfSet(nodes)
			want := fmt.Sprintf("%d@%s@%s", t.Taxid[l], t.Name[l], t.Rank[l])
			for _, s := range known {
				r, has := got[s.ID]
				if !has {
					return fmt.Errorf("%s: record %s is missing from the output", cmd, s.ID)
				}
				idx, isMap := r.Attrs["obitag_ref_index"].(map[string]any)
				if !isMap || len(idx) != 1 || idx["0"] != any(want) {
					return fmt.Errorf("%s: record %s (taxid %d) got obitag_ref_index=%v; all %d records being identical the index must be {0: LCA of all their taxa} = {\"0\": %q}", cmd, s.ID, s.Taxid, r.Attrs["obitag_ref_index"], len(known), want)
				}
			}
		}
	}
	return nil
}

// ------------------------------------------------------------------ obifind

type findRun struct {
	Restrict []int    `json:",omitempty"` // -r
	Rank     string   `json:",omitempty"` // --rank
	Patterns []string `json:",omitempty"`
	Fixed    bool     `json:",omitempty"` // -F
	AltNames bool     `json:",omitempty"` // -a
	WithPath bool     `json:",omitempty"` // -P
	Parents  int      `json:",omitempty"` // -p (0: not given; the generated ids are positive)
	Invalid  bool     `json:",omitempty"` // -r with an id nothing carries
}

type findCase struct {
	Tree ref.Tree
	Dump ref.DumpStyle
	Plan *dumpPlan `json:",omitempty"`
	Runs []findRun
}

func init() { evid.Reg("find", checkFind) }

type findLine struct {
	Pattern       string
	Taxid, Parent int
	Rank, Text    string
}

func parseFind(out []byte) ([]findLine, error) {
	var ls []findLine
	for _, raw := range strings.Split(string(out), "\n") {
		if raw == "" {
			continue
		}
		f := strings.SplitN(raw, " | ", 5)
		if len(f) != 5 {
			return nil, fmt.Errorf("line %q has not the 5 columns pattern | taxid | parent | rank | name", raw)
		}
		tid, e1 := strconv.Atoi(strings.TrimSpace(f[1]))
		par, e2 := strconv.Atoi(strings.TrimSpace(f[2]))
		if e1 != nil || e2 != nil {
			return nil, fmt.Errorf("line %q: taxid / parent columns are not integers", raw)
		}
		ls = append(ls, findLine{strings.TrimRight(f[0], " "), tid, par, strings.TrimRight(f[3], " "), f[4]})
	}
	return ls, nil
}

// altNames: the non-scientific names names.dmp gives to node i (as writeDump / the plan write them).
func altNames(t *ref.Tree, synonyms bool, i int) []string {
	if !synonyms {
		return nil
	}
	out := []string{"common " + strconv.Itoa(t.Taxid[i])}
	if i%2 == 0 {
		out = append(out, "syn "+t.Name[i])
	}
	if i%3 == 0 {
		out = append(out, t.Name[i]+" auth. 1999")
	}
	return out
}

func findText(t *ref.Tree, i int, withPath bool) string {
	if !withPath {
		return t.Name[i]
	}
	p := t.PathToRoot(i)
	parts := make([]string, 0, len(p))
	for k := len(p) - 1; k >= 0; k-- {
		parts = append(parts, t.Name[p[k]])
	}
	return strings.Join(parts, ":")
}

func checkFind(c findCase) error {
	t := &c.Tree
	if err := t.Validate(); err != nil {
		return fmt.Errorf("harness: invalid case: %v", err)
	}
	dir, err := writeAnyDump(t, c.Dump, c.Plan)
	if err != nil {
		return fmt.Errorf("harness: %v", err)
	}
	defer os.RemoveAll(dir)
	synonyms := c.Dump.Synonyms
	if c.Plan != nil {
		synonyms = c.Plan.Synonyms
	}
	for _, r := range c.Runs {
		args := []string{"-t", dir}
		for _, id := range r.Restrict {
			args = append(args, "-r", strconv.Itoa(id))
		}
		if r.Rank != "" {
			args = append(args, "--rank", r.Rank)
		}
		if r.Fixed {
			args = append(args, "-F")
		}
		if r.AltNames {
			args = append(args, "-a")
		}
		if r.WithPath {
			args = append(args, "-P")
		}
		if r.Parents != 0 {
			args = append(args, "-p", strconv.Itoa(r.Parents))
		}
		args = append(args, r.Patterns...)
		res, conclusive := runCmd("obifind", args)
		if !conclusive {
			continue
		}
		cmd := "obifind " + describe(args[2:])
		if r.Invalid {
			if res.Exit != 0 {
				evid.Class("find:invalid_argument_reported", 1)
				continue
			}
			if ls, err := parseFind(res.Stdout); err == nil && len(ls) > 0 {
				return fmt.Errorf("%s (a taxid that is not in the taxonomy) exits 0 and lists %d taxa", cmd, len(ls))
			}
			continue
		}
		if res.Exit != 0 {
			return fmt.Errorf("%s exits %d on a well-formed dump\nstdout: %s\nstderr: %s", cmd, res.Exit, short(res.Stdout), short(res.Stderr))
		}
		ls, err := parseFind(res.Stdout)
		if err != nil {
			return fmt.Errorf("%s: output unreadable: %v", cmd, err)
		}
		line := func(i int, pattern string) findLine {
			return findLine{pattern, t.Taxid[i], t.Taxid[t.Parent[i]], t.Rank[i], findText(t, i, r.WithPath)}
		}
		// ---- -p: the path, in order
		if r.Parents != 0 {
			n, _, ok := t.Resolve(r.Parents)
			if !ok {
				return fmt.Errorf("harness: invalid case: -p %d", r.Parents)
			}
			path := t.PathToRoot(n)
			pat := fmt.Sprintf("path:%d", t.Taxid[n])
			bad := len(ls) != len(path)
			for k := 0; !bad && k < len(path); k++ {
				bad = ls[k] != line(path[k], pat)
			}
			if bad {
				var want []findLine
				for _, x := range path {
					want = append(want, line(x, pat))
				}
				return fmt.Errorf("%s printed\n%s\nfrom the taxon to the root along the parent links the tree gives\n%s", cmd, showLines(ls), showLines(want))
			}
			continue
		}
		// ---- listings
		var clades []int
		for _, id := range r.Restrict {
			n, _, ok := t.Resolve(id)
			if !ok {
				return fmt.Errorf("harness: invalid case: -r %d", id)
			}
			clades = append(clades, n)
		}
		selected := func(i int) bool {
			return (r.Rank == "" || t.Rank[i] == r.Rank) && (len(clades) == 0 || t.InAnyClade(i, clades))
		}
		patterns := r.Patterns
		if len(patterns) == 0 {
			patterns = []string{""}
		}
		byPattern := map[string][]findLine{}
		for _, l := range ls {
			byPattern[l.Pattern] = append(byPattern[l.Pattern], l)
		}
		for p := range byPattern {
			found := false
			for _, q := range patterns {
				found = found || p == q
			}
			if !found {
				return fmt.Errorf("%s printed lines for pattern %q that was not asked:\n%s", cmd, p, showLines(byPattern[p]))
			}
		}
		for pi, p := range patterns {
			dup := false
			for _, q := range patterns[:pi] {
				dup = dup || q == p
			}
			if dup {
				continue
			}
			match := func(string) bool { return true }
			if len(r.Patterns) > 0 {
				if r.Fixed {
					match = func(s string) bool { return s == p }
				} else {
					re, err := regexp.Compile(p)
					if err != nil {
						return fmt.Errorf("harness: invalid case: pattern %q: %v", p, err)
					}
					match = re.MatchString
				}
			}
			times := 0
			for _, q := range patterns {
				if q == p {
					times++
				}
			}
			got := map[int]int{}
			for _, l := range byPattern[p] {
				n, via, ok := t.Resolve(l.Taxid)
				if !ok || via {
					return fmt.Errorf("%s printed taxid %d which is not a taxon of the taxonomy:\n%s", cmd, l.Taxid, showLines([]findLine{l}))
				}
				if l != line(n, p) {
					return fmt.Errorf("%s printed\n%s\nthe tree has\n%s", cmd, showLines([]findLine{l}), showLines([]findLine{line(n, p)}))
				}
				got[n]++
			}
			for i := 0; i < t.N(); i++ {
				must := selected(i) && match(t.Name[i])
				may := must
				if !must && r.AltNames && selected(i) {
					for _, a := range altNames(t, synonyms, i) {
						may = may || match(a)
					}
				}
				switch {
				case must && got[i] != times, !may && got[i] != 0, may && got[i] != 0 && got[i] != times:
					return fmt.Errorf("%s: taxon %d (%q, rank %q, path %v) is listed %d times for pattern %q; by the tree it %s (rank asked %q; clades asked %v -> taxa %v; name matches: %v)",
						cmd, t.Taxid[i], t.Name[i], t.Rank[i], clip(taxidsOf(t, t.PathToRoot(i))), got[i], p,
						map[bool]string{true: fmt.Sprintf("must be listed %d times", times), false: "must not be listed"}[must], r.Rank, r.Restrict, taxidsOf(t, clades), match(t.Name[i]))
				}
			}
		}
	}
	return nil
}

func taxidsOf(t *ref.Tree, nodes []int) []int {
	out := make([]int, len(nodes))
	for i, n := range nodes {
		out[i] = t.Taxid[n]
	}
	return out
}

func showLines(ls []findLine) string {
	var b strings.Builder
	for i, l := range ls {
		if i == 12 {
			fmt.Fprintf(&b, "  … (%d lines)\n", len(ls))
			break
		}
		fmt.Fprintf(&b, "  %q | %d | %d | %q | %q\n", l.Pattern, l.Taxid, l.Parent, l.Rank, l.Text)
	}
	return strings.TrimRight(b.String(), "\n")
}

// ------------------------------------------------------------------ generator

// findClade draws an id for -r / -p: through a merged id often (that is what the clade set is keyed on),
// a taxon with descendants most of the time.
func findClade(rt *rapid.T, t *ref.Tree) int {
	if len(t.Alias) > 0 && rapid.IntRange(0, 9).Draw(rt, "clade_kind") < 4 {
		return t.Alias[rapid.IntRange(0, len(t.Alias)-1).Draw(rt, "clade_alias")][0]
	}
	n := rapid.IntRange(0, t.N()-1).Draw(rt, "clade_node")
	for up := rapid.IntRange(0, 2).Draw(rt, "clade_up"); up > 0 && t.Parent[n] != 0; up-- {
		n = t.Parent[n]
	}
	if rapid.IntRange(0, 3).Draw(rt, "clade_via_alias") > 0 {
		for _, a := range t.Alias {
			if a[1] == n {
				return a[0]
			}
		}
	}
	return t.Taxid[n]
}

var findWords = []string{"Taxon", "Genus", "sapiens", "sp\\.", "virus", "^X", "[0-9]+$", "^unclassified", "1", "Candidatus|Chlorella", "no such name"}

func genFindCase(rt *rapid.T) (findCase, gen.TreeInfo) {
	n := gen.Len(rt, "n", 1, evid.Pick(300, 1000), 2, 3, 30, 31) // -P on a chain prints n*n/2 names
	shape := rapid.SampledFrom(gen.TreeShapes).Draw(rt, "shape")
	tr, info := gen.Tree(rt, "tree", n, shape, rapid.IntRange(0, min(20, n/2+2)).Draw(rt, "n_alias"), 3)
	c := findCase{Tree: tr}
	if rapid.IntRange(0, 2).Draw(rt, "with_plan") == 0 {
		c.Plan, _ = genPlan(rt, &c.Tree, info.Unknown)
	}
	c.Dump.FullColumns = rapid.Bool().Draw(rt, "full_columns")
	c.Dump.Synonyms = rapid.Bool().Draw(rt, "synonyms")
	if rapid.Bool().Draw(rt, "reversed") {
		c.Dump.Order = reversedOrder(n)
	}
	t := &c.Tree
	ranks := t.Ranks()
	nr := rapid.IntRange(3, 6).Draw(rt, "n_runs")
	for i := 0; i < nr; i++ {
		var r findRun
		kind := rapid.IntRange(0, 9).Draw(rt, "run_kind")
		switch {
		case kind == 0: // path of one taxon
			r.Parents = findClade(rt, t)
			if r.Parents <= 0 {
				r.Parents = t.Taxid[0]
			}
			r.WithPath = rapid.Bool().Draw(rt, "with_path")
		case kind == 1:
			r.Invalid = true
			for _, u := range info.Unknown {
				if u > 0 {
					r.Restrict = []int{u}
				}
			}
			if rapid.Bool().Draw(rt, "invalid_among_valid") {
				r.Restrict = append(r.Restrict, findClade(rt, t))
			}
		default:
			for j, k := 0, rapid.SampledFrom([]int{0, 1, 2, 2, 3, 4}).Draw(rt, "n_r"); j < k; j++ {
				r.Restrict = append(r.Restrict, findClade(rt, t))
			}
			switch rapid.IntRange(0, 5).Draw(rt, "rank_kind") {
			case 0, 1:
				r.Rank = rapid.SampledFrom(ranks).Draw(rt, "rank")
			case 2:
				r.Rank = "verif-unused-rank"
			}
			r.WithPath = rapid.IntRange(0, 3).Draw(rt, "with_path") == 0
			if kind >= 6 { // name patterns
				r.Fixed = rapid.Bool().Draw(rt, "fixed")
				r.AltNames = rapid.IntRange(0, 3).Draw(rt, "alt_names") == 0
				for j, k := 0, rapid.IntRange(1, 3).Draw(rt, "n_patterns"); j < k; j++ {
					name := t.Name[rapid.IntRange(0, n-1).Draw(rt, "pattern_taxon")]
					switch {
					case r.Fixed && rapid.IntRange(0, 5).Draw(rt, "fixed_absent") == 0:
						r.Patterns = append(r.Patterns, name+" absent")
					case r.Fixed:
						r.Patterns = append(r.Patterns, name)
					default:
						switch rapid.IntRange(0, 3).Draw(rt, "pattern_kind") {
						case 0:
							r.Patterns = append(r.Patterns, regexp.QuoteMeta(name))
						case 1:
							r.Patterns = append(r.Patterns, "^"+regexp.QuoteMeta(name)+"$")
						default:
							r.Patterns = append(r.Patterns, rapid.SampledFrom(findWords).Draw(rt, "word"))
						}
					}
				}
			}
		}
		c.Runs = append(c.Runs, r)
	}
	return c, info
}

func findCounters(c *findCase, info gen.TreeInfo) {
	t := &c.Tree
	key := evid.Hash(fmt.Sprint(t.Parent), fmt.Sprint(t.Taxid), fmt.Sprint(t.Rank), fmt.Sprint(t.Alias), c.Plan.key())
	var sample any
	if t.N() <= 8 {
		sample = c
	}
	pcl := planClasses(t, c.Plan)
	for _, r := range c.Runs {
		cl := append([]string(nil), pcl...)
		nontrivial := false
		switch {
		case r.Invalid:
			cl = append(cl, "find:restrict_argument_not_in_taxonomy")
		case r.Parents != 0:
			cl = append(cl, "find:path")
			n, via, _ := t.Resolve(r.Parents)
			if via {
				cl = append(cl, "find:path_of_merged_id")
			}
			nontrivial = n != 0
		default:
			distinct := map[int]bool{}
			viaAlias := false
			var clades []int
			for _, id := range r.Restrict {
				n, via, _ := t.Resolve(id)
				distinct[n] = true
				viaAlias = viaAlias || via
				clades = append(clades, n)
			}
			cl = append(cl, fmt.Sprintf("find:restrict_clades:%d", min(len(distinct), 3)))
			if viaAlias {
				cl = append(cl, "find:clade_given_by_merged_id")
				if len(distinct) >= 2 {
					cl = append(cl, "find:several_clades_one_by_merged_id")
				}
			}
			if len(r.Restrict) > len(distinct) {
				cl = append(cl, "find:same_clade_twice")
			}
			if r.Rank != "" {
				cl = append(cl, "find:rank")
			}
			if len(r.Patterns) > 0 {
				cl = append(cl, map[bool]string{true: "find:fixed_names", false: "find:regexp_names"}[r.Fixed])
			}
			if r.AltNames {
				cl = append(cl, "find:alternative_names")
			}
			if r.WithPath {
				cl = append(cl, "find:with_path")
			}
			in := 0
			for i := 0; i < t.N(); i++ {
				if (r.Rank == "" || t.Rank[i] == r.Rank) && (len(clades) == 0 || t.InAnyClade(i, clades)) {
					in++
				}
			}
			nontrivial = in > 0 && in < t.N()
		}
		evid.Eval("find", evid.Hash(key, fmt.Sprint(r)), nontrivial, sample, cl...)
	}
	evid.Class("find:shape:"+info.Shape, 1)
	evid.Class("find:"+sizeClass(t.N()), 1)
	if c.Plan != nil {
		evid.Class("find:dump_with_plan", 1)
	}
}

func TestPropFind(t *testing.T) {
	if !run.Have("obifind") {
		t.Fatalf("the driver did not build obifind into %s", os.Getenv("VERIF_BIN"))
	}
	rapid.Check(t, func(rt *rapid.T) {
		c, info := genFindCase(rt)
		findCounters(&c, info)
		if err := checkFind(c); err != nil {
			evid.Fail(rt, "find", c, err)
		}
	})
}

var _ = json.Marshal
var _ = sort.Ints
