// Property C14 — taxonomy queries agree with the tree: LCA, lineage, clade, rank, aliases.
//
// Domain decisions (sub-cases the statement does not decide are not generated):
//
//   - A taxonomy is one rooted tree: the root is its own parent (what NCBI dumps do and what
//     every walking-up loop of pkg/obitax uses as its stop condition), every parent id is a
//     node, taxids are distinct positive integers.  Forests, dangling parents and cycles are
//     not generated (ReindexParent reports a dangling parent; the dump loader ignores that
//     error and real dumps never have one).
//   - Every node has exactly one scientific name (as NCBI dumps do; SetTaxonAtRank and the
//     name-based methods dereference it).  Alternate names (synonyms...) are written into
//     names.dmp only to check that they do not disturb the scientific name; name *queries*
//     are not part of the statement.
//   - Merged ids (aliases) point at current nodes, never at other merged ids, and never
//     coincide with the taxid of a node (NCBI's merged.dmp guarantees both); which table wins
//     on a collision is not decided by the statement.
//   - Unknown taxids: Taxonomy.Taxon / Taxonomy.Path must return an error.  A *sequence*
//     carrying an unknown taxid is selected by no clade / rank predicate (hence kept by
//     "ignore taxon") and is left without annotation by SetTaxonAtRank — this is what
//     "select exactly what the tree implies" gives for a taxon that is not in the tree.
//     An unknown taxid given as the *argument* of a filter (obigrep -r 99, --require-rank with a
//     label the taxonomy does not use) is documented in the code as a fatal error; the check
//     accepts an error (fatal / panic / non-zero exit) or an answer that selects nothing for it,
//     and rejects only a filter that silently selects something.
//   - Sequences always carry an integer "taxid" attribute.  BioSequence.Taxid() maps a missing
//     attribute to taxid 1; whether 1 exists in a synthetic taxonomy is an accident, so that
//     shape is left out.
//   - Taxonomy.LCA(sequence, threshold) and obiannotate --add-lca-in are checked at threshold
//     1.0 (--lca-error 0, "zero error tolerance") only in tax_test.go / cli_test.go; below 1.0 ties are
//     broken by map iteration order.  wlca_test.go asks thresholds in (0,1] with large weights and asserts
//     below 1.0 only what the option text of --lca-error and the mechanism decide (see its header).  The merged_taxid maps hold resolvable
//     taxids (nodes or aliases) with weights >= 1: an unknown taxid there is reported by a panic
//     (not a tree answer), zero weights do not occur in maps written by the tools.  Only the
//     returned taxon (and the derived annotations taxid / name / error = 0) is compared, not the
//     total weight returned as third value.
//   - --add-lca-in SLOT: the help text says the slot is named SLOT, the code names it
//     SLOT + "_taxid" unless SLOT already ends with "taxid"; the check accepts either key.
//   - TaxNode.LCA / IsSubCladeOf are called with nodes of the same taxonomy only.
//   - Order of the records written by obigrep/obiannotate is not judged here (C03/C05).
//   - A taxid declared several times in nodes.dmp: the loader adds every line with replace=true and links the
//     parents afterwards, the last declaration is the taxon (plan_test.go).  Several "scientific name" lines for
//     one taxid: the last one is the name; the former names are never used as query.  merged.dmp: a line may name
//     as current id an old id declared on an EARLIER line (resolved when read); a line naming an old id declared
//     later is dropped silently by the loader - NCBI never chains, the statement does not decide, not generated.
//     The same old id given to two different taxa is not generated in files either.
//   - Histories of API calls follow the protocol of the loader, repeated (hist_test.go); what is not decided
//     (answers before ReindexParent, taxa without name, old ids declared before the re-declaration of their
//     taxon: Taxon(old id) then still returns the former declaration) is not asked.
//   - obifind, obiannotate lineage options, obirefidx: see find_test.go.
package c14

import (
	"testing"

	"verifharness/internal/evid"
)

func TestMain(m *testing.M) {
	evid.Tests(
		evid.Spec{Name: "TestReplay", Kind: "plain", QuickShards: 1, ThoroughShards: 1},
		evid.Spec{Name: "TestModelSelf", Kind: "plain", QuickShards: 1, ThoroughShards: 1},
		evid.Spec{Name: "TestExhaustiveTrees", Kind: "plain", QuickShards: 8, ThoroughShards: 16, TimeoutS: 3000},
		evid.Spec{Name: "TestPropRandomTrees", Kind: "rapid", Quick: 1600, Thorough: 24000, QuickShards: 16, ThoroughShards: 16},
		evid.Spec{Name: "TestPropSmallTrees", Kind: "rapid", Quick: 8000, Thorough: 400000, QuickShards: 4, ThoroughShards: 16},
		evid.Spec{Name: "TestPropCLI", Kind: "rapid", Quick: 160, Thorough: 3200, QuickShards: 8, ThoroughShards: 16, TimeoutS: 3000},
		evid.Spec{Name: "TestExhaustiveRedeclared", Kind: "plain", QuickShards: 8, ThoroughShards: 16, TimeoutS: 3000},
		evid.Spec{Name: "TestPropRedeclared", Kind: "rapid", Quick: 4000, Thorough: 80000, QuickShards: 8, ThoroughShards: 16, TimeoutS: 3000},
		evid.Spec{Name: "TestPropHistory", Kind: "rapid", Quick: 4000, Thorough: 80000, QuickShards: 4, ThoroughShards: 16, TimeoutS: 3000},
		evid.Spec{Name: "TestPropFind", Kind: "rapid", Quick: 160, Thorough: 3200, QuickShards: 8, ThoroughShards: 16, TimeoutS: 3000},
		evid.Spec{Name: "TestPropWeightedLCA", Kind: "rapid", Quick: 16000, Thorough: 400000, QuickShards: 8, ThoroughShards: 16, TimeoutS: 3000},
		evid.Spec{Name: "TestPropWeightedLCACLI", Kind: "rapid", Quick: 96, Thorough: 3200, QuickShards: 8, ThoroughShards: 16, TimeoutS: 3000},
	)
	evid.Commands("obigrep", "obiannotate", "obifind", "obirefidx")
	evid.Note("rule", "A case is a taxonomy (parent array with parent[i]<i, distinct taxids in several numbering schemes, rank labels from the NCBI ladder with 'no rank' gaps and repeated labels on a path, scientific names, merged-id aliases, ids belonging to nothing) built either through the obitax API (AddNewTaxa in a generated order, ReindexParent, AddNewName, AddNewAlias) or by writing nodes.dmp/names.dmp/merged.dmp and calling ncbitaxdump.LoadNCBITaxDump, plus queries. "+
		"Exhaustive: every recursive tree with n<=5 (quick) / n<=7 (thorough) nodes x every triple of ids (nodes, one alias per node, unknown ids) for Taxon/Path/LCA (commutative, associative, idempotent)/IsSubCladeOf/IsBelongingSubclades and the sequence predicates and LCA of merged taxids; x every labelling of the nodes over {no rank, genus, species} (2 labels for n=7) x every node/alias x every label for TaxonAtRank/HasRankDefined/HasRequiredRank/SetTaxonAtRank. "+
		"Random: trees of 1..3000 nodes (random, deep, chain, star, caterpillar, broom, binary) x ~200 generated queries each. CLI: obigrep -t DIR -r/-i/--require-rank and obiannotate -t DIR --with-taxon-at-rank/--add-lca-in on generated dumps and FASTA files, output parsed with the harness' own FASTA/JSON readers. "+
		"Oracle: ref.Tree (naive walks on the parent array; LCA by depth lifting, cross-checked against the definition-level LCABrute in TestModelSelf). "+
		"One evaluation = one query on one built taxonomy (CLI: one command run). Non-trivial query = the two taxa have unequal depths, or one is an ancestor-or-self of the other, or the root or an alias is involved (rank queries: the answer is a strict ancestor, or the rank is absent on the path although used elsewhere, or an alias is involved; CLI run: at least one record selected/annotated and one not). Distinct = hash of (check, tree, build mode, query).")
	evid.Note("rule_redeclared", "Dump files that say things more than once (plan_test.go): a case is a tree plus a plan = superseded nodes.dmp lines (a taxid declared with another parent - any taxon, itself, a descendant, an id nothing carries - and/or another rank, one or several times, at any position before its last declaration: corrections appended to the original file, scattered, adjacent), the order of the last declarations, names.dmp in another order with scientific names given twice and names for ids nothing carries, merged.dmp with repeated lines and chains (old id -> older old id, target line first). The tree is what the files mean: the loader adds every line with replace=true and rebuilds the parent links from the ids afterwards, so the last declaration wins. Built through LoadNCBITaxDump or through the same API calls; every assertion of the rule above is made (TestPropRedeclared: random trees up to 2000 nodes, the descendants of the re-declared taxa asked first; TestExhaustiveRedeclared; TestPropCLI and TestPropFind use such dumps for one case in three). "+
		"Stateful histories (hist_test.go, TestPropHistory): 1-4 rounds on one Taxonomy object, each = new taxa (children before parents too), re-declarations with replace=true (moved under a non-descendant / other rank / identical; superseded declarations before them; replace=false declarations that must be refused and change nothing), ReindexParent at random places (must report an error exactly when a parent id is missing) and once after the last declaration, names for the (re-)declared taxa (before or after ReindexParent), old ids (new, re-declared for re-declared taxa, chains, re-pointed, for unknown ids), then 2-10 queries against the tree of the model, the descendants of the taxa touched in the round first. Non-trivial / distinct as for the queries above.")
	evid.Note("rule_commands", "TestPropFind: obifind -t DIR on generated dumps, 3-6 runs each: listing restricted by 0-4 -r (taxids or merged ids, 40% merged ids, the same clade twice), --rank (used / unused label), -P, name patterns (regexp or -F, with or without -a; the harness computes the same match on the scientific names), -p TAXID (path, order judged), -r with an id nothing carries (error or empty listing). Every printed line (taxid, parent taxid, rank, name or root-to-taxon path of names) is compared with the tree and the set of listed taxa with {taxon : rank matches and it is in one of the clades and its name matches}, each exactly once per pattern. Non-trivial run = some but not all taxa selected by clades+rank (path: not the root). "+
		"TestPropCLI additionally runs obiannotate --taxonomic-path --taxonomic-rank --scientific-name (records with resolvable taxids; path string root->taxon of taxid@name@rank) and obirefidx on the records given identical nucleotides (every index must be {0: LCA of the taxa of all records with a resolvable taxid}; records with unknown taxids dropped).")
	evid.Note("rule_weighted_lca", "TestPropWeightedLCA / TestPropWeightedLCACLI (wlca_test.go): trees of 2..80 nodes (all shapes, API- or dump-built), records whose merged_taxid map names 1-6 distinct taxa (inside the clade of an ancestor of the first one: siblings, cousins, an ancestor and its descendants one time in four; ids given as merged ids now and then; four in-memory representations of the map / the FASTA JSON header) with weights drawn as: small (1..9), all equal (1 .. 2^59), one or two heavy taxa (10^3..10^12, 2^31, 2^53, 2^59, +-1) against taxa of weight 1..3, a total N (10^3..2^59) with a minority of round(e*N)-2..+2 for a tolerated error e the case uses (so that shares sit at and around 1-e: e = 10^-1..10^-9, 0.0005, 0.5, ...), powers of two around 2^31 / 2^53, decades. Library: Taxonomy.LCA and AddLCAWorker at threshold 1.0 and 1-4 thresholds 1-e in (0,1] (listed e or random); CLI: obiannotate --add-lca-in SLOT without --lca-error / with --lca-error 0 and with 1-2 other values, 20-60 records per run. "+
		"Oracle (math/big.Rat): threshold 1.0 -> exactly the deepest common ancestor-or-self of all the taxa (unless the discordant share is <= 1e-9), error 0; any threshold -> the answer lies between that taxon and a merged taxon, on the heaviest descent; antichain maps below 1.0 -> share of the clade of the answer >= threshold - 1e-9, share of its heaviest child clade < threshold + 1e-9, returned fraction = share of the answer (1e-9), written error = 1 - share within 0.0005. One evaluation = one (record, threshold); non-trivial = the map names at least two distinct taxa; distinct = hash of (tree, build, map, representation, threshold).")
	evid.Main(m, "C14")
}

func TestReplay(t *testing.T) { evid.Replay(t) }
