// Property C14 — taxonomy queries agree with the tree: LCA, lineage, clade, rank, aliases.
//
// Domain decisions (sub-cases the statement does not decide are not generated):
//
//   - A taxonomy is one rooted tree: the root is its own parent (what NCBI dumps do and what
//     every walking-up loop of pkg/obitax uses as its stop condition), every parent id is a
//     node, taxids are distinct positive integers.  Forests, dangling parents and cycles are
//     not generated (ReindexParent reports a dangling parent; the dump loader ignores that
//     error and real dumps never have one).
//   - Every node has exactly one scientific name (as NCBI dumps do; SetTaxonAtRank and the
//     name-based methods dereference it).  Alternate names (synonyms...) are written into
//     names.dmp only to check that they do not disturb the scientific name; name *queries*
//     are not part of the statement.
//   - Merged ids (aliases) point at current nodes, never at other merged ids, and never
//     coincide with the taxid of a node (NCBI's merged.dmp guarantees both); which table wins
//     on a collision is not decided by the statement.
//   - Unknown taxids: Taxonomy.Taxon / Taxonomy.Path must return an error.  A *sequence*
//     carrying an unknown taxid is selected by no clade / rank predicate (hence kept by
//     "ignore taxon") and is left without annotation by SetTaxonAtRank — this is what
//     "select exactly what the tree implies" gives for a taxon that is not in the tree.
//     An unknown taxid given as the *argument* of a filter (obigrep -r 99, --require-rank with a
//     label the taxonomy does not use) is documented in the code as a fatal error; the check
//     accepts an error (fatal / panic / non-zero exit) or an answer that selects nothing for it,
//     and rejects only a filter that silently selects something.
//   - Sequences always carry an integer "taxid" attribute.  BioSequence.Taxid() maps a missing
//     attribute to taxid 1; whether 1 exists in a synthetic taxonomy is an accident, so that
//     shape is left out.
//   - Taxonomy.LCA(sequence, threshold) and obiannotate --add-lca-in are checked at threshold
//     1.0 (--lca-error 0, "zero error tolerance") only; below 1.0 ties are broken by map
//     iteration order and the statement makes no claim.  The merged_taxid maps hold resolvable
//     taxids (nodes or aliases) with weights >= 1: an unknown taxid there is reported by a panic
//     (not a tree answer), zero weights do not occur in maps written by the tools.  Only the
//     returned taxon (and the derived annotations taxid / name / error = 0) is compared, not the
//     total weight returned as third value.
//   - --add-lca-in SLOT: the help text says the slot is named SLOT, the code names it
//     SLOT + "_taxid" unless SLOT already ends with "taxid"; the check accepts either key.
//   - TaxNode.LCA / IsSubCladeOf are called with nodes of the same taxonomy only.
//   - Order of the records written by obigrep/obiannotate is not judged here (C03/C05).
package c14

import (
	"testing"

	"verifharness/internal/evid"
)

func TestMain(m *testing.M) {
	evid.Tests(
		evid.Spec{Name: "TestReplay", Kind: "plain", QuickShards: 1, ThoroughShards: 1},
		evid.Spec{Name: "TestModelSelf", Kind: "plain", QuickShards: 1, ThoroughShards: 1},
		evid.Spec{Name: "TestExhaustiveTrees", Kind: "plain", QuickShards: 8, ThoroughShards: 16, TimeoutS: 3000},
		evid.Spec{Name: "TestPropRandomTrees", Kind: "rapid", Quick: 1600, Thorough: 24000, QuickShards: 16, ThoroughShards: 16},
		evid.Spec{Name: "TestPropSmallTrees", Kind: "rapid", Quick: 8000, Thorough: 400000, QuickShards: 4, ThoroughShards: 16},
		evid.Spec{Name: "TestPropCLI", Kind: "rapid", Quick: 160, Thorough: 3200, QuickShards: 8, ThoroughShards: 16, TimeoutS: 3000},
	)
	evid.Commands("obigrep", "obiannotate")
	evid.Note("rule", "A case is a taxonomy (parent array with parent[i]<i, distinct taxids in several numbering schemes, rank labels from the NCBI ladder with 'no rank' gaps and repeated labels on a path, scientific names, merged-id aliases, ids belonging to nothing) built either through the obitax API (AddNewTaxa in a generated order, ReindexParent, AddNewName, AddNewAlias) or by writing nodes.dmp/names.dmp/merged.dmp and calling ncbitaxdump.LoadNCBITaxDump, plus queries. "+
		"Exhaustive: every recursive tree with n<=5 (quick) / n<=7 (thorough) nodes x every triple of ids (nodes, one alias per node, unknown ids) for Taxon/Path/LCA (commutative, associative, idempotent)/IsSubCladeOf/IsBelongingSubclades and the sequence predicates and LCA of merged taxids; x every labelling of the nodes over {no rank, genus, species} (2 labels for n=7) x every node/alias x every label for TaxonAtRank/HasRankDefined/HasRequiredRank/SetTaxonAtRank. "+
		"Random: trees of 1..3000 nodes (random, deep, chain, star, caterpillar, broom, binary) x ~200 generated queries each. CLI: obigrep -t DIR -r/-i/--require-rank and obiannotate -t DIR --with-taxon-at-rank/--add-lca-in on generated dumps and FASTA files, output parsed with the harness' own FASTA/JSON readers. "+
		"Oracle: ref.Tree (naive walks on the parent array; LCA by depth lifting, cross-checked against the definition-level LCABrute in TestModelSelf). "+
		"One evaluation = one query on one built taxonomy (CLI: one command run). Non-trivial query = the two taxa have unequal depths, or one is an ancestor-or-self of the other, or the root or an alias is involved (rank queries: the answer is a strict ancestor, or the rank is absent on the path although used elsewhere, or an alias is involved; CLI run: at least one record selected/annotated and one not). Distinct = hash of (check, tree, build mode, query).")
	evid.Main(m, "C14")
}

func TestReplay(t *testing.T) { evid.Replay(t) }
