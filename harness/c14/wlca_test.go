package c14

// Weighted LCA of the taxids merged in a sequence: Taxonomy.LCA(sequence, threshold), AddLCAWorker and
// obiannotate --add-lca-in [--lca-error E], with weights that span many orders of magnitude.
//
// What is asserted (exact arithmetic, math/big):
//
//   - threshold 1.0 (zero error tolerance, the default of --add-lca-in): the answer is the deepest taxon that is an
//     ancestor-or-self of every merged taxid, whatever the weights, and the reported error is 0.  Asserted whenever the
//     discordant share at that taxon (1 - weight of its heaviest child clade / total) exceeds 1e-9: a share that float64
//     cannot tell from 0 (1 read against 2^53) is left undecided.
//   - every threshold in (0,1]: the answer is a taxon of the tree, descendant-or-self of the LCA of all merged taxids
//     and ancestor-or-self of one of them, and it lies on the heaviest descent ("follows the heaviest child"): at every
//     level above it, no sibling clade is heavier than the one that was entered (ties, and weights that differ by a
//     relative 1e-9 or less: either).
//   - thresholds below 1, maps in which no taxon is an ancestor of another one ("antichain", what obiuniq -m taxid
//     produces from species-level annotations): "at most a fraction lca-error of the taxonomic information can disagree
//     with the estimated LCA" - the share of the weight inside the clade of the answer is >= threshold - 1e-9 - and the
//     descent went as deep as that allows: the heaviest child clade of the answer has a share < threshold + 1e-9.
//     A share within 1e-9 of the threshold is thus accepted on either side.  The supported fraction returned by
//     Taxonomy.LCA is the share of the clade of the returned taxon (1e-9), the error written by AddLCAWorker /
//     obiannotate is 1 - that share within its three decimals (0.0005 + 1e-9).
//
// Domain decisions:
//   - thresholds are in (0,1] (lca-error in [0,1)); a threshold <= 0 (lca-error >= 1) makes the walk pointless and
//     is not asked; a threshold above 1 (negative error) is outside the documented domain.
//   - a map naming a taxon that is an ancestor of another one, below threshold 1.0: the code keeps the weight of a taxon
//     that "ended" higher up in the denominators of the deeper levels, the documentation does not say what share such a
//     taxon supports; only the assertions of the second item are made.
//   - the ids of one map resolve to distinct taxa (a taxid and a merged id of the same taxon in one map: the code keeps
//     one of the two weights, which one depends on map order; not decided by the statement).
//   - weights are >= 1 and their sum stays below 2^62.  Through a FASTA header the weights go through float64 (JSON
//     numbers): above 2^53 they are rounded by a relative 1e-16, which the 1e-9 margins absorb.

import (
	"encoding/json"
	"fmt"
	"math"
	"math/big"
	"os"
	"path/filepath"
	"sort"
	"strconv"
	"strings"
	"testing"

	"git.metabarcoding.org/obitools/obitools4/obitools4/pkg/obiseq"
	"git.metabarcoding.org/obitools/obitools4/obitools4/pkg/obitax"
	"pgregory.net/rapid"

	"verifharness/internal/evid"
	"verifharness/internal/fatal"
	"verifharness/internal/gen"
	"verifharness/internal/ref"
	"verifharness/internal/run"
)

// ------------------------------------------------------------------ the case

type wRec struct {
	Merged [][2]int // {taxid or merged id, weight >= 1}; ids resolve to distinct taxa
	Repr   int      // library: 0 StatsOnValues, 1 map[string]int, 2 map[string]interface{} of int, 3 map[string]interface{} of float64 (what the header parser yields)
	Kind   string   // how the weights were drawn (class label only)
}

type wlcaCase struct {
	Tree   ref.Tree
	Build  string // "api" / "dump"
	Dump   ref.DumpStyle
	OnlySN bool
	Recs   []wRec
	// library check: every record x every threshold
	Thresholds []float64 `json:",omitempty"`
	// CLI check: one obiannotate --add-lca-in Slot run per entry; "" = no --lca-error option (zero tolerance)
	LCAErrors []string `json:",omitempty"`
	Slot      string   `json:",omitempty"`
}

func init() {
	evid.Reg("wlca", checkWLCA)
	evid.Reg("wlca_cli", checkWLCACLI)
}

// ------------------------------------------------------------------ the model

var wMargin = big.NewRat(1, 1000000000)

type wModel struct {
	t     *ref.Tree
	nodes []int // node of each map entry
	w     []int // weight of each map entry
	total int
	lca   int
	anti  bool // no map taxon is a strict ancestor of another
}

func newWModel(t *ref.Tree, merged [][2]int) (*wModel, error) {
	m := &wModel{t: t, anti: true}
	seen := map[int]bool{}
	for _, e := range merged {
		n, _, ok := t.Resolve(e[0])
		if !ok || seen[n] || e[1] < 1 {
			return nil, fmt.Errorf("harness: invalid merged map %v (unknown id, taxon named twice or weight < 1)", merged)
		}
		seen[n] = true
		m.nodes = append(m.nodes, n)
		m.w = append(m.w, e[1])
		m.total += e[1]
		if m.total <= 0 || m.total >= 1<<62 {
			return nil, fmt.Errorf("harness: total weight of %v out of range", merged)
		}
	}
	if len(m.nodes) == 0 {
		return nil, fmt.Errorf("harness: empty merged map")
	}
	m.lca = t.LCAOfSet(m.nodes)
	for i, a := range m.nodes {
		for j, b := range m.nodes {
			if i != j && t.IsAncestorOrSelf(a, b) {
				m.anti = false
			}
		}
	}
	return m, nil
}

// cladeWeight: total weight of the map taxa inside the clade of x.
func (m *wModel) cladeWeight(x int) int {
	s := 0
	for i, n := range m.nodes {
		if m.t.IsAncestorOrSelf(x, n) {
			s += m.w[i]
		}
	}
	return s
}

// childWeights: weight of the map taxa below each child of x (children without weight are absent).
func (m *wModel) childWeights(x int) map[int]int {
	out := map[int]int{}
	dx := m.t.Depth(x)
	for i, n := range m.nodes {
		if n != x && m.t.IsAncestorOrSelf(x, n) {
			p := m.t.PathToRoot(n) // n ... root
			out[p[len(p)-2-dx]] += m.w[i]
		}
	}
	return out
}

func maxWeight(cw map[int]int) int {
	mx := 0
	for _, v := range cw {
		mx = max(mx, v)
	}
	return mx
}

func (m *wModel) share(w int) *big.Rat { return new(big.Rat).SetFrac(big.NewInt(int64(w)), big.NewInt(int64(m.total))) }

func ratStr(r *big.Rat) string { return r.FloatString(12) }

// judge compares one answer (taxid got; rans = supported fraction returned by Taxonomy.LCA, lcaErr = error written by
// the worker; nil when not observed) with what the tree and the weights imply at the given threshold.
func (m *wModel) judge(threshold float64, got int, rans, lcaErr *float64) (decided bool, err error) {
	t := m.t
	ans, via, ok := t.Resolve(got)
	if !ok || via {
		return false, fmt.Errorf("the answer taxid %d is not the taxid of a taxon of the tree", got)
	}
	node := func(n int) string { return fmt.Sprintf("taxid %d (%q)", t.Taxid[n], t.Name[n]) }
	thr := new(big.Rat).SetFloat64(threshold)
	one := big.NewRat(1, 1)

	// zero error tolerance: the LCA of all the merged taxids
	if threshold == 1.0 {
		disc := new(big.Rat).Sub(one, m.share(maxWeight(m.childWeights(m.lca))))
		if disc.Cmp(wMargin) > 0 {
			decided = true
			if ans != m.lca {
				return true, fmt.Errorf("answer %s; with zero error tolerance the answer is the deepest common ancestor-or-self of all the merged taxids: %s (a fraction %s of the weight is outside its heaviest child clade)", node(ans), node(m.lca), ratStr(disc))
			}
		}
	}
	// a taxon between the LCA of everything and one of the merged taxa
	if !t.IsAncestorOrSelf(m.lca, ans) {
		return decided, fmt.Errorf("answer %s is not inside the clade of the common ancestor of all the merged taxids, %s (levels above it hold the whole weight)", node(ans), node(m.lca))
	}
	below := false
	for _, n := range m.nodes {
		below = below || t.IsAncestorOrSelf(ans, n)
	}
	if !below {
		return decided, fmt.Errorf("answer %s is an ancestor-or-self of none of the merged taxids", node(ans))
	}
	// on the heaviest descent
	p := t.PathToRoot(ans) // ans ... root
	for i := len(p) - 1; i > 0; i-- {
		cw := m.childWeights(p[i])
		// weights that differ by a relative 1e-9 or less count as tied (above 2^53 a weight read from a header,
		// a float64, is not told from its neighbours)
		if mx := maxWeight(cw); cw[p[i-1]] < mx && new(big.Rat).SetFrac(big.NewInt(int64(mx-cw[p[i-1]])), big.NewInt(int64(mx))).Cmp(wMargin) > 0 {
			return decided, fmt.Errorf("answer %s: below %s the walk entered the child clade %s of weight %d although a sibling clade weighs %d (child clade weights %v)", node(ans), node(p[i]), node(p[i-1]), cw[p[i-1]], maxWeight(cw), cw)
		}
	}
	if !m.anti && threshold < 1.0 {
		return decided, nil
	}
	sh := m.share(m.cladeWeight(ans))
	if threshold < 1.0 {
		// enough support
		if new(big.Rat).Add(sh, wMargin).Cmp(thr) < 0 {
			return true, fmt.Errorf("answer %s: its clade holds %d of the total weight %d = %s, below the threshold %v (more than lca-error of the information disagrees)", node(ans), m.cladeWeight(ans), m.total, ratStr(sh), threshold)
		}
		// as deep as allowed
		cw := m.childWeights(ans)
		if mx := maxWeight(cw); mx > 0 {
			if cs := m.share(mx); cs.Cmp(new(big.Rat).Add(thr, wMargin)) >= 0 {
				return true, fmt.Errorf("answer %s although its heaviest child clade holds %d of the total weight %d = %s >= threshold %v: the walk must go on", node(ans), mx, m.total, ratStr(cs), threshold)
			}
		}
		cs := m.share(maxWeight(cw))
		d1 := new(big.Rat).Sub(sh, thr)
		d2 := new(big.Rat).Sub(cs, thr)
		decided = d1.Abs(d1).Cmp(wMargin) > 0 && d2.Abs(d2).Cmp(wMargin) > 0
	}
	shf, _ := sh.Float64()
	if rans != nil && (math.IsNaN(*rans) || math.Abs(*rans-shf) > 1e-9) {
		return decided, fmt.Errorf("answer %s with supported fraction %v; its clade holds %d of the total weight %d = %s", node(ans), *rans, m.cladeWeight(ans), m.total, ratStr(sh))
	}
	if lcaErr != nil && (math.IsNaN(*lcaErr) || math.Abs(*lcaErr-(1-shf)) > 0.0005+1e-9) {
		return decided, fmt.Errorf("answer %s with reported error %v; %d of the total weight %d is outside its clade = %s (reported with three decimals)", node(ans), *lcaErr, m.total-m.cladeWeight(ans), m.total, ratStr(new(big.Rat).Sub(one, sh)))
	}
	return decided, nil
}

// ------------------------------------------------------------------ library check

func mergedValue(r wRec) any {
	switch r.Repr {
	case 0:
		v := obiseq.StatsOnValues{}
		for _, e := range r.Merged {
			v[strconv.Itoa(e[0])] = e[1]
		}
		return v
	case 1:
		v := map[string]int{}
		for _, e := range r.Merged {
			v[strconv.Itoa(e[0])] = e[1]
		}
		return v
	case 2:
		v := map[string]interface{}{}
		for _, e := range r.Merged {
			v[strconv.Itoa(e[0])] = e[1]
		}
		return v
	}
	v := map[string]interface{}{}
	for _, e := range r.Merged {
		v[strconv.Itoa(e[0])] = float64(e[1])
	}
	return v
}

func validThreshold(x float64) bool { return x > 0 && x <= 1 }

func checkWLCA(c wlcaCase) error {
	if err := c.Tree.Validate(); err != nil {
		return fmt.Errorf("harness: invalid case: %v", err)
	}
	for _, x := range c.Thresholds {
		if !validThreshold(x) {
			return fmt.Errorf("harness: threshold %v outside (0,1]", x)
		}
	}
	tc := taxCase{Tree: c.Tree, Build: c.Build, Dump: c.Dump, OnlySN: c.OnlySN}
	tax, err := build(&tc)
	if err != nil {
		return err
	}
	t := &c.Tree
	for ri, r := range c.Recs {
		m, err := newWModel(t, r.Merged)
		if err != nil {
			return err
		}
		for _, thr := range c.Thresholds {
			what := fmt.Sprintf("Taxonomy.LCA(sequence with merged_taxid %v, threshold %v) [record %d]", r.Merged, thr, ri)
			var l *obitax.TaxNode
			var rans float64
			s := mkseq(r.Merged[0][0])
			s.SetAttribute("merged_taxid", mergedValue(r))
			out := fatal.Run(func() { l, rans, _ = tax.LCA(s, thr) })
			if !out.Completed {
				return fmt.Errorf("%s did not return: %v\n%s", what, out, out.Stack)
			}
			if l == nil {
				return fmt.Errorf("%s = nil", what)
			}
			if _, err := m.judge(thr, l.Taxid(), &rans, nil); err != nil {
				return fmt.Errorf("%s: %v", what, err)
			}
			// the worker: taxid, name, rounded error
			what = fmt.Sprintf("AddLCAWorker(\"w\", %v)(sequence with merged_taxid %v) [record %d]", thr, r.Merged, ri)
			s = mkseq(r.Merged[0][0])
			s.SetAttribute("merged_taxid", mergedValue(r))
			var werr error
			out = fatal.Run(func() { _, werr = obitax.AddLCAWorker(tax, "w", thr)(s) })
			if !out.Completed || werr != nil {
				return fmt.Errorf("%s did not return / failed: %v %v\n%s", what, out, werr, out.Stack)
			}
			vt, _ := s.GetAttribute("w_taxid")
			vn, _ := s.GetAttribute("w_name")
			ve, _ := s.GetAttribute("w_error")
			wt, okt := vt.(int)
			we, oke := ve.(float64)
			if !okt || !oke {
				return fmt.Errorf("%s set w_taxid=%#v w_error=%#v (an integer and a float expected)", what, vt, ve)
			}
			if _, err := m.judge(thr, wt, nil, &we); err != nil {
				return fmt.Errorf("%s: w_taxid=%v w_error=%v: %v", what, vt, ve, err)
			}
			if n, _, ok := t.Resolve(wt); ok && vn != any(t.Name[n]) {
				return fmt.Errorf("%s set w_taxid=%d w_name=%v; that taxon is named %q", what, wt, vn, t.Name[n])
			}
			if wt != l.Taxid() && (thr == 1.0 || thr > 0.5) {
				return fmt.Errorf("%s set w_taxid=%d although Taxonomy.LCA on the same sequence and threshold returned taxid %d (no tie is possible above 0.5)", what, wt, l.Taxid())
			}
		}
	}
	return nil
}

// ------------------------------------------------------------------ CLI check

func wlcaFasta(recs []wRec) string {
	var b strings.Builder
	for i, r := range recs {
		id := fmt.Sprintf("w%03d", i)
		fmt.Fprintf(&b, ">%s {\"taxid\":%d,\"merged_taxid\":{", id, r.Merged[0][0])
		for j, e := range r.Merged {
			if j > 0 {
				b.WriteByte(',')
			}
			fmt.Fprintf(&b, "\"%d\":%d", e[0], e[1])
		}
		b.WriteString("}}\n" + seqOf(id) + "\n")
	}
	return b.String()
}

func jsonFloat(v any) (float64, bool) {
	n, ok := v.(json.Number)
	if !ok {
		return 0, false
	}
	f, err := n.Float64()
	return f, err == nil
}

func checkWLCACLI(c wlcaCase) error {
	t := &c.Tree
	if err := t.Validate(); err != nil {
		return fmt.Errorf("harness: invalid case: %v", err)
	}
	models := make([]*wModel, len(c.Recs))
	for i, r := range c.Recs {
		m, err := newWModel(t, r.Merged)
		if err != nil {
			return err
		}
		models[i] = m
	}
	dir, err := writeDump(t, c.Dump)
	if err != nil {
		return fmt.Errorf("harness: %v", err)
	}
	defer os.RemoveAll(dir)
	in := filepath.Join(dir, "wlca.fasta")
	if err := os.WriteFile(in, []byte(wlcaFasta(c.Recs)), 0o644); err != nil {
		return fmt.Errorf("harness: %v", err)
	}
	base := strings.TrimSuffix(c.Slot, "_taxid")
	for _, e := range c.LCAErrors {
		thr := 1.0
		args := []string{"-t", dir, "--no-progressbar", "--add-lca-in", c.Slot}
		if e != "" {
			ef, perr := strconv.ParseFloat(e, 64)
			if perr != nil || !validThreshold(1-ef) {
				return fmt.Errorf("harness: --lca-error %q outside [0,1)", e)
			}
			thr = 1 - ef // what the command computes
			args = append(args, "--lca-error", e)
		}
		args = append(args, in)
		res, conclusive := runCmd("obiannotate", args)
		if !conclusive {
			continue
		}
		cmd := "obiannotate " + describe(args[2:len(args)-1])
		if res.Exit != 0 {
			return fmt.Errorf("%s exits %d on a well-formed dump and input whose taxids are all in the taxonomy\nstderr: %s", cmd, res.Exit, short(res.Stderr))
		}
		got, err := parseOut(res.Stdout)
		if err != nil {
			return fmt.Errorf("%s: output unreadable: %v\n%s", cmd, err, short(res.Stdout))
		}
		if len(got) != len(c.Recs) {
			return fmt.Errorf("%s wrote %d records for %d input records", cmd, len(got), len(c.Recs))
		}
		for i, r := range c.Recs {
			id := fmt.Sprintf("w%03d", i)
			o, has := got[id]
			if !has {
				return fmt.Errorf("%s: record %s is missing from the output", cmd, id)
			}
			if o.Seq != seqOf(id) {
				return fmt.Errorf("%s: record %s carries sequence %q, the input had %q", cmd, id, o.Seq, seqOf(id))
			}
			v, hv := o.Attrs[c.Slot]
			if !hv {
				v, hv = o.Attrs[base+"_taxid"]
			}
			tf, okf := jsonFloat(v)
			if !hv || !okf || tf != math.Trunc(tf) {
				return fmt.Errorf("%s: record %s (merged_taxid %v) got LCA taxid %v (slots %q / %q)", cmd, id, r.Merged, v, c.Slot, base+"_taxid")
			}
			var perr *float64
			if ve, h := o.Attrs[base+"_error"]; h {
				f, ok := jsonFloat(ve)
				if !ok {
					return fmt.Errorf("%s: record %s got %s_error=%v, not a number", cmd, id, base, ve)
				}
				perr = &f
			}
			if _, err := models[i].judge(thr, int(tf), nil, perr); err != nil {
				return fmt.Errorf("%s: record %s (merged_taxid %v, threshold %v): %v", cmd, id, r.Merged, thr, err)
			}
			if n, _, ok := t.Resolve(int(tf)); ok {
				if vn, h := o.Attrs[base+"_name"]; h && vn != any(t.Name[n]) {
					return fmt.Errorf("%s: record %s got taxid %d with %s_name=%v; that taxon is named %q", cmd, id, int(tf), base, vn, t.Name[n])
				}
			}
		}
	}
	return nil
}

// ------------------------------------------------------------------ generators

// wErrors: the tolerated error rates the weights are aimed at and the thresholds are taken from (threshold = 1 - e).
var wErrors = []float64{1e-1, 1e-2, 1e-3, 1e-4, 1e-5, 1e-6, 1e-7, 1e-8, 1e-9, 0.0005, 0.0004, 0.0006, 0.005, 0.05, 0.25, 0.5, 0.4999999, 0.5000001, 0.7, 0.9, 0.99, 0.999, 0.999999}

// wCLIErrors: --lca-error arguments ("" = option absent).
var wCLIErrors = []string{"", "0", "0.0", "0.0005", "0.001", "0.01", "0.05", "0.1", "0.25", "0.5", "1e-4", "1e-6", "1e-9", "0.9", "0.999"}

var wBig = []int{1000, 2000, 4000, 10000, 100000, 1000000, 10000000, 100000000, 1000000000, 1<<31 - 1, 1 << 31, 1<<32 + 1, 1000000000000, 1<<53 - 1, 1 << 53, 1<<53 + 1, 1 << 59}

// genWeights draws k weights (>= 1, sum < 2^62).  aim = a tolerated error rate the minority share is placed around.
func genWeights(rt *rapid.T, k int, aim float64) ([]int, string) {
	w := make([]int, k)
	kind := rapid.SampledFrom([]string{"small", "equal", "outlier", "outlier", "aimed", "aimed", "aimed", "huge", "decades"}).Draw(rt, "w_kind")
	if k == 1 && kind != "huge" {
		kind = "small"
	}
	switch kind {
	case "small":
		for i := range w {
			w[i] = rapid.IntRange(1, 9).Draw(rt, "w")
		}
	case "equal":
		v := rapid.SampledFrom([]int{1, 2, 7, 1000, 1000000, 1 << 31, 1 << 53, 1 << 59}).Draw(rt, "w_equal")
		for i := range w {
			w[i] = v
		}
	case "outlier": // one (or a few) heavy taxa, the others weigh 1..3
		nh := 1
		if k > 2 && rapid.IntRange(0, 3).Draw(rt, "w_two_heavy") == 0 {
			nh = 2
		}
		for i := range w {
			w[i] = rapid.IntRange(1, 3).Draw(rt, "w_light")
		}
		for _, i := range rapid.Permutation(seqInts(k)).Draw(rt, "w_heavy_at")[:nh] {
			w[i] = rapid.SampledFrom(wBig).Draw(rt, "w_heavy") + rapid.IntRange(-1, 1).Draw(rt, "w_heavy_d")
		}
	case "aimed": // total N, minority of about aim*N spread over the k-1 other taxa
		n := rapid.SampledFrom(wBig).Draw(rt, "w_total")
		if n < 1<<53 {
			n *= rapid.SampledFrom([]int{1, 1, 2, 3, 5}).Draw(rt, "w_total_mult")
		}
		minority := int(math.Round(aim*float64(n))) + rapid.IntRange(-2, 2).Draw(rt, "w_minor_d")
		minority = min(max(minority, k-1), n-1)
		if minority < k-1 { // n too small for k taxa
			minority = k - 1
			n = max(n, 2*k)
		}
		// split the minority over k-1 taxa, each >= 1
		rest := minority - (k - 1)
		for i := 1; i < k; i++ {
			w[i] = 1
			if i == k-1 {
				w[i] += rest
			} else if rest > 0 {
				x := rapid.IntRange(0, rest).Draw(rt, "w_split")
				w[i] += x
				rest -= x
			}
		}
		w[0] = n - minority
		if j := rapid.IntRange(0, k-1).Draw(rt, "w_major_at"); j != 0 {
			w[0], w[j] = w[j], w[0]
		}
	case "huge":
		for i := range w {
			w[i] = rapid.SampledFrom([]int{1, 2, 1<<31 - 1, 1 << 31, 1<<32 + 1, 1<<53 - 1, 1 << 53, 1<<53 + 1, 1 << 59}).Draw(rt, "w_huge")
		}
	default: // decades: 10^a each
		for i := range w {
			w[i] = pow10(rapid.IntRange(0, 9).Draw(rt, "w_decade")) * rapid.SampledFrom([]int{1, 1, 2, 5, 9}).Draw(rt, "w_mant")
		}
	}
	for i := range w {
		w[i] = max(1, w[i])
	}
	return w, kind
}

func pow10(k int) int {
	v := 1
	for ; k > 0; k-- {
		v *= 10
	}
	return v
}

func seqInts(n int) []int {
	o := make([]int, n)
	for i := range o {
		o[i] = i
	}
	return o
}

// genWRec draws the taxa of one map: a first node, then nodes inside the clade of one of its ancestors (so that
// the LCA is anywhere between the root and the taxa), as an antichain most of the time; ids given as merged ids now and then.
func genWRec(rt *rapid.T, t *ref.Tree, desc [][]int, aim float64) wRec {
	n := t.N()
	k := rapid.SampledFrom([]int{1, 2, 2, 2, 3, 3, 4, 6}).Draw(rt, "k")
	first := rapid.IntRange(1, n-1).Draw(rt, "first") // n >= 2
	if rapid.IntRange(0, 9).Draw(rt, "first_root") == 0 {
		first = 0
	}
	p := t.PathToRoot(first)
	anc := p[0]
	if len(p) > 1 { // a strict ancestor: its clade holds other taxa than the descendants of the first one
		anc = p[rapid.IntRange(1, len(p)-1).Draw(rt, "clade_level")]
		if rapid.IntRange(0, 2).Draw(rt, "sibling_clade") == 0 {
			anc = p[1] // parent: siblings and nephews, the shape of the one mis-assigned read in a genus
		}
	}
	antichain := rapid.IntRange(0, 3).Draw(rt, "antichain") != 0
	nodes := []int{first}
	pool := desc[anc]
	for pass := 0; pass < 2; pass++ { // second pass (chains, the root as first taxon): any other taxon of the clade
		for tries := 0; len(nodes) < k && tries < 4*k; tries++ {
			cand := pool[rapid.IntRange(0, len(pool)-1).Draw(rt, "taxon")]
			okc := true
			for _, x := range nodes {
				if x == cand || (antichain && pass == 0 && (t.IsAncestorOrSelf(x, cand) || t.IsAncestorOrSelf(cand, x))) {
					okc = false
				}
			}
			if okc {
				nodes = append(nodes, cand)
			}
		}
		if len(nodes) > 1 || len(pool) < 2 {
			break
		}
	}
	w, kind := genWeights(rt, len(nodes), aim)
	r := wRec{Repr: rapid.IntRange(0, 3).Draw(rt, "repr"), Kind: kind}
	for i, x := range nodes {
		id := t.Taxid[x]
		if rapid.IntRange(0, 7).Draw(rt, "via_alias") == 0 {
			for _, a := range t.Alias {
				if a[1] == x {
					id = a[0]
					break
				}
			}
		}
		r.Merged = append(r.Merged, [2]int{id, w[i]})
	}
	if rapid.Bool().Draw(rt, "shuffle") { // the first entry also gives the taxid attribute of the record
		sort.Slice(r.Merged, func(i, j int) bool { return r.Merged[i][0] < r.Merged[j][0] })
	}
	return r
}

func descendants(t *ref.Tree) [][]int {
	n := t.N()
	d := make([][]int, n)
	for i := 0; i < n; i++ {
		for _, a := range t.PathToRoot(i) {
			d[a] = append(d[a], i)
		}
	}
	return d
}

func genWLCACase(rt *rapid.T, cli bool) (wlcaCase, gen.TreeInfo) {
	n := gen.Len(rt, "n", 2, 80, 3, 5, 8, 30)
	shape := rapid.SampledFrom(gen.TreeShapes).Draw(rt, "shape")
	tr, info := gen.Tree(rt, "tree", n, shape, rapid.IntRange(0, min(8, n/3+1)).Draw(rt, "n_alias"), 1)
	c := wlcaCase{Tree: tr, Build: "api"}
	c.Dump.FullColumns = rapid.Bool().Draw(rt, "full_columns")
	if cli || rapid.IntRange(0, 3).Draw(rt, "build_dump") == 0 {
		c.Build = "dump"
		c.OnlySN = rapid.Bool().Draw(rt, "onlysn")
	}
	t := &c.Tree
	desc := descendants(t)
	// thresholds of the case first: the weights of its records are aimed at them
	var aims []float64
	if cli {
		c.Slot = rapid.SampledFrom([]string{"lca", "best", "consensus_taxid"}).Draw(rt, "slot")
		c.LCAErrors = []string{rapid.SampledFrom([]string{"", "", "0", "0.0"}).Draw(rt, "zero_tolerance")}
		aims = append(aims, 0.0005, 1e-4, 1e-6)
		for j, k := 0, rapid.IntRange(1, 2).Draw(rt, "n_runs"); j < k; j++ {
			e := rapid.SampledFrom(wCLIErrors[3:]).Draw(rt, "lca_error")
			c.LCAErrors = append(c.LCAErrors, e)
			f, _ := strconv.ParseFloat(e, 64)
			aims = append(aims, f)
		}
	} else {
		c.Thresholds = []float64{1.0}
		aims = append(aims, 0.0005, 1e-4, 1e-6)
		for j, k := 0, rapid.IntRange(1, 4).Draw(rt, "n_thresholds"); j < k; j++ {
			var e float64
			if rapid.IntRange(0, 4).Draw(rt, "random_threshold") == 0 {
				e = rapid.Float64Range(1e-12, 0.999999).Draw(rt, "error")
			} else {
				e = rapid.SampledFrom(wErrors).Draw(rt, "error_listed")
			}
			if thr := 1 - e; validThreshold(thr) {
				c.Thresholds = append(c.Thresholds, thr)
				aims = append(aims, e)
			}
		}
	}
	nr := rapid.IntRange(1, 6).Draw(rt, "n_recs")
	if cli {
		nr = rapid.IntRange(20, 60).Draw(rt, "n_recs_cli")
	}
	for i := 0; i < nr; i++ {
		aim := aims[rapid.IntRange(0, len(aims)-1).Draw(rt, "aim")]
		c.Recs = append(c.Recs, genWRec(rt, t, desc, aim))
	}
	return c, info
}

// wlcaCounters: one evaluation per (record, threshold); non-trivial = at least two distinct taxa in the map (some
// level of the walk has a discordant share to weigh against the threshold).
func wlcaCounters(check string, c *wlcaCase, thresholds []float64) {
	t := &c.Tree
	key := evid.Hash(fmt.Sprint(t.Parent), fmt.Sprint(t.Taxid), fmt.Sprint(t.Alias), c.Build, c.Dump.FullColumns, c.OnlySN)
	var sample any
	if t.N() <= 8 && len(c.Recs) <= 3 {
		sample = c
	}
	for _, r := range c.Recs {
		m, err := newWModel(t, r.Merged)
		if err != nil {
			continue
		}
		minor := new(big.Rat).Sub(big.NewRat(1, 1), m.share(maxWeight(m.childWeights(m.lca))))
		for _, thr := range thresholds {
			cl := []string{"wlca:weights:" + r.Kind}
			if thr == 1.0 {
				cl = append(cl, "wlca:threshold=1")
				if len(m.nodes) > 1 && minor.Cmp(big.NewRat(1, 2000)) < 0 {
					cl = append(cl, "wlca:zero_tolerance_discordant_share_below_1/2000")
				}
				if len(m.nodes) > 1 && minor.Cmp(wMargin) <= 0 {
					cl = append(cl, "wlca:zero_tolerance_undecided_share_below_1e-9")
				}
			} else {
				cl = append(cl, "wlca:threshold<1")
				if thr > 0.999 {
					cl = append(cl, "wlca:threshold_in_(0.999,1)")
				}
				if thr <= 0.5 {
					cl = append(cl, "wlca:threshold<=0.5")
				}
				// is some clade share on the path within 1e-6 of the threshold ? (boundary cases)
				d := new(big.Rat).Sub(new(big.Rat).Sub(big.NewRat(1, 1), minor), new(big.Rat).SetFloat64(thr))
				if d.Abs(d).Cmp(big.NewRat(1, 1000)) < 0 {
					cl = append(cl, "wlca:top_share_within_1e-3_of_threshold")
				}
			}
			switch {
			case m.total >= 1<<53:
				cl = append(cl, "wlca:total>=2^53")
			case m.total >= 1<<31:
				cl = append(cl, "wlca:total>=2^31")
			case m.total >= 2000:
				cl = append(cl, "wlca:total>=2000")
			default:
				cl = append(cl, "wlca:total<2000")
			}
			if m.anti {
				cl = append(cl, "wlca:antichain")
			} else {
				cl = append(cl, "wlca:map_with_ancestor_taxon")
			}
			if m.lca != 0 {
				cl = append(cl, "wlca:lca_below_root")
			}
			evid.Eval(check, evid.Hash(key, fmt.Sprint(r.Merged), r.Repr, thr), len(m.nodes) >= 2, sample, cl...)
		}
	}
}

func TestPropWeightedLCA(t *testing.T) {
	rapid.Check(t, func(rt *rapid.T) {
		c, info := genWLCACase(rt, false)
		wlcaCounters("wlca", &c, c.Thresholds)
		evid.Class("wlca:shape:"+info.Shape, 1)
		if err := checkWLCA(c); err != nil {
			evid.Fail(rt, "wlca", c, err)
		}
	})
}

func TestPropWeightedLCACLI(t *testing.T) {
	if !run.Have("obiannotate") {
		t.Fatalf("the driver did not build obiannotate into %s", os.Getenv("VERIF_BIN"))
	}
	rapid.Check(t, func(rt *rapid.T) {
		c, info := genWLCACase(rt, true)
		var thrs []float64
		for _, e := range c.LCAErrors {
			f := 0.0
			if e != "" {
				f, _ = strconv.ParseFloat(e, 64)
			}
			thrs = append(thrs, 1-f)
		}
		wlcaCounters("wlca_cli", &c, thrs)
		evid.Class("wlca_cli:shape:"+info.Shape, 1)
		evid.Class("wlca_cli:runs", int64(len(c.LCAErrors)))
		if err := checkWLCACLI(c); err != nil {
			evid.Fail(rt, "wlca_cli", c, err)
		}
	})
}
