package c14

// Stateful histories of one obitax.Taxonomy.
//
// A history is a list of operations on one taxonomy object, replayed on the real object and
// on a model (taxid -> parent id, rank, name; old id -> taxid):
//
//	add      AddNewTaxa(taxid, parent, rank, replace)   replace=false on a taxid already there must be refused
//	                                                     and change nothing; otherwise the declaration replaces the
//	                                                     former one (parent, rank; the taxon has no name any more)
//	reindex  ReindexParent()                             nil exactly when every parent id is a taxon
//	name     AddNewName(id, name, class)                 id resolved as Taxon does; error for an id nothing carries
//	alias    AddNewAlias(new, old)                       new resolved as Taxon does
//	ask      the queries of tax_test.go against the tree the model describes at that moment
//
// Domain decisions: a history is made of rounds that follow the protocol of the only caller of
// this API (the dump loader), repeated: declarations and re-declarations, one ReindexParent after
// the last of them, a scientific name for every taxon that was (re-)declared, the merged ids of
// every re-declared taxon declared again, and only then questions.  What the taxonomy answers
// before ReindexParent, for a taxon without name, or through a merged id declared before the
// re-declaration of its taxon, is not decided by the statement and is not asked.  At every "ask"
// the declarations form one rooted tree (a re-declared taxon moves under a taxon that is not one of
// its descendants; the root stays its own parent).

import (
	"fmt"
	"sort"
	"testing"

	"pgregory.net/rapid"

	"git.metabarcoding.org/obitools/obitools4/obitools4/pkg/obitax"

	"verifharness/internal/evid"
	"verifharness/internal/fatal"
	"verifharness/internal/gen"
	"verifharness/internal/ref"
)

type histOp struct {
	Op      string  // add, reindex, name, alias, ask
	Taxid   int     `json:",omitempty"` // add: taxid; name: the id given (taxid or old id); alias: the id given as current one
	Parent  int     `json:",omitempty"`
	Rank    string  `json:",omitempty"`
	Replace bool    `json:",omitempty"`
	Name    string  `json:",omitempty"`
	Class   string  `json:",omitempty"`
	Old     int     `json:",omitempty"`
	Queries []query `json:",omitempty"`
}

type histCase struct {
	Ops     []histOp
	Unknown []int
}

func init() { evid.Reg("history", checkHistory) }

// ------------------------------------------------------------------ the model

type mNode struct {
	parent int
	rank   string
	name   string
	named  bool
	decl   int // serial number of the declaration that made this node
}

type mAlias struct {
	taxid int
	decl  int // serial number of the declaration of the target when the alias was declared
}

type histModel struct {
	nodes map[int]*mNode
	alias map[int]mAlias
	serial int
	dirty bool // a declaration was made since the last successful ReindexParent
}

func newHistModel() *histModel { return &histModel{nodes: map[int]*mNode{}, alias: map[int]mAlias{}} }

// resolve: as Taxonomy.Taxon, taxids first, old ids second.  fresh=false: the old id was declared for a former declaration of the taxon.
func (m *histModel) resolve(id int) (taxid int, ok, fresh bool) {
	if _, ok := m.nodes[id]; ok {
		return id, true, true
	}
	if a, ok := m.alias[id]; ok {
		n, there := m.nodes[a.taxid]
		return a.taxid, there, there && n.decl == a.decl
	}
	return 0, false, false
}

func (m *histModel) complete() bool {
	for _, n := range m.nodes {
		if _, ok := m.nodes[n.parent]; !ok {
			return false
		}
	}
	return true
}

// tree renders the model as a ref.Tree (breadth first from the root, children by taxid) or says why it cannot be asked yet.
func (m *histModel) tree() (ref.Tree, error) {
	var tr ref.Tree
	if m.dirty {
		return tr, fmt.Errorf("declarations since the last ReindexParent")
	}
	root, nroot := 0, 0
	children := map[int][]int{}
	for id, n := range m.nodes {
		if !n.named {
			return tr, fmt.Errorf("taxon %d has no scientific name", id)
		}
		if n.parent == id {
			root = id
			nroot++
		} else {
			children[n.parent] = append(children[n.parent], id)
		}
	}
	if nroot != 1 {
		return tr, fmt.Errorf("%d roots", nroot)
	}
	index := map[int]int{root: 0}
	queue := []int{root}
	for h := 0; h < len(queue); h++ {
		id := queue[h]
		n := m.nodes[id]
		tr.Parent = append(tr.Parent, index[n.parent])
		tr.Taxid = append(tr.Taxid, id)
		tr.Rank = append(tr.Rank, n.rank)
		tr.Name = append(tr.Name, n.name)
		ch := children[id]
		sort.Ints(ch)
		for _, c := range ch {
			index[c] = len(queue)
			queue = append(queue, c)
		}
	}
	if len(queue) != len(m.nodes) {
		return tr, fmt.Errorf("%d of %d taxa hang from the root", len(queue), len(m.nodes))
	}
	olds := make([]int, 0, len(m.alias))
	for o := range m.alias {
		olds = append(olds, o)
	}
	sort.Ints(olds)
	for _, o := range olds {
		a := m.alias[o]
		n, ok := m.nodes[a.taxid]
		if !ok || n.decl != a.decl {
			return tr, fmt.Errorf("old id %d was declared before the last declaration of taxon %d", o, a.taxid)
		}
		tr.Alias = append(tr.Alias, [2]int{o, index[a.taxid]})
	}
	return tr, tr.Validate()
}

// apply updates the model; refused tells that an "add" must be refused (replace=false on a present taxid).
func (m *histModel) apply(op histOp) (refused bool, err error) {
	switch op.Op {
	case "add":
		if _, there := m.nodes[op.Taxid]; there && !op.Replace {
			return true, nil
		}
		if _, isOld := m.alias[op.Taxid]; isOld {
			return false, fmt.Errorf("taxid %d is an old id", op.Taxid)
		}
		m.serial++
		m.nodes[op.Taxid] = &mNode{parent: op.Parent, rank: op.Rank, decl: m.serial}
		m.dirty = true
	case "reindex":
		if m.complete() {
			m.dirty = false
		}
	case "name":
		id, ok, fresh := m.resolve(op.Taxid)
		if ok && !fresh {
			return false, fmt.Errorf("name given through the outdated old id %d", op.Taxid)
		}
		if ok && op.Class == "scientific name" {
			m.nodes[id].name, m.nodes[id].named = op.Name, true
		}
	case "alias":
		id, ok, fresh := m.resolve(op.Taxid)
		if ok && !fresh {
			return false, fmt.Errorf("old id declared through the outdated old id %d", op.Taxid)
		}
		if _, isNode := m.nodes[op.Old]; isNode {
			return false, fmt.Errorf("old id %d is a taxid", op.Old)
		}
		if ok {
			m.alias[op.Old] = mAlias{id, m.nodes[id].decl}
		}
	case "ask":
	default:
		return false, fmt.Errorf("unknown operation %q", op.Op)
	}
	return false, nil
}

// ------------------------------------------------------------------ the check

func checkHistory(c histCase) error { return runHistory(&c, false) }

func runHistory(c *histCase, count bool) error {
	m := newHistModel()
	tax := obitax.NewTaxonomy()
	for i, op := range c.Ops {
		where := fmt.Sprintf("operation %d of the history", i+1)
		_, knownBefore, _ := m.resolve(op.Taxid)
		var before *mNode
		if n, ok := m.nodes[op.Taxid]; ok {
			before = n
		}
		refused, merr := m.apply(op)
		if merr != nil {
			return fmt.Errorf("harness: invalid case: %s: %v", where, merr)
		}
		var ferr error
		out := fatal.Run(func() {
			switch op.Op {
			case "add":
				node, err := tax.AddNewTaxa(op.Taxid, op.Parent, op.Rank, op.Replace, false)
				if refused {
					if err == nil {
						ferr = fmt.Errorf("AddNewTaxa(%d, parent %d, %q, replace=false) on a taxonomy that holds taxid %d returned no error (node %s)", op.Taxid, op.Parent, op.Rank, op.Taxid, taxidOf(node))
						return
					}
					// nothing changed
					if x, e := tax.Taxon(op.Taxid); e != nil || x == nil || x.Rank() != before.rank {
						ferr = fmt.Errorf("after the refused AddNewTaxa(%d, parent %d, %q, replace=false), Taxon(%d) = %s, %v; the declaration in force has rank %q", op.Taxid, op.Parent, op.Rank, op.Taxid, taxidOf(x), e, before.rank)
					}
					return
				}
				if err != nil || node == nil || node.Taxid() != op.Taxid || node.Rank() != op.Rank {
					ferr = fmt.Errorf("AddNewTaxa(%d, parent %d, %q, replace=%v) (taxid present before: %v) = %s, %v", op.Taxid, op.Parent, op.Rank, op.Replace, before != nil, taxidOf(node), err)
					return
				}
				if x, e := tax.Taxon(op.Taxid); e != nil || x != node {
					ferr = fmt.Errorf("after AddNewTaxa(%d, ..., replace=%v), Taxon(%d) = %s, %v is not the node that was returned", op.Taxid, op.Replace, op.Taxid, taxidOf(x), e)
				}
			case "reindex":
				err := tax.ReindexParent()
				if (err == nil) != m.complete() {
					ferr = fmt.Errorf("ReindexParent() = %v; every parent id is a taxon: %v", err, m.complete())
				}
			case "name":
				name, class := op.Name, op.Class
				err := tax.AddNewName(op.Taxid, &name, &class)
				if (err == nil) != knownBefore {
					ferr = fmt.Errorf("AddNewName(%d, %q, %q) = %v; the id is a taxid or an old id: %v", op.Taxid, op.Name, op.Class, err, knownBefore)
				}
			case "alias":
				err := tax.AddNewAlias(op.Taxid, op.Old)
				if (err == nil) != knownBefore {
					ferr = fmt.Errorf("AddNewAlias(new %d, old %d) = %v; the new id is a taxid or an old id: %v", op.Taxid, op.Old, err, knownBefore)
				}
			}
		})
		if !out.Completed {
			return fmt.Errorf("%s (%+v) did not return: %v\n%s", where, op, out, out.Stack)
		}
		if ferr != nil {
			return fmt.Errorf("%s: %v", where, ferr)
		}
		if tax.Len() != len(m.nodes) {
			return fmt.Errorf("%s (%+v): the taxonomy holds %d taxa, %d were declared", where, op, tax.Len(), len(m.nodes))
		}
		if op.Op != "ask" {
			continue
		}
		tr, err := m.tree()
		if err != nil {
			return fmt.Errorf("harness: invalid case: %s asks while %v", where, err)
		}
		tc := taxCase{Tree: tr, Build: fmt.Sprintf("a history of %d operations", i), Mode: "queries", Queries: op.Queries, Unknown: c.Unknown}
		if err := runQueries(&tc, tax, count); err != nil {
			return fmt.Errorf("%s, after %s:\n%v", where, describeHistory(c.Ops[:i]), err)
		}
	}
	return nil
}

func describeHistory(ops []histOp) string {
	s := ""
	from := 0
	if len(ops) > 60 {
		from = len(ops) - 60
		s = fmt.Sprintf("…(%d operations)… ", from)
	}
	for _, op := range ops[from:] {
		switch op.Op {
		case "add":
			s += fmt.Sprintf("add(%d<-%d,%q,replace=%v) ", op.Taxid, op.Parent, op.Rank, op.Replace)
		case "name":
			if op.Class == "scientific name" {
				s += fmt.Sprintf("name(%d) ", op.Taxid)
			}
		case "alias":
			s += fmt.Sprintf("alias(%d->%d) ", op.Old, op.Taxid)
		default:
			s += op.Op + " "
		}
	}
	return s
}

// ------------------------------------------------------------------ generator

type histGen struct {
	rt      *rapid.T
	m       *histModel
	ops     []histOp
	ids     []int // pool of taxids not used yet
	olds    []int // pool of old ids not used yet
	unknown []int
	classes map[string]bool
}

func (g *histGen) emit(op histOp) {
	if _, err := g.m.apply(op); err != nil {
		panic("history generator: " + err.Error())
	}
	g.ops = append(g.ops, op)
}

func (g *histGen) taxids() []int {
	ids := make([]int, 0, len(g.m.nodes))
	for id := range g.m.nodes {
		ids = append(ids, id)
	}
	sort.Ints(ids)
	return ids
}

func (g *histGen) rank(label string) string {
	return rapid.SampledFrom(queryRanks[:len(queryRanks)-2]).Draw(g.rt, label)
}

func (g *histGen) inSubtree(anc, id int) bool {
	for steps := 0; steps <= len(g.m.nodes); steps++ {
		if id == anc {
			return true
		}
		n := g.m.nodes[id]
		if n == nil || n.parent == id {
			return false
		}
		id = n.parent
	}
	return true
}

func (g *histGen) hasChild(id int) bool {
	for c, n := range g.m.nodes {
		if c != id && n.parent == id {
			return true
		}
	}
	return false
}

// round emits one round: declarations, ReindexParent, names, old ids, questions.
func (g *histGen) round(first bool) {
	rt := g.rt
	var touched []int // taxa declared in this round (they need a name, their old ids must be declared again)
	mark := func(id int) { touched = append(touched, id) }
	maybeReindex := func() {
		if rapid.IntRange(0, 9).Draw(rt, "reindex_in_between") == 0 {
			if !g.m.complete() {
				g.classes["hist:reindex_reports_missing_parent"] = true
			}
			g.emit(histOp{Op: "reindex"})
		}
	}
	if first {
		n := gen.Len(rt, "n0", 1, 40, 2, 3, 8)
		shape := rapid.SampledFrom(gen.TreeShapes).Draw(rt, "shape0")
		parents := gen.Parents(rt, "t0", n, shape)
		ids := g.ids[:n]
		g.ids = g.ids[n:]
		order := make([]int, n)
		for i := range order {
			order[i] = i
		}
		switch rapid.IntRange(0, 2).Draw(rt, "order0") {
		case 1:
			order = reversedOrder(n)
		case 2:
			order = rapid.Permutation(order).Draw(rt, "order0_perm")
		}
		for _, i := range order {
			g.emit(histOp{Op: "add", Taxid: ids[i], Parent: ids[parents[i]], Rank: g.rank("rank0"), Replace: rapid.Bool().Draw(rt, "replace0")})
			mark(ids[i])
			maybeReindex()
		}
	}
	// ---- new taxa, children possibly before their parents
	if k := rapid.IntRange(0, 4).Draw(rt, "n_new"); k > 0 && len(g.ids) >= k {
		existing := g.taxids()
		fresh := g.ids[:k]
		g.ids = g.ids[k:]
		type decl struct{ id, parent int }
		var ds []decl
		for j, id := range fresh {
			cands := append(append([]int(nil), existing...), fresh[:j]...)
			ds = append(ds, decl{id, cands[rapid.IntRange(0, len(cands)-1).Draw(rt, "new_parent")]})
		}
		if rapid.Bool().Draw(rt, "children_first") {
			for i, j := 0, len(ds)-1; i < j; i, j = i+1, j-1 {
				ds[i], ds[j] = ds[j], ds[i]
			}
		}
		for _, d := range ds {
			g.emit(histOp{Op: "add", Taxid: d.id, Parent: d.parent, Rank: g.rank("new_rank"), Replace: rapid.Bool().Draw(rt, "new_replace")})
			mark(d.id)
			maybeReindex()
		}
	}
	// ---- re-declarations
	nre := rapid.IntRange(0, 3).Draw(rt, "n_redeclared")
	if !first && nre == 0 && rapid.Bool().Draw(rt, "at_least_one") {
		nre = 1
	}
	for j := 0; j < nre; j++ {
		ids := g.taxids()
		x := ids[rapid.IntRange(0, len(ids)-1).Draw(rt, "redeclared")]
		if rapid.IntRange(0, 2).Draw(rt, "take_parent") > 0 {
			if p := g.m.nodes[x].parent; g.m.nodes[p] != nil {
				x = p
			}
		}
		cur := g.m.nodes[x]
		isRoot := cur.parent == x
		// a superseded declaration first, now and then: anything goes on it
		if rapid.IntRange(0, 3).Draw(rt, "superseded") == 0 {
			g.emit(histOp{Op: "add", Taxid: x, Parent: ids[rapid.IntRange(0, len(ids)-1).Draw(rt, "superseded_parent")], Rank: g.rank("superseded_rank"), Replace: true})
			g.classes["hist:superseded_within_round"] = true
			maybeReindex()
		}
		// a declaration that must be refused, now and then
		if rapid.IntRange(0, 3).Draw(rt, "refused") == 0 {
			g.emit(histOp{Op: "add", Taxid: x, Parent: ids[rapid.IntRange(0, len(ids)-1).Draw(rt, "refused_parent")], Rank: g.rank("refused_rank"), Replace: false})
			g.classes["hist:add_refused"] = true
		}
		np := cur.parent
		if !isRoot && g.m.complete() && rapid.IntRange(0, 3).Draw(rt, "move") > 0 {
			var cands []int
			for _, id := range ids {
				if !g.inSubtree(x, id) {
					cands = append(cands, id)
				}
			}
			if len(cands) > 0 {
				np = cands[rapid.IntRange(0, len(cands)-1).Draw(rt, "moved_under")]
			}
		}
		if isRoot {
			np = x
		}
		nr := cur.rank
		if rapid.Bool().Draw(rt, "other_rank") {
			nr = g.rank("redeclared_rank")
		}
		switch {
		case np != cur.parent:
			g.classes["hist:redeclared_other_parent"] = true
		case nr != cur.rank:
			g.classes["hist:redeclared_other_rank"] = true
		default:
			g.classes["hist:redeclared_identical"] = true
		}
		if g.hasChild(x) && !first {
			g.classes["hist:redeclared_taxon_has_children"] = true
		}
		if isRoot {
			g.classes["hist:root_redeclared"] = true
		}
		g.emit(histOp{Op: "add", Taxid: x, Parent: np, Rank: nr, Replace: true})
		mark(x)
		maybeReindex()
	}
	// ---- after the last declaration: ReindexParent somewhere among the names and old ids
	var tail []histOp
	named := map[int]bool{}
	for _, id := range touched {
		if named[id] {
			continue
		}
		named[id] = true
		if rapid.IntRange(0, 3).Draw(rt, "synonym") == 0 {
			tail = append(tail, histOp{Op: "name", Taxid: id, Name: fmt.Sprintf("syn %d", id), Class: "synonym"})
		}
		if rapid.IntRange(0, 5).Draw(rt, "named_twice") == 0 {
			tail = append(tail, histOp{Op: "name", Taxid: id, Name: fmt.Sprintf("Olim taxon %d (%d)", id, len(g.ops)), Class: "scientific name"})
		}
		tail = append(tail, histOp{Op: "name", Taxid: id, Name: fmt.Sprintf("Taxon %d (%d)", id, len(g.ops)), Class: "scientific name"})
	}
	// taxa that were not touched get a new name now and then
	if ids := g.taxids(); rapid.IntRange(0, 3).Draw(rt, "rename") == 0 {
		id := ids[rapid.IntRange(0, len(ids)-1).Draw(rt, "renamed")]
		tail = append(tail, histOp{Op: "name", Taxid: id, Name: fmt.Sprintf("Renamed %d (%d)", id, len(g.ops)), Class: "scientific name"})
		g.classes["hist:renamed"] = true
	}
	if rapid.IntRange(0, 5).Draw(rt, "name_unknown") == 0 {
		tail = append(tail, histOp{Op: "name", Taxid: g.unknown[len(g.unknown)-1], Name: "Nemo", Class: "scientific name"})
		g.classes["hist:name_for_unknown_id"] = true
	}
	// old ids of the re-declared taxa, again (in the order of the ids: a pure function of the draws)
	olds := make([]int, 0, len(g.m.alias))
	for o := range g.m.alias {
		olds = append(olds, o)
	}
	sort.Ints(olds)
	for _, o := range olds {
		a := g.m.alias[o]
		if n := g.m.nodes[a.taxid]; n.decl != a.decl {
			tail = append(tail, histOp{Op: "alias", Taxid: a.taxid, Old: o})
			g.classes["hist:old_id_of_redeclared_taxon"] = true
		}
	}
	lastOld := 0
	for j, k := 0, rapid.IntRange(0, 3).Draw(rt, "n_old"); j < k && len(g.olds) > 0; j++ {
		ids := g.taxids()
		target := ids[rapid.IntRange(0, len(ids)-1).Draw(rt, "old_target")]
		o := g.olds[0]
		g.olds = g.olds[1:]
		if lastOld != 0 && rapid.Bool().Draw(rt, "chain") { // declared through the old id declared just before
			tail = append(tail, histOp{Op: "alias", Taxid: lastOld, Old: o})
			g.classes["hist:old_id_chain"] = true
		} else {
			tail = append(tail, histOp{Op: "alias", Taxid: target, Old: o})
		}
		lastOld = o
	}
	if len(olds) > 0 && rapid.IntRange(0, 3).Draw(rt, "repoint") == 0 { // an old id given to another taxon
		ids := g.taxids()
		tail = append(tail, histOp{Op: "alias", Taxid: ids[rapid.IntRange(0, len(ids)-1).Draw(rt, "repoint_to")], Old: olds[rapid.IntRange(0, len(olds)-1).Draw(rt, "repointed")]})
		g.classes["hist:old_id_repointed"] = true
	}
	if rapid.IntRange(0, 5).Draw(rt, "alias_unknown") == 0 && len(g.olds) > 0 {
		tail = append(tail, histOp{Op: "alias", Taxid: g.unknown[len(g.unknown)-1], Old: g.olds[0]}) // refused: the old id stays unknown (and unused)
		g.olds = g.olds[1:]
		g.unknown = append(g.unknown, tail[len(tail)-1].Old)
		g.classes["hist:old_id_for_unknown_taxid"] = true
	}
	at := rapid.IntRange(0, len(tail)).Draw(rt, "reindex_at")
	if at < len(tail) {
		g.classes["hist:names_before_reindex"] = true
	}
	for j, op := range tail {
		if j == at {
			g.emit(histOp{Op: "reindex"})
		}
		g.emit(op)
	}
	if at == len(tail) {
		g.emit(histOp{Op: "reindex"})
	}
	if rapid.IntRange(0, 4).Draw(rt, "reindex_twice") == 0 {
		g.emit(histOp{Op: "reindex"})
	}
	// ---- questions, the descendants of what was declared in this round first
	tr, err := g.m.tree()
	if err != nil {
		panic("history generator: " + err.Error())
	}
	qs := genQueries(rt, &tr, g.unknown, rapid.IntRange(2, 10).Draw(rt, "n_queries"))
	if !first {
		for j, id := range touched {
			if j >= len(qs) {
				break
			}
			x, _, _ := tr.Resolve(id)
			var below []int
			for y := x + 1; y < tr.N() && len(below) < 32; y++ {
				if tr.IsAncestorOrSelf(x, y) {
					below = append(below, y)
				}
			}
			if len(below) > 0 {
				qs[j].A = tr.Taxid[below[rapid.IntRange(0, len(below)-1).Draw(rt, "below")]]
				if rapid.Bool().Draw(rt, "b_is_parent") {
					qs[j].B = tr.Taxid[tr.Parent[x]]
				}
			}
		}
	}
	g.emit(histOp{Op: "ask", Queries: qs})
}

func genHistory(rt *rapid.T) (histCase, map[string]bool) {
	// three disjoint pools of distinct positive ids
	total := 40 + 4*4 + 24 + 4
	pool := make([]int, total)
	id := 0
	gaps := rapid.SliceOfN(rapid.SampledFrom([]int{1, 1, 2, 7, 100}), total, total).Draw(rt, "id_gaps")
	for i := range pool {
		id += gaps[i]
		pool[i] = id
	}
	if rapid.Bool().Draw(rt, "ids_permuted") {
		pool = rapid.Permutation(pool).Draw(rt, "id_perm")
	}
	g := &histGen{rt: rt, m: newHistModel(), ids: pool[:56], olds: pool[56:80], unknown: append([]int{0, -1}, pool[80:]...), classes: map[string]bool{}}
	rounds := rapid.IntRange(1, 4).Draw(rt, "rounds")
	for r := 0; r < rounds; r++ {
		g.round(r == 0)
	}
	g.classes[fmt.Sprintf("hist:rounds:%d", rounds)] = true
	return histCase{Ops: g.ops, Unknown: g.unknown}, g.classes
}

func TestPropHistory(t *testing.T) {
	rapid.Check(t, func(rt *rapid.T) {
		c, classes := genHistory(rt)
		for k := range classes {
			evid.Class(k, 1)
		}
		evid.Class("hist:operations", int64(len(c.Ops)))
		if err := runHistory(&c, true); err != nil {
			evid.Fail(rt, "history", c, err)
		}
	})
}
