package c14

// Dump files that say things more than once.
//
// The NCBI dump loader adds every line of nodes.dmp with replace=true: a taxid that is
// declared again (a dump to which local corrections were appended, two dumps concatenated)
// is replaced by its last declaration, and the parent links are rebuilt from the parent ids
// once the whole file is read ("parent pointers rebuilt from parent ids after loading").
// names.dmp attaches the names afterwards (the last "scientific name" line of a taxid is its
// name), merged.dmp is read last, each line resolved through Taxonomy.Taxon at that moment
// (so that a line may name, as the current id, a merged id declared on an earlier line).
//
// A dumpPlan describes such files for a ref.Tree: the tree is what the files mean (last
// declaration of every taxid), the plan adds the earlier, superseded lines and the orders.
// Everything the package asserts on a freshly built taxonomy is asserted on these as well.

import (
	"fmt"
	"os"
	"path/filepath"
	"strconv"
	"strings"
	"testing"

	"pgregory.net/rapid"

	"git.metabarcoding.org/obitools/obitools4/obitools4/pkg/obiformats/ncbitaxdump"
	"git.metabarcoding.org/obitools/obitools4/obitools4/pkg/obitax"

	"verifharness/internal/evid"
	"verifharness/internal/fatal"
	"verifharness/internal/gen"
	"verifharness/internal/ref"
	"verifharness/internal/run"
)

// staleNode is a superseded line of nodes.dmp: node Node declared with another parent
// and/or rank before its last declaration.
type staleNode struct {
	Node   int    // node index: the line declares Tree.Taxid[Node]
	Parent int    // parent *taxid* written on the line: any id (another node, the node itself, its real parent, an id nothing carries)
	Rank   string // rank written on the line
	Before int    // the line is written just before the Before-th last-declaration line (position in Order); Before <= position of Node
}

// staleName is an additional "scientific name" line of names.dmp.  With a text that differs
// from the name of the node it must precede the real line (Before <= position of Node in
// NameOrder); with the same text it may stand anywhere (Before in 0..n).
type staleName struct {
	Node   int
	Name   string
	Before int
}

type dumpPlan struct {
	Order      []int       `json:",omitempty"` // order of the last declarations in nodes.dmp (permutation of the nodes; nil: index order)
	Stale      []staleNode `json:",omitempty"`
	NameOrder  []int       `json:",omitempty"` // order of the nodes in names.dmp (nil: index order)
	StaleNames []staleName `json:",omitempty"`
	Orphans    []int       `json:",omitempty"` // ids nothing carries that names.dmp gives a name to nevertheless (ignored by the loader)
	// Merged: the lines of merged.dmp {old id, id written as the current one}; nil: one line per alias of the tree.
	// The second id is a taxid or an old id declared on an earlier line; lines may be repeated.  Replayed in
	// order they must give exactly the aliases of the tree.
	Merged      [][2]int `json:",omitempty"`
	FullColumns bool
	Synonyms    bool
	// ReplaceOnlySeen (build "apix"): AddNewTaxa is called with replace=false for the first declaration
	// of a taxid and replace=true for the following ones, instead of replace=true everywhere as the loader does.
	ReplaceOnlySeen bool `json:",omitempty"`
}

func (p *dumpPlan) key() uint64 {
	if p == nil {
		return 0
	}
	return evid.Hash(fmt.Sprint(p.Order), fmt.Sprint(p.Stale), fmt.Sprint(p.NameOrder), fmt.Sprint(p.StaleNames), fmt.Sprint(p.Merged), p.FullColumns, p.Synonyms, p.ReplaceOnlySeen)
}

type nodeLine struct {
	Taxid, Parent int
	Rank          string
}

type nameLine struct {
	Taxid       int
	Name, Class string
}

func permOrIdentity(order []int, n int, what string) ([]int, []int, error) {
	if order == nil {
		order = make([]int, n)
		for i := range order {
			order[i] = i
		}
	}
	if len(order) != n {
		return nil, nil, fmt.Errorf("%s has %d entries for %d nodes", what, len(order), n)
	}
	pos := make([]int, n)
	for i := range pos {
		pos[i] = -1
	}
	for k, i := range order {
		if i < 0 || i >= n || pos[i] >= 0 {
			return nil, nil, fmt.Errorf("%s is not a permutation of the nodes", what)
		}
		pos[i] = k
	}
	return order, pos, nil
}

// lines expands the plan into the lines of the three files, in file order, and verifies
// that they mean the tree (last declaration of every taxid / name, aliases).
func (p *dumpPlan) lines(t *ref.Tree) ([]nodeLine, []nameLine, [][2]int, error) {
	n := t.N()
	order, pos, err := permOrIdentity(p.Order, n, "Plan.Order")
	if err != nil {
		return nil, nil, nil, err
	}
	before := make([][]staleNode, n+1)
	for _, s := range p.Stale {
		if s.Node < 0 || s.Node >= n || s.Before < 0 || s.Before > pos[s.Node] {
			return nil, nil, nil, fmt.Errorf("superseded declaration %+v does not precede the last declaration of its node (position %d)", s, pos[min(max(s.Node, 0), n-1)])
		}
		before[s.Before] = append(before[s.Before], s)
	}
	var nodes []nodeLine
	for k, i := range order {
		for _, s := range before[k] {
			nodes = append(nodes, nodeLine{t.Taxid[s.Node], s.Parent, s.Rank})
		}
		nodes = append(nodes, nodeLine{t.Taxid[i], t.Taxid[t.Parent[i]], t.Rank[i]})
	}

	norder, npos, err := permOrIdentity(p.NameOrder, n, "Plan.NameOrder")
	if err != nil {
		return nil, nil, nil, err
	}
	nbefore := make([][]staleName, n+1)
	for _, s := range p.StaleNames {
		if s.Node < 0 || s.Node >= n || s.Before < 0 || s.Before > n || (s.Name != t.Name[s.Node] && s.Before > npos[s.Node]) {
			return nil, nil, nil, fmt.Errorf("additional scientific name %+v would be the last one of its taxid", s)
		}
		nbefore[s.Before] = append(nbefore[s.Before], s)
	}
	var names []nameLine
	for k := 0; k <= n; k++ {
		for _, s := range nbefore[k] {
			names = append(names, nameLine{t.Taxid[s.Node], s.Name, "scientific name"})
		}
		if k == n {
			break
		}
		i := norder[k]
		tid := t.Taxid[i]
		if p.Synonyms && i%2 == 0 {
			names = append(names, nameLine{tid, "syn " + t.Name[i], "synonym"})
		}
		names = append(names, nameLine{tid, t.Name[i], "scientific name"})
		if p.Synonyms {
			names = append(names, nameLine{tid, "common " + strconv.Itoa(tid), "genbank common name"})
			if i%3 == 0 {
				names = append(names, nameLine{tid, t.Name[i] + " auth. 1999", "authority"})
			}
		}
	}
	for k, u := range p.Orphans {
		if _, _, ok := t.Resolve(u); ok {
			return nil, nil, nil, fmt.Errorf("Plan.Orphans: %d is an id of the taxonomy", u)
		}
		l := nameLine{u, fmt.Sprintf("Orphanus nullius %d", u), "scientific name"}
		at := (k * 7) % (len(names) + 1)
		names = append(names[:at], append([]nameLine{l}, names[at:]...)...)
	}

	merged := p.Merged
	if merged == nil {
		for _, a := range t.Alias {
			merged = append(merged, [2]int{a[0], t.Taxid[a[1]]})
		}
	}
	// replay: what do the lines mean?
	got := map[int]int{}
	for _, m := range merged {
		node, via, ok := t.Resolve(m[1])
		if ok && via { // an old id: it must have been declared by an earlier line
			node, ok = got[m[1]]
		}
		if !ok {
			return nil, nil, nil, fmt.Errorf("merged line %v names an id that is not known when the line is read", m)
		}
		if _, via, isID := t.Resolve(m[0]); isID && !via {
			return nil, nil, nil, fmt.Errorf("merged line %v redefines the taxid of a node", m)
		}
		got[m[0]] = node
	}
	if len(got) != len(t.Alias) {
		return nil, nil, nil, fmt.Errorf("the merged lines define %d old ids, the tree has %d", len(got), len(t.Alias))
	}
	for _, a := range t.Alias {
		if g, ok := got[a[0]]; !ok || g != a[1] {
			return nil, nil, nil, fmt.Errorf("the merged lines resolve %d to node %d (%v), the tree to node %d", a[0], g, ok, a[1])
		}
	}
	return nodes, names, merged, nil
}

func dmp(fields ...string) string { return strings.Join(fields, "\t|\t") + "\t|\n" }

// writePlanDump writes the dump files of the plan into a fresh directory.
func writePlanDump(t *ref.Tree, p *dumpPlan) (string, error) {
	nodes, names, merged, err := p.lines(t)
	if err != nil {
		return "", err
	}
	var nb, mb, gb strings.Builder
	for _, l := range nodes {
		if p.FullColumns {
			nb.WriteString(dmp(strconv.Itoa(l.Taxid), strconv.Itoa(l.Parent), l.Rank, "", "8", "0", "1", "0", "0", "0", "0", "0", ""))
		} else {
			nb.WriteString(dmp(strconv.Itoa(l.Taxid), strconv.Itoa(l.Parent), l.Rank))
		}
	}
	for _, l := range names {
		mb.WriteString(dmp(strconv.Itoa(l.Taxid), l.Name, "", l.Class))
	}
	for _, l := range merged {
		gb.WriteString(dmp(strconv.Itoa(l[0]), strconv.Itoa(l[1])))
	}
	dir, err := os.MkdirTemp(run.WorkDir(), "taxdumpx")
	if err != nil {
		return "", err
	}
	for name, body := range map[string]string{"nodes.dmp": nb.String(), "names.dmp": mb.String(), "merged.dmp": gb.String()} {
		if err := os.WriteFile(filepath.Join(dir, name), []byte(body), 0o644); err != nil {
			os.RemoveAll(dir)
			return "", err
		}
	}
	return dir, nil
}

// writeAnyDump: the dump directory of a tree, by the plan when there is one.
func writeAnyDump(t *ref.Tree, st ref.DumpStyle, p *dumpPlan) (string, error) {
	if p != nil {
		return writePlanDump(t, p)
	}
	return writeDump(t, st)
}

func buildPlanDump(c *taxCase) (*obitax.Taxonomy, error) {
	if c.Plan == nil {
		return nil, fmt.Errorf("harness: build %q without a plan", c.Build)
	}
	dir, err := writePlanDump(&c.Tree, c.Plan)
	if err != nil {
		return nil, fmt.Errorf("harness: invalid plan: %v", err)
	}
	defer os.RemoveAll(dir)
	var tax *obitax.Taxonomy
	var lerr error
	out := fatal.Run(func() { tax, lerr = ncbitaxdump.LoadNCBITaxDump(dir, c.OnlySN) })
	what := fmt.Sprintf("dump of %d nodes with %d superseded declarations", c.Tree.N(), len(c.Plan.Stale))
	if !out.Completed {
		return nil, fmt.Errorf("LoadNCBITaxDump(%s, onlysn=%v) did not return: %v\n%s", what, c.OnlySN, out, out.Stack)
	}
	if lerr != nil || tax == nil {
		return nil, fmt.Errorf("LoadNCBITaxDump(%s, onlysn=%v): taxonomy=%v err=%v", what, c.OnlySN, tax, lerr)
	}
	return tax, nil
}

// buildPlanAPI feeds the lines of the plan to the API in the order the loader does:
// every node line (replace=true), ReindexParent, every name line, every merged line.
func buildPlanAPI(c *taxCase) (*obitax.Taxonomy, error) {
	if c.Plan == nil {
		return nil, fmt.Errorf("harness: build %q without a plan", c.Build)
	}
	nodes, names, merged, err := c.Plan.lines(&c.Tree)
	if err != nil {
		return nil, fmt.Errorf("harness: invalid plan: %v", err)
	}
	tax := obitax.NewTaxonomy()
	seen := map[int]bool{}
	for _, l := range nodes {
		replace := !c.Plan.ReplaceOnlySeen || seen[l.Taxid]
		seen[l.Taxid] = true
		node, err := tax.AddNewTaxa(l.Taxid, l.Parent, l.Rank, replace, false)
		if err != nil || node == nil || node.Taxid() != l.Taxid || node.Rank() != l.Rank {
			return nil, fmt.Errorf("AddNewTaxa(%d, parent %d, %q, replace=%v): node=%v err=%v", l.Taxid, l.Parent, l.Rank, replace, taxidOf(node), err)
		}
	}
	if err := tax.ReindexParent(); err != nil {
		return nil, fmt.Errorf("ReindexParent on a complete tree (every parent id of a last declaration is a taxon): %v", err)
	}
	for _, l := range names {
		if c.OnlySN && l.Class != "scientific name" {
			continue
		}
		name, class := l.Name, l.Class
		_, _, known := c.Tree.Resolve(l.Taxid)
		if err := tax.AddNewName(l.Taxid, &name, &class); (err == nil) != known {
			return nil, fmt.Errorf("AddNewName(%d, %q, %q): err=%v, taxid known: %v", l.Taxid, l.Name, l.Class, err, known)
		}
	}
	for _, m := range merged {
		if err := tax.AddNewAlias(m[1], m[0]); err != nil {
			return nil, fmt.Errorf("AddNewAlias(new %d, old %d): %v", m[1], m[0], err)
		}
	}
	return tax, nil
}

// ------------------------------------------------------------------ generator

var planModes = []string{"appended", "appended", "scattered", "scattered", "adjacent", "order_only"}

// genPlan draws a plan for the tree.  It may add aliases to the tree (chains of merged ids
// need two old ids of the same node); spare are ids nothing carries that it may use up for that.
func genPlan(rt *rapid.T, tr *ref.Tree, unknown []int) (*dumpPlan, string) {
	n := tr.N()
	p := &dumpPlan{FullColumns: rapid.Bool().Draw(rt, "plan_full_columns"), Synonyms: rapid.Bool().Draw(rt, "plan_synonyms")}
	mode := rapid.SampledFrom(planModes).Draw(rt, "plan_mode")
	ident := func() []int {
		o := make([]int, n)
		for i := range o {
			o[i] = i
		}
		return o
	}
	anyOrder := func(label string) []int {
		switch rapid.IntRange(0, 3).Draw(rt, label) {
		case 0:
			return nil
		case 1:
			return reversedOrder(n)
		}
		return rapid.Permutation(ident()).Draw(rt, label+"_perm")
	}
	// unknown ids usable as parents of superseded lines (positive ones only: a dump holds no negative id)
	var ghosts []int
	for _, u := range unknown {
		if u > 0 {
			ghosts = append(ghosts, u)
		}
	}

	// ---- the nodes declared more than once: internal nodes most of the time (their children are what a stale link shows on)
	var redecl []int
	if mode != "order_only" {
		k := rapid.IntRange(1, min(8, n)).Draw(rt, "plan_n_redeclared")
		for j := 0; j < k; j++ {
			i := rapid.IntRange(0, n-1).Draw(rt, "plan_redeclared")
			if rapid.IntRange(0, 2).Draw(rt, "plan_take_parent") > 0 {
				i = tr.Parent[i]
			}
			redecl = append(redecl, i) // the same node may come several times: declared three, four times
		}
	}
	isRe := make([]bool, n)
	for _, i := range redecl {
		isRe[i] = true
	}
	var pos []int
	switch mode {
	case "appended": // the original file in index order, the corrections appended at its end
		var o, tail []int
		for i := 0; i < n; i++ {
			if !isRe[i] {
				o = append(o, i)
			}
		}
		seen := map[int]bool{}
		for _, i := range redecl {
			if !seen[i] {
				seen[i] = true
				tail = append(tail, i)
			}
		}
		p.Order = append(o, tail...)
	default:
		p.Order = anyOrder("plan_order")
	}
	_, pos, _ = permOrIdentity(p.Order, n, "order")
	for _, i := range redecl {
		s := staleNode{Node: i, Rank: tr.Rank[i]}
		switch rapid.IntRange(0, 7).Draw(rt, "plan_stale_parent") {
		case 0: // only the rank changes (or nothing at all)
			s.Parent = tr.Taxid[tr.Parent[i]]
		case 1: // its own parent: a second root for a while
			s.Parent = tr.Taxid[i]
		case 2:
			if len(ghosts) > 0 {
				s.Parent = ghosts[rapid.IntRange(0, len(ghosts)-1).Draw(rt, "plan_ghost")]
			} else {
				s.Parent = tr.Taxid[0]
			}
		default: // any other taxon, descendants included (a cycle for a while)
			s.Parent = tr.Taxid[rapid.IntRange(0, n-1).Draw(rt, "plan_other_parent")]
		}
		if rapid.Bool().Draw(rt, "plan_stale_rank") {
			s.Rank = rapid.SampledFrom(queryRanks[:len(queryRanks)-2]).Draw(rt, "plan_rank")
		}
		switch mode {
		case "appended": // where the node stood in the original file: before every node of larger index that is not corrected
			for j := 0; j < i; j++ {
				if !isRe[j] {
					s.Before++
				}
			}
		case "adjacent":
			s.Before = pos[i]
		default:
			s.Before = rapid.IntRange(0, pos[i]).Draw(rt, "plan_before")
		}
		p.Stale = append(p.Stale, s)
	}

	// ---- names.dmp
	p.NameOrder = anyOrder("plan_name_order")
	_, npos, _ := permOrIdentity(p.NameOrder, n, "name order")
	for j, k := 0, rapid.IntRange(0, 3).Draw(rt, "plan_n_stale_names"); j < k; j++ {
		i := rapid.IntRange(0, n-1).Draw(rt, "plan_named_again")
		if rapid.Bool().Draw(rt, "plan_same_name") {
			p.StaleNames = append(p.StaleNames, staleName{Node: i, Name: tr.Name[i], Before: rapid.IntRange(0, n).Draw(rt, "plan_name_before")})
		} else {
			p.StaleNames = append(p.StaleNames, staleName{Node: i, Name: "Olim " + tr.Name[i] + " nom. rej.", Before: rapid.IntRange(0, npos[i]).Draw(rt, "plan_name_before")})
		}
	}
	if len(ghosts) > 0 && rapid.IntRange(0, 3).Draw(rt, "plan_orphans") == 0 {
		p.Orphans = append(p.Orphans, ghosts[0])
	}

	// ---- merged.dmp: repeated lines, chains (old id -> older old id of the same node)
	if len(tr.Alias) > 0 && rapid.Bool().Draw(rt, "plan_merged") {
		if len(tr.Alias) >= 2 && rapid.Bool().Draw(rt, "plan_same_target") {
			// two old ids of one node so that a chain can be written
			j := rapid.IntRange(1, len(tr.Alias)-1).Draw(rt, "plan_chain_alias")
			alias := append([][2]int(nil), tr.Alias...)
			alias[j][1] = alias[rapid.IntRange(0, j-1).Draw(rt, "plan_chain_to")][1]
			*tr = ref.Tree{Parent: tr.Parent, Taxid: tr.Taxid, Rank: tr.Rank, Name: tr.Name, Alias: alias} // drops the lookup tables the tree may have built
		}
		lines := make([][2]int, 0, len(tr.Alias)+2)
		for j, a := range tr.Alias {
			cur := tr.Taxid[a[1]]
			if rapid.IntRange(0, 2).Draw(rt, "plan_chain") > 0 {
				for i := j - 1; i >= 0; i-- {
					if tr.Alias[i][1] == a[1] {
						cur = tr.Alias[i][0] // written through the older old id
						break
					}
				}
			}
			lines = append(lines, [2]int{a[0], cur})
			if rapid.IntRange(0, 5).Draw(rt, "plan_merged_twice") == 0 {
				lines = append(lines, lines[rapid.IntRange(0, len(lines)-1).Draw(rt, "plan_merged_repeat")])
			}
		}
		p.Merged = lines
	}
	return p, mode
}

// planClasses labels what the plan exercises (evidence counters).
func planClasses(t *ref.Tree, p *dumpPlan) []string {
	if p == nil {
		return nil
	}
	cl := []string{}
	_, pos, _ := permOrIdentity(p.Order, t.N(), "order")
	childBetween, parentChanged, rankChanged, same, twice := false, false, false, false, false
	cnt := map[int]int{}
	for _, s := range p.Stale {
		cnt[s.Node]++
		twice = twice || cnt[s.Node] > 1
		switch {
		case s.Parent != t.Taxid[t.Parent[s.Node]]:
			parentChanged = true
		case s.Rank != t.Rank[s.Node]:
			rankChanged = true
		default:
			same = true
		}
		for c := 1; c < t.N(); c++ {
			if t.Parent[c] == s.Node && c != s.Node && pos[c] >= s.Before && pos[c] < pos[s.Node] {
				childBetween = true
			}
		}
	}
	for k, b := range map[string]bool{"plan:child_between_two_declarations": childBetween, "plan:redeclared_other_parent": parentChanged,
		"plan:redeclared_other_rank": rankChanged, "plan:redeclared_identical": same, "plan:declared_three_times_or_more": twice,
		"plan:names_in_other_order": p.NameOrder != nil, "plan:scientific_name_given_twice": len(p.StaleNames) > 0, "plan:merged_lines_explicit": p.Merged != nil} {
		if b {
			cl = append(cl, k)
		}
	}
	for _, m := range p.Merged {
		if _, via, ok := t.Resolve(m[1]); ok && via {
			cl = append(cl, "plan:merged_chain")
			break
		}
	}
	return cl
}

// ------------------------------------------------------------------ random tier

func genRedeclCase(rt *rapid.T, maxN, nq int) (taxCase, gen.TreeInfo, string) {
	n := gen.Len(rt, "n", 1, maxN, 2, 3, 4, 8, 30, 31, 100, 1000)
	shape := rapid.SampledFrom(gen.TreeShapes).Draw(rt, "shape")
	nAlias := rapid.IntRange(0, min(12, n/3+2)).Draw(rt, "n_alias")
	tr, info := gen.Tree(rt, "tree", n, shape, nAlias, 3)
	c := taxCase{Tree: tr, Mode: "queries", Unknown: info.Unknown}
	plan, mode := genPlan(rt, &c.Tree, info.Unknown)
	c.Plan = plan
	if rapid.Bool().Draw(rt, "through_files") {
		c.Build = "dumpx"
		c.OnlySN = rapid.Bool().Draw(rt, "onlysn")
	} else {
		c.Build = "apix"
		plan.ReplaceOnlySeen = rapid.Bool().Draw(rt, "replace_only_seen")
	}
	c.Queries = genQueries(rt, &c.Tree, info.Unknown, nq)
	// the descendants of the taxa declared twice are where a superseded declaration would show: ask about them
	for j, s := range plan.Stale {
		if j >= 4 || len(c.Queries) == 0 {
			break
		}
		var below []int
		for x := s.Node + 1; x < n && len(below) < 64; x++ {
			if c.Tree.IsAncestorOrSelf(s.Node, x) {
				below = append(below, x)
			}
		}
		if len(below) > 0 {
			q := &c.Queries[j%len(c.Queries)]
			q.A = c.Tree.Taxid[below[rapid.IntRange(0, len(below)-1).Draw(rt, "below")]]
			if rapid.Bool().Draw(rt, "b_is_real_parent") {
				q.B = c.Tree.Taxid[c.Tree.Parent[s.Node]]
			}
		}
	}
	return c, info, mode
}

func TestPropRedeclared(t *testing.T) {
	rapid.Check(t, func(rt *rapid.T) {
		maxN, nq := 40, 12
		if rapid.IntRange(0, 9).Draw(rt, "big") == 0 {
			maxN, nq = 2000, 80
		}
		c, info, mode := genRedeclCase(rt, maxN, nq)
		evid.Class("tree:shape:"+info.Shape, 1)
		evid.Class("tree:build:"+c.Build, 1)
		evid.Class("tree:"+sizeClass(c.Tree.N()), 1)
		evid.Class("plan:mode:"+mode, 1)
		for _, k := range planClasses(&c.Tree, c.Plan) {
			evid.Class(k, 1)
		}
		if err := runTax(&c, true); err != nil {
			evid.Fail(rt, "taxonomy", c, err)
		}
	})
}

// ------------------------------------------------------------------ exhaustive tier

// TestExhaustiveRedeclared: every recursive tree up to 4 (thorough: 5) nodes x every node
// declared twice x every parent written on the superseded line (every node, itself included)
// x every order of the last declarations x every position of the superseded line before the
// last one; every pair and triple of ids is then asked (mode "triples").
func TestExhaustiveRedeclared(t *testing.T) {
	maxN := evid.Pick(4, 5)
	shard, nsh := evid.Shard(), evid.NShards()
	job := 0
	for n := 2; n <= maxN; n++ {
		perms := permutations(n)
		ref.RecursiveTrees(n, func(idx int, parent []int) {
			tr := plainTree(parent, idx%3)
			for x := 0; x < n; x++ {
				for sp := 0; sp < n; sp++ {
					for pi, perm := range perms {
						if (n == 4 && !evid.Thorough() && (pi+idx+x+sp)%4 != 0) || (n == 5 && (pi+idx+x+sp)%20 != 0) { // quick, n=4: one order in four; n=5: one in twenty
							continue
						}
						px := 0
						for k, i := range perm {
							if i == x {
								px = k
							}
						}
						for before := 0; before <= px; before++ {
							job++
							if job%nsh != shard {
								continue
							}
							rank := tr.Rank[x]
							if (job/nsh)%2 == 0 {
								rank = "species"
							}
							c := taxCase{Tree: tr, Mode: "triples", Unknown: exhaustiveUnknown[:2], Build: "apix",
								Plan: &dumpPlan{Order: append([]int(nil), perm...), Stale: []staleNode{{Node: x, Parent: tr.Taxid[sp], Rank: rank, Before: before}}}}
							if (job/nsh)%8 == 3 {
								c.Build, c.OnlySN = "dumpx", true
							}
							evid.Class(fmt.Sprintf("exhaustive_redeclared:n=%d", n), 1)
							for _, k := range planClasses(&c.Tree, c.Plan) {
								evid.Class(k, 1)
							}
							if err := runTax(&c, true); err != nil {
								evid.Fail(t, "taxonomy", c, err)
							}
						}
					}
				}
			}
		})
	}
	sub := " (n=4: one order in four)"
	if maxN >= 5 {
		sub = " (n=5: one order in twenty)"
	}
	evid.Exhaustive(fmt.Sprintf("every recursive tree with 2<=n<=%d nodes x every node declared twice x every parent id on the superseded declaration (every node, itself included; rank kept or changed) x every order of the last declarations%s x every position of the superseded line before the last declaration; built by AddNewTaxa(replace=true)/ReindexParent/AddNewName/AddNewAlias as the loader does, one case in eight through LoadNCBITaxDump; every pair over nodes, merged ids and 2 unknown ids x every third id", maxN, sub))
}

func permutations(n int) [][]int {
	var out [][]int
	p := make([]int, n)
	used := make([]bool, n)
	var rec func(k int)
	rec = func(k int) {
		if k == n {
			out = append(out, append([]int(nil), p...))
			return
		}
		for v := 0; v < n; v++ {
			if !used[v] {
				used[v] = true
				p[k] = v
				rec(k + 1)
				used[v] = false
			}
		}
	}
	rec(0)
	return out
}
