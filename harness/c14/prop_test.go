package c14

import (
	"fmt"
	"testing"

	"pgregory.net/rapid"

	"verifharness/internal/evid"
	"verifharness/internal/gen"
	"verifharness/internal/ref"
)

// ------------------------------------------------------------------ model self test

// TestModelSelf cross-checks the oracle against the definition: on every recursive
// tree up to 6 nodes, LCA by depth lifting equals the deepest common
// ancestor-or-self found by brute force, and the enumeration yields (n-1)! trees.
func TestModelSelf(t *testing.T) {
	fact := 1
	for n := 1; n <= 6; n++ {
		if n > 1 {
			fact *= n - 1
		}
		cnt := ref.RecursiveTrees(n, func(_ int, parent []int) {
			tr := plainTree(parent, 0)
			if err := tr.Validate(); err != nil {
				t.Fatalf("enumerated tree %v invalid: %v", parent, err)
			}
			for a := 0; a < n; a++ {
				if p := tr.PathToRoot(a); p[0] != a || p[len(p)-1] != 0 || len(p) != tr.Depth(a)+1 {
					t.Fatalf("model path of %d in %v = %v", a, parent, p)
				}
				for b := 0; b < n; b++ {
					if l, w := tr.LCA(a, b), tr.LCABrute(a, b); l != w {
						t.Fatalf("model LCA(%d,%d) in %v = %d, definition gives %d", a, b, parent, l, w)
					}
				}
			}
		})
		if cnt != fact {
			t.Fatalf("%d recursive trees of %d nodes enumerated, expected %d", cnt, n, fact)
		}
	}
	evid.Class("model_self_test", 1)
}

// ------------------------------------------------------------------ exhaustive tier

var exhaustiveUnknown = []int{0, -1, 99, 1000}

// plainTree dresses a parent array: taxids by numbering scheme, ranks by depth
// (root and every third level unranked), one alias per node (100+i), names.
func plainTree(parent []int, scheme int) ref.Tree {
	n := len(parent)
	tr := ref.Tree{Parent: append([]int(nil), parent...), Taxid: make([]int, n), Rank: make([]string, n), Name: make([]string, n)}
	depth := make([]int, n)
	for i := 0; i < n; i++ {
		switch scheme {
		case 0:
			tr.Taxid[i] = i + 1
		case 1: // children have smaller ids than their parents, the root the largest
			tr.Taxid[i] = n - i
		default: // root 50, scattered ids not in index order
			tr.Taxid[i] = 50 + (i*5)%11*3
		}
		if i > 0 {
			depth[i] = depth[parent[i]] + 1
		}
		if depth[i]%3 == 0 {
			tr.Rank[i] = gen.NoRank
		} else {
			tr.Rank[i] = gen.RankLadder[(4+depth[i])%len(gen.RankLadder)]
		}
		tr.Name[i] = fmt.Sprintf("Taxon %d (node %d)", tr.Taxid[i], i)
		tr.Alias = append(tr.Alias, [2]int{100 + i, i})
	}
	return tr
}

func reversedOrder(n int) []int {
	o := make([]int, n)
	for i := range o {
		o[i] = n - 1 - i
	}
	return o
}

func TestExhaustiveTrees(t *testing.T) {
	maxN := evid.Pick(5, 7)
	shard, nsh := evid.Shard(), evid.NShards()
	job := 0
	mine := func() bool { job++; return job%nsh == shard }
	rankLabels := []string{gen.NoRank, "genus", "species"}
	for n := 1; n <= maxN; n++ {
		ref.RecursiveTrees(n, func(idx int, parent []int) {
			// ---- tree queries: every triple of ids, three numbering schemes, three ways of building
			for scheme := 0; scheme < 3; scheme++ {
				if !mine() {
					continue
				}
				tr := plainTree(parent, scheme)
				for b := 0; b < 3; b++ {
					c := taxCase{Tree: tr, Mode: "triples", Unknown: exhaustiveUnknown}
					switch b {
					case 0:
						c.Build = "api"
						if idx%2 == 1 {
							c.Dump.Order = reversedOrder(n) // children inserted before their parents
						}
					case 1:
						c.Build, c.OnlySN, c.Dump.FullColumns = "dump", true, true
					case 2:
						c.Build, c.Dump.Synonyms = "dump", true
						c.Dump.Order = reversedOrder(n)
					}
					evid.Class(fmt.Sprintf("exhaustive:n=%d", n), 1)
					if err := runTax(&c, true); err != nil {
						evid.Fail(t, "taxonomy", c, err)
					}
				}
			}
			// ---- rank queries: every labelling of the nodes x every id x every label
			nl := 3
			if n == 7 {
				nl = 2
			}
			total := 1
			for i := 0; i < n; i++ {
				total *= nl
			}
			for lab := 0; lab < total; lab++ {
				if !mine() {
					continue
				}
				tr := plainTree(parent, (idx+lab)%3)
				for i, v := 0, lab; i < n; i, v = i+1, v/nl {
					tr.Rank[i] = rankLabels[v%nl]
				}
				c := taxCase{Tree: tr, Build: "api", Mode: "ranks", Unknown: exhaustiveUnknown[:2],
					Labels: []string{gen.NoRank, "genus", "species", "verif-unused-rank"}}
				if err := runTax(&c, true); err != nil {
					evid.Fail(t, "taxonomy", c, err)
				}
				if n <= 5 || lab%16 == idx%16 {
					c.Build, c.OnlySN, c.Dump.FullColumns = "dump", lab%2 == 0, lab%3 != 0
					if err := runTax(&c, true); err != nil {
						evid.Fail(t, "taxonomy", c, err)
					}
				}
			}
		})
	}
	evid.Exhaustive(fmt.Sprintf("every recursive tree (parent[i]<i) with n<=%d nodes, in 3 taxid numberings, built through the API and through LoadNCBITaxDump (2 file layouts): every pair over nodes, one merged id per node and 4 unknown ids x every third id over nodes and merged ids (Taxon, Path, LCA laws, IsSubCladeOf, IsBelongingSubclades, sequence predicates, Taxonomy.LCA of merged taxids at threshold 1.0)", maxN))
	labellings := "{no rank, genus, species}"
	if maxN >= 7 {
		labellings = "{no rank, genus, species} for n<=6 and {no rank, genus} for n=7"
	}
	evid.Exhaustive(fmt.Sprintf("API-built: every recursive tree with n<=%d nodes x every labelling of its nodes over %s x every node, merged id and 2 unknown ids x labels {no rank, genus, species, unused} (TaxonAtRank, HasRankDefined, HasRequiredRank, SetTaxonAtRank); dump-built: the same for n<=5", maxN, labellings))
}

// ------------------------------------------------------------------ random tiers

var queryRanks = append(append([]string{gen.NoRank, gen.NoRank}, gen.RankLadder...), "verif-unused-rank", "")

// genID draws a raw taxid: mostly nodes (root, leaves and deep nodes included by
// the boundary bias of rapid's integers), sometimes a merged id, sometimes an id
// that belongs to nothing.
func genID(rt *rapid.T, label string, tr *ref.Tree, unknown []int) int {
	k := rapid.IntRange(0, 9).Draw(rt, label+"_kind")
	switch {
	case k == 0 && len(unknown) > 0:
		return unknown[rapid.IntRange(0, len(unknown)-1).Draw(rt, label+"_unknown")]
	case k <= 2 && len(tr.Alias) > 0:
		return tr.Alias[rapid.IntRange(0, len(tr.Alias)-1).Draw(rt, label+"_alias")][0]
	case k == 3:
		return tr.Taxid[0]
	}
	return tr.Taxid[rapid.IntRange(0, tr.N()-1).Draw(rt, label+"_node")]
}

func genQueries(rt *rapid.T, tr *ref.Tree, unknown []int, nq int) []query {
	qs := make([]query, nq)
	for i := range qs {
		q := &qs[i]
		q.A = genID(rt, "a", tr, unknown)
		q.B = genID(rt, "b", tr, unknown)
		// related pairs are rare among random pairs of a big tree: half of the time
		// take B on the path of A (an ancestor), or make C a node close to A
		if ia, _, ok := tr.Resolve(q.A); ok && rapid.IntRange(0, 3).Draw(rt, "related") == 0 {
			p := tr.PathToRoot(ia)
			q.B = tr.Taxid[p[rapid.IntRange(0, len(p)-1).Draw(rt, "ancestor")]]
			if rapid.Bool().Draw(rt, "swap") {
				q.A, q.B = q.B, q.A
			}
		}
		// cousins: of a few candidates keep the one whose LCA with A is deepest (LCA strictly between root and both)
		if ia, _, ok := tr.Resolve(q.A); ok && rapid.IntRange(0, 3).Draw(rt, "cousin") == 0 {
			best, bestDepth := -1, -1
			for _, cand := range rapid.SliceOfN(rapid.IntRange(0, tr.N()-1), 4, 4).Draw(rt, "cousin_candidates") {
				if cand != ia && !tr.IsAncestorOrSelf(cand, ia) && !tr.IsAncestorOrSelf(ia, cand) && tr.Depth(tr.LCA(ia, cand)) > bestDepth {
					best, bestDepth = cand, tr.Depth(tr.LCA(ia, cand))
				}
			}
			if best >= 0 {
				q.B = tr.Taxid[best]
			}
		}
		q.C = genID(rt, "c", tr, nil)
		q.Rank = rapid.SampledFrom(queryRanks).Draw(rt, "rank")
		ns := rapid.IntRange(0, 3).Draw(rt, "nset")
		for j := 0; j < ns; j++ {
			q.Set = append(q.Set, genID(rt, "set", tr, nil))
		}
		q.W = [3]int{rapid.IntRange(1, 5).Draw(rt, "w0"), rapid.IntRange(1, 5).Draw(rt, "w1"), rapid.IntRange(1, 5).Draw(rt, "w2")}
	}
	return qs
}

func genBuild(rt *rapid.T, c *taxCase) {
	n := c.Tree.N()
	switch rapid.IntRange(0, 3).Draw(rt, "build") {
	case 0, 1:
		c.Build = "api"
	default:
		c.Build = "dump"
		c.OnlySN = rapid.Bool().Draw(rt, "onlysn")
		c.Dump.FullColumns = rapid.Bool().Draw(rt, "full_columns")
	}
	c.Dump.Synonyms = rapid.Bool().Draw(rt, "synonyms")
	switch rapid.IntRange(0, 2).Draw(rt, "order") {
	case 1:
		c.Dump.Order = reversedOrder(n)
	case 2:
		o := make([]int, n)
		for i := range o {
			o[i] = i
		}
		c.Dump.Order = rapid.Permutation(o).Draw(rt, "order_perm")
	}
}

func sizeClass(n int) string {
	switch {
	case n <= 1:
		return "n:1"
	case n <= 7:
		return "n:2-7"
	case n <= 30:
		return "n:8-30"
	case n <= 300:
		return "n:31-300"
	}
	return "n:301-3000"
}

func genTaxCase(rt *rapid.T, maxN, nq int) (taxCase, gen.TreeInfo) {
	n := gen.Len(rt, "n", 1, maxN, 2, 3, 30, 31, 100, 1000)
	shape := rapid.SampledFrom(gen.TreeShapes).Draw(rt, "shape")
	nAlias := rapid.IntRange(0, min(40, n/3+2)).Draw(rt, "n_alias")
	tr, info := gen.Tree(rt, "tree", n, shape, nAlias, 3)
	c := taxCase{Tree: tr, Mode: "queries", Unknown: info.Unknown}
	genBuild(rt, &c)
	c.Queries = genQueries(rt, &c.Tree, info.Unknown, nq)
	return c, info
}

func runRandom(rt *rapid.T, maxN, nq int) {
	c, info := genTaxCase(rt, maxN, nq)
	build := c.Build
	if build == "dump" {
		build = fmt.Sprintf("dump(full_columns=%v,onlysn=%v)", c.Dump.FullColumns, c.OnlySN)
	}
	evid.Class("tree:shape:"+info.Shape, 1)
	evid.Class("tree:rank_mode:"+info.RankMode, 1)
	evid.Class("tree:taxid_mode:"+info.TaxidMode, 1)
	evid.Class("tree:build:"+build, 1)
	evid.Class("tree:"+sizeClass(c.Tree.N()), 1)
	if len(c.Tree.Alias) > 0 {
		evid.Class("tree:with_aliases", 1)
	}
	if err := runTax(&c, true); err != nil {
		evid.Fail(rt, "taxonomy", c, err)
	}
}

func TestPropRandomTrees(t *testing.T) {
	rapid.Check(t, func(rt *rapid.T) { runRandom(rt, 3000, 200) })
}

func TestPropSmallTrees(t *testing.T) {
	rapid.Check(t, func(rt *rapid.T) { runRandom(rt, 12, 6) })
}
