package c14

import (
	"encoding/json"
	"fmt"
	"os"
	"path/filepath"
	"strconv"
	"strings"
	"testing"

	"pgregory.net/rapid"

	"verifharness/internal/evid"
	"verifharness/internal/gen"
	"verifharness/internal/ref"
	"verifharness/internal/run"
)

// ------------------------------------------------------------------ the case

type seqSpec struct {
	ID      string
	Taxid   int      // node, merged id or unknown id
	Merged  [][2]int `json:",omitempty"` // merged_taxid entries {taxid, weight>=1}; all resolvable
	RefKind int      // 0: no ref_taxon slot, 1: integer, 2: decimal string
	Ref     int
}

// grepRun is one obigrep invocation.  Invalid marks a run whose single option
// names an id / label that is not in the taxonomy.
type grepRun struct {
	Restrict []string `json:",omitempty"` // -r: taxids (decimal) or the slot name ref_taxon
	Ignore   []int    `json:",omitempty"` // -i
	Require  []string `json:",omitempty"` // --require-rank
	Invalid  bool     `json:",omitempty"`
}

type cliCase struct {
	Tree    ref.Tree
	Dump    ref.DumpStyle
	Seqs    []seqSpec
	Greps   []grepRun
	AtRanks []string `json:",omitempty"` // one obiannotate --with-taxon-at-rank run (empty: none)
	LCASlot string   // one obiannotate --add-lca-in run ("": none)
	MaxCPU  int      // 0: default
	// Plan: the dump files declare taxids several times / in any order (plan_test.go); nil: the plain dump of Dump.
	Plan *dumpPlan `json:",omitempty"`
	// Lineage: one obiannotate --taxonomic-path --taxonomic-rank --scientific-name run on the records whose taxid is in the taxonomy.
	Lineage bool `json:",omitempty"`
	// RefIdx: one obirefidx run on the records, all given the same nucleotides: the index of every record then
	// holds one entry, for 0 differences, the LCA of the taxa of all the records.
	RefIdx bool `json:",omitempty"`
}

func init() { evid.Reg("cli", checkCLI) }

func fastaOf(seqs []seqSpec, forLCA bool, t *ref.Tree) string {
	var b strings.Builder
	for _, s := range seqs {
		if forLCA && len(s.Merged) == 0 {
			if _, _, ok := t.Resolve(s.Taxid); !ok {
				continue
			}
		}
		fmt.Fprintf(&b, ">%s {\"taxid\":%d", s.ID, s.Taxid)
		if len(s.Merged) > 0 {
			b.WriteString(",\"merged_taxid\":{")
			for i, m := range s.Merged {
				if i > 0 {
					b.WriteByte(',')
				}
				fmt.Fprintf(&b, "\"%d\":%d", m[0], m[1])
			}
			b.WriteByte('}')
		}
		switch s.RefKind {
		case 1:
			fmt.Fprintf(&b, ",\"ref_taxon\":%d", s.Ref)
		case 2:
			fmt.Fprintf(&b, ",\"ref_taxon\":\"%d\"", s.Ref)
		}
		b.WriteString("}\n")
		b.WriteString(seqOf(s.ID))
		b.WriteByte('\n')
	}
	return b.String()
}

// seqOf gives every record its own nucleotides so that a record attached to the wrong title is seen.
func seqOf(id string) string {
	h := evid.Hash(id)
	b := make([]byte, 12)
	for i := range b {
		b[i] = "acgt"[h&3]
		h >>= 2
	}
	return string(b)
}

type outRec struct {
	Seq   string
	Attrs map[string]any
}

func parseOut(data []byte) (map[string]outRec, error) {
	recs, err := ref.ParseFasta(data)
	if err != nil {
		return nil, err
	}
	out := map[string]outRec{}
	for _, r := range recs {
		if _, dup := out[r.ID]; dup {
			return nil, fmt.Errorf("record %s written twice", r.ID)
		}
		attrs := map[string]any{}
		if js, _, ok := ref.SplitJSONTitle(r.Title); ok {
			d := json.NewDecoder(strings.NewReader(js))
			d.UseNumber()
			if err := d.Decode(&attrs); err != nil {
				return nil, fmt.Errorf("record %s: annotations %q are not JSON: %v", r.ID, js, err)
			}
		}
		out[r.ID] = outRec{Seq: strings.ToLower(r.Seq), Attrs: attrs}
	}
	return out, nil
}

func numIs(v any, want int) bool {
	n, ok := v.(json.Number)
	if !ok {
		return false
	}
	f, err := n.Float64()
	return err == nil && f == float64(want)
}

// short keeps what matters of a command's output: logrus info lines are dropped so
// that the cause of a crash (first lines of a panic / fatal) is not cut away.
func short(b []byte) string {
	var keep []string
	for _, l := range strings.Split(string(b), "\n") {
		if !strings.Contains(l, "level=info") {
			keep = append(keep, l)
		}
	}
	s := strings.Join(keep, "\n")
	if len(s) > 3000 {
		s = s[:2200] + "\n…\n" + s[len(s)-700:]
	}
	return s
}

// exhausted recognises a process that died because the machine refused it a
// thread or memory (the sandbox is shared): that says nothing about the tree.
func exhausted(stderr []byte) bool {
	s := string(stderr)
	for _, sig := range []string{"failed to create new OS thread", "out of memory", "cannot allocate memory", "Resource temporarily unavailable", "resource temporarily unavailable", "pthread_create failed"} {
		if strings.Contains(s, sig) {
			return true
		}
	}
	return false
}

// runCmd runs one command; ok=false means the run is inconclusive (kill timer or resource exhaustion).
func runCmd(name string, args []string) (run.Result, bool) {
	res := run.Cmd(run.Opt{}, name, args...)
	if res.TimedOut {
		evid.Class("timeout_inconclusive", 1)
		return res, false
	}
	if res.Exit != 0 && exhausted(res.Stderr) {
		evid.Class("resource_exhaustion_inconclusive", 1)
		return res, false
	}
	return res, true
}

func describe(args []string) string { return strings.Join(args, " ") }

// sameRecord checks that a record was passed through untouched (sequence and taxid).
func sameRecord(s seqSpec, r outRec) error {
	if r.Seq != seqOf(s.ID) {
		return fmt.Errorf("record %s carries sequence %q, the input had %q", s.ID, r.Seq, seqOf(s.ID))
	}
	if !numIs(r.Attrs["taxid"], s.Taxid) {
		return fmt.Errorf("record %s carries taxid %v, the input had %d", s.ID, r.Attrs["taxid"], s.Taxid)
	}
	return nil
}

func checkCLI(c cliCase) error {
	t := &c.Tree
	if err := t.Validate(); err != nil {
		return fmt.Errorf("harness: invalid case: %v", err)
	}
	dir, err := writeAnyDump(t, c.Dump, c.Plan)
	if err != nil {
		return fmt.Errorf("harness: %v", err)
	}
	defer os.RemoveAll(dir)
	if c.Lineage || c.RefIdx {
		if err := checkLineageAndRefIdx(&c, dir); err != nil {
			return err
		}
	}
	in := filepath.Join(dir, "in.fasta")
	inLCA := filepath.Join(dir, "lca.fasta")
	if err := os.WriteFile(in, []byte(fastaOf(c.Seqs, false, t)), 0o644); err != nil {
		return fmt.Errorf("harness: %v", err)
	}
	if err := os.WriteFile(inLCA, []byte(fastaOf(c.Seqs, true, t)), 0o644); err != nil {
		return fmt.Errorf("harness: %v", err)
	}
	common := []string{"-t", dir, "--no-progressbar"}
	if c.MaxCPU > 0 {
		common = append(common, "--max-cpu", strconv.Itoa(c.MaxCPU))
	}
	used := map[string]bool{}
	for _, r := range t.Rank {
		used[r] = true
	}

	// ---------------- obigrep
	for _, g := range c.Greps {
		args := append([]string(nil), common...)
		for _, r := range g.Restrict {
			args = append(args, "-r", r)
		}
		for _, i := range g.Ignore {
			args = append(args, "-i", strconv.Itoa(i))
		}
		for _, r := range g.Require {
			args = append(args, "--require-rank", r)
		}
		args = append(args, in)
		res, conclusive := runCmd("obigrep", args)
		if !conclusive {
			continue
		}
		cmd := "obigrep " + describe(args[2:len(args)-1])
		if g.Invalid {
			if res.Exit != 0 {
				evid.Class("cli:invalid_argument_reported", 1)
				continue
			}
			got, err := parseOut(res.Stdout)
			if err != nil {
				return fmt.Errorf("%s: output unreadable: %v", cmd, err)
			}
			if len(g.Ignore) > 0 { // ignoring a taxon that does not exist removes nothing
				if len(got) != len(c.Seqs) {
					return fmt.Errorf("%s (taxid not in the taxonomy) exits 0 and writes %d of %d records", cmd, len(got), len(c.Seqs))
				}
			} else if len(got) != 0 {
				return fmt.Errorf("%s (argument not in the taxonomy) exits 0 and selects %d records", cmd, len(got))
			}
			continue
		}
		if res.Exit != 0 {
			return fmt.Errorf("%s exits %d on a well-formed dump and input\nstderr: %s", cmd, res.Exit, short(res.Stderr))
		}
		got, err := parseOut(res.Stdout)
		if err != nil {
			return fmt.Errorf("%s: output unreadable: %v\n%s", cmd, err, short(res.Stdout))
		}
		nsel := 0
		for _, s := range c.Seqs {
			keep, why := grepModel(t, g, s)
			r, has := got[s.ID]
			if keep != has {
				return fmt.Errorf("%s: record %s (taxid %d%s) %s; by the tree it %s: %s", cmd, s.ID, s.Taxid, refStr(s),
					map[bool]string{true: "was written", false: "was not written"}[has], map[bool]string{true: "must be selected", false: "must be rejected"}[keep], why)
			}
			if has {
				nsel++
				if err := sameRecord(s, r); err != nil {
					return fmt.Errorf("%s: %v", cmd, err)
				}
			}
		}
		if len(got) != nsel {
			return fmt.Errorf("%s wrote %d records, %d of them are not input records", cmd, len(got), len(got)-nsel)
		}
	}

	// ---------------- obiannotate --with-taxon-at-rank
	if len(c.AtRanks) > 0 {
		args := append([]string(nil), common...)
		for _, r := range c.AtRanks {
			args = append(args, "--with-taxon-at-rank", r)
		}
		args = append(args, in)
		res, conclusive := runCmd("obiannotate", args)
		cmd := "obiannotate " + describe(args[2:len(args)-1])
		if conclusive {
			if res.Exit != 0 {
				return fmt.Errorf("%s exits %d on a well-formed dump and input\nstderr: %s", cmd, res.Exit, short(res.Stderr))
			}
			got, err := parseOut(res.Stdout)
			if err != nil {
				return fmt.Errorf("%s: output unreadable: %v\n%s", cmd, err, short(res.Stdout))
			}
			if len(got) != len(c.Seqs) {
				return fmt.Errorf("%s wrote %d records for %d input records", cmd, len(got), len(c.Seqs))
			}
			for _, s := range c.Seqs {
				r, has := got[s.ID]
				if !has {
					return fmt.Errorf("%s: record %s is missing from the output", cmd, s.ID)
				}
				if err := sameRecord(s, r); err != nil {
					return fmt.Errorf("%s: %v", cmd, err)
				}
				ia, _, ok := t.Resolve(s.Taxid)
				for _, rank := range c.AtRanks {
					vt, ht := r.Attrs[rank+"_taxid"]
					vn, hn := r.Attrs[rank+"_name"]
					switch {
					case !ok:
						if ht || hn {
							return fmt.Errorf("%s: record %s has taxid %d which is not in the taxonomy, yet it got %s_taxid=%v %s_name=%v", cmd, s.ID, s.Taxid, rank, vt, rank, vn)
						}
					default:
						w := t.AtRank(ia, rank)
						wt, wn := -1, "NA"
						if w >= 0 {
							wt, wn = t.Taxid[w], t.Name[w]
						}
						if !numIs(vt, wt) || vn != any(wn) {
							return fmt.Errorf("%s: record %s (taxid %d) got %s_taxid=%v %s_name=%v; first ancestor-or-self with that rank in the tree: taxid %d name %q", cmd, s.ID, s.Taxid, rank, vt, rank, vn, wt, wn)
						}
					}
				}
			}
		}
	}

	// ---------------- obiannotate --add-lca-in
	if c.LCASlot != "" {
		args := append(append([]string(nil), common...), "--add-lca-in", c.LCASlot, inLCA)
		res, conclusive := runCmd("obiannotate", args)
		cmd := "obiannotate " + describe(args[2:len(args)-1])
		if !conclusive {
			return nil
		}
		if res.Exit != 0 {
			return fmt.Errorf("%s exits %d on a well-formed dump and input whose taxids are all in the taxonomy\nstderr: %s", cmd, res.Exit, short(res.Stderr))
		}
		got, err := parseOut(res.Stdout)
		if err != nil {
			return fmt.Errorf("%s: output unreadable: %v\n%s", cmd, err, short(res.Stdout))
		}
		base := strings.TrimSuffix(c.LCASlot, "_taxid")
		nin := 0
		for _, s := range c.Seqs {
			nodes, ok := lcaNodes(t, s)
			if !ok {
				continue
			}
			nin++
			r, has := got[s.ID]
			if !has {
				return fmt.Errorf("%s: record %s is missing from the output", cmd, s.ID)
			}
			if err := sameRecord(s, r); err != nil {
				return fmt.Errorf("%s: %v", cmd, err)
			}
			w := t.LCAOfSet(nodes)
			v, hv := r.Attrs[c.LCASlot]
			if !hv {
				v, hv = r.Attrs[base+"_taxid"]
			}
			if !hv || !numIs(v, t.Taxid[w]) {
				return fmt.Errorf("%s: record %s (taxid %d, merged_taxid %v) got LCA taxid %v (slots %q / %q); deepest common ancestor-or-self in the tree: taxid %d (%q)", cmd, s.ID, s.Taxid, s.Merged, v, c.LCASlot, base+"_taxid", t.Taxid[w], t.Name[w])
			}
			if vn, h := r.Attrs[base+"_name"]; h && vn != any(t.Name[w]) {
				return fmt.Errorf("%s: record %s got %s_name=%v; the LCA (taxid %d) is named %q", cmd, s.ID, base, vn, t.Taxid[w], t.Name[w])
			}
			if ve, h := r.Attrs[base+"_error"]; h && !numIs(ve, 0) {
				return fmt.Errorf("%s: record %s got %s_error=%v with zero error tolerance", cmd, s.ID, base, ve)
			}
		}
		if len(got) != nin {
			return fmt.Errorf("%s wrote %d records for %d input records", cmd, len(got), nin)
		}
	}
	return nil
}

func refStr(s seqSpec) string {
	switch s.RefKind {
	case 1:
		return fmt.Sprintf(", ref_taxon=%d", s.Ref)
	case 2:
		return fmt.Sprintf(", ref_taxon=\"%d\"", s.Ref)
	}
	return ""
}

// lcaNodes: the nodes whose LCA --add-lca-in must report for s (ok=false: record not in the LCA input).
func lcaNodes(t *ref.Tree, s seqSpec) ([]int, bool) {
	if len(s.Merged) == 0 {
		ia, _, ok := t.Resolve(s.Taxid)
		return []int{ia}, ok
	}
	var nodes []int
	for _, m := range s.Merged {
		n, _, _ := t.Resolve(m[0])
		nodes = append(nodes, n)
	}
	return nodes, true
}

// grepModel: what the tree implies for one record under one valid obigrep run:
// every required rank is defined, and it belongs to one of the restrict clades (if any), and to none of the ignored ones.
func grepModel(t *ref.Tree, g grepRun, s seqSpec) (bool, string) {
	ia, _, ok := t.Resolve(s.Taxid)
	for _, r := range g.Require {
		if !ok || t.AtRank(ia, r) < 0 {
			return false, fmt.Sprintf("no ancestor-or-self of rank %q (taxid known: %v)", r, ok)
		}
	}
	if len(g.Restrict) > 0 {
		in := false
		for _, r := range g.Restrict {
			var clade int
			var okc bool
			if id, err := strconv.Atoi(r); err == nil {
				clade, _, okc = t.Resolve(id)
			} else if s.RefKind != 0 { // slot name
				clade, _, okc = t.Resolve(s.Ref)
			}
			if ok && okc && t.IsAncestorOrSelf(clade, ia) {
				in = true
			}
		}
		if !in {
			return false, fmt.Sprintf("in none of the clades %v (taxid known: %v)", g.Restrict, ok)
		}
	}
	for _, i := range g.Ignore {
		if clade, _, okc := t.Resolve(i); ok && okc && t.IsAncestorOrSelf(clade, ia) {
			return false, fmt.Sprintf("inside the ignored clade %d", i)
		}
	}
	return true, "passes every criterion"
}

// ------------------------------------------------------------------ generator

// cladeArg draws a taxid to be used as a clade: an ancestor-or-self of the taxon
// of some record most of the time (so that the filter selects something but not
// everything), given through a merged id now and then.
func cladeArg(rt *rapid.T, t *ref.Tree, seqs []seqSpec) int {
	if rapid.IntRange(0, 4).Draw(rt, "clade_of_record") > 0 {
		s := seqs[rapid.IntRange(0, len(seqs)-1).Draw(rt, "clade_record")]
		if ia, _, ok := t.Resolve(s.Taxid); ok {
			p := t.PathToRoot(ia)
			n := p[rapid.IntRange(0, len(p)-1).Draw(rt, "clade_level")]
			for _, a := range t.Alias {
				if a[1] == n && rapid.IntRange(0, 2).Draw(rt, "clade_via_alias") == 0 {
					return a[0]
				}
			}
			return t.Taxid[n]
		}
	}
	return genID(rt, "clade", t, nil)
}

func genCLICase(rt *rapid.T) (cliCase, gen.TreeInfo) {
	n := gen.Len(rt, "n", 1, evid.Pick(600, 3000), 2, 3, 30, 31)
	shape := rapid.SampledFrom(gen.TreeShapes).Draw(rt, "shape")
	tr, info := gen.Tree(rt, "tree", n, shape, rapid.IntRange(0, min(20, n/3+2)).Draw(rt, "n_alias"), 3)
	c := cliCase{Tree: tr}
	if rapid.IntRange(0, 2).Draw(rt, "with_plan") == 0 { // before anything resolves an id: the plan may add old ids of the same taxon
		c.Plan, _ = genPlan(rt, &c.Tree, info.Unknown)
	}
	c.Dump.FullColumns = rapid.Bool().Draw(rt, "full_columns")
	c.Dump.Synonyms = rapid.Bool().Draw(rt, "synonyms")
	if rapid.Bool().Draw(rt, "reversed") {
		c.Dump.Order = reversedOrder(n)
	}
	c.MaxCPU = rapid.SampledFrom([]int{0, 1, 2, 4}).Draw(rt, "max_cpu")
	t := &c.Tree
	known := func(label string) int { return genID(rt, label, t, nil) }
	ns := rapid.IntRange(1, 40).Draw(rt, "n_seqs")
	for i := 0; i < ns; i++ {
		s := seqSpec{ID: fmt.Sprintf("seq%03d", i), Taxid: genID(rt, "seq_taxid", t, info.Unknown)}
		nm := rapid.SampledFrom([]int{0, 0, 1, 2, 3, 5}).Draw(rt, "n_merged")
		seen := map[int]bool{}
		for j := 0; j < nm; j++ {
			id := known("merged")
			if j > 0 && rapid.Bool().Draw(rt, "merged_close") { // a relative of the first one: LCA below the root
				ia, _, _ := t.Resolve(s.Merged[0][0])
				p := t.PathToRoot(ia)
				id = t.Taxid[p[rapid.IntRange(0, len(p)-1).Draw(rt, "merged_level")]]
			}
			if !seen[id] {
				seen[id] = true
				s.Merged = append(s.Merged, [2]int{id, rapid.IntRange(1, 9).Draw(rt, "weight")})
			}
		}
		s.RefKind = rapid.SampledFrom([]int{0, 1, 1, 2}).Draw(rt, "ref_kind")
		if s.RefKind != 0 {
			s.Ref = genID(rt, "ref", t, info.Unknown)
			if ia, _, ok := t.Resolve(s.Taxid); ok && rapid.Bool().Draw(rt, "ref_ancestor") {
				p := t.PathToRoot(ia)
				s.Ref = t.Taxid[p[rapid.IntRange(0, len(p)-1).Draw(rt, "ref_level")]]
			}
		}
		c.Seqs = append(c.Seqs, s)
	}
	ranks := t.Ranks()
	anyRank := func(label string) string {
		if rapid.IntRange(0, 5).Draw(rt, label+"_unused") == 0 {
			return "verif-unused-rank"
		}
		return rapid.SampledFrom(ranks).Draw(rt, label)
	}
	ng := rapid.IntRange(2, 4).Draw(rt, "n_greps")
	for i := 0; i < ng; i++ {
		var g grepRun
		switch rapid.IntRange(0, 7).Draw(rt, "grep_kind") {
		case 0, 1:
			g.Restrict = []string{strconv.Itoa(cladeArg(rt, t, c.Seqs))}
		case 2:
			g.Ignore = []int{cladeArg(rt, t, c.Seqs)}
		case 3:
			g.Require = []string{rapid.SampledFrom(ranks).Draw(rt, "require")}
		case 4:
			g.Restrict = []string{"ref_taxon"}
		case 5: // several options of each kind: OR inside -r, none of -i, all of --require-rank
			for j, k := 0, rapid.IntRange(0, 2).Draw(rt, "n_r"); j < k; j++ {
				if rapid.IntRange(0, 3).Draw(rt, "r_slot") == 0 {
					g.Restrict = append(g.Restrict, "ref_taxon")
				} else {
					g.Restrict = append(g.Restrict, strconv.Itoa(cladeArg(rt, t, c.Seqs)))
				}
			}
			for j, k := 0, rapid.IntRange(0, 2).Draw(rt, "n_i"); j < k; j++ {
				g.Ignore = append(g.Ignore, cladeArg(rt, t, c.Seqs))
			}
			for j, k := 0, rapid.IntRange(0, 2).Draw(rt, "n_q"); j < k; j++ {
				g.Require = append(g.Require, rapid.SampledFrom(ranks).Draw(rt, "require"))
			}
			if len(g.Restrict)+len(g.Ignore)+len(g.Require) == 0 {
				g.Ignore = []int{cladeArg(rt, t, c.Seqs)}
			}
		case 6:
			g.Invalid = true
			u := info.Unknown[rapid.IntRange(0, len(info.Unknown)-1).Draw(rt, "unknown_arg")]
			if rapid.Bool().Draw(rt, "invalid_ignore") {
				g.Ignore = []int{u}
			} else {
				g.Restrict = []string{strconv.Itoa(u)}
			}
		case 7:
			g.Invalid = true
			g.Require = []string{"verif-unused-rank"}
		}
		c.Greps = append(c.Greps, g)
	}
	for j, k := 0, rapid.IntRange(1, 3).Draw(rt, "n_at_ranks"); j < k; j++ {
		r := anyRank("at_rank")
		dup := false
		for _, x := range c.AtRanks {
			dup = dup || x == r
		}
		if !dup {
			c.AtRanks = append(c.AtRanks, r)
		}
	}
	c.LCASlot = rapid.SampledFrom([]string{"lca", "best", "consensus_taxid", "x"}).Draw(rt, "lca_slot")
	c.Lineage = rapid.Bool().Draw(rt, "lineage")
	c.RefIdx = rapid.IntRange(0, 2).Draw(rt, "refidx") == 0
	return c, info
}

// cliCounters feeds the evidence: one evaluation per command run.
func cliCounters(c *cliCase, info gen.TreeInfo) {
	t := &c.Tree
	key := evid.Hash(fmt.Sprint(t.Parent), fmt.Sprint(t.Taxid), fmt.Sprint(t.Rank), fmt.Sprint(t.Alias), fmt.Sprint(c.Seqs), c.Plan.key())
	var sample any
	if t.N() <= 8 && len(c.Seqs) <= 6 {
		sample = c
	}
	for _, g := range c.Greps {
		var cl []string
		if g.Invalid {
			cl = append(cl, "cli:grep_argument_not_in_taxonomy")
		}
		if len(g.Restrict) > 0 {
			cl = append(cl, "cli:grep_restrict")
			for _, r := range g.Restrict {
				if _, err := strconv.Atoi(r); err != nil {
					cl = append(cl, "cli:grep_restrict_by_slot")
				} else if id, _ := strconv.Atoi(r); isAlias(t, id) {
					cl = append(cl, "cli:grep_clade_given_by_merged_id")
				}
			}
		}
		if len(g.Ignore) > 0 {
			cl = append(cl, "cli:grep_ignore")
		}
		if len(g.Require) > 0 {
			cl = append(cl, "cli:grep_require_rank")
		}
		if len(g.Restrict)+len(g.Ignore)+len(g.Require) > 1 {
			cl = append(cl, "cli:grep_combined")
		}
		sel := 0
		if !g.Invalid {
			for _, s := range c.Seqs {
				if k, _ := grepModel(t, g, s); k {
					sel++
				}
			}
		}
		evid.Eval("cli", evid.Hash(key, "grep", fmt.Sprint(g)), sel > 0 && sel < len(c.Seqs), sample, cl...)
	}
	if len(c.AtRanks) > 0 {
		found, na := 0, 0
		for _, s := range c.Seqs {
			if ia, _, ok := t.Resolve(s.Taxid); ok {
				for _, r := range c.AtRanks {
					if t.AtRank(ia, r) >= 0 {
						found++
					} else {
						na++
					}
				}
			}
		}
		evid.Eval("cli", evid.Hash(key, "atrank", fmt.Sprint(c.AtRanks)), found > 0 && na > 0, sample, "cli:annotate_taxon_at_rank")
	}
	if c.LCASlot != "" {
		multi := 0
		for _, s := range c.Seqs {
			if len(s.Merged) >= 2 {
				multi++
			}
		}
		evid.Eval("cli", evid.Hash(key, "lca", c.LCASlot), multi > 0, sample, "cli:annotate_lca")
	}
	known := 0
	for _, s := range c.Seqs {
		if _, _, ok := t.Resolve(s.Taxid); ok {
			known++
		}
	}
	pcl := planClasses(t, c.Plan)
	if c.Lineage {
		evid.Eval("cli", evid.Hash(key, "lineage", c.Plan.key()), known > 0 && t.N() > 1, sample, append(pcl, "cli:annotate_path_rank_name")...)
	}
	if c.RefIdx {
		evid.Eval("cli", evid.Hash(key, "refidx", c.Plan.key()), known > 1, sample, append(pcl, "cli:obirefidx_identical_sequences")...)
	}
	if c.Plan != nil {
		evid.Class("cli:dump_with_plan", 1)
	}
	nu, na := 0, 0
	for _, s := range c.Seqs {
		if _, via, ok := t.Resolve(s.Taxid); !ok {
			nu++
		} else if via {
			na++
		}
	}
	evid.Class("cli:records", int64(len(c.Seqs)))
	evid.Class("cli:records_with_unknown_taxid", int64(nu))
	evid.Class("cli:records_with_merged_id_as_taxid", int64(na))
	evid.Class("cli:shape:"+info.Shape, 1)
	evid.Class("cli:"+sizeClass(t.N()), 1)
}

func isAlias(t *ref.Tree, id int) bool {
	_, via, ok := t.Resolve(id)
	return ok && via
}

func TestPropCLI(t *testing.T) {
	if !run.Have("obigrep") || !run.Have("obiannotate") || !run.Have("obirefidx") {
		t.Fatalf("the driver did not build obigrep/obiannotate/obirefidx into %s", os.Getenv("VERIF_BIN"))
	}
	rapid.Check(t, func(rt *rapid.T) {
		c, info := genCLICase(rt)
		cliCounters(&c, info)
		if err := checkCLI(c); err != nil {
			evid.Fail(rt, "cli", c, err)
		}
	})
}
