package c14

import (
	"fmt"
	"math"
	"os"
	"path/filepath"
	"strconv"

	"git.metabarcoding.org/obitools/obitools4/obitools4/pkg/obiformats/ncbitaxdump"
	"git.metabarcoding.org/obitools/obitools4/obitools4/pkg/obiseq"
	"git.metabarcoding.org/obitools/obitools4/obitools4/pkg/obitax"

	"verifharness/internal/evid"
	"verifharness/internal/fatal"
	"verifharness/internal/ref"
	"verifharness/internal/run"
)

// ------------------------------------------------------------------ the case

// query is one question asked to a built taxonomy.  A, B, C are raw taxids: nodes,
// merged ids (aliases) or ids that belong to nothing.
type query struct {
	A, B, C int
	Rank    string // label asked to TaxonAtRank / HasRankDefined / HasRequiredRank / SetTaxonAtRank for A
	Set     []int  // taxids of the clade set given to IsBelongingSubclades (nodes or aliases)
	W       [3]int // weights (>= 1) of A, B, C in the merged_taxid map given to Taxonomy.LCA
}

type taxCase struct {
	Tree   ref.Tree
	Build  string        // "api": NewTaxonomy/AddNewTaxa/ReindexParent/AddNewName/AddNewAlias; "dump": LoadNCBITaxDump;
	// "dumpx": LoadNCBITaxDump on the files described by Plan; "apix": the lines of Plan through the API, as the loader does
	Dump   ref.DumpStyle // file layout; Dump.Order is also the AddNewTaxa order of the api build
	OnlySN bool          // second argument of LoadNCBITaxDump
	Plan   *dumpPlan     `json:",omitempty"` // builds "dumpx"/"apix": dump files with taxids declared several times, names and merged lines in any order (plan_test.go)

	// Mode "queries": the listed queries.  Mode "triples": every (A,B) over all
	// nodes, aliases and Unknown ids, and for each every C over nodes and aliases.
	// Mode "ranks": every A over nodes, aliases and Unknown x every label of Labels.
	Mode    string
	Queries []query `json:",omitempty"`
	Unknown []int   `json:",omitempty"`
	Labels  []string `json:",omitempty"`
}

func init() {
	fatal.Install()
	evid.Reg("taxonomy", checkTax)
}

// ------------------------------------------------------------------ building the real taxonomy

func buildAPI(c *taxCase) (*obitax.Taxonomy, error) {
	t := &c.Tree
	n := t.N()
	order := c.Dump.Order
	if len(order) != n {
		order = make([]int, n)
		for i := range order {
			order[i] = i
		}
	}
	tax := obitax.NewTaxonomy()
	for _, i := range order {
		node, err := tax.AddNewTaxa(t.Taxid[i], t.Taxid[t.Parent[i]], t.Rank[i], false, false)
		if err != nil || node == nil {
			return nil, fmt.Errorf("AddNewTaxa(%d, parent %d, %q) on a taxonomy that does not hold it: node=%v err=%v", t.Taxid[i], t.Taxid[t.Parent[i]], t.Rank[i], node, err)
		}
	}
	if err := tax.ReindexParent(); err != nil {
		return nil, fmt.Errorf("ReindexParent on a complete tree: %v", err)
	}
	sn, syn := "scientific name", "synonym"
	for _, i := range order {
		name := t.Name[i]
		if c.Dump.Synonyms {
			alt := "syn " + name
			if err := tax.AddNewName(t.Taxid[i], &alt, &syn); err != nil {
				return nil, fmt.Errorf("AddNewName(%d, synonym): %v", t.Taxid[i], err)
			}
		}
		if err := tax.AddNewName(t.Taxid[i], &name, &sn); err != nil {
			return nil, fmt.Errorf("AddNewName(%d, %q, scientific name): %v", t.Taxid[i], name, err)
		}
	}
	for _, a := range t.Alias {
		if err := tax.AddNewAlias(t.Taxid[a[1]], a[0]); err != nil {
			return nil, fmt.Errorf("AddNewAlias(new %d, old %d): %v", t.Taxid[a[1]], a[0], err)
		}
	}
	return tax, nil
}

// writeDump writes the three NCBI dump files of the tree into a fresh directory.
func writeDump(t *ref.Tree, st ref.DumpStyle) (string, error) {
	dir, err := os.MkdirTemp(run.WorkDir(), "taxdump")
	if err != nil {
		return "", err
	}
	nodes, names, merged := t.NCBIDump(st)
	for name, body := range map[string]string{"nodes.dmp": nodes, "names.dmp": names, "merged.dmp": merged} {
		if err := os.WriteFile(filepath.Join(dir, name), []byte(body), 0o644); err != nil {
			os.RemoveAll(dir)
			return "", err
		}
	}
	return dir, nil
}

func buildDump(c *taxCase) (*obitax.Taxonomy, error) {
	dir, err := writeDump(&c.Tree, c.Dump)
	if err != nil {
		return nil, fmt.Errorf("harness: cannot write the dump: %v", err)
	}
	defer os.RemoveAll(dir)
	var tax *obitax.Taxonomy
	var lerr error
	out := fatal.Run(func() { tax, lerr = ncbitaxdump.LoadNCBITaxDump(dir, c.OnlySN) })
	if !out.Completed {
		return nil, fmt.Errorf("LoadNCBITaxDump(well-formed dump of %d nodes, onlysn=%v) did not return: %v\n%s", c.Tree.N(), c.OnlySN, out, out.Stack)
	}
	if lerr != nil || tax == nil {
		return nil, fmt.Errorf("LoadNCBITaxDump(well-formed dump of %d nodes, onlysn=%v): taxonomy=%v err=%v", c.Tree.N(), c.OnlySN, tax, lerr)
	}
	return tax, nil
}

func build(c *taxCase) (*obitax.Taxonomy, error) {
	switch c.Build {
	case "api":
		var tax *obitax.Taxonomy
		var err error
		out := fatal.Run(func() { tax, err = buildAPI(c) })
		if !out.Completed {
			return nil, fmt.Errorf("building the taxonomy through the API did not return: %v\n%s", out, out.Stack)
		}
		return tax, err
	case "dump":
		return buildDump(c)
	case "dumpx":
		return buildPlanDump(c)
	case "apix":
		var tax *obitax.Taxonomy
		var err error
		out := fatal.Run(func() { tax, err = buildPlanAPI(c) })
		if !out.Completed {
			return nil, fmt.Errorf("building the taxonomy through the API (lines of the plan) did not return: %v\n%s", out, out.Stack)
		}
		return tax, err
	}
	return nil, fmt.Errorf("harness: unknown build mode %q", c.Build)
}

// ------------------------------------------------------------------ the checker

type checker struct {
	c    *taxCase
	t    *ref.Tree
	tax  *obitax.Taxonomy
	stepFmt  string // what is being called (formatted only when the call dies)
	stepArgs []any
	used map[string]bool
}

func (k *checker) at(format string, args ...any) { k.stepFmt, k.stepArgs = format, args }

func (k *checker) step() string { return fmt.Sprintf(k.stepFmt, k.stepArgs...) }

func mkseq(taxid int) *obiseq.BioSequence {
	s := obiseq.NewBioSequence("q", []byte("acgt"), "")
	s.SetAttribute("taxid", taxid)
	return s
}

// resolve checks Taxonomy.Taxon against the model for one raw id and returns the node.
func (k *checker) resolve(id int) (*obitax.TaxNode, int, bool, error) {
	t := k.t
	n, via, ok := t.Resolve(id)
	k.at("Taxonomy.Taxon(%d)", id)
	node, err := k.tax.Taxon(id)
	if ok != (err == nil) {
		if ok {
			return nil, 0, false, fmt.Errorf("Taxonomy.Taxon(%d) failed (%v) although %d is %s of node taxid %d", id, err, id, map[bool]string{true: "a merged id", false: "the taxid"}[via], t.Taxid[n])
		}
		return nil, 0, false, fmt.Errorf("Taxonomy.Taxon(%d) = taxid %d without error although %d is neither a taxid nor a merged id", id, node.Taxid(), id)
	}
	if !ok {
		return nil, -1, false, nil
	}
	if node == nil {
		return nil, 0, false, fmt.Errorf("Taxonomy.Taxon(%d) = nil, nil", id)
	}
	if node.Taxid() != t.Taxid[n] || node.Rank() != t.Rank[n] || node.ScientificName() != t.Name[n] {
		return nil, 0, false, fmt.Errorf("Taxonomy.Taxon(%d) = (taxid %d, rank %q, name %q); the tree has (taxid %d, rank %q, name %q)%s",
			id, node.Taxid(), node.Rank(), node.ScientificName(), t.Taxid[n], t.Rank[n], t.Name[n], map[bool]string{true: " reached through merged id", false: ""}[via])
	}
	k.at("Taxon(%d).Parent()", id)
	if p := node.Parent(); p == nil || p.Taxid() != t.Taxid[t.Parent[n]] {
		return nil, 0, false, fmt.Errorf("Taxon(%d).Parent() = %v, the tree says taxid %d", id, taxidOf(p), t.Taxid[t.Parent[n]])
	}
	// the same id given as a decimal string (what IsSubCladeOfSlot passes)
	k.at("Taxonomy.Taxon(%q)", strconv.Itoa(id))
	if s, err := k.tax.Taxon(strconv.Itoa(id)); err != nil || s != node {
		return nil, 0, false, fmt.Errorf("Taxonomy.Taxon(%q) = (%v, %v) differs from Taxonomy.Taxon(%d) = taxid %d", strconv.Itoa(id), taxidOf(s), err, id, node.Taxid())
	}
	return node, n, true, nil
}

func taxidOf(n *obitax.TaxNode) string {
	if n == nil {
		return "nil"
	}
	return fmt.Sprintf("taxid %d", n.Taxid())
}

func (k *checker) path(id int, node *obitax.TaxNode, n int, ok bool) error {
	t := k.t
	k.at("Taxonomy.Path(%d)", id)
	p2, err2 := k.tax.Path(id)
	if !ok {
		if err2 == nil {
			return fmt.Errorf("Taxonomy.Path(%d) returned no error although %d is not in the taxonomy", id, id)
		}
		return nil
	}
	k.at("Taxon(%d).Path()", id)
	p1, err1 := node.Path()
	if err1 != nil || err2 != nil || p1 == nil || p2 == nil {
		return fmt.Errorf("Path of %d: TaxNode.Path err=%v, Taxonomy.Path err=%v on a reindexed taxonomy", id, err1, err2)
	}
	want := t.PathToRoot(n)
	for name, p := range map[string]*obitax.TaxonSlice{"TaxNode.Path": p1, "Taxonomy.Path": p2} {
		got := make([]int, 0, len(*p))
		for _, x := range *p {
			if x == nil {
				return fmt.Errorf("%s of %d contains a nil node", name, id)
			}
			got = append(got, x.Taxid())
		}
		bad := len(got) != len(want)
		for i := 0; !bad && i < len(want); i++ {
			bad = got[i] != t.Taxid[want[i]]
		}
		if bad {
			wt := make([]int, len(want))
			for i, w := range want {
				wt[i] = t.Taxid[w]
			}
			return fmt.Errorf("%s of %d = %v; along the parent links from the taxon to the root the tree gives %v", name, id, clip(got), clip(wt))
		}
	}
	return nil
}

func clip(v []int) string {
	if len(v) > 24 {
		return fmt.Sprintf("%v…(%d taxa)…%v", v[:10], len(v), v[len(v)-10:])
	}
	return fmt.Sprint(v)
}

// rankChecks: TaxonAtRank, HasRankDefined, HasRequiredRank, SetTaxonAtRank for taxid id and one label.
func (k *checker) rankChecks(id int, node *obitax.TaxNode, n int, ok bool, rank string) error {
	t := k.t
	want := -1
	if ok {
		want = t.AtRank(n, rank)
		k.at("Taxon(%d).TaxonAtRank(%q)", id, rank)
		got := node.TaxonAtRank(rank)
		if (got == nil) != (want < 0) || (got != nil && got.Taxid() != t.Taxid[want]) {
			return fmt.Errorf("Taxon(%d).TaxonAtRank(%q) = %s; first ancestor-or-self with that rank in the tree: %s", id, rank, taxidOf(got), k.nodeStr(want))
		}
		k.at("Taxon(%d).HasRankDefined(%q)", id, rank)
		if h := node.HasRankDefined(rank); h != (want >= 0) {
			return fmt.Errorf("Taxon(%d).HasRankDefined(%q) = %v; first ancestor-or-self with that rank in the tree: %s", id, rank, h, k.nodeStr(want))
		}
	}
	// sequence level
	if k.used[rank] {
		k.at("Taxonomy.HasRequiredRank(%q)(sequence with taxid %d)", rank, id)
		if sel := k.tax.HasRequiredRank(rank)(mkseq(id)); sel != (want >= 0) {
			return fmt.Errorf("Taxonomy.HasRequiredRank(%q) on a sequence with taxid %d = %v; the tree says %v (taxid known: %v, taxon at that rank: %s)", rank, id, sel, want >= 0, ok, k.nodeStr(want))
		}
	}
	s := mkseq(id)
	k.at("Taxonomy.SetTaxonAtRank(sequence with taxid %d, %q)", id, rank)
	got := k.tax.SetTaxonAtRank(s, rank)
	vt, okt := s.GetAttribute(rank + "_taxid")
	vn, okn := s.GetAttribute(rank + "_name")
	switch {
	case !ok:
		if got != nil || okt || okn {
			return fmt.Errorf("SetTaxonAtRank(sequence with unknown taxid %d, %q) = %s, attributes %v/%v set", id, rank, taxidOf(got), vt, vn)
		}
	case want >= 0:
		if got == nil || got.Taxid() != t.Taxid[want] || !okt || !okn || vt != any(t.Taxid[want]) || vn != any(t.Name[want]) {
			return fmt.Errorf("SetTaxonAtRank(sequence with taxid %d, %q) = %s, %s_taxid=%v %s_name=%v; the tree gives %s", id, rank, taxidOf(got), rank, vt, rank, vn, k.nodeStr(want))
		}
	default:
		if got != nil || vt != any(-1) || vn != any("NA") {
			return fmt.Errorf("SetTaxonAtRank(sequence with taxid %d, %q) = %s, %s_taxid=%v %s_name=%v; no ancestor-or-self has that rank, expected nil, -1 and NA", id, rank, taxidOf(got), rank, vt, rank, vn)
		}
	}
	if tid, _ := s.GetAttribute("taxid"); tid != any(id) {
		return fmt.Errorf("SetTaxonAtRank changed the taxid attribute of the sequence from %d to %v", id, tid)
	}
	return nil
}

func (k *checker) nodeStr(n int) string {
	if n < 0 {
		return "none"
	}
	return fmt.Sprintf("taxid %d (%q, %q)", k.t.Taxid[n], k.t.Rank[n], k.t.Name[n])
}

// pairChecks: everything that involves two ids.
func (k *checker) pairChecks(a, b int, na *obitax.TaxNode, ia int, oka bool, nb *obitax.TaxNode, ib int, okb bool, set []int) error {
	t := k.t
	if oka && okb {
		want := t.LCA(ia, ib)
		k.at("Taxon(%d).LCA(Taxon(%d))", a, b)
		l1, e1 := na.LCA(nb)
		k.at("Taxon(%d).LCA(Taxon(%d))", b, a)
		l2, e2 := nb.LCA(na)
		if e1 != nil || e2 != nil || l1 == nil || l2 == nil {
			return fmt.Errorf("LCA(%d,%d): errors %v / %v, results %s / %s on a reindexed taxonomy", a, b, e1, e2, taxidOf(l1), taxidOf(l2))
		}
		if l1.Taxid() != t.Taxid[want] {
			return fmt.Errorf("Taxon(%d).LCA(Taxon(%d)) = taxid %d; deepest common ancestor-or-self in the tree: %s (depths %d and %d)", a, b, l1.Taxid(), k.nodeStr(want), t.Depth(ia), t.Depth(ib))
		}
		if l2 != l1 {
			return fmt.Errorf("LCA not commutative: Taxon(%d).LCA(Taxon(%d)) = taxid %d but Taxon(%d).LCA(Taxon(%d)) = taxid %d", a, b, l1.Taxid(), b, a, l2.Taxid())
		}
		k.at("Taxon(%d).LCA(itself)", a)
		if s, e := na.LCA(na); e != nil || s != na {
			return fmt.Errorf("LCA not idempotent: Taxon(%d).LCA(Taxon(%d)) = %s, %v", a, a, taxidOf(s), e)
		}
		k.at("Taxon(%d).IsSubCladeOf(Taxon(%d))", a, b)
		if got, w := na.IsSubCladeOf(nb), t.IsAncestorOrSelf(ib, ia); got != w {
			return fmt.Errorf("Taxon(%d).IsSubCladeOf(Taxon(%d)) = %v; in the tree %d %s an ancestor-or-self of %d", a, b, got, t.Taxid[ib], map[bool]string{true: "is", false: "is not"}[w], t.Taxid[ia])
		}
		k.at("Taxon(%d).IsSubCladeOf(Taxon(%d))", b, a)
		if got, w := nb.IsSubCladeOf(na), t.IsAncestorOrSelf(ia, ib); got != w {
			return fmt.Errorf("Taxon(%d).IsSubCladeOf(Taxon(%d)) = %v; in the tree %d %s an ancestor-or-self of %d", b, a, got, t.Taxid[ia], map[bool]string{true: "is", false: "is not"}[w], t.Taxid[ib])
		}
	}
	// clade set
	if oka {
		ts := make(obitax.TaxonSet)
		var clades []int
		for _, id := range set {
			if x, err := k.tax.Taxon(id); err == nil {
				ts.Inserts(x)
				n, _, _ := t.Resolve(id)
				clades = append(clades, n)
			}
		}
		k.at("Taxon(%d).IsBelongingSubclades(%v)", a, set)
		if got, w := na.IsBelongingSubclades(&ts), t.InAnyClade(ia, clades); got != w {
			return fmt.Errorf("Taxon(%d).IsBelongingSubclades(set of taxids %v) = %v; the tree says %v", a, set, got, w)
		}
	}
	// sequence predicates: a sequence annotated with taxid a, clade given by b
	want := oka && okb && t.IsAncestorOrSelf(ib, ia)
	if okb {
		k.at("Taxonomy.IsSubCladeOf(%d)(sequence with taxid %d)", b, a)
		if sel := k.tax.IsSubCladeOf(b)(mkseq(a)); sel != want {
			return fmt.Errorf("Taxonomy.IsSubCladeOf(%d) on a sequence with taxid %d = %v; the tree says %v (sequence taxid known: %v)", b, a, sel, want, oka)
		}
	}
	s := mkseq(a)
	var refv any = b
	if (a+b)%2 != 0 {
		refv = strconv.Itoa(b)
	}
	s.SetAttribute("ref_taxon", refv)
	k.at("Taxonomy.IsSubCladeOfSlot(\"ref_taxon\")(sequence with taxid %d, ref_taxon=%#v)", a, refv)
	if sel := k.tax.IsSubCladeOfSlot("ref_taxon")(s); sel != want {
		return fmt.Errorf("Taxonomy.IsSubCladeOfSlot(\"ref_taxon\") on a sequence with taxid %d and ref_taxon=%#v = %v; the tree says %v (known: sequence taxid %v, slot taxid %v)", a, refv, sel, want, oka, okb)
	}
	k.at("Taxonomy.IsSubCladeOfSlot on a sequence without the slot")
	if k.tax.IsSubCladeOfSlot("other_slot")(s) {
		return fmt.Errorf("Taxonomy.IsSubCladeOfSlot(\"other_slot\") selects a sequence (taxid %d) that has no such slot", a)
	}
	// IsAValidTaxon, with and without correction of merged ids
	k.at("Taxonomy.IsAValidTaxon()(sequence with taxid %d)", a)
	s = mkseq(a)
	if v := k.tax.IsAValidTaxon()(s); v != oka {
		return fmt.Errorf("Taxonomy.IsAValidTaxon() on a sequence with taxid %d = %v; the tree knows the id (as taxid or merged id): %v", a, v, oka)
	}
	if tid, _ := s.GetAttribute("taxid"); tid != any(a) {
		return fmt.Errorf("Taxonomy.IsAValidTaxon() without correction changed the taxid of the sequence from %d to %v", a, tid)
	}
	k.at("Taxonomy.IsAValidTaxon(true)(sequence with taxid %d)", a)
	s = mkseq(a)
	v := k.tax.IsAValidTaxon(true)(s)
	wantID := a
	if oka {
		wantID = t.Taxid[ia]
	}
	if tid, _ := s.GetAttribute("taxid"); v != oka || tid != any(wantID) {
		return fmt.Errorf("Taxonomy.IsAValidTaxon(true) on a sequence with taxid %d = %v, taxid afterwards %v; the tree says valid=%v, current taxid %d", a, v, tid, oka, wantID)
	}
	return nil
}

// tripleChecks: associativity of TaxNode.LCA and Taxonomy.LCA over the merged taxids {a,b,c}.
func (k *checker) tripleChecks(ids [3]int, nodes [3]*obitax.TaxNode, idx [3]int, w [3]int) error {
	t := k.t
	a, b, c := ids[0], ids[1], ids[2]
	want := t.LCAOfSet(idx[:])
	k.at("LCA(LCA(%d,%d),%d)", a, b, c)
	ab, e1 := nodes[0].LCA(nodes[1])
	if e1 != nil {
		return fmt.Errorf("Taxon(%d).LCA(Taxon(%d)): %v", a, b, e1)
	}
	abc, e2 := ab.LCA(nodes[2])
	k.at("LCA(%d,LCA(%d,%d))", a, b, c)
	bc, e3 := nodes[1].LCA(nodes[2])
	if e2 != nil || e3 != nil {
		return fmt.Errorf("LCA over (%d,%d,%d): errors %v %v", a, b, c, e2, e3)
	}
	abc2, e4 := nodes[0].LCA(bc)
	if e4 != nil {
		return fmt.Errorf("LCA over (%d,%d,%d): error %v", a, b, c, e4)
	}
	if abc != abc2 {
		return fmt.Errorf("LCA not associative: LCA(LCA(%d,%d),%d) = taxid %d, LCA(%d,LCA(%d,%d)) = taxid %d", a, b, c, abc.Taxid(), a, b, c, abc2.Taxid())
	}
	if abc.Taxid() != t.Taxid[want] {
		return fmt.Errorf("LCA(LCA(%d,%d),%d) = taxid %d; deepest common ancestor-or-self of the three in the tree: %s", a, b, c, abc.Taxid(), k.nodeStr(want))
	}

	// LCA of the taxids merged in a sequence, zero error tolerance
	var merged any
	switch (a + b + c) % 3 {
	case 0:
		merged = obiseq.StatsOnValues{strconv.Itoa(a): w[0], strconv.Itoa(b): w[1], strconv.Itoa(c): w[2]}
	case 1:
		merged = map[string]int{strconv.Itoa(a): w[0], strconv.Itoa(b): w[1], strconv.Itoa(c): w[2]}
	default: // what the JSON header parser produces
		merged = map[string]interface{}{strconv.Itoa(a): w[0], strconv.Itoa(b): w[1], strconv.Itoa(c): w[2]}
	}
	s := mkseq(a)
	s.SetAttribute("merged_taxid", merged)
	k.at("Taxonomy.LCA(sequence with merged_taxid %v, 1.0)", merged)
	l, rans, _ := k.tax.LCA(s, 1.0)
	if l == nil || l.Taxid() != t.Taxid[want] {
		return fmt.Errorf("Taxonomy.LCA(sequence with merged_taxid %v, threshold 1.0) = %s; deepest common ancestor-or-self in the tree: %s", merged, taxidOf(l), k.nodeStr(want))
	}
	if math.Abs(rans-1) > 1e-9 {
		return fmt.Errorf("Taxonomy.LCA(sequence with merged_taxid %v, threshold 1.0) reports a supported fraction of %v for an LCA that covers everything", merged, rans)
	}
	s = mkseq(a)
	s.SetAttribute("merged_taxid", merged)
	k.at("AddLCAWorker(\"best\", 1.0)(sequence with merged_taxid %v)", merged)
	if _, err := obitax.AddLCAWorker(k.tax, "best", 1.0)(s); err != nil {
		return fmt.Errorf("AddLCAWorker on merged_taxid %v: %v", merged, err)
	}
	vt, _ := s.GetAttribute("best_taxid")
	vn, _ := s.GetAttribute("best_name")
	ve, _ := s.GetAttribute("best_error")
	if vt != any(t.Taxid[want]) || vn != any(t.Name[want]) || ve != any(0.0) {
		return fmt.Errorf("AddLCAWorker(\"best\", 1.0) on merged_taxid %v set best_taxid=%v best_name=%v best_error=%v; the tree gives %s with error 0", merged, vt, vn, ve, k.nodeStr(want))
	}
	// a sequence that only has its own taxid: the LCA is that taxon
	s = mkseq(a)
	k.at("Taxonomy.LCA(sequence with taxid %d only, 1.0)", a)
	if l, _, _ := k.tax.LCA(s, 1.0); l == nil || l.Taxid() != t.Taxid[idx[0]] {
		return fmt.Errorf("Taxonomy.LCA(sequence with taxid %d and no merged_taxid, 1.0) = %s; expected the taxon itself (taxid %d)", a, taxidOf(l), t.Taxid[idx[0]])
	}
	return nil
}

// unknownArguments: filters built on an id / label that is not in the taxonomy must not silently select.
func (k *checker) unknownArguments() error {
	t := k.t
	for _, u := range k.c.Unknown {
		if _, _, ok := t.Resolve(u); ok {
			continue
		}
		selected := false
		out := fatal.Run(func() {
			p := k.tax.IsSubCladeOf(u)
			for i := 0; i < min(t.N(), 8); i++ {
				selected = selected || p(mkseq(t.Taxid[i]))
			}
		})
		if out.Completed && selected {
			return fmt.Errorf("Taxonomy.IsSubCladeOf(%d) (an id that is not in the taxonomy) returned a predicate that selects sequences", u)
		}
	}
	for _, r := range []string{"", "verif-unused-rank"} {
		if k.used[r] {
			continue
		}
		selected := false
		out := fatal.Run(func() {
			p := k.tax.HasRequiredRank(r)
			for i := 0; i < min(t.N(), 8); i++ {
				selected = selected || p(mkseq(t.Taxid[i]))
			}
		})
		if out.Completed && selected {
			return fmt.Errorf("Taxonomy.HasRequiredRank(%q) (a label no taxon carries) returned a predicate that selects sequences", r)
		}
	}
	return nil
}

// pairClass labels a pair by the depth relation the property statement singles out.
func pairClass(t *ref.Tree, a, b int) (nontrivial bool, classes []string) {
	ia, va, oka := t.Resolve(a)
	ib, vb, okb := t.Resolve(b)
	if !oka || !okb {
		return false, []string{"pair:unknown_id"}
	}
	switch {
	case ia == ib:
		classes = append(classes, "pair:same_taxon")
	case t.IsAncestorOrSelf(ia, ib) || t.IsAncestorOrSelf(ib, ia):
		classes = append(classes, "pair:one_ancestor_of_other")
	case t.Depth(ia) != t.Depth(ib):
		classes = append(classes, "pair:unrelated_unequal_depth")
	default:
		classes = append(classes, "pair:unrelated_equal_depth")
		if l := t.LCA(ia, ib); l != 0 {
			classes = append(classes, "pair:lca_below_root")
		}
	}
	if ia == 0 || ib == 0 {
		classes = append(classes, "pair:root_involved")
	}
	if va || vb {
		classes = append(classes, "pair:alias_involved")
	}
	nontrivial = ia == 0 || ib == 0 || va || vb || t.Depth(ia) != t.Depth(ib) || t.IsAncestorOrSelf(ia, ib) || t.IsAncestorOrSelf(ib, ia)
	return
}

func rankClass(t *ref.Tree, used map[string]bool, a int, rank string) (bool, []string) {
	ia, va, oka := t.Resolve(a)
	if !oka {
		return false, []string{"rank:unknown_id"}
	}
	r := t.AtRank(ia, rank)
	switch {
	case r == ia:
		if va {
			return true, []string{"rank:self", "rank:alias_involved"}
		}
		return false, []string{"rank:self"}
	case r >= 0:
		cl := []string{"rank:strict_ancestor"}
		if r == 0 {
			cl = append(cl, "rank:found_at_root")
		}
		return true, cl
	case used[rank]:
		return true, []string{"rank:absent_on_path_used_elsewhere"}
	}
	return va, []string{"rank:label_unused"}
}

func treeKey(c *taxCase) uint64 {
	return evid.Hash(fmt.Sprint(c.Tree.Parent), fmt.Sprint(c.Tree.Taxid), fmt.Sprint(c.Tree.Rank), fmt.Sprint(c.Tree.Alias), c.Build, c.Dump.FullColumns, c.OnlySN, c.Plan.key())
}

// checkTax builds the taxonomy of the case and asks every query of the case.
// count tells whether evidence counters are fed (off in replays of a shrinking run is not needed: Eval is cheap).
func checkTax(c taxCase) error { return runTax(&c, false) }

func runTax(c *taxCase, count bool) error {
	if err := c.Tree.Validate(); err != nil {
		return fmt.Errorf("harness: invalid case: %v", err)
	}
	tax, err := build(c)
	if err != nil {
		return err
	}
	return runQueries(c, tax, count)
}

// runQueries asks every query of the case to a taxonomy that was built for the tree of the case.
func runQueries(c *taxCase, tax *obitax.Taxonomy, count bool) error {
	t := &c.Tree
	if tax.Len() != t.N() {
		return fmt.Errorf("taxonomy built (%s) from %d nodes has Len() = %d", c.Build, t.N(), tax.Len())
	}
	k := &checker{c: c, t: t, tax: tax, used: map[string]bool{}}
	for _, r := range t.Rank {
		k.used[r] = true
	}
	tk := uint64(0)
	if count {
		tk = treeKey(c)
	}
	var ferr error
	out := fatal.Run(func() {
		switch c.Mode {
		case "queries":
			for _, q := range c.Queries {
				if count {
					nt, cl := pairClass(t, q.A, q.B)
					nr, cr := rankClass(t, k.used, q.A, q.Rank)
					var sample any
					if t.N() <= 10 && len(c.Queries) <= 6 {
						sample = c
					}
					evid.Eval("taxonomy", evid.Hash(tk, "q", q.A, q.B, q.C, q.Rank), nt || nr, sample, append(cl, cr...)...)
				}
				if ferr = k.query(q); ferr != nil {
					return
				}
			}
		case "triples":
			ferr = k.allTriples(count, tk)
		case "ranks":
			ferr = k.allRanks(count, tk)
		default:
			ferr = fmt.Errorf("harness: unknown mode %q", c.Mode)
		}
		if ferr == nil {
			k.at("filters built on unknown arguments")
			ferr = k.unknownArguments()
		}
	})
	if !out.Completed {
		return fmt.Errorf("%s did not return on a taxonomy of %d nodes built by %s: %v\n%s", k.step(), t.N(), c.Build, out, out.Stack)
	}
	return ferr
}

func (k *checker) query(q query) error {
	ids := [3]int{q.A, q.B, q.C}
	var nodes [3]*obitax.TaxNode
	var idx [3]int
	var ok [3]bool
	for i, id := range ids {
		var err error
		if nodes[i], idx[i], ok[i], err = k.resolve(id); err != nil {
			return err
		}
	}
	if err := k.path(q.A, nodes[0], idx[0], ok[0]); err != nil {
		return err
	}
	if err := k.pairChecks(q.A, q.B, nodes[0], idx[0], ok[0], nodes[1], idx[1], ok[1], q.Set); err != nil {
		return err
	}
	if err := k.rankChecks(q.A, nodes[0], idx[0], ok[0], q.Rank); err != nil {
		return err
	}
	if ok[0] && ok[1] && ok[2] {
		w := q.W
		for i := range w {
			w[i] = max(1, w[i])
		}
		return k.tripleChecks(ids, nodes, idx, w)
	}
	return nil
}

// allIDs: every node, every alias, then the unknown ids of the case.
func (k *checker) allIDs(withUnknown bool) []int {
	ids := append([]int(nil), k.t.Taxid...)
	for _, a := range k.t.Alias {
		ids = append(ids, a[0])
	}
	if withUnknown {
		ids = append(ids, k.c.Unknown...)
	}
	return ids
}

func (k *checker) allTriples(count bool, tk uint64) error {
	t := k.t
	ids := k.allIDs(true)
	known := k.allIDs(false)
	type res struct {
		node *obitax.TaxNode
		idx  int
		ok   bool
	}
	rs := make([]res, len(ids))
	for i, id := range ids {
		var err error
		if rs[i].node, rs[i].idx, rs[i].ok, err = k.resolve(id); err != nil {
			return err
		}
		if err = k.path(id, rs[i].node, rs[i].idx, rs[i].ok); err != nil {
			return err
		}
	}
	ranks := append(t.Ranks(), "verif-unused-rank")
	for i, a := range ids {
		for j, b := range ids {
			if count {
				nt, cl := pairClass(t, a, b)
				evid.Eval("taxonomy", evid.Hash(tk, "pair", a, b), nt, k.c, append(cl, "q:pair")...)
			}
			set := []int{b, ids[(i+j)%len(known)]}
			if (i+j)%5 == 0 {
				set = nil
			}
			if err := k.pairChecks(a, b, rs[i].node, rs[i].idx, rs[i].ok, rs[j].node, rs[j].idx, rs[j].ok, set); err != nil {
				return err
			}
			if !rs[i].ok || !rs[j].ok {
				continue
			}
			for l := range known {
				c := ids[l]
				if count {
					nt, _ := pairClass(t, a, b)
					nt2, _ := pairClass(t, b, c)
					evid.Eval("taxonomy", evid.Hash(tk, "triple", a, b, c), nt || nt2, nil, "q:triple")
				}
				w := [3]int{1 + (i+l)%3, 1 + j%2, 1 + (i*j+l)%4}
				if err := k.tripleChecks([3]int{a, b, c}, [3]*obitax.TaxNode{rs[i].node, rs[j].node, rs[l].node}, [3]int{rs[i].idx, rs[j].idx, rs[l].idx}, w); err != nil {
					return err
				}
			}
		}
		if err := k.rankChecks(a, rs[i].node, rs[i].idx, rs[i].ok, ranks[i%len(ranks)]); err != nil {
			return err
		}
	}
	return nil
}

func (k *checker) allRanks(count bool, tk uint64) error {
	for _, a := range k.allIDs(true) {
		node, idx, ok, err := k.resolve(a)
		if err != nil {
			return err
		}
		for _, r := range k.c.Labels {
			if count {
				nt, cl := rankClass(k.t, k.used, a, r)
				evid.Eval("taxonomy", evid.Hash(tk, "rank", a, r), nt, k.c, append(cl, "q:rank")...)
			}
			if err := k.rankChecks(a, node, idx, ok, r); err != nil {
				return err
			}
		}
	}
	return nil
}
