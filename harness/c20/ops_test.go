package c20

import (
	"fmt"
	"math/big"
	"math/bits"
	"sync"
	"testing"

	"git.metabarcoding.org/obitools/obitools4/obitools4/pkg/obifp"

	"verifharness/internal/evid"
)

// opCase is the complete input of one evaluation.  Which operations are run on
// it is given by the name of the check ("u<width>.<group>").
//
//	A, B  the operands (B[0] is also the 64-bit operand of the *64 variants and the
//	      carry-in word of Uint64.LeftShift64/RightShift64)
//	N     the shift amount ("shift", "shift64"), the carry/borrow-in bit N&1 of
//	      Uint64.Add64/Sub64 ("arith64"), the k-mer size ("kmer")
type opCase struct {
	W int  `json:"width"`
	A val  `json:"a"`
	B val  `json:"b"`
	N uint `json:"n"`
}

func (c opCase) String() string {
	return fmt.Sprintf("width=%d a=%v b=%v n=%d", c.W, c.A, c.B, c.N)
}

// key is the identity of a case inside one check.
func (c opCase) key() uint64 {
	h := uint64(14695981039346656037)
	mix := func(x uint64) {
		for i := 0; i < 8; i++ {
			h ^= x & 0xff
			h *= 1099511628211
			x >>= 8
		}
	}
	mix(uint64(c.W))
	for i := 0; i < 4; i++ {
		mix(c.A[i])
		mix(c.B[i])
	}
	mix(uint64(c.N))
	return h
}

var groupsOf = map[int][]string{
	64:  {"shift", "shift64", "addsub", "arith64", "mul", "cmp", "bits", "cast", "kmer"},
	128: {"shift", "addsub", "arith64", "mul", "div", "cmp", "bits", "cast", "kmer"},
	256: {"shift", "addsub", "mul", "div", "cmp", "bits", "cast", "kmer"},
}

func checkName(w int, group string) string { return fmt.Sprintf("u%d.%s", w, group) }

func init() {
	for w, groups := range groupsOf {
		for _, g := range groups {
			w, g := w, g
			evid.Reg(checkName(w, g), func(c opCase) error {
				if c.W != w {
					return fmt.Errorf("replay case of check %s carries width %d", checkName(w, g), c.W)
				}
				return runCheck(g, c)
			})
		}
	}
}

// runCheck runs every operation of one group on the case, under the watchdog.
// It is a pure function of (group, case).
func runCheck(group string, c opCase) error {
	if !c.A.fits(c.W) || !c.B.fits(c.W) {
		return fmt.Errorf("harness: operands of %v do not fit the width", c)
	}
	what := func() string { return fmt.Sprintf("%s on %v", checkName(c.W, group), c) }
	return watched(what, func() error {
		switch c.W {
		case 64:
			return checkGroup[obifp.Uint64](group, c)
		case 128:
			return checkGroup[obifp.Uint128](group, c)
		case 256:
			return checkGroup[obifp.Uint256](group, c)
		}
		return fmt.Errorf("harness: unknown width %d", c.W)
	})
}

// ------------------------------------------------------------------ judging

type judge struct {
	c    opCase
	name string   // type name
	M    *big.Int // 2^width
}

// exact: an operation without overflow contract must return want (0 <= want < 2^256).
func (j judge) exact(got val, o outcome, want *big.Int, opf string, args ...any) error {
	if o.panicked {
		return fmt.Errorf("%s(%v).%s panicked (%s); exact result is 0x%s", j.name, j.c.A, fmt.Sprintf(opf, args...), o.msg, want.Text(16))
	}
	if got != valOf(want) {
		return fmt.Errorf("%s(%v).%s = %v; exact result is 0x%s", j.name, j.c.A, fmt.Sprintf(opf, args...), got, want.Text(16))
	}
	return nil
}

// contract: Add/Sub/Mul family.  The exact result must be returned when it lies in
// [0, 2^width); otherwise, and only then, the operation must panic.
func (j judge) contract(got val, o outcome, exact *big.Int, opf string, args ...any) error {
	if exact.Sign() >= 0 && exact.Cmp(j.M) < 0 {
		if o.panicked {
			return fmt.Errorf("%s(%v).%s signalled overflow (%s) although the exact result 0x%s fits %d bits", j.name, j.c.A, fmt.Sprintf(opf, args...), o.msg, exact.Text(16), j.c.W)
		}
		if got != valOf(exact) {
			return fmt.Errorf("%s(%v).%s = %v; exact result is 0x%s", j.name, j.c.A, fmt.Sprintf(opf, args...), got, exact.Text(16))
		}
		return nil
	}
	if !o.panicked {
		sign := ""
		x := exact
		if exact.Sign() < 0 {
			sign, x = "-", new(big.Int).Neg(exact)
		}
		return fmt.Errorf("%s(%v).%s = %v without signalling; the exact result %s0x%s does not fit %d bits", j.name, j.c.A, fmt.Sprintf(opf, args...), got, sign, x.Text(16), j.c.W)
	}
	return nil
}

func (j judge) same(got, want any, o outcome, opf string, args ...any) error {
	if o.panicked {
		return fmt.Errorf("%s(%v).%s panicked (%s); expected %v", j.name, j.c.A, fmt.Sprintf(opf, args...), o.msg, want)
	}
	if got != want {
		return fmt.Errorf("%s(%v).%s = %v; expected %v", j.name, j.c.A, fmt.Sprintf(opf, args...), got, want)
	}
	return nil
}

// ------------------------------------------------------------------ operations common to the three types

func checkGroup[T fullUint[T]](group string, c opCase) error {
	W := c.W
	j := judge{c: c, name: fmt.Sprintf("Uint%d", W), M: pow2(W)}
	a, b := mk[T](c.A), mk[T](c.B)
	A, B := c.A.big(), c.B.big()
	if limbs(a) != c.A || limbs(b) != c.B {
		return fmt.Errorf("hook H5 does not round-trip the limbs of %v", c)
	}
	var r T
	var o outcome

	switch group {
	case "shift":
		o = try(func() { r = a.LeftShift(c.N) })
		want := new(big.Int).Lsh(A, c.N)
		want.Mod(want, j.M)
		if err := j.exact(limbs(r), o, want, "LeftShift(%d)", c.N); err != nil {
			return err
		}
		o = try(func() { r = a.RightShift(c.N) })
		if err := j.exact(limbs(r), o, new(big.Int).Rsh(A, c.N), "RightShift(%d)", c.N); err != nil {
			return err
		}

	case "addsub":
		o = try(func() { r = a.Add(b) })
		if err := j.contract(limbs(r), o, new(big.Int).Add(A, B), "Add(%v)", c.B); err != nil {
			return err
		}
		o = try(func() { r = a.Sub(b) })
		if err := j.contract(limbs(r), o, new(big.Int).Sub(A, B), "Sub(%v)", c.B); err != nil {
			return err
		}

	case "mul":
		o = try(func() { r = a.Mul(b) })
		if err := j.contract(limbs(r), o, new(big.Int).Mul(A, B), "Mul(%v)", c.B); err != nil {
			return err
		}

	case "cmp":
		want := A.Cmp(B)
		var gi int
		var gb bool
		o = try(func() { gi = a.Cmp(b) })
		if err := j.same(gi, want, o, "Cmp(%v)", c.B); err != nil {
			return err
		}
		for _, m := range []struct {
			name string
			f    func() bool
			want bool
		}{
			{"Equals", func() bool { return a.Equals(b) }, want == 0},
			{"LessThan", func() bool { return a.LessThan(b) }, want < 0},
			{"GreaterThan", func() bool { return a.GreaterThan(b) }, want > 0},
			{"LessThanOrEqual", func() bool { return a.LessThanOrEqual(b) }, want <= 0},
			{"GreaterThanOrEqual", func() bool { return a.GreaterThanOrEqual(b) }, want >= 0},
		} {
			o = try(func() { gb = m.f() })
			if err := j.same(gb, m.want, o, "%s(%v)", m.name, c.B); err != nil {
				return err
			}
		}

	case "bits":
		o = try(func() { r = a.And(b) })
		if err := j.exact(limbs(r), o, new(big.Int).And(A, B), "And(%v)", c.B); err != nil {
			return err
		}
		o = try(func() { r = a.Or(b) })
		if err := j.exact(limbs(r), o, new(big.Int).Or(A, B), "Or(%v)", c.B); err != nil {
			return err
		}
		o = try(func() { r = a.Xor(b) })
		if err := j.exact(limbs(r), o, new(big.Int).Xor(A, B), "Xor(%v)", c.B); err != nil {
			return err
		}
		o = try(func() { r = a.Not() })
		not := new(big.Int).Sub(j.M, big.NewInt(1))
		not.Sub(not, A)
		if err := j.exact(limbs(r), o, not, "Not()"); err != nil {
			return err
		}
		var z bool
		o = try(func() { z = a.IsZero() })
		if err := j.same(z, A.Sign() == 0, o, "IsZero()"); err != nil {
			return err
		}
		o = try(func() { r = a.Zero() })
		if err := j.exact(limbs(r), o, big.NewInt(0), "Zero()"); err != nil {
			return err
		}
		o = try(func() { r = a.MaxValue() })
		if err := j.exact(limbs(r), o, new(big.Int).Sub(j.M, big.NewInt(1)), "MaxValue()"); err != nil {
			return err
		}
		o = try(func() { r = a.Set64(c.B[0]) })
		if err := j.exact(limbs(r), o, u64big(c.B[0]), "Set64(%#x)", c.B[0]); err != nil {
			return err
		}
		// the generic constructors of unint.go
		if z := limbs(obifp.ZeroUint[T]()); z != (val{}) {
			return fmt.Errorf("ZeroUint[%s]() = %v", j.name, z)
		}
		if one := limbs(obifp.OneUint[T]()); one != (val{1}) {
			return fmt.Errorf("OneUint[%s]() = %v", j.name, one)
		}
		if f := limbs(obifp.From64[T](c.B[0])); f != (val{c.B[0]}) {
			return fmt.Errorf("From64[%s](%#x) = %v", j.name, c.B[0], f)
		}

	case "cast":
		var x64 uint64
		o = try(func() { x64 = a.AsUint64() })
		if o.panicked {
			return fmt.Errorf("%s(%v).AsUint64() panicked (%s)", j.name, c.A, o.msg)
		}
		if c.A.fits(64) && x64 != c.A[0] {
			return fmt.Errorf("%s(%v).AsUint64() = %#x; the value fits 64 bits and must be preserved", j.name, c.A, x64)
		}
		var r64 obifp.Uint64
		var r128 obifp.Uint128
		var r256 obifp.Uint256
		o = try(func() { r64 = a.Uint64() })
		if o.panicked {
			return fmt.Errorf("%s(%v).Uint64() panicked (%s)", j.name, c.A, o.msg)
		}
		if c.A.fits(64) && limbs(r64) != c.A {
			return fmt.Errorf("%s(%v).Uint64() = %v; the value fits 64 bits and must be preserved", j.name, c.A, limbs(r64))
		}
		o = try(func() { r128 = a.Uint128() })
		if o.panicked {
			return fmt.Errorf("%s(%v).Uint128() panicked (%s)", j.name, c.A, o.msg)
		}
		if c.A.fits(128) && limbs(r128) != c.A {
			return fmt.Errorf("%s(%v).Uint128() = %v; the value fits 128 bits and must be preserved", j.name, c.A, limbs(r128))
		}
		o = try(func() { r256 = a.Uint256() })
		if err := j.exact(limbs(r256), o, A, "Uint256()"); err != nil {
			return err
		}

	case "kmer":
		return checkKmer[T](c)
	}

	switch x := any(a).(type) {
	case obifp.Uint64:
		return extra64(j, group, x, any(b).(obifp.Uint64), A, B)
	case obifp.Uint128:
		return extra128(j, group, x, any(b).(obifp.Uint128), A, B)
	case obifp.Uint256:
		return extra256(j, group, x, any(b).(obifp.Uint256), A, B)
	}
	return nil
}

// ------------------------------------------------------------------ operations of one type only

func extra64(j judge, group string, a, b obifp.Uint64, A, B *big.Int) error {
	c := j.c
	M64 := pow2(64)
	var v, cy uint64
	var o outcome
	pair := func(op string, wantV, wantC *big.Int) error {
		if o.panicked {
			return fmt.Errorf("Uint64(%v).%s panicked (%s)", c.A, op, o.msg)
		}
		if u64big(v).Cmp(wantV) != 0 || u64big(cy).Cmp(wantC) != 0 {
			return fmt.Errorf("Uint64(%v).%s = (value %#x, carry %#x); expected (value 0x%s, carry 0x%s)", c.A, op, v, cy, wantV.Text(16), wantC.Text(16))
		}
		return nil
	}
	switch group {
	case "shift64":
		n := c.N
		if n > 64 {
			return nil // outside the documented domain of the primitives (see Domain decisions)
		}
		cin := c.B[0]
		CIN := u64big(cin)
		// LeftShift64: value = u<<n | (carryIn & (2^n-1)), carry = the n bits moved out
		o = try(func() { v, cy = a.LeftShift64(n, cin) })
		wantV := new(big.Int).Lsh(A, n)
		if n > 0 { // documented special case: n == 0 returns (u, 0), which is what the formula gives
			wantV.Or(wantV, new(big.Int).Mod(CIN, pow2(int(n))))
		}
		wantV.Mod(wantV, M64)
		wantC := new(big.Int).Rsh(A, 64-n)
		if err := pair(fmt.Sprintf("LeftShift64(%d, carryIn=%#x)", n, cin), wantV, wantC); err != nil {
			return err
		}
		// RightShift64: value = u>>n | (the n high bits of carryIn), carry = the n bits moved out, left-aligned
		o = try(func() { v, cy = a.RightShift64(n, cin) })
		wantV = new(big.Int).Rsh(A, n)
		high := new(big.Int).Sub(CIN, new(big.Int).Mod(CIN, pow2(int(64-n))))
		wantV.Or(wantV, high)
		wantC = new(big.Int).Lsh(A, 64-n)
		wantC.Mod(wantC, M64)
		if err := pair(fmt.Sprintf("RightShift64(%d, carryIn=%#x)", n, cin), wantV, wantC); err != nil {
			return err
		}

	case "arith64":
		cin := uint64(c.N & 1)
		o = try(func() { v, cy = a.Add64(b, cin) })
		sum := new(big.Int).Add(A, B)
		sum.Add(sum, u64big(cin))
		if err := pair(fmt.Sprintf("Add64(%v, carryIn=%d)", c.B, cin), new(big.Int).Mod(sum, M64), new(big.Int).Rsh(sum, 64)); err != nil {
			return err
		}
		o = try(func() { v, cy = a.Sub64(b, cin) })
		diff := new(big.Int).Sub(A, B)
		diff.Sub(diff, u64big(cin))
		borrow := big.NewInt(0)
		if diff.Sign() < 0 {
			borrow = big.NewInt(1)
		}
		if err := pair(fmt.Sprintf("Sub64(%v, borrowIn=%d)", c.B, cin), new(big.Int).Mod(diff, M64), borrow); err != nil {
			return err
		}
		o = try(func() { v, cy = a.Mul64(b) })
		prod := new(big.Int).Mul(A, B)
		if err := pair(fmt.Sprintf("Mul64(%v)", c.B), new(big.Int).Mod(prod, M64), new(big.Int).Rsh(prod, 64)); err != nil {
			return err
		}
	}
	return nil
}

func extra128(j judge, group string, a, b obifp.Uint128, A, B *big.Int) error {
	c := j.c
	x := c.B[0]
	X := u64big(x)
	var r, q obifp.Uint128
	var o outcome
	switch group {
	case "arith64":
		o = try(func() { r = a.Add64(x) })
		if err := j.contract(limbs(r), o, new(big.Int).Add(A, X), "Add64(%#x)", x); err != nil {
			return err
		}
		o = try(func() { r = a.Mul64(x) })
		if err := j.contract(limbs(r), o, new(big.Int).Mul(A, X), "Mul64(%#x)", x); err != nil {
			return err
		}

	case "cmp":
		var g int
		o = try(func() { g = a.Cmp64(x) })
		if err := j.same(g, A.Cmp(X), o, "Cmp64(%#x)", x); err != nil {
			return err
		}

	case "div":
		if B.Sign() != 0 {
			wq, wr := new(big.Int).QuoRem(A, B, new(big.Int))
			o = try(func() { q, r = a.QuoRem(b) })
			if err := j.exact(limbs(q), o, wq, "QuoRem(%v) quotient", c.B); err != nil {
				return err
			}
			if err := j.exact(limbs(r), o, wr, "QuoRem(%v) remainder", c.B); err != nil {
				return err
			}
			o = try(func() { r = a.Div(b) })
			if err := j.exact(limbs(r), o, wq, "Div(%v)", c.B); err != nil {
				return err
			}
			o = try(func() { r = a.Mod(b) })
			if err := j.exact(limbs(r), o, wr, "Mod(%v)", c.B); err != nil {
				return err
			}
		}
		if x != 0 {
			wq, wr := new(big.Int).QuoRem(A, X, new(big.Int))
			var r64 uint64
			o = try(func() { q, r64 = a.QuoRem64(x) })
			if err := j.exact(limbs(q), o, wq, "QuoRem64(%#x) quotient", x); err != nil {
				return err
			}
			if err := j.same(r64, wr.Uint64(), o, "QuoRem64(%#x) remainder", x); err != nil {
				return err
			}
			o = try(func() { r = a.Div64(x) })
			if err := j.exact(limbs(r), o, wq, "Div64(%#x)", x); err != nil {
				return err
			}
			o = try(func() { r64 = a.Mod64(x) })
			if err := j.same(r64, wr.Uint64(), o, "Mod64(%#x)", x); err != nil {
				return err
			}
		}
	}
	return nil
}

func extra256(j judge, group string, a, b obifp.Uint256, A, B *big.Int) error {
	c := j.c
	if group == "div" && B.Sign() != 0 {
		var r obifp.Uint256
		o := try(func() { r = a.Div(b) })
		if err := j.exact(limbs(r), o, new(big.Int).Quo(A, B), "Div(%v)", c.B); err != nil {
			return err
		}
	}
	return nil
}

// ------------------------------------------------------------------ the generic interface as kmermap.go uses it

// kmerOps is written against obifp.FPUint only, with the expressions of
// obikmer.NewKmerMap / NormalizedKmerSlice / KmerAsString: the k-mer mask
// One<<2k - One, the two sparse masks, the rolling forward word cur<<2 | code, the
// rolling reverse-complement word ccur>>2 | ccode<<2(k-1), the ordering of the two
// and the decoding loop (x & 3).AsUint64(), x>>2.
type kmerTrace struct {
	Mask, Left, Right val
	HaveMask          bool
	Cur, CCur         []val
	Less              []bool
	Sparse            []val
	Decoded           []uint64
}

func kmerOps[T obifp.FPUint[T]](codes []uint64, k uint, width int) (tr kmerTrace) {
	one := obifp.OneUint[T]()
	sparseAt := -1
	if k%2 == 1 {
		sparseAt = int(k / 2)
	}
	left, right := obifp.ZeroUint[T](), obifp.ZeroUint[T]()
	if 2*k < uint(width) {
		tr.HaveMask = true
		tr.Mask = limbs(one.LeftShift(k * 2).Sub(one))
	}
	if sparseAt >= 0 {
		pos := k - 1 - uint(sparseAt)
		l, r := uint(sparseAt)*2, pos*2
		left = one.LeftShift(l).Sub(one).LeftShift(r + 2)
		right = one.LeftShift(r).Sub(one)
	}
	tr.Left, tr.Right = limbs(left), limbs(right)
	cur, ccur := obifp.ZeroUint[T](), obifp.ZeroUint[T]()
	lshift := 2 * (k - 1)
	for _, code := range codes {
		cur = cur.LeftShift(2)
		ccur = ccur.RightShift(2)
		cur = cur.Or(obifp.From64[T](code))
		ccur = ccur.Or(obifp.From64[T](3 - code).LeftShift(lshift))
		tr.Cur = append(tr.Cur, limbs(cur))
		tr.CCur = append(tr.CCur, limbs(ccur))
		tr.Less = append(tr.Less, cur.LessThan(ccur))
		if sparseAt >= 0 {
			tr.Sparse = append(tr.Sparse, limbs(cur.And(left).RightShift(2).Or(cur.And(right))))
		}
	}
	x := ccur
	for i := uint(0); i < k; i++ {
		tr.Decoded = append(tr.Decoded, x.And(obifp.From64[T](3)).AsUint64())
		x = x.RightShift(2)
	}
	return
}

// kmerCodes: the nucleotides are the 2-bit digits of A then of B, least significant first.
func kmerCodes(c opCase) []uint64 {
	var codes []uint64
	for _, v := range []val{c.A, c.B} {
		for i := 0; i < c.W/64; i++ {
			for s := 0; s < 64; s += 2 {
				codes = append(codes, (v[i]>>s)&3)
			}
		}
	}
	return codes
}

func checkKmer[T obifp.FPUint[T]](c opCase) error {
	k := c.N
	if k < 1 || 2*k > uint(c.W) {
		return nil // kmer sizes that do not fit the word are not generated
	}
	codes := kmerCodes(c)
	var tr kmerTrace
	o := try(func() { tr = kmerOps[T](codes, k, c.W) })
	if o.panicked {
		return fmt.Errorf("k-mer expressions of kmermap.go over Uint%d with k=%d on %v panicked: %s", c.W, k, c, o.msg)
	}
	M := pow2(c.W)
	one := big.NewInt(1)
	bad := func(what string, got val, want *big.Int) error {
		return fmt.Errorf("generic FPUint[Uint%d], k=%d, nucleotides from %v: %s = %v; exact value 0x%s", c.W, k, c, what, got, want.Text(16))
	}
	if tr.HaveMask {
		want := new(big.Int).Sub(pow2(int(2*k)), one)
		if tr.Mask != valOf(want) {
			return bad("One.LeftShift(2k).Sub(One)", tr.Mask, want)
		}
	}
	left, right := big.NewInt(0), big.NewInt(0)
	sparse := k%2 == 1
	if sparse {
		sparseAt := k / 2
		pos := k - 1 - sparseAt
		left = new(big.Int).Sub(pow2(int(2*sparseAt)), one)
		left.Lsh(left, 2*pos+2)
		right = new(big.Int).Sub(pow2(int(2*pos)), one)
		if tr.Left != valOf(left) {
			return bad("leftMask", tr.Left, left)
		}
		if tr.Right != valOf(right) {
			return bad("rightMask", tr.Right, right)
		}
	}
	cur, ccur := big.NewInt(0), big.NewInt(0)
	for i, code := range codes {
		cur.Lsh(cur, 2)
		cur.Mod(cur, M)
		cur.Or(cur, u64big(code))
		ccur.Rsh(ccur, 2)
		ccur.Or(ccur, new(big.Int).Lsh(u64big(3-code), 2*(k-1)))
		if tr.Cur[i] != valOf(cur) {
			return bad(fmt.Sprintf("forward word after nucleotide %d (cur.LeftShift(2).Or(From64(code)))", i), tr.Cur[i], cur)
		}
		if tr.CCur[i] != valOf(ccur) {
			return bad(fmt.Sprintf("reverse word after nucleotide %d (ccur.RightShift(2).Or(From64(ccode).LeftShift(2(k-1))))", i), tr.CCur[i], ccur)
		}
		if tr.Less[i] != (cur.Cmp(ccur) < 0) {
			return fmt.Errorf("generic FPUint[Uint%d], k=%d, nucleotides from %v: (0x%s).LessThan(0x%s) = %v after nucleotide %d", c.W, k, c, cur.Text(16), ccur.Text(16), tr.Less[i], i)
		}
		if sparse {
			want := new(big.Int).And(cur, left)
			want.Rsh(want, 2)
			want.Or(want, new(big.Int).And(cur, right))
			if tr.Sparse[i] != valOf(want) {
				return bad(fmt.Sprintf("sparse k-mer after nucleotide %d (x.And(leftMask).RightShift(2).Or(x.And(rightMask)))", i), tr.Sparse[i], want)
			}
		}
	}
	x := new(big.Int).Set(ccur)
	for i := uint(0); i < k; i++ {
		want := new(big.Int).And(x, big.NewInt(3)).Uint64()
		if tr.Decoded[i] != want {
			return fmt.Errorf("generic FPUint[Uint%d], k=%d, nucleotides from %v: decoding digit %d = %d, expected %d", c.W, k, c, i, tr.Decoded[i], want)
		}
		x.Rsh(x, 2)
	}
	return nil
}

// ------------------------------------------------------------------ non-triviality and classes

func nlimbs(w int) int { return w / 64 }

// describe computes, for one (group, case), whether it is non-trivial by the
// rule stated in the evidence, and its class labels.
func describe(group string, c opCase) (bool, []string) {
	n := nlimbs(c.W)
	cl := []string{fmt.Sprintf("%s:w%d", group, c.W)}
	add := func(s string) { cl = append(cl, group+":"+s) }
	A, B := c.A.big(), c.B.big()
	switch group {
	case "shift", "shift64":
		N := int(c.N)
		switch {
		case N == 0:
			add("n==0")
		case N < 64:
			add("0<n<64")
		case N == 64:
			add("n==64")
		case N < c.W && N%64 == 0:
			add("n==k*64<width")
		case N < c.W:
			add("64<n<width,n%64!=0")
		case N == c.W:
			add("n==width")
		default:
			add("n>width")
		}
		if N >= 64 {
			return true, cl
		}
		crosses := false
		for i := 0; i < n && N > 0; i++ {
			if c.A[i]>>(64-N) != 0 || c.A[i]<<(64-N) != 0 {
				crosses = true
			}
		}
		if crosses {
			add("bit_crosses_limb")
		}
		return crosses, cl

	case "addsub", "arith64":
		b := c.B
		cin := uint64(0)
		if group == "arith64" {
			if c.W == 128 {
				b = val{c.B[0]}
			} else {
				cin = uint64(c.N & 1)
			}
		}
		carry, borrow := cin, cin
		carries, borrows := 0, 0
		for i := 0; i < n; i++ {
			_, carry = bits.Add64(c.A[i], b[i], carry)
			_, borrow = bits.Sub64(c.A[i], b[i], borrow)
			carries += int(carry)
			borrows += int(borrow)
		}
		if carry != 0 {
			add("add_overflow")
		} else if carries > 0 {
			add("add_carry_between_limbs")
		}
		if carries >= 2 {
			add("add_carry_chain>=2")
		}
		if group == "addsub" || c.W == 64 {
			if borrow != 0 {
				add("sub_underflow")
			} else if borrows > 0 {
				add("sub_borrow_between_limbs")
			}
		}
		nt := carries > 0 || (borrows > 0 && (group == "addsub" || c.W == 64))
		if group == "arith64" {
			p := new(big.Int).Mul(A, b.big())
			if p.BitLen() > 64 {
				nt = true
			}
			if p.BitLen() > c.W {
				add("mul64_overflow")
			} else if p.BitLen() > 64 {
				add("mul64_fits_multi_limb")
			}
		}
		return nt, cl

	case "mul":
		p := new(big.Int).Mul(A, B)
		switch bl := p.BitLen(); {
		case bl > c.W+1:
			add("overflow")
		case bl == c.W+1:
			add("overflow_by_one_bit")
		case bl == c.W:
			add("fits_top_bit_set")
		case bl > 64:
			add("fits_needs>64bits")
		default:
			add("fits_64bits")
		}
		return p.BitLen() > 64, cl

	case "div":
		if B.Sign() == 0 {
			add("zero_divisor_left_out")
			if c.W == 128 && c.B[0] == 0 {
				return false, cl
			}
		}
		cmp := A.Cmp(B)
		switch {
		case cmp < 0:
			add("a<b")
		case cmp == 0:
			add("a==b")
		}
		if B.BitLen() > 64 {
			add("divisor_multi_limb")
		} else {
			add("divisor_single_limb")
		}
		if B.Sign() != 0 {
			q, r := new(big.Int).QuoRem(A, B, new(big.Int))
			if q.BitLen() > 64 {
				add("quotient_multi_limb")
			}
			if r.Sign() == 0 && cmp > 0 {
				add("exact_division")
			}
		}
		if A.BitLen() == c.W {
			add("dividend_top_bit_set")
		}
		return A.BitLen() > 64 && B.Cmp(big.NewInt(1)) > 0 && cmp >= 0, cl

	case "cmp":
		lt, gt := 0, 0
		for i := 0; i < n; i++ {
			if c.A[i] < c.B[i] {
				lt++
			} else if c.A[i] > c.B[i] {
				gt++
			}
		}
		switch {
		case lt == 0 && gt == 0:
			add("equal")
		case lt > 0 && gt > 0:
			add("limb_orders_conflict")
		case c.A[n-1] == c.B[n-1]:
			add("decided_by_lower_limb")
		default:
			add("decided_by_top_limb")
		}
		if c.W == 64 {
			return lt+gt > 0, cl
		}
		return lt > 0 && gt > 0, cl

	case "bits":
		max := new(big.Int).Sub(pow2(c.W), big.NewInt(1))
		return A.Sign() != 0 && B.Sign() != 0 && A.Cmp(max) != 0 && B.Cmp(max) != 0, cl

	case "cast":
		switch {
		case c.A.fits(64):
			add("fits64")
		case c.A.fits(128):
			add("fits128_not64")
		default:
			add("needs>128bits")
		}
		return A.Sign() != 0, cl

	case "kmer":
		if c.N%2 == 1 {
			add("sparse_masks")
		}
		if c.N > 32 {
			add("k>32")
		}
		if 2*c.N == uint(c.W) {
			add("k==width/2")
		}
		return c.N > 32 || c.N%2 == 1, cl
	}
	return false, cl
}

// excludedShape says whether (group, case) falls in a known finding and must not
// be generated.
//
// Uint128.Mul never looks at the partial product u.w1*v.w1.  The defective shape is:
// both high limbs non-zero (the exact product then never fits) and the rest of the
// product, a*b - (a.w1*b.w1 << 128), still fits 128 bits, i.e. the ignored partial
// product is the only evidence of the overflow.  Pairs with both high limbs non-zero
// whose remaining terms overflow as well are signalled correctly and stay checked.
func excludedShape(group string, c opCase) string {
	if group == "mul" && c.W == 128 && c.A[1] != 0 && c.B[1] != 0 {
		rest := new(big.Int).Mul(c.A.big(), c.B.big())
		top := new(big.Int).Mul(u64big(c.A[1]), u64big(c.B[1]))
		rest.Sub(rest, top.Lsh(top, 128))
		if rest.BitLen() <= 128 {
			return findingMul128
		}
	}
	return ""
}

// tb is what evid.Fail needs.
type tb = evid.TB

// softTB turns the Fatalf of evid.Fail into a non-fatal error so that an
// enumeration goes on with the other checks after the first failure of one check
// (a shallow defect of one operation must not hide the others).
type softTB struct{ t *testing.T }

func (s softTB) Helper()                           { s.t.Helper() }
func (s softTB) Logf(format string, args ...any)   { s.t.Logf(format, args...) }
func (s softTB) Fatalf(format string, args ...any) { s.t.Errorf(format, args...) }

// failedChecks holds the checks that already failed in this process (enumerations only).
var failedChecks sync.Map

// evaluate counts and runs one (group, case); it reports false when the caller
// must stop generating: an operation never returned (the spinning goroutine
// cannot be killed).  In a rapid property a failure ends the run through Fatalf;
// in an enumeration it is recorded and that check is not evaluated any more in
// this process.
func evaluate(t tb, group string, c opCase, extra ...string) bool {
	if hung.Load() {
		return false
	}
	if k := excludedShape(group, c); k != "" {
		evid.Excluded(k, 1)
		return true
	}
	name := checkName(c.W, group)
	if _, failed := failedChecks.Load(name); failed {
		return true
	}
	nt, cl := describe(group, c)
	evid.Eval(name, c.key(), nt, c, append(cl, extra...)...)
	if err := runCheck(group, c); err != nil {
		if tt, ok := t.(*testing.T); ok {
			failedChecks.Store(name, true)
			evid.Fail(softTB{tt}, name, c, err)
			return !hung.Load()
		}
		evid.Fail(t, name, c, err)
		return false
	}
	return true
}
