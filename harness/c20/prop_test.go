package c20

import (
	"fmt"
	"math/big"
	"testing"

	"pgregory.net/rapid"

	"verifharness/internal/evid"
	"verifharness/internal/gen"
)

// ------------------------------------------------------------------ the boundary grid

var limbSet = []uint64{0, 1, 2, 1<<31 - 1, 1<<31 + 1, 1<<32 - 1, 1<<32 + 1, 1<<63 - 1, 1 << 63, ^uint64(0) - 1, ^uint64(0)}

var limbSet256Quick = []uint64{0, 1, 1<<32 + 1, 1 << 63, ^uint64(0)}
var limbSet256Thorough = []uint64{0, 1, 1<<32 + 1, 1<<63 - 1, 1 << 63, ^uint64(0) - 1, ^uint64(0)}

// gridValues returns every combination of the limbs of set over n limbs.
func gridValues(set []uint64, n int) []val {
	out := []val{{}}
	for i := 0; i < n; i++ {
		var next []val
		for _, v := range out {
			for _, l := range set {
				w := v
				w[i] = l
				next = append(next, w)
			}
		}
		out = next
	}
	return out
}

func notOf(v val, w int) val {
	for i := 0; i < w/64; i++ {
		v[i] = ^v[i]
	}
	return v
}

// gridWidth enumerates, for the values of this shard as first operand: every shift
// amount 0..width+64, every ordered pair for every binary group, the casts.
func gridWidth(t *testing.T, w int, values []val) {
	shard, n := evid.Shard(), evid.NShards()
	for i, a := range values {
		if i%n != shard {
			continue
		}
		for N := uint(0); N <= uint(w)+64; N++ {
			if !evaluate(t, "shift", opCase{W: w, A: a, N: N}, "grid") {
				return
			}
		}
		if !evaluate(t, "cast", opCase{W: w, A: a}, "grid") {
			return
		}
		for _, b := range values {
			for _, g := range groupsOf[w] {
				switch g {
				case "shift", "cast", "kmer":
					continue
				case "shift64":
					for N := uint(0); N <= 64; N++ {
						if !evaluate(t, g, opCase{W: w, A: a, B: b, N: N}, "grid") {
							return
						}
					}
				case "arith64":
					top := uint(0)
					if w == 64 {
						top = 1 // carry-in / borrow-in bit of Uint64.Add64 / Sub64
					}
					for N := uint(0); N <= top; N++ {
						if !evaluate(t, g, opCase{W: w, A: a, B: b, N: N}, "grid") {
							return
						}
					}
				default:
					if !evaluate(t, g, opCase{W: w, A: a, B: b}, "grid") {
						return
					}
				}
			}
		}
	}
}

func TestGridSmall(t *testing.T) {
	gridWidth(t, 64, gridValues(limbSet, 1))
	if t.Failed() {
		return
	}
	gridWidth(t, 128, gridValues(limbSet, 2))
	evid.Exhaustive("64 and 128 bits: every combination of the 11 boundary limbs {0,1,2,2^31-1,2^31+1,2^32-1,2^32+1,2^63-1,2^63,2^64-2,2^64-1} (11 / 121 values): all shift amounts 0..width+64, all ordered pairs for add/sub, *64 variants, mul, div/rem, comparisons, bitwise, casts; Uint64.LeftShift64/RightShift64 for all amounts 0..64 with every boundary limb as carry-in")
}

func TestGrid256(t *testing.T) {
	set := limbSet256Quick
	if evid.Thorough() {
		set = limbSet256Thorough
	}
	values := gridValues(set, 4)
	gridWidth(t, 256, values)
	evid.Exhaustive(fmt.Sprintf("256 bits: every combination of %d boundary limbs %#x (%d values): all shift amounts 0..320, all ordered pairs for add/sub, mul, div, comparisons, bitwise, casts", len(set), set, len(values)))
}

// TestGridKmer runs the expressions of kmermap.go through the generic interface:
// the nucleotides are the 2-bit digits of a grid value followed by those of its
// complement, for every k-mer size that fits the word (a boundary subset for 256 bits).
func TestGridKmer(t *testing.T) {
	shard, n := evid.Shard(), evid.NShards()
	idx := 0
	for _, w := range []int{64, 128, 256} {
		var values []val
		var ks []uint
		switch w {
		case 64, 128:
			values = gridValues(limbSet, w/64)
			for k := uint(1); k <= uint(w)/2; k++ {
				ks = append(ks, k)
			}
		default:
			values = gridValues(limbSet256Quick, 4)
			ks = []uint{1, 2, 3, 31, 32, 33, 63, 64, 65, 95, 96, 97, 127, 128}
		}
		for _, a := range values {
			idx++
			if idx%n != shard {
				continue
			}
			for _, k := range ks {
				if !evaluate(t, "kmer", opCase{W: w, A: a, B: notOf(a, w), N: k}, "grid") {
					return
				}
			}
		}
	}
	evid.Exhaustive("generic FPUint expressions of kmermap.go (masks, rolling forward/reverse words, ordering, sparse extraction, decoding): nucleotide strings = digits of every 64/128-bit grid value and of 625 256-bit grid values followed by their complement, every k-mer size 1..width/2 (256 bits: k in {1,2,3,31..33,63..65,95..97,127,128})")
}

// ------------------------------------------------------------------ random values

func genLimb(t *rapid.T, label string) uint64 {
	switch rapid.IntRange(0, 6).Draw(t, label+"_kind") {
	case 0:
		return rapid.SampledFrom(limbSet).Draw(t, label)
	case 1:
		return uint64(1) << rapid.IntRange(0, 63).Draw(t, label+"_k")
	case 2:
		return uint64(1)<<rapid.IntRange(1, 63).Draw(t, label+"_k") - 1
	case 3:
		return uint64(1)<<rapid.IntRange(1, 63).Draw(t, label+"_k") + 1
	case 4:
		return rapid.Uint64Range(0, 16).Draw(t, label)
	default:
		return rapid.Uint64().Draw(t, label)
	}
}

// genVal draws a value of w bits; with probability 1/3 only some low limbs are
// filled so that operands of different magnitudes meet.
func genVal(t *rapid.T, label string, w int) val {
	n := w / 64
	used := n
	if n > 1 && rapid.IntRange(0, 2).Draw(t, label+"_short") == 0 {
		used = rapid.IntRange(1, n).Draw(t, label+"_limbs")
	}
	var v val
	for i := 0; i < used; i++ {
		v[i] = genLimb(t, fmt.Sprintf("%s_w%d", label, i))
	}
	return v
}

func genWidth(t *rapid.T) int { return rapid.SampledFrom([]int{64, 128, 256}).Draw(t, "width") }

func genShift(t *rapid.T, w int) uint {
	return uint(gen.Len(t, "n", 0, w+64, 1, 32, 63, 64, 65, 127, 128, 129, 191, 192, 193, 255, 256, 257))
}

// runGroups evaluates every group of the width on (a, b, n).
func runGroups(rt *rapid.T, w int, a, b val, n uint, groups []string, label string) {
	for _, g := range groups {
		c := opCase{W: w, A: a, B: b}
		switch g {
		case "shift":
			c.B, c.N = val{}, n
			// the same value at the limb-aligned amount just below (0, 64, 128, ...)
			if !evaluate(rt, g, opCase{W: w, A: a, N: n / 64 * 64}, label) {
				return
			}
		case "shift64":
			c.N = n % 65
		case "arith64":
			if w == 64 {
				c.N = n & 1
			}
		case "cast":
			c.B = val{}
		case "kmer":
			c.N = 1 + n%uint(w/2)
		}
		if !evaluate(rt, g, c, label) {
			return
		}
	}
}

func TestPropRandom(t *testing.T) {
	rapid.Check(t, func(rt *rapid.T) {
		if hung.Load() {
			return
		}
		w := genWidth(rt)
		a, b := genVal(rt, "a", w), genVal(rt, "b", w)
		n := genShift(rt, w)
		runGroups(rt, w, a, b, n, groupsOf[w], "random")
	})
}

// genRelated builds the second operand (and sometimes both) from the first so that
// the sum, difference, product or quotient sits on a boundary.
func genRelated(t *rapid.T, w int) (val, val, string) {
	M := pow2(w)
	one := big.NewInt(1)
	a := genVal(t, "a", w)
	A := a.big()
	mode := rapid.SampledFrom([]string{"equal", "plus1", "minus1", "sum=max", "sum=2^w", "prod<=max", "prod>max",
		"dividend=d*q+r", "dividend=d*q+r", "shifted", "differ_in_one_limb", "pow2_pair"}).Draw(t, "mode")
	switch mode {
	case "equal":
		return a, a, mode
	case "plus1":
		if x := new(big.Int).Add(A, one); x.Cmp(M) < 0 {
			return a, valOf(x), mode
		}
		return a, a, "equal"
	case "minus1":
		if A.Sign() > 0 {
			return a, valOf(new(big.Int).Sub(A, one)), mode
		}
		return a, a, "equal"
	case "sum=max":
		x := new(big.Int).Sub(M, one)
		return a, valOf(x.Sub(x, A)), mode
	case "sum=2^w":
		if A.Sign() > 0 {
			return a, valOf(new(big.Int).Sub(M, A)), mode
		}
		return a, a, "equal"
	case "prod<=max", "prod>max":
		if A.Sign() == 0 {
			return a, genVal(t, "b", w), "independent"
		}
		x := new(big.Int).Sub(M, one)
		x.Quo(x, A) // the largest factor whose product with a still fits
		if mode == "prod>max" {
			x.Add(x, one)
			if x.Cmp(M) >= 0 {
				return a, a, "equal"
			}
		}
		if rapid.Bool().Draw(t, "swap") {
			return valOf(x), a, mode
		}
		return a, valOf(x), mode
	case "dividend=d*q+r":
		// a is the divisor; quotient and remainder are drawn, the dividend is computed
		if A.Sign() == 0 {
			return genVal(t, "b", w), val{1}, "independent"
		}
		q := genVal(t, "q", w).big()
		maxQ := new(big.Int).Sub(M, one)
		maxQ.Quo(maxQ, A)
		if q.Cmp(maxQ) > 0 {
			q.Mod(q, new(big.Int).Add(maxQ, one))
		}
		if rapid.IntRange(0, 3).Draw(t, "q_extreme") == 0 {
			q = maxQ
		}
		r := new(big.Int)
		switch rapid.IntRange(0, 3).Draw(t, "r_kind") {
		case 0: // exact division
		case 1:
			r.Sub(A, one) // largest remainder
		default:
			r.Mod(genVal(t, "r", w).big(), A)
		}
		x := new(big.Int).Mul(A, q)
		x.Add(x, r)
		if x.Cmp(M) >= 0 { // d*maxQ + r may leave the word: drop the remainder
			x.Sub(x, r)
		}
		return valOf(x), a, mode
	case "shifted":
		s := uint(rapid.IntRange(1, w-1).Draw(t, "s"))
		if rapid.Bool().Draw(t, "left") {
			x := new(big.Int).Lsh(A, s)
			return a, valOf(x.Mod(x, M)), mode
		}
		return a, valOf(new(big.Int).Rsh(A, s)), mode
	case "differ_in_one_limb":
		b := a
		i := rapid.IntRange(0, w/64-1).Draw(t, "limb")
		b[i] = genLimb(t, "other")
		return a, b, mode
	default: // "pow2_pair": 2^i (+-1) and 2^j (+-1) with i+j around the width
		i := rapid.IntRange(0, w-1).Draw(t, "i")
		jlo, jhi := max(0, w-i-2), min(w-1, w-i+1)
		j := rapid.IntRange(min(jlo, jhi), jhi).Draw(t, "j")
		x, y := pow2(i), pow2(j)
		x.Add(x, big.NewInt(int64(rapid.IntRange(-1, 1).Draw(t, "dx"))))
		y.Add(y, big.NewInt(int64(rapid.IntRange(-1, 1).Draw(t, "dy"))))
		if x.Sign() < 0 {
			x.SetInt64(0)
		}
		if y.Sign() < 0 {
			y.SetInt64(0)
		}
		return valOf(x), valOf(y), mode
	}
}

func TestPropRelated(t *testing.T) {
	rapid.Check(t, func(rt *rapid.T) {
		if hung.Load() {
			return
		}
		w := genWidth(rt)
		a, b, mode := genRelated(rt, w)
		var groups []string
		for _, g := range groupsOf[w] {
			switch g {
			case "shift", "shift64", "cast", "kmer":
			default:
				groups = append(groups, g)
			}
		}
		runGroups(rt, w, a, b, uint(rapid.IntRange(0, 1).Draw(rt, "carry")), groups, "related:"+mode)
	})
}
