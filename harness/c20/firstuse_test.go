package c20

import (
	"encoding/json"
	"fmt"
	"os"
	"os/exec"
	"strings"
	"sync"
	"sync/atomic"
	"testing"

	"git.metabarcoding.org/obitools/obitools4/obitools4/pkg/obifp"

	"pgregory.net/rapid"

	"verifharness/internal/evid"
)

// First use, from several goroutines at once.
//
// TestPropConcurrent runs its operand pairs through a single caller before the
// goroutines start, so whatever the package initialises lazily (a table filled at
// the first call, a once-per-process cache) is complete by then.  Here the very
// first calls of a FRESH process are the concurrent ones: the test re-executes
// its own binary; the child decodes the case from its environment and starts the
// goroutines at once, each of them judging every result against math/big.
type firstUseCase struct {
	Conc concCase `json:"conc"`
	Runs int      `json:"runs"` // fresh processes
}

func init() {
	evid.Reg("firstuse", checkFirstUse)
	evid.Tests(evid.Spec{Name: "TestPropFirstUse", Kind: "rapid", Quick: 48, Thorough: 800, QuickShards: 8, ThoroughShards: 16, TimeoutS: 3000})
	evid.Note("rule_firstuse", "firstuse: a concurrent case (see 'concurrent': 4..24 operand pairs x one group x 4/8/16 goroutines, 1 round) is handed to 12 (thorough 24) FRESH processes - the test binary re-executed - whose first calls into the package are the concurrent ones (no single-caller pass before): every result judged against math/big. Non-trivial = at least 4 goroutines and 4 pairs.")
}

const firstUseEnv = "VERIF_C20_FIRSTUSE_CASE"

// TestHelperFirstUse is the child: it does nothing unless the case is in the environment.
func TestHelperFirstUse(t *testing.T) {
	raw := os.Getenv(firstUseEnv)
	if raw == "" {
		t.Skip("helper of TestPropFirstUse")
	}
	var c concCase
	if err := json.Unmarshal([]byte(raw), &c); err != nil {
		fmt.Println("FIRSTUSE-HARNESS-ERROR", err)
		return
	}
	// (1) tight probe: the goroutines leave a spin barrier together and call the raw
	// operations at once, nothing else in between; what they got is compared afterwards
	// with what a single caller gets, which (2) is then judged against math/big
	if err := rawProbe(c); err != nil {
		fmt.Println("FIRSTUSE-VIOLATION", strings.ReplaceAll(err.Error(), "\n", " "))
		return
	}
	if err := runConcurrentOnly(c); err != nil {
		fmt.Println("FIRSTUSE-VIOLATION", strings.ReplaceAll(err.Error(), "\n", " "))
		return
	}
	fmt.Println("FIRSTUSE-OK")
}

// rawOps applies the operations of the FPUint interface to one operand pair and
// renders every result (limbs, or "panic" for an overflow signal).
func rawOps[T obifp.FPUint[T]](oc opCase, who int) []string {
	a, b := mk[T](oc.A), mk[T](oc.B)
	n := oc.N
	var out []string
	// first of all the shifts of the all-ones word (every dropped or invented bit shows),
	// by an amount that differs from caller to caller and sits near the ends of a limb
	ones := mk[T](val{^uint64(0), ^uint64(0), ^uint64(0), ^uint64(0)}.trunc(oc.W))
	k := []uint{63, 62, 61, 60, 1, 2, 33, 31}[who%8]
	l, r := ones.LeftShift(k), ones.RightShift(k)
	out = append(out, fmt.Sprintf("ones.LeftShift(%d)=%s", k, limbs[T](l).String()), fmt.Sprintf("ones.RightShift(%d)=%s", k, limbs[T](r).String()))
	add := func(name string, f func() T) {
		var r T
		o := try(func() { r = f() })
		if o.panicked {
			out = append(out, name+"=panic")
		} else {
			out = append(out, name+"="+limbs[T](r).String())
		}
	}
	add(fmt.Sprintf("LeftShift(%d)", n), func() T { return a.LeftShift(n) })
	add(fmt.Sprintf("RightShift(%d)", n), func() T { return a.RightShift(n) })
	add(fmt.Sprintf("LeftShift(%d)", n%63+1), func() T { return b.LeftShift(n%63 + 1) })
	add(fmt.Sprintf("RightShift(%d)", n%63+1), func() T { return b.RightShift(n%63 + 1) })
	add("Add", func() T { return a.Add(b) })
	add("Sub", func() T { return a.Sub(b) })
	add("Mul", func() T { return a.Mul(b) })
	add("And", func() T { return a.And(b) })
	add("Or", func() T { return a.Or(b) })
	add("Xor", func() T { return a.Xor(b) })
	add("Not", func() T { return a.Not() })
	out = append(out, fmt.Sprintf("cmp=%v%v%v%v", a.LessThan(b), a.LessThanOrEqual(b), a.GreaterThan(b), a.GreaterThanOrEqual(b)))
	return out
}

func rawOpsOf(w int, oc opCase, who int) []string {
	switch w {
	case 64:
		return rawOps[obifp.Uint64](oc, who)
	case 128:
		return rawOps[obifp.Uint128](oc, who)
	}
	return rawOps[obifp.Uint256](oc, who)
}

func rawProbe(c concCase) error {
	g := c.Goroutines
	got := make([][][]string, g)
	var ready, wg sync.WaitGroup
	var goFlag atomic.Bool
	ready.Add(g)
	for i := 0; i < g; i++ {
		wg.Add(1)
		go func(i int) {
			defer wg.Done()
			ready.Done()
			for !goFlag.Load() {
			}
			for k := range c.Cases {
				got[i] = append(got[i], rawOpsOf(c.W, c.Cases[(k+i)%len(c.Cases)], i))
			}
		}(i)
	}
	ready.Wait()
	goFlag.Store(true)
	wg.Wait()
	for i := 0; i < g; i++ {
		for k := range c.Cases {
			oc := c.Cases[(k+i)%len(c.Cases)]
			want := rawOpsOf(c.W, oc, i)
			for j := range want {
				if got[i][k][j] != want[j] {
					return fmt.Errorf("goroutine %d of %d, on %v: %s at the first (concurrent) use, the same call afterwards gives %s: the result of an operation depends on what else ran at the same time", i, g, oc, got[i][k][j], want[j])
				}
			}
		}
	}
	// the single-caller results themselves are judged by the sequential checks
	for _, oc := range c.Cases {
		if err := runCheck(c.Group, oc); err != nil {
			return fmt.Errorf("(single caller, after the concurrent first use) %w", err)
		}
	}
	return nil
}

func checkFirstUse(c firstUseCase) error {
	raw, err := json.Marshal(c.Conc)
	if err != nil {
		return nil
	}
	for r := 0; r < c.Runs; r++ {
		cmd := exec.Command(os.Args[0], "-test.run", "^TestHelperFirstUse$", "-test.count=1")
		for _, kv := range os.Environ() {
			// (the child must not write an evidence fragment or fail files of its own)
			if !strings.HasPrefix(kv, "VERIF_EVIDENCE_OUT=") && !strings.HasPrefix(kv, "VERIF_FAIL_DIR=") && !strings.HasPrefix(kv, "VERIF_REPLAY_") {
				cmd.Env = append(cmd.Env, kv)
			}
		}
		cmd.Env = append(cmd.Env, firstUseEnv+"="+string(raw))
		out, err := cmd.CombinedOutput()
		s := string(out)
		switch {
		case strings.Contains(s, "FIRSTUSE-VIOLATION"):
			i := strings.Index(s, "FIRSTUSE-VIOLATION")
			line := s[i:]
			if j := strings.IndexByte(line, '\n'); j > 0 {
				line = line[:j]
			}
			return fmt.Errorf("fresh process %d of %d, the first calls into the package made by %d goroutines at once: %s", r+1, c.Runs, c.Conc.Goroutines, strings.TrimPrefix(line, "FIRSTUSE-VIOLATION "))
		case strings.Contains(s, "FIRSTUSE-OK"):
		default:
			// the child could not run (machine out of threads, harness error): inconclusive
			_ = err
			evid.Class("firstuse_child_inconclusive", 1)
		}
	}
	return nil
}

func TestPropFirstUse(t *testing.T) {
	rapid.Check(t, func(rt *rapid.T) {
		c := genConcCase(rt)
		if len(c.Cases) < 2 {
			return
		}
		c.Goroutines = rapid.SampledFrom([]int{4, 8, 16}).Draw(rt, "fu_goroutines")
		c.Rounds = 1
		fc := firstUseCase{Conc: c, Runs: evid.Pick(12, 24)}
		evid.Eval("firstuse", evid.Hash(fmt.Sprintf("%+v", fc)), c.Goroutines >= 4 && len(c.Cases) >= 4, nil, "firstuse:"+checkName(c.W, c.Group))
		if err := checkFirstUse(fc); err != nil {
			evid.Fail(rt, "firstuse", fc, err)
		}
	})
}
