package c20

import (
	"testing"

	"verifharness/internal/evid"
)

// Native coverage-guided fuzzing over raw limbs: every operation group of the
// three widths against math/big.  Thorough tier only.
func FuzzLimbs(f *testing.F) {
	f.Add(uint64(1)<<63, uint64(1), uint64(0), uint64(0), ^uint64(0), ^uint64(0), uint64(0), uint64(0), uint(64), byte(1), byte(0))
	f.Add(^uint64(0), ^uint64(0), ^uint64(0), ^uint64(0), uint64(2), uint64(0), uint64(0), uint64(0), uint(129), byte(2), byte(2))
	f.Add(uint64(0), uint64(0), uint64(0), uint64(1)<<63, uint64(0), uint64(0), uint64(0), uint64(1), uint(255), byte(2), byte(3))
	f.Fuzz(func(t *testing.T, a0, a1, a2, a3, b0, b1, b2, b3 uint64, n uint, wsel, gsel byte) {
		if hung.Load() {
			t.Skip()
		}
		w := []int{64, 128, 256}[int(wsel)%3]
		c := opCase{W: w, A: val{a0, a1, a2, a3}, B: val{b0, b1, b2, b3}, N: n % uint(w+65)}
		for i := w / 64; i < 4; i++ {
			c.A[i], c.B[i] = 0, 0
		}
		groups := groupsOf[w]
		g := groups[int(gsel)%len(groups)]
		if g == "kmer" {
			c.N = c.N%uint(w/2) + 1
		}
		if excludedShape(g, c) != "" {
			return
		}
		if err := runCheck(g, c); err != nil {
			evid.Fail(t, checkName(w, g), c, err)
		}
	})
}
