// Property C20 — fixed-precision 64/128/256-bit integers agree with exact arithmetic.
//
// Every operation of obifp.Uint64 / Uint128 / Uint256 is run on operands that
// enter through hook H5 (raw limbs, so the inputs never depend on the shifts
// under test) and is compared with math/big.
//
// Domain decisions (sub-cases the statement does not decide; left out by construction)
//
//   - Division / remainder by zero (QuoRem, Div, Mod, QuoRem64, Div64, Mod64 with a zero
//     divisor): the statement speaks of exact results only; what happens on a zero divisor
//     (panic of whatever kind) is not asserted.  Counted as class "div:zero_divisor_left_out".
//   - Narrowing casts (Uint128.Uint64, Uint256.Uint64, Uint256.Uint128, AsUint64) of a value
//     that does not fit the target: the statement only requires that values that fit are
//     preserved.  For values that do not fit only "returns without panicking" is required
//     (the documentation of the casts says a warning is logged and a value returned).
//   - Uint64.LeftShift64 / RightShift64 (the per-limb primitives with carry-in / carry-out)
//     are compared with the formula of their documentation for 0 <= n <= 64.  For n > 64
//     their (value, carry) pair is an internal chaining convention of the callers, not a
//     shift of the word; those amounts are exercised only through LeftShift / RightShift of
//     the three types (all amounts 0..width+64).
//   - Uint64.Add64 / Sub64 take a carry/borrow-in that math/bits defines only for 0 or 1;
//     only 0 and 1 are generated.
//   - An overflow/underflow "signal" is a panic (log.Panicf).  Any panic is accepted as the
//     signal when the exact result does not fit; any panic when it fits is a violation.
//
// Known finding (see /verif/known_findings.txt): Uint128.Mul never looks at the partial
// product w1*w1, so with both high limbs non-zero the overflow is signalled only when
// the other partial products overflow as well.  The repair is three lines, but the pinned
// TestUint128_Mul expects the wrapped results {1,2}*{3,4}={10,8} and
// {100,200}*{300,400}={100000,80000} and would start failing.  The check "u128.mul" leaves
// out exactly the pairs whose only overflow evidence is that partial product (both high
// limbs non-zero and a*b - (a.w1*b.w1 << 128) < 2^128; counted in excluded_known_findings);
// every other pair stays checked.
package c20

import (
	"testing"

	"verifharness/internal/evid"
	"verifharness/internal/fatal"
)

const findingMul128 = "Uint128.Mul-overflow-only-in-w1*w1"

func TestMain(m *testing.M) {
	fatal.Install() // discards logrus output (casts and shifts log warnings), keeps panics observable
	evid.Tests(
		evid.Spec{Name: "FuzzLimbs", Kind: "fuzz", Thorough: 120, ThoroughOnly: true, QuickShards: 1, ThoroughShards: 1},
		evid.Spec{Name: "TestReplay", Kind: "plain", QuickShards: 1, ThoroughShards: 1},
		evid.Spec{Name: "TestGridSmall", Kind: "plain", QuickShards: 4, ThoroughShards: 4, TimeoutS: 3000},
		evid.Spec{Name: "TestGrid256", Kind: "plain", QuickShards: 16, ThoroughShards: 32, TimeoutS: 3000},
		evid.Spec{Name: "TestGridKmer", Kind: "plain", QuickShards: 4, ThoroughShards: 8, TimeoutS: 3000},
		evid.Spec{Name: "TestPropRandom", Kind: "rapid", Quick: 48000, Thorough: 2400000, QuickShards: 8, ThoroughShards: 16, TimeoutS: 3000},
		evid.Spec{Name: "TestPropConcurrent", Kind: "rapid", Quick: 1600, Thorough: 48000, QuickShards: 4, ThoroughShards: 8, TimeoutS: 3000},
		evid.Spec{Name: "TestPropRelated", Kind: "rapid", Quick: 32000, Thorough: 1600000, QuickShards: 8, ThoroughShards: 16, TimeoutS: 3000},
		evid.Spec{Name: "TestGridKmerMap", Kind: "plain", QuickShards: 4, ThoroughShards: 8, TimeoutS: 3000},
		evid.Spec{Name: "TestPropKmerMap", Kind: "rapid", Quick: 16000, Thorough: 240000, QuickShards: 4, ThoroughShards: 16, TimeoutS: 3000},
	)
	evid.Note("rule", "case = (width, operation group, operand A, operand B, amount N); one evaluation = all operations of one group on one case compared with math/big. "+
		"Grid: limbs from {0,1,2,2^31-1,2^31+1,2^32-1,2^32+1,2^63-1,2^63,2^64-2,2^64-1}; every value (11) and ordered pair for 64 bits, every limb combination (121) and ordered pair for 128 bits, "+
		"5 (quick) / 7 (thorough) values per limb for 256 bits (625 / 2401 values) and all ordered pairs; every shift amount 0..width+64 on every grid value. "+
		"Random: limbs drawn from a mixture (grid values, 2^k, 2^k+-1, uniform), second operand independent or built from the first (equal, +-1, complement to 2^width-1 / 2^width, divisor*quotient+remainder, shifted copy). "+
		"Oracle: math/big on the limbs read back through hook H5; Add/Sub/Mul/Add64/Mul64 must panic exactly when the exact result is outside [0,2^width). "+
		"Non-trivial = shift: amount >= 64 or a set bit crosses a limb boundary / leaves the word; addsub, arith64: a carry or borrow leaves a limb; mul, Mul64: the exact product needs more than 64 bits; "+
		"div: dividend > 2^64 and 1 < divisor <= dividend; cmp: limbs of the two operands order in conflicting directions (64 bits: operands differ); bits: both operands neither 0 nor all-ones; "+
		"cast: the value is not zero; kmer: k-mer longer than 32 nucleotides or sparse mask in use. Distinct = hash of (check, width, A, B, N). "+
		"Concurrent callers (check \"concurrent\"): a case = 4..24 operand pairs (a third of them sharing the second operand: same divisor / factor again and again) x one group x 2/4/8 goroutines x 50/200 rounds; every goroutine evaluates the group on every pair, each result judged against math/big as above, after a single-caller pass on the same pairs; non-trivial = at least 2 goroutines and 4 pairs. "+
		"First use (check \"firstuse\", rule in rule_firstuse): the concurrent case handed to fresh processes whose first calls into the package are concurrent ones. "+
		"Every group runs on its own goroutine under a 5 s watchdog (three consecutive expiries = non-termination; the test stops after the first such case)."+kmapRule)
	evid.Main(m, "C20")
}

func TestReplay(t *testing.T) { evid.Replay(t) }
