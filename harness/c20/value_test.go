package c20

import (
	"encoding/json"
	"fmt"
	"math/big"
	"sync/atomic"
	"time"

	"git.metabarcoding.org/obitools/obitools4/obitools4/pkg/obifp"
	log "github.com/sirupsen/logrus"
)

// ------------------------------------------------------------------ values

// val is an unsigned integer of up to 256 bits as little-endian 64-bit limbs.
// In JSON (replay files, samples) it is a hexadecimal string.
type val [4]uint64

func (v val) big() *big.Int {
	var b [32]byte
	for i := 0; i < 4; i++ {
		w := v[3-i]
		for j := 0; j < 8; j++ {
			b[i*8+j] = byte(w >> (56 - 8*j))
		}
	}
	return new(big.Int).SetBytes(b[:])
}

// valOf converts 0 <= x < 2^256.
func valOf(x *big.Int) val {
	if x.Sign() < 0 || x.BitLen() > 256 {
		panic(fmt.Sprintf("harness: valOf(%s) out of range", x.Text(16)))
	}
	var b [32]byte
	x.FillBytes(b[:])
	var v val
	for i := 0; i < 4; i++ {
		var w uint64
		for j := 0; j < 8; j++ {
			w = w<<8 | uint64(b[i*8+j])
		}
		v[3-i] = w
	}
	return v
}

func (v val) String() string { return "0x" + v.big().Text(16) }

func (v val) MarshalJSON() ([]byte, error) { return json.Marshal(v.String()) }

func (v *val) UnmarshalJSON(b []byte) error {
	var s string
	if err := json.Unmarshal(b, &s); err != nil {
		return err
	}
	x, ok := new(big.Int).SetString(s, 0)
	if !ok || x.Sign() < 0 || x.BitLen() > 256 {
		return fmt.Errorf("not an unsigned integer of at most 256 bits: %q", s)
	}
	*v = valOf(x)
	return nil
}

// fits says whether v < 2^w.
func (v val) fits(w int) bool {
	for i := w / 64; i < 4; i++ {
		if v[i] != 0 {
			return false
		}
	}
	return true
}

// trunc keeps the low w bits.
func (v val) trunc(w int) val {
	for i := w / 64; i < 4; i++ {
		v[i] = 0
	}
	return v
}

func pow2(n int) *big.Int { return new(big.Int).Lsh(big.NewInt(1), uint(n)) }

func u64big(x uint64) *big.Int { return new(big.Int).SetUint64(x) }

// ------------------------------------------------------------------ the three types behind one constraint

// fullUint is obifp.FPUint plus the methods the three types share without
// declaring them in the interface.
type fullUint[T obifp.Uint64 | obifp.Uint128 | obifp.Uint256] interface {
	obifp.FPUint[T]
	Cmp(v T) int
	Equals(v T) bool
	MaxValue() T
	Uint64() obifp.Uint64
	Uint128() obifp.Uint128
	Uint256() obifp.Uint256
}

func mk[T obifp.FPUint[T]](v val) T { return obifp.VerifFromLimbs[T](v[0], v[1], v[2], v[3]) }

func limbs[T obifp.FPUint[T]](x T) val {
	var v val
	switch u := any(x).(type) {
	case obifp.Uint64:
		l := obifp.VerifLimbs64(u)
		copy(v[:], l[:])
	case obifp.Uint128:
		l := obifp.VerifLimbs128(u)
		copy(v[:], l[:])
	case obifp.Uint256:
		l := obifp.VerifLimbs256(u)
		copy(v[:], l[:])
	}
	return v
}

// ------------------------------------------------------------------ guarded calls

type outcome struct {
	panicked bool
	msg      string
}

func (o outcome) String() string {
	if o.panicked {
		return "panic: " + o.msg
	}
	return "returned"
}

// try runs f and reports whether it panicked (log.Panicf panics with a
// *logrus.Entry after logging; runtime panics are observed the same way).
func try(f func()) (o outcome) {
	defer func() {
		if r := recover(); r != nil {
			o.panicked = true
			if e, ok := r.(*log.Entry); ok {
				o.msg = e.Message
			} else {
				o.msg = fmt.Sprint(r)
			}
		}
	}()
	f()
	return
}

// ------------------------------------------------------------------ watchdog

// hung is set once an operation did not return: the goroutine that runs it
// cannot be killed and keeps a core busy, so the enumerations and the rapid
// properties stop generating in this process.
var hung atomic.Bool

var watchdogDelay = 5 * time.Second

const watchdogAttempts = 3

type nonTermination struct{ what string }

func (e nonTermination) Error() string { return e.what }

// watched runs f on its own goroutine and waits for it.  An operation of this
// package takes nanoseconds (the slowest, the shift-and-subtract Uint256.Div,
// well under a millisecond); when no answer comes within watchdogDelay the same
// case is started again, and three consecutive expiries are reported as
// non-termination.
func watched(what func() string, f func() error) error {
	for attempt := 1; ; attempt++ {
		done := make(chan error, 1)
		go func() {
			finished := false
			defer func() {
				if !finished { // runtime.Goexit (logrus fatal) inside f
					done <- fmt.Errorf("%s: the goroutine running the operations was terminated (log.Fatal?)", what())
				}
			}()
			err := f()
			finished = true
			done <- err
		}()
		t := time.NewTimer(watchdogDelay)
		select {
		case err := <-done:
			t.Stop()
			return err
		case <-t.C:
			if attempt >= watchdogAttempts {
				hung.Store(true)
				return nonTermination{fmt.Sprintf("NON-TERMINATION: %s did not return within %v, %d times in a row (pure-CPU operations that normally take well under a millisecond)",
					what(), watchdogDelay, watchdogAttempts)}
			}
		}
	}
}
