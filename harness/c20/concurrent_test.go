package c20

import (
	"fmt"
	"sync"
	"testing"

	"git.metabarcoding.org/obitools/obitools4/obitools4/pkg/obifp"
	"pgregory.net/rapid"

	"verifharness/internal/evid"
)

// Concurrent callers.  Every operation of obifp is a function of its operands:
// the k-mer index calls them from all the worker goroutines of a command at the
// same time.  A case holds a set of operand pairs; G goroutines evaluate the
// same group of operations on all of them, R rounds each, every single result
// being judged against math/big exactly as in the sequential checks.  State
// kept between calls or shared between callers (a scratch buffer, a cache of
// intermediate results) shows as a wrong result in some goroutine.
type concCase struct {
	W          int      `json:"width"`
	Group      string   `json:"group"`
	Cases      []opCase `json:"cases"`
	Goroutines int      `json:"goroutines"`
	Rounds     int      `json:"rounds"`
}

func init() { evid.Reg("concurrent", checkConcurrent) }

func checkConcurrent(c concCase) error {
	for _, oc := range c.Cases {
		if oc.W != c.W || !oc.A.fits(c.W) || !oc.B.fits(c.W) {
			return fmt.Errorf("harness: operands of %v do not fit the width", oc)
		}
	}
	one := func(oc opCase) error {
		switch c.W {
		case 64:
			return checkGroup[obifp.Uint64](c.Group, oc)
		case 128:
			return checkGroup[obifp.Uint128](c.Group, oc)
		}
		return checkGroup[obifp.Uint256](c.Group, oc)
	}
	// sequential pass first: a failure here belongs to the sequential checks
	for _, oc := range c.Cases {
		if err := one(oc); err != nil {
			return fmt.Errorf("(single caller) %w", err)
		}
	}
	return runConcurrentOnly(c)
}

// runConcurrentOnly starts the goroutines at once (no single-caller pass before).
func runConcurrentOnly(c concCase) error {
	one := func(oc opCase) error {
		switch c.W {
		case 64:
			return checkGroup[obifp.Uint64](c.Group, oc)
		case 128:
			return checkGroup[obifp.Uint128](c.Group, oc)
		}
		return checkGroup[obifp.Uint256](c.Group, oc)
	}
	errs := make([]error, c.Goroutines)
	var start, wg sync.WaitGroup
	start.Add(1)
	for g := 0; g < c.Goroutines; g++ {
		wg.Add(1)
		go func(g int) {
			defer wg.Done()
			defer func() {
				if r := recover(); r != nil && errs[g] == nil {
					errs[g] = fmt.Errorf("goroutine %d: panic outside the operations' own overflow contract: %v", g, r)
				}
			}()
			start.Wait()
			for r := 0; r < c.Rounds; r++ {
				for i := range c.Cases {
					// each goroutine walks the cases from its own starting point
					oc := c.Cases[(i+g)%len(c.Cases)]
					if err := one(oc); err != nil {
						errs[g] = fmt.Errorf("with %d goroutines running %s on %d operand pairs at the same time (each pair is answered correctly by a single caller), goroutine %d round %d: %w", c.Goroutines, checkName(c.W, c.Group), len(c.Cases), g, r, err)
						return
					}
				}
			}
		}(g)
	}
	start.Done()
	wg.Wait()
	for _, e := range errs {
		if e != nil {
			return e
		}
	}
	return nil
}

// TestPropSequence: the same group on a SEQUENCE of operand pairs sharing an
// operand (same divisor / multiplier / shift amount again and again, operands
// growing and shrinking): results must not depend on the calls made before.
func TestPropConcurrent(t *testing.T) {
	rapid.Check(t, func(rt *rapid.T) {
		if hung.Load() {
			return
		}
		c := genConcCase(rt)
		if len(c.Cases) < 2 {
			return
		}
		w := c.W
		evid.Eval("concurrent", evid.Hash(fmt.Sprintf("%+v", c)), c.Goroutines >= 2 && len(c.Cases) >= 4, nil,
			"concurrent:"+checkName(w, c.Group), fmt.Sprintf("concurrent:goroutines_%d", c.Goroutines))
		if err := checkConcurrent(c); err != nil {
			evid.Fail(rt, "concurrent", c, err)
		}
	})
}

func genConcCase(rt *rapid.T) concCase {
	{
		w := genWidth(rt)
		groups := []string{}
		for _, g := range groupsOf[w] {
			if g != "kmer" {
				groups = append(groups, g)
			}
		}
		c := concCase{W: w, Group: rapid.SampledFrom(groups).Draw(rt, "group"), Goroutines: rapid.SampledFrom([]int{2, 4, 8}).Draw(rt, "goroutines"), Rounds: rapid.SampledFrom([]int{50, 200}).Draw(rt, "rounds")}
		n := rapid.IntRange(4, 24).Draw(rt, "npairs")
		shared := genVal(rt, "shared", w)
		for i := 0; i < n; i++ {
			oc := opCase{W: w, A: genVal(rt, "a", w), B: genVal(rt, "b", w)}
			if rapid.IntRange(0, 2).Draw(rt, "share") == 0 {
				oc.B = shared // the same second operand (divisor, factor) for many pairs
			}
			sh := genShift(rt, w)
			switch c.Group {
			case "shift":
				oc.B, oc.N = val{}, sh
			case "shift64":
				oc.N = sh % 65
			case "arith64":
				if w == 64 {
					oc.N = sh & 1
				}
			case "cast":
				oc.B = val{}
			}
			if excludedShape(c.Group, oc) != "" {
				continue
			}
			c.Cases = append(c.Cases, oc)
		}
		return c
	}
}
