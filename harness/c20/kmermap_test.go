// The real k-mer index obikmer.KmerMap[T] for T in {Uint64, Uint128, Uint256}.
//
// The "kmer" group (ops_test.go) runs a transcription of the expressions of
// kmermap.go through the generic interface; it proves the operations of obifp
// exact, not that kmermap.go reaches them (a mask computed in a machine word
// and widened afterwards never touches a defective operation of obifp).  Here
// the integers come out of the real NewKmerMap / NormalizedKmerSlice /
// KmerAsString / Push / Query / Len and are compared, through hook H5 (raw
// limbs), with an exact model: 2 bits per nucleotide (a=0, c=1, g=2, t=3, first
// nucleotide in the most significant digit), reverse complement, canonical =
// the smaller of the two, central nucleotide removed from both words in sparse
// mode (definition shared with harness/c19, which checks it at the string
// level for k <= 64).
//
// Domain decisions (left out by construction)
//
//   - k-mer sizes the word cannot hold are not generated: the effective size is
//     2..width/2 (dense, even) or 3..width/2-1 (sparse, odd).  NewKmerMap turns an
//     even request into k+1 in sparse mode and an odd request into k-1 in dense
//     mode (documented by its two warnings); requests are generated so that the
//     effective size stays in the range above and the effective size is asserted.
//   - sparse k = 1 (the k-mer is made of the ignored nucleotide only: every code
//     is 0 and KmerAsString has no digit to write) and dense k = 0 (request 1)
//     are not generated.
//   - Query: only WHICH indexed sequences are reported is asserted (a sequence
//     is reported iff it shares a canonical k-mer with the query, the query being
//     another object than the indexed sequences); the numbers attached to them
//     are not part of this property.
//   - nucleotides: a, c, g, t, plus IUPAC ambiguity codes that interrupt the
//     k-mers (a window holding one yields no k-mer).
package c20

import (
	"fmt"
	"math/big"
	"sort"
	"strings"
	"testing"

	"git.metabarcoding.org/obitools/obitools4/obitools4/pkg/obifp"
	"git.metabarcoding.org/obitools/obitools4/obitools4/pkg/obikmer"
	"git.metabarcoding.org/obitools/obitools4/obitools4/pkg/obiseq"
	"pgregory.net/rapid"

	"verifharness/internal/evid"
	"verifharness/internal/fatal"
	"verifharness/internal/gen"
)

const kmapRule = " K-mer index (check \"kmap\"): case = (width, requested k, sparse, nucleotide string, swept window, substitution selector). " +
	"The real obikmer.KmerMap[Uint64/Uint128/Uint256] is built for EVERY effective k the width holds (dense 2..width/2 even, sparse 3..width/2-1 odd; requests of the other parity are adjusted by NewKmerMap and the adjustment is asserted). " +
	"Grid (TestGridKmerMap): every (width, mode, k) x patterned words (c^k, (ac)*, (tg)*, a^h[c]t^h, t^(k-1)g, pseudo-random) with flanks; random (TestPropKmerMap): k biased to 31..33, 63..67, 95..97, 127/128, words = uniform, two-letter, 2-bit digits of a boundary-limb value, (near-)reverse-palindromes, homopolymer with one change, reads shorter than k, ambiguity codes. " +
	"Oracle (math/big + strings, no obitools code): NormalizedKmerSlice position by position = min(code(window), code(reverse complement)), central nucleotide dropped from both in sparse mode; KmerAsString = the canonical word ('#' at the skipped position); the reverse-complemented read gives the same codes in reverse order; a caller buffer changes nothing; " +
	"every position of the swept window is substituted in turn (one of the three other nucleotides, all three in thorough): the code changes exactly when the model's canonical word changes (no collision, central sparse position ignored) and is the exact code; " +
	"index: Push of the read and of substituted words, Len = number of distinct canonical words, Query(fresh copy / reverse complement / substituted / unrelated word) reports exactly the indexed sequences sharing a canonical word. " +
	"Non-trivial = the read holds a k-mer, a window of a,c,g,t was swept, and (sparse or k > 32). Distinct = hash of the whole case."

// ------------------------------------------------------------------ case

type kmapCase struct {
	W       int    `json:"width"`
	K       int    `json:"k"` // requested k-mer size
	Sparse  bool   `json:"sparse"`
	Seq     string `json:"seq"`
	Window  int    `json:"window"`   // start of the window whose positions are substituted in turn; -1: none
	Sub     uint64 `json:"sub"`      // selects the substituted nucleotide at each position
	AllSubs bool   `json:"all_subs"` // the three other nucleotides at every position
}

// effK is the k-mer size NewKmerMap documents for the request, and whether the
// word of the width holds it.
func (c kmapCase) effK() (int, bool) {
	k := c.K
	if c.Sparse && k%2 == 0 {
		k++
	}
	if !c.Sparse && k%2 == 1 {
		k--
	}
	if c.Sparse {
		return k, k >= 3 && 2*k < c.W
	}
	return k, k >= 2 && 2*k <= c.W
}

func init() { evid.Reg("kmap", checkKmap) }

func checkKmap(c kmapCase) error {
	what := func() string { return fmt.Sprintf("kmap on %+v", c) }
	return watched(what, func() error {
		switch c.W {
		case 64:
			return checkKmapT[obifp.Uint64](c)
		case 128:
			return checkKmapT[obifp.Uint128](c)
		case 256:
			return checkKmapT[obifp.Uint256](c)
		}
		return fmt.Errorf("harness: unknown width %d", c.W)
	})
}

// ------------------------------------------------------------------ the model (no obitools4 code)

func kmComp(b byte) byte {
	switch b {
	case 'a':
		return 't'
	case 'c':
		return 'g'
	case 'g':
		return 'c'
	case 't':
		return 'a'
	case 'r':
		return 'y'
	case 'y':
		return 'r'
	case 'm':
		return 'k'
	case 'k':
		return 'm'
	case 'b':
		return 'v'
	case 'v':
		return 'b'
	case 'd':
		return 'h'
	case 'h':
		return 'd'
	}
	return b
}

func kmRevcomp(s string) string {
	b := make([]byte, len(s))
	for i := 0; i < len(s); i++ {
		b[len(s)-1-i] = kmComp(s[i])
	}
	return string(b)
}

func kmIsACGT(s string) bool {
	for i := 0; i < len(s); i++ {
		switch s[i] {
		case 'a', 'c', 'g', 't':
		default:
			return false
		}
	}
	return true
}

// kmEncode reads the word as a base-4 number, first nucleotide first; skip >= 0
// leaves that position out.
func kmEncode(w string, skip int) *big.Int {
	r := new(big.Int)
	for i := 0; i < len(w); i++ {
		if i == skip {
			continue
		}
		r.Lsh(r, 2)
		r.Or(r, big.NewInt(int64(strings.IndexByte("acgt", w[i]))))
	}
	return r
}

type kmWin struct {
	code *big.Int
	str  string // canonical word, '#' at the skipped position
	rev  bool   // the reverse complement is strictly smaller
	pal  bool   // both strands give the same word
}

func kmCanon(w string, sparse bool) kmWin {
	r := kmRevcomp(w)
	skip := -1
	if sparse {
		skip = len(w) / 2
		w = w[:skip] + "#" + w[skip+1:]
		r = r[:skip] + "#" + r[skip+1:]
	}
	a, b := kmEncode(w, skip), kmEncode(r, skip)
	switch a.Cmp(b) {
	case 0:
		return kmWin{a, w, false, true}
	case 1:
		return kmWin{b, r, true, false}
	}
	return kmWin{a, w, false, false}
}

// kmWindows: the canonical k-mers of every window made of a, c, g, t, in position order.
func kmWindows(s string, k int, sparse bool) []kmWin {
	var out []kmWin
	for i := 0; i+k <= len(s); i++ {
		if w := s[i : i+k]; kmIsACGT(w) {
			out = append(out, kmCanon(w, sparse))
		}
	}
	return out
}

func splitmix(x uint64) uint64 {
	x += 0x9e3779b97f4a7c15
	x = (x ^ x>>30) * 0xbf58476d1ce4e5b9
	x = (x ^ x>>27) * 0x94d049bb133111eb
	return x ^ x>>31
}

// substituted returns w with position p replaced by the alt-th (1..3) next nucleotide.
func substituted(w string, p, alt int) string {
	b := []byte(w)
	b[p] = "acgt"[(strings.IndexByte("acgt", w[p])+alt)%4]
	return string(b)
}

// ------------------------------------------------------------------ the check

func checkKmapT[T obifp.FPUint[T]](c kmapCase) error {
	ke, ok := c.effK()
	if !ok {
		return fmt.Errorf("harness: k=%d (sparse %v) is not a k-mer size of %d-bit words", c.K, c.Sparse, c.W)
	}
	if c.Window >= 0 && (c.Window+ke > len(c.Seq) || !kmIsACGT(c.Seq[c.Window:c.Window+ke])) {
		return fmt.Errorf("harness: window %d of the case is not a word of a,c,g,t", c.Window)
	}
	what := fmt.Sprintf("KmerMap[Uint%d] k=%d (requested %d) sparse=%v", c.W, ke, c.K, c.Sparse)

	var km *obikmer.KmerMap[T]
	if out := fatal.Run(func() { km = obikmer.NewKmerMap[T](nil, uint(c.K), c.Sparse, -1) }); !out.Completed {
		return fmt.Errorf("NewKmerMap (%s) did not return: %v\n%s", what, out, out.Stack)
	}
	wantAt := -1
	if c.Sparse {
		wantAt = ke / 2
	}
	if int(km.Kmersize) != ke || km.KmerSize() != uint(ke) || km.SparseAt != wantAt {
		return fmt.Errorf("NewKmerMap (%s) built an index with k=%d, skipped position %d; expected k=%d, skipped position %d", what, km.Kmersize, km.SparseAt, ke, wantAt)
	}

	slice := func(s string, buf *[]T) ([]T, []string, error) {
		var ks []T
		var str []string
		out := fatal.Run(func() {
			ks = km.NormalizedKmerSlice(obiseq.NewBioSequence("s", []byte(s), ""), buf)
			for _, x := range ks {
				str = append(str, km.KmerAsString(x))
			}
		})
		if !out.Completed {
			return nil, nil, fmt.Errorf("%s: NormalizedKmerSlice / KmerAsString on %q did not return: %v\n%s", what, s, out, out.Stack)
		}
		return ks, str, nil
	}
	exact := func(s string, got []T, gotStr []string, want []kmWin) error {
		if len(got) != len(want) {
			return fmt.Errorf("%s: NormalizedKmerSlice(%q) returns %d k-mers; the read holds %d windows of %d nucleotides a,c,g,t", what, s, len(got), len(want), ke)
		}
		bad, first := 0, ""
		for i := range got {
			if g := limbs(got[i]).big(); g.Cmp(want[i].code) != 0 {
				if bad == 0 {
					first = fmt.Sprintf("k-mer #%d is 0x%s (%q); exact canonical code 0x%s (%s)", i, g.Text(16), gotStr[i], want[i].code.Text(16), want[i].str)
				}
				bad++
			}
		}
		if bad > 0 {
			return fmt.Errorf("%s: NormalizedKmerSlice(%q): %d of %d k-mers are not the exact 2-bit encoding of the canonical word: %s", what, s, bad, len(got), first)
		}
		for i := range got {
			if gotStr[i] != want[i].str {
				return fmt.Errorf("%s: KmerAsString(0x%s) = %q; the code is that of %s", what, want[i].code.Text(16), gotStr[i], want[i].str)
			}
		}
		return nil
	}

	// 1. every window of the read, position by position
	want := kmWindows(c.Seq, ke, c.Sparse)
	fw, fwStr, err := slice(c.Seq, nil)
	if err != nil {
		return err
	}
	if err := exact(c.Seq, fw, fwStr, want); err != nil {
		return err
	}

	// 2. the other strand: same codes, reverse order
	rc := kmRevcomp(c.Seq)
	rv, _, err := slice(rc, nil)
	if err != nil {
		return err
	}
	if len(rv) != len(fw) {
		return fmt.Errorf("%s: %d k-mers for %q, %d for its reverse complement", what, len(fw), c.Seq, len(rv))
	}
	for i := range fw {
		if rv[len(rv)-1-i] != fw[i] {
			return fmt.Errorf("%s: k-mer #%d of %q is %v (%s) but the same window read on the other strand (reverse complement %q, k-mer #%d) gives %v", what, i, c.Seq, limbs(fw[i]), fwStr[i], rc, len(rv)-1-i, limbs(rv[len(rv)-1-i]))
		}
	}

	// 3. a caller-provided buffer gives the same answer
	buf := make([]T, 3, 5)
	again, _, err := slice(c.Seq, &buf)
	if err != nil {
		return err
	}
	if len(again) != len(fw) {
		return fmt.Errorf("%s: NormalizedKmerSlice(%q) with a buffer returns %d k-mers, %d without", what, c.Seq, len(again), len(fw))
	}
	for i := range fw {
		if again[i] != fw[i] {
			return fmt.Errorf("%s: NormalizedKmerSlice(%q) with a buffer differs at k-mer #%d", what, c.Seq, i)
		}
	}

	if c.Window < 0 {
		return nil
	}

	// 4. one substitution at every position of the swept window
	word := c.Seq[c.Window : c.Window+ke]
	w0 := kmCanon(word, c.Sparse)
	k0, k0Str, err := slice(word, nil)
	if err != nil {
		return err
	}
	if err := exact(word, k0, k0Str, []kmWin{w0}); err != nil {
		return err
	}
	var collide, split []string
	for p := 0; p < ke; p++ {
		alts := []int{1 + int(splitmix(c.Sub^uint64(p))%3)}
		if c.AllSubs {
			alts = []int{1, 2, 3}
		}
		for _, alt := range alts {
			v := substituted(word, p, alt)
			wv := kmCanon(v, c.Sparse)
			kv, kvStr, err := slice(v, nil)
			if err != nil {
				return err
			}
			if len(kv) != 1 {
				return fmt.Errorf("%s: NormalizedKmerSlice(%q) returns %d k-mers for a word of %d nucleotides", what, v, len(kv), ke)
			}
			same := wv.code.Cmp(w0.code) == 0
			if (kv[0] == k0[0]) != same {
				d := fmt.Sprintf("%d(%c>%c)", p, word[p], v[p])
				if same {
					split = append(split, d)
				} else {
					collide = append(collide, d)
				}
				continue
			}
			if err := exact(v, kv, kvStr, []kmWin{wv}); err != nil {
				return err
			}
		}
	}
	if len(collide) > 0 {
		return fmt.Errorf("%s: COLLISION: the word %q and the words obtained by one substitution at position(s) %v get the same code %v although their canonical words differ (skipped position: %d)", what, word, collide, limbs(k0[0]), wantAt)
	}
	if len(split) > 0 {
		return fmt.Errorf("%s: the word %q and the words obtained by one substitution at position(s) %v have the same canonical word (skipped position: %d) but different codes", what, word, split, wantAt)
	}

	// 5. the index: Push, Len, Query
	pushed := []string{c.Seq}
	for _, p := range []int{0, ke/2 - 1, ke / 2, ke/2 + 1, ke - 1, int(splitmix(c.Sub) % uint64(ke))} {
		if p < 0 || p >= ke {
			continue
		}
		v := substituted(word, p, 1+int(splitmix(c.Sub^uint64(p))%3))
		dup := false
		for _, s := range pushed {
			dup = dup || s == v
		}
		if !dup {
			pushed = append(pushed, v)
		}
	}
	words := make([]map[string]bool, len(pushed))
	distinct := map[string]bool{}
	for i, s := range pushed {
		words[i] = map[string]bool{}
		for _, w := range kmWindows(s, ke, c.Sparse) {
			words[i][w.str] = true
			distinct[w.str] = true
		}
	}
	seqs := make([]*obiseq.BioSequence, len(pushed))
	var n int
	if out := fatal.Run(func() {
		for i, s := range pushed {
			seqs[i] = obiseq.NewBioSequence(fmt.Sprintf("r%d", i), []byte(s), "")
			km.Push(seqs[i])
		}
		n = km.Len()
	}); !out.Completed {
		return fmt.Errorf("%s: Push of %q did not return: %v\n%s", what, pushed, out, out.Stack)
	}
	if n != len(distinct) {
		return fmt.Errorf("%s: after Push of %q the index holds %d keys; the reads hold %d distinct canonical k-mers", what, pushed, n, len(distinct))
	}
	unrelated := []byte(word)
	for i := range unrelated { // a<->c, g<->t: another word at every position, not a strand of word
		unrelated[i] = "catg"[strings.IndexByte("acgt", word[i])]
	}
	queries := append(append([]string{}, pushed...), word, kmRevcomp(word), string(unrelated))
	for _, q := range queries {
		var hits obikmer.KmerMatch
		if out := fatal.Run(func() { hits = km.Query(obiseq.NewBioSequence("q", []byte(q), "")) }); !out.Completed {
			return fmt.Errorf("%s: Query(%q) did not return: %v\n%s", what, q, out, out.Stack)
		}
		qw := map[string]bool{}
		for _, w := range kmWindows(q, ke, c.Sparse) {
			qw[w.str] = true
		}
		var got, exp []int
		for i := range pushed {
			if _, ok := hits[seqs[i]]; ok {
				got = append(got, i)
			}
			share := false
			for s := range words[i] {
				share = share || qw[s]
			}
			if share {
				exp = append(exp, i)
			}
		}
		sort.Ints(got)
		if fmt.Sprint(got) != fmt.Sprint(exp) || len(hits) != len(exp) {
			return fmt.Errorf("%s: index of the reads %q: Query(%q) reports the reads %v (%d entries); the reads sharing a canonical k-mer with the query are %v", what, pushed, q, got, len(hits), exp)
		}
	}
	return nil
}

// ------------------------------------------------------------------ classes

func kmapDescribe(c kmapCase) (bool, []string) {
	ke, _ := c.effK()
	cl := []string{fmt.Sprintf("kmap:w%d", c.W)}
	add := func(s string) { cl = append(cl, "kmap:"+s) }
	if c.Sparse {
		add("sparse")
	} else {
		add("dense")
	}
	if ke != c.K {
		add("request_parity_adjusted")
	}
	switch {
	case ke <= 32:
		add("k<=32")
	case ke <= 64:
		add("32<k<=64")
	default:
		add("k>64")
	}
	if !c.Sparse && 2*ke == c.W || c.Sparse && 2*ke == c.W-2 {
		add("k_fills_word")
	}
	if c.Sparse && 2*(ke/2) > 64 {
		add("sparse_half_kmer>64bits")
	}
	if c.Sparse && 2*(ke/2) == 64 {
		add("sparse_half_kmer==64bits")
	}
	switch {
	case len(c.Seq) < ke:
		add("len<k")
	case len(c.Seq) == ke:
		add("len==k")
	default:
		add("len>k")
	}
	if 2*len(c.Seq) > c.W {
		add("read_longer_than_word")
	}
	if !kmIsACGT(c.Seq) {
		add("ambiguity_codes")
	}
	wins := kmWindows(c.Seq, ke, c.Sparse)
	nfw, nrv, npal := 0, 0, 0
	for _, w := range wins {
		switch {
		case w.pal:
			npal++
		case w.rev:
			nrv++
		default:
			nfw++
		}
	}
	if nfw > 0 && nrv > 0 {
		add("both_strands_canonical")
	}
	if npal > 0 {
		add("window_equal_to_its_reverse_complement")
	}
	if len(wins) == 0 {
		add("no_kmer")
	}
	if c.Window >= 0 {
		add("swept")
		w := kmCanon(c.Seq[c.Window:c.Window+ke], c.Sparse)
		switch bl := w.code.BitLen(); {
		case bl > 128:
			add("code>128bits")
		case bl > 64:
			add("code>64bits")
		}
	}
	return len(wins) > 0 && c.Window >= 0 && (c.Sparse || ke > 32), cl
}

func evalKmap(t tb, c kmapCase, extra ...string) bool {
	if hung.Load() {
		return false
	}
	nt, cl := kmapDescribe(c)
	evid.Eval("kmap", evid.Hash(fmt.Sprintf("%+v", c)), nt, c, append(cl, extra...)...)
	if err := checkKmap(c); err != nil {
		if tt, ok := t.(*testing.T); ok {
			evid.Fail(softTB{tt}, "kmap", c, err)
			return false
		}
		evid.Fail(t, "kmap", c, err)
		return false
	}
	return true
}

// firstWindow returns prefer when that window is made of a,c,g,t, else the first such window, else -1.
func firstWindow(s string, k, prefer int) int {
	if prefer >= 0 && prefer+k <= len(s) && kmIsACGT(s[prefer:prefer+k]) {
		return prefer
	}
	for i := 0; i+k <= len(s); i++ {
		if kmIsACGT(s[i : i+k]) {
			return i
		}
	}
	return -1
}

// ------------------------------------------------------------------ enumeration: every k of every width, both modes

func pseudoSeq(seed uint64, n int) string {
	b := make([]byte, n)
	for i := range b {
		seed = splitmix(seed)
		b[i] = "acgt"[seed>>40&3]
	}
	return string(b)
}

func TestGridKmerMap(t *testing.T) {
	shard, n := evid.Shard(), evid.NShards()
	idx := 0
	nrand := evid.Pick(2, 6)
	for _, w := range []int{64, 128, 256} {
		for _, sparse := range []bool{false, true} {
			for k := 2; 2*k <= w; k++ {
				c := kmapCase{W: w, K: k, Sparse: sparse, AllSubs: evid.Thorough()}
				if ke, ok := c.effK(); !ok || ke != k {
					continue
				}
				idx++
				if idx%n != shard {
					continue
				}
				h := k / 2
				mid := ""
				if k%2 == 1 {
					mid = "c"
				}
				type shaped struct{ name, word string }
				words := []shaped{
					{"c^k", strings.Repeat("c", k)},
					{"(ac)*", strings.Repeat("ac", k)[:k]},
					{"(tg)*", strings.Repeat("tg", k)[:k]},
					{"a^h[c]t^h", strings.Repeat("a", h) + mid + strings.Repeat("t", h)},
					{"t^(k-1)g", strings.Repeat("t", k-1) + "g"},
				}
				for i := 0; i < nrand; i++ {
					words = append(words, shaped{"pseudo_random", pseudoSeq(uint64(w)<<32|uint64(k)<<8|uint64(i)<<1|uint64(len(mid)), k)})
				}
				for i, sw := range words {
					seed := splitmix(uint64(w)*1000003 + uint64(k)*8191 + uint64(i))
					pre := pseudoSeq(seed, int(seed%5))
					post := pseudoSeq(seed+1, int(seed>>8%5))
					c.Seq, c.Window, c.Sub = pre+sw.word+post, len(pre), seed
					if !evalKmap(t, c, "grid", "kmap:shape:"+sw.name) {
						return
					}
				}
			}
		}
	}
	evid.Exhaustive("real obikmer.KmerMap[Uint64/Uint128/Uint256]: every k-mer size the word holds (dense 2,4..width/2; sparse 3,5..width/2-1) x patterned and pseudo-random words with 0..4 flanking nucleotides on each side: exact canonical codes of every window, strand symmetry, one substitution at every position of the word (collision-free), Push/Len/Query")
}

// ------------------------------------------------------------------ random cases

// digitsWord: the word of k nucleotides whose 2-bit encoding is v mod 4^k.
func digitsWord(v val, k int) string {
	b := make([]byte, k)
	for j := 0; j < k; j++ { // j-th digit from the least significant end
		b[k-1-j] = "acgt"[v[j/32]>>(2*(j%32))&3]
	}
	return string(b)
}

func genKmap(t *rapid.T) (kmapCase, string) {
	c := kmapCase{W: rapid.SampledFrom([]int{64, 128, 256, 256}).Draw(t, "width"), Sparse: rapid.Bool().Draw(t, "sparse"), AllSubs: evid.Thorough()}
	maxK := c.W / 2
	magic := []int{3, 32, 65, 67, 96, 127} // +-1 each: 31..33, 64..68, 95..97, 126..128
	if c.Sparse {
		c.K = gen.Len(t, "k", 2, maxK-1, magic...)
		if c.K%2 == 0 && rapid.IntRange(0, 4).Draw(t, "even_request") != 0 {
			c.K++
		}
	} else {
		c.K = gen.Len(t, "k", 2, maxK, magic...)
		if c.K%2 == 1 && rapid.IntRange(0, 4).Draw(t, "odd_request") != 0 {
			c.K--
		}
	}
	ke, _ := c.effK()
	shape := rapid.SampledFrom([]string{"uniform", "uniform", "two_letter", "limb_digits", "limb_digits", "near_palindrome", "homopolymer_one_change", "shorter_than_k"}).Draw(t, "shape")
	var word string
	switch shape {
	case "uniform":
		word = gen.Seq(t, "word", ke, gen.ACGT)
	case "two_letter":
		word = gen.Seq(t, "word", ke, rapid.SampledFrom([]string{"at", "ac", "cg", "gt", "ag", "ct"}).Draw(t, "alphabet"))
	case "limb_digits":
		word = digitsWord(genVal(t, "digits", 256), ke)
	case "near_palindrome":
		h := gen.Seq(t, "half", ke/2, gen.ACGT)
		mid := ""
		if ke%2 == 1 {
			mid = gen.Seq(t, "mid", 1, gen.ACGT)
		}
		word = h + mid + kmRevcomp(h)
		if rapid.IntRange(0, 3).Draw(t, "exact_palindrome") != 0 {
			word = substituted(word, rapid.IntRange(0, ke-1).Draw(t, "p"), rapid.IntRange(1, 3).Draw(t, "alt"))
		}
	case "homopolymer_one_change":
		word = strings.Repeat(string("acgt"[rapid.IntRange(0, 3).Draw(t, "base")]), ke)
		word = substituted(word, gen.Len(t, "p", 0, ke-1, ke/2, 32, 64), rapid.IntRange(1, 3).Draw(t, "alt"))
	case "shorter_than_k":
		c.Seq, c.Window = gen.Seq(t, "word", ke-1, gen.ACGT), -1
		c.Sub = rapid.Uint64().Draw(t, "sub")
		return c, shape
	}
	extra := gen.Len(t, "extra", 0, evid.Pick(40, 200), 1, ke)
	if rapid.IntRange(0, 2).Draw(t, "no_flank") == 0 {
		extra = 0
	}
	npre := rapid.IntRange(0, extra).Draw(t, "npre")
	flank := gen.Seq(t, "flank", extra, gen.ACGT)
	seq := []byte(flank[:npre] + word + flank[npre:])
	if rapid.IntRange(0, 5).Draw(t, "ambiguity") == 0 {
		for i, n := 0, rapid.IntRange(1, 2).Draw(t, "nambiguity"); i < n; i++ {
			seq[rapid.IntRange(0, len(seq)-1).Draw(t, "apos")] = gen.IUPAC[rapid.IntRange(4, len(gen.IUPAC)-1).Draw(t, "asym")]
		}
	}
	c.Seq = string(seq)
	c.Window = firstWindow(c.Seq, ke, npre)
	c.Sub = rapid.Uint64().Draw(t, "sub")
	return c, shape
}

func TestPropKmerMap(t *testing.T) {
	rapid.Check(t, func(rt *rapid.T) {
		if hung.Load() {
			return
		}
		c, shape := genKmap(rt)
		evalKmap(rt, c, "random", "kmap:shape:"+shape)
	})
}
