package c10

import (
	"strings"
	"testing"

	"verifharness/internal/evid"
)

// Native coverage-guided fuzzing of the substitution-only matcher and of the
// indel matcher: the bytes are decoded into a pattern of the documented grammar
// (domain decisions of prop_test.go: '!' on single letters only, no '!' with
// classes, at most 63 positions) and a lower-case sequence.  Thorough tier only.
func decodePattern(b []byte) (pat string, pure bool) {
	const letters = "ACGTRYMKWSBDHVN"
	var sb strings.Builder
	pure = true
	n := 0
	for i := 0; i < len(b) && n < 63; i++ {
		l := letters[int(b[i]&15)%len(letters)]
		switch (b[i] >> 4) & 7 {
		case 1:
			sb.WriteByte(l)
			sb.WriteByte('#')
			pure = false
		case 2:
			sb.WriteByte('!')
			sb.WriteByte(l)
			pure = false
		case 3:
			if i+1 < len(b) {
				i++
				sb.WriteByte('[')
				sb.WriteByte(l)
				sb.WriteByte(letters[int(b[i]&15)%len(letters)])
				sb.WriteByte(']')
				pure = false
			} else {
				sb.WriteByte(l)
			}
		default:
			sb.WriteByte(l)
		}
		n++
	}
	return sb.String(), pure
}

func decodeSeq(b []byte, ambiguity bool) string {
	const acgt = "acgt"
	const amb = "rymkwsbdhvn"
	out := make([]byte, 0, len(b))
	for _, c := range b {
		if ambiguity && c >= 250 {
			out = append(out, amb[int(c)%len(amb)])
		} else {
			out = append(out, acgt[c&3])
		}
	}
	return string(out)
}

func FuzzMatch(f *testing.F) {
	f.Add([]byte("\x00\x01\x02\x03\x00\x01\x02\x03"), []byte("\x00\x01\x02\x03\x00\x01\x02\x03\x00\x00\x01"), byte(1), byte(0))
	f.Add([]byte("\x10\x21\x32\x05\x03\x0e\x0e"), []byte("\x03\x03\x00\x01\x02\x03\x03\x03\x03\x03\x03\x03"), byte(2), byte(1))
	f.Fuzz(func(t *testing.T, pb, sb []byte, budget, mode byte) {
		if len(pb) == 0 || len(pb) > 80 || len(sb) > 300 {
			return
		}
		pattern, pure := decodePattern(pb)
		pp, err := parsePattern(pattern)
		if err != nil || len(pp) == 0 || len(pp) > 63 {
			return
		}
		switch mode % 2 {
		case 0:
			c := findCase{Pattern: pattern, Budget: int(budget % 5), Seq: decodeSeq(sb, true), Begin: 0, Length: -1}
			if err := checkFind(c); err != nil {
				evid.Fail(t, "find", c, err)
			}
		case 1:
			if strings.ContainsAny(pattern, "#") || len(pp) < 2 {
				return
			}
			seq := decodeSeq(sb, false)
			c := indelCase{Pattern: pattern, Budget: min(int(budget%4), len(pp)-1), Seq: seq, Begin: 0, Length: -1, Realign: pure && len(seq) > len(pp)}
			if err := checkIndel(c); err != nil {
				evid.Fail(t, "indel", c, err)
			}
		}
	})
}
