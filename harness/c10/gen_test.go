package c10

import (
	"strings"

	"pgregory.net/rapid"

	"verifharness/internal/evid"
	"verifharness/internal/gen"
	"verifharness/internal/ref"
)

// Known finding patlen64: a pattern of exactly 64 positions (the documented
// maximum) never matches.  The length is still drawn from 1..64; a draw of 64 is
// counted and replaced by 63.
const maxPositions = 63

type patOpts struct {
	pure      bool // plain IUPAC letters only
	noOblig   bool
	maxPos    int
	minPos    int
	lowComplx bool // template over a 1- or 2-letter alphabet (self-overlapping matches)
}

// lettersWith / lettersWithout: IUPAC letters whose base set contains / avoids base b.
func lettersFor(b byte, containing bool) string {
	var out []byte
	bs := ref.IUPACSet(b)
	for i := 0; i < len(ref.IUPACLetters); i++ {
		l := ref.IUPACLetters[i]
		if (ref.IUPACSet(l)&bs != 0) == containing {
			out = append(out, l)
		}
	}
	return string(out)
}

func drawPositions(t *rapid.T, o patOpts) int {
	hi := 64
	if o.maxPos > 0 {
		hi = o.maxPos
	}
	lo := max(1, o.minPos)
	var n int
	rng := func(a, b int) int {
		a, b = min(hi, max(lo, a)), min(hi, max(lo, b))
		return rapid.IntRange(a, b).Draw(t, "patlen")
	}
	switch rapid.IntRange(0, 9).Draw(t, "patlen_kind") {
	case 0, 1, 2:
		n = rng(1, 8)
	case 3, 4, 5, 6:
		n = rng(9, 32)
	case 7:
		n = rng(33, 64)
	default:
		n = gen.Len(t, "patlen", lo, hi, 1, 2, 31, 32, 33, 62, 63, 64)
	}
	if n > maxPositions {
		evid.Excluded("patlen64", 1)
		n = maxPositions
	}
	return n
}

// genPattern draws a pattern from the grammar together with a template: a
// sequence over acgt that the pattern matches without error (except at the few
// positions deliberately written against the template).
func genPattern(t *rapid.T, o patOpts) (pattern, template string) {
	n := drawPositions(t, o)
	alpha := gen.ACGT
	if o.lowComplx {
		alpha = rapid.SampledFrom([]string{"a", "ac", "at", "acg"}).Draw(t, "tmpl_alpha")
	}
	template = gen.Seq(t, "template", n, alpha)
	if o.lowComplx && n >= 4 && rapid.Bool().Draw(t, "periodic") {
		unit := template[:rapid.IntRange(1, 3).Draw(t, "period")]
		template = strings.Repeat(unit, n/len(unit)+1)[:n]
	}
	// per-case rates (out of 100) of the non-plain forms
	ambRate := rapid.SampledFrom([]int{0, 10, 30}).Draw(t, "amb_rate")
	classRate, negRate, obligRate := 0, 0, 0
	if !o.pure {
		classRate = rapid.SampledFrom([]int{0, 0, 10, 25}).Draw(t, "class_rate")
		negRate = rapid.SampledFrom([]int{0, 0, 8, 20}).Draw(t, "neg_rate")
		if !o.noOblig {
			obligRate = rapid.SampledFrom([]int{0, 0, 10, 30, 100}).Draw(t, "oblig_rate")
		}
	}
	forms := rapid.SliceOfN(rapid.IntRange(0, 99), n, n).Draw(t, "forms")
	obl := rapid.SliceOfN(rapid.IntRange(0, 99), n, n).Draw(t, "oblig")
	var sb strings.Builder
	for i := 0; i < n; i++ {
		b := template[i]
		f := forms[i]
		switch {
		case f < classRate:
			// a class containing the template base and up to three other letters
			k := rapid.IntRange(0, 3).Draw(t, "class_extra")
			members := []byte{b}
			for j := 0; j < k; j++ {
				members = append(members, ref.IUPACLetters[rapid.IntRange(0, len(ref.IUPACLetters)-1).Draw(t, "class_letter")])
			}
			if k > 0 && rapid.Bool().Draw(t, "class_rot") {
				members[0], members[len(members)-1] = members[len(members)-1], members[0]
			}
			sb.WriteByte('[')
			sb.Write(members)
			sb.WriteByte(']')
		case f < classRate+negRate:
			// negation of a letter that does not contain the template base
			ls := lettersFor(b, false)
			sb.WriteByte('!')
			sb.WriteByte(ls[rapid.IntRange(0, len(ls)-1).Draw(t, "neg_letter")])
		case f < classRate+negRate+ambRate:
			ls := lettersFor(b, true)
			sb.WriteByte(ls[rapid.IntRange(0, len(ls)-1).Draw(t, "amb_letter")])
		case f >= 98:
			// written against the template
			ls := lettersFor(b, false)
			sb.WriteByte(ls[rapid.IntRange(0, len(ls)-1).Draw(t, "anti_letter")])
		default:
			sb.WriteByte(b)
		}
		if obl[i] < obligRate {
			sb.WriteByte('#')
		}
	}
	pattern = sb.String()
	switch rapid.IntRange(0, 4).Draw(t, "case") {
	case 0:
		// as typed by users of the library: lower case
	default:
		pattern = strings.ToUpper(pattern)
	}
	return pattern, template
}

// plant builds a sequence holding (mutated) copies of the template: at offset 0,
// at the very end, adjacent, overlapping; returns the offset of the first copy.
func plant(t *rapid.T, template string, budget int, kinds string, maxFlank int, lowComplx bool) (seq string, firstAt int) {
	flankAlpha := gen.ACGT
	if lowComplx {
		flankAlpha = rapid.SampledFrom([]string{"a", "ac", "acgt"}).Draw(t, "flank_alpha")
	}
	mutated := func(label string) string {
		k := budget + rapid.SampledFrom([]int{-1, 0, 0, 1, 1, 2, -4}).Draw(t, label+"_delta")
		if k < 0 {
			k = 0
		}
		s, _ := gen.Mutate(t, label, template, k, gen.ACGT, kinds)
		return s
	}
	var sb strings.Builder
	left := gen.Len(t, "left", 0, maxFlank, 1, 2)
	if rapid.IntRange(0, 3).Draw(t, "left0") == 0 {
		left = 0
	}
	sb.WriteString(gen.Seq(t, "leftseq", left, flankAlpha))
	firstAt = left
	switch rapid.IntRange(0, 9).Draw(t, "layout") {
	case 0: // no copy at all
		sb.WriteString(gen.Seq(t, "noise", gen.Len(t, "noiselen", 0, len(template)+3, len(template)), flankAlpha))
	case 1, 2: // two copies, a short or empty spacer
		sb.WriteString(mutated("copy1"))
		sb.WriteString(gen.Seq(t, "spacer", rapid.IntRange(0, 3).Draw(t, "spacerlen"), flankAlpha))
		sb.WriteString(mutated("copy2"))
	case 3: // a copy and an overlapping partial copy
		c1 := mutated("copy1")
		cut := rapid.IntRange(0, len(c1)).Draw(t, "cut")
		sb.WriteString(c1[:cut])
		sb.WriteString(mutated("copy2"))
	case 4: // truncated copy (does not fit)
		c1 := mutated("copy1")
		sb.WriteString(c1[:rapid.IntRange(0, len(c1)).Draw(t, "trunc")])
	default:
		sb.WriteString(mutated("copy1"))
	}
	right := gen.Len(t, "right", 0, maxFlank, 1, 2)
	if rapid.IntRange(0, 3).Draw(t, "right0") == 0 {
		right = 0
	}
	sb.WriteString(gen.Seq(t, "rightseq", right, flankAlpha))
	return sb.String(), firstAt
}

// sprinkle replaces a few symbols by IUPAC ambiguity letters.
func sprinkle(t *rapid.T, s string) string {
	if len(s) == 0 {
		return s
	}
	b := []byte(s)
	k := rapid.IntRange(1, 1+len(s)/12).Draw(t, "n_amb")
	for i := 0; i < k; i++ {
		b[rapid.IntRange(0, len(b)-1).Draw(t, "amb_pos")] = gen.IUPAC[4+rapid.IntRange(0, 10).Draw(t, "amb_sym")]
	}
	return string(b)
}

func drawWindow(t *rapid.T, n, patlen, at int) (begin, length int) {
	// one window in ten comes from the boundary values of the arguments
	// themselves (window_test.go): huge, negative, exactly at the end, ...
	if rapid.IntRange(0, 9).Draw(t, "edge_window") == 0 {
		begin, length, _ = drawEdgeWindow(t, n, patlen, at)
		return
	}
	switch rapid.IntRange(0, 7).Draw(t, "begin_kind") {
	case 0, 1, 2, 3:
		begin = 0
	case 4:
		begin = at
	case 5:
		begin = at + rapid.SampledFrom([]int{-1, 1}).Draw(t, "begin_off")
	default:
		begin = rapid.IntRange(0, n+1).Draw(t, "begin")
	}
	if begin < 0 {
		begin = 0
	}
	switch rapid.IntRange(0, 7).Draw(t, "length_kind") {
	case 0, 1, 2, 3:
		length = -1
	case 4:
		length = patlen + rapid.SampledFrom([]int{-1, 0, 0, 1}).Draw(t, "length_off")
	case 5:
		length = n - begin + rapid.SampledFrom([]int{-1, 0, 1}).Draw(t, "length_off")
	default:
		length = rapid.IntRange(0, n+1).Draw(t, "length")
	}
	if length < -1 {
		length = 0
	}
	return
}

func drawBudget(t *rapid.T) int {
	return rapid.SampledFrom([]int{0, 0, 1, 1, 1, 2, 2, 3, 4}).Draw(t, "budget")
}
