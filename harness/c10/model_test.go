package c10

// Independent model of the pattern language of obiapat and of what "matches"
// means.  Nothing here calls obitools4.

import (
	"fmt"
	"sort"
	"strings"

	"verifharness/internal/ref"
)

// ppos is one position of a parsed pattern.
type ppos struct {
	Bases uint8 // set over A=1,C=2,G=4,T=8 of the letters written at this position (before negation)
	Neg   bool  // !x
	Oblig bool  // x#
	Class bool  // written as [..]
}

// letterBit maps the four bases to their bit in the 26-letter alphabet.
var baseLetterBit = [4]uint32{1 << ('a' - 'a'), 1 << ('c' - 'a'), 1 << ('g' - 'a'), 1 << ('t' - 'a')}

// set26 is the set of sequence symbols (26 lower-case letters) the position
// accepts: the bases of its IUPAC letters; a negated position accepts every
// letter that is not one of those bases (complement over the 26 letters).
func (p ppos) set26() uint32 {
	var s uint32
	for i := 0; i < 4; i++ {
		if p.Bases&(1<<i) != 0 {
			s |= baseLetterBit[i]
		}
	}
	if p.Neg {
		s = ^s & (1<<26 - 1)
	}
	return s
}

func (p ppos) match(c byte) bool {
	if c < 'a' || c > 'z' {
		return false
	}
	return p.set26()>>(c-'a')&1 == 1
}

// parsePattern reads the pattern grammar documented at MakeApatPattern:
//
//	position := ['!'] ( letter | '[' letter+ ']' ) ['#']
//
// letters are IUPAC nucleotide codes in either case.
func parsePattern(p string) ([]ppos, error) {
	var out []ppos
	i := 0
	for i < len(p) {
		var q ppos
		if p[i] == '!' {
			q.Neg = true
			i++
		}
		if i >= len(p) {
			return nil, fmt.Errorf("pattern %q ends after '!'", p)
		}
		if p[i] == '[' {
			q.Class = true
			i++
			n := 0
			for i < len(p) && p[i] != ']' {
				s := ref.IUPACSet(p[i])
				if s == 0 {
					return nil, fmt.Errorf("pattern %q: %q is not a nucleotide code", p, p[i])
				}
				q.Bases |= s
				n++
				i++
			}
			if i >= len(p) || n == 0 {
				return nil, fmt.Errorf("pattern %q: bad class", p)
			}
			i++ // ]
		} else {
			s := ref.IUPACSet(p[i])
			if s == 0 {
				return nil, fmt.Errorf("pattern %q: %q is not a nucleotide code", p, p[i])
			}
			q.Bases = s
			i++
		}
		if i < len(p) && p[i] == '#' {
			q.Oblig = true
			i++
		}
		out = append(out, q)
	}
	if len(out) == 0 {
		return nil, fmt.Errorf("empty pattern")
	}
	return out, nil
}

func complement4(b uint8) uint8 {
	var r uint8
	if b&1 != 0 { // A -> T
		r |= 8
	}
	if b&8 != 0 { // T -> A
		r |= 1
	}
	if b&2 != 0 { // C -> G
		r |= 4
	}
	if b&4 != 0 { // G -> C
		r |= 2
	}
	return r
}

// revcompModel is the pattern that matches the reverse-complemented sequences:
// positions in reverse order, every base replaced by its complement, negation
// and obligatory marks kept on their position.
func revcompModel(pp []ppos) []ppos {
	out := make([]ppos, len(pp))
	for i, p := range pp {
		q := p
		q.Bases = complement4(p.Bases)
		out[len(pp)-1-i] = q
	}
	return out
}

// isPure reports whether the pattern is a plain string of IUPAC letters.
func isPure(pp []ppos) bool {
	for _, p := range pp {
		if p.Neg || p.Oblig || p.Class {
			return false
		}
	}
	return true
}

type hit = [3]int

// bruteHits lists every (start, start+m, mismatches) such that the window
// s[start:start+m] differs from the pattern at no more than budget positions,
// none of them obligatory.  One entry per start, in increasing order: the
// count is the Hamming distance, which is the minimal count for that position.
func bruteHits(pp []ppos, s string, budget int) []hit {
	m := len(pp)
	var out []hit
	for st := 0; st+m <= len(s); st++ {
		d := 0
		ok := true
		for i := 0; i < m; i++ {
			if !pp[i].match(s[st+i]) {
				if pp[i].Oblig {
					ok = false
					break
				}
				d++
				if d > budget {
					ok = false
					break
				}
			}
		}
		if ok {
			out = append(out, hit{st, st + m, d})
		}
	}
	return out
}

// hammingAt is the unrestricted Hamming distance of the window at st (-1 when it does not fit).
func hammingAt(pp []ppos, s string, st int) (d int, obligBroken bool) {
	if st < 0 || st+len(pp) > len(s) {
		return -1, false
	}
	for i := range pp {
		if !pp[i].match(s[st+i]) {
			d++
			if pp[i].Oblig {
				obligBroken = true
			}
		}
	}
	return
}

// window is the part of the sequence a call FindAllIndex(seq, begin, length)
// looks at.  required: [begin, reqEnd) is the region the documentation
// describes ("starting point of the search", "length of the region where the
// pattern is looked for"; a negative length means the whole sequence).  The
// implementation deliberately scans MAX_PAT_LEN = 64 symbols further (that is
// how a hit that overlaps the junction of a circular sequence is reached), so
// hits that end in (reqEnd, allowEnd] are neither required nor forbidden.
type window struct{ begin, reqEnd, allowEnd int }

func makeWindow(n, begin, length int) window {
	if begin < 0 {
		begin = 0
	}
	if length < 0 {
		length = n
	}
	w := window{begin: begin, reqEnd: min(n, begin+length), allowEnd: min(n, begin+length+64)}
	return w
}

func (w window) required(h hit) bool { return h[0] >= w.begin && h[1] <= w.reqEnd }
func (w window) allowed(h hit) bool  { return h[0] >= w.begin && h[1] <= w.allowEnd }

func filterHits(hs []hit, keep func(hit) bool) []hit {
	var out []hit
	for _, h := range hs {
		if keep(h) {
			out = append(out, h)
		}
	}
	return out
}

func sortedHits(hs []hit) []hit {
	out := append([]hit(nil), hs...)
	sort.Slice(out, func(i, j int) bool {
		if out[i][0] != out[j][0] {
			return out[i][0] < out[j][0]
		}
		if out[i][1] != out[j][1] {
			return out[i][1] < out[j][1]
		}
		return out[i][2] < out[j][2]
	})
	return out
}

func hitSet(hs []hit) map[hit]bool {
	m := make(map[hit]bool, len(hs))
	for _, h := range hs {
		m[h] = true
	}
	return m
}

// judgeHits checks a list of reported hits against the brute-force list:
// nothing outside `allowed`, nothing missing from `required` (when complete is
// asked), no duplicate.
func judgeHits(what string, got []hit, all []hit, w window, complete bool) error {
	allowed := hitSet(filterHits(all, w.allowed))
	seen := map[hit]bool{}
	for _, g := range got {
		if seen[g] {
			return fmt.Errorf("%s reports %v twice (all reported: %v)", what, g, got)
		}
		seen[g] = true
		if !allowed[g] {
			return fmt.Errorf("%s reports %v which is not a match of the searched region (matches by brute force: %v; all reported: %v)", what, g, filterHits(all, w.allowed), got)
		}
	}
	if complete {
		for _, r := range filterHits(all, w.required) {
			if !seen[r] {
				return fmt.Errorf("%s misses the match %v (matches by brute force: %v; reported: %v)", what, r, filterHits(all, w.required), got)
			}
		}
	}
	return nil
}

func minErr(hs []hit) int {
	m := -1
	for _, h := range hs {
		if m < 0 || h[2] < m {
			m = h[2]
		}
	}
	return m
}

// sellers gives, for the text s[from:to], the minimal edit distance between the
// pattern and a substring ending at each position (index relative to from).
func sellers(pp []ppos, s string, from, to int) []int {
	if from > len(s) {
		from = len(s)
	}
	if to < from {
		to = from
	}
	return ref.SellersEnds(strings.Repeat("x", len(pp)), s[from:to], func(pi int, c byte) bool { return pp[pi].match(c) })
}

func minOf(v []int) int {
	m := v[0]
	for _, x := range v {
		if x < m {
			m = x
		}
	}
	return m
}

// editDistance between the pattern and a span, positions compared with match.
func editDistance(pp []ppos, span string) int {
	n, m := len(pp), len(span)
	prev := make([]int, m+1)
	cur := make([]int, m+1)
	for j := 0; j <= m; j++ {
		prev[j] = j
	}
	for i := 1; i <= n; i++ {
		cur[0] = i
		for j := 1; j <= m; j++ {
			c := prev[j-1]
			if !pp[i-1].match(span[j-1]) {
				c++
			}
			if v := prev[j] + 1; v < c {
				c = v
			}
			if v := cur[j-1] + 1; v < c {
				c = v
			}
			cur[j] = c
		}
		prev, cur = cur, prev
	}
	return prev[m]
}

func hasAmbiguity(s string) bool {
	for i := 0; i < len(s); i++ {
		if x := ref.IUPACSet(s[i]); x&(x-1) != 0 {
			return true
		}
	}
	return false
}
