// Property C10 — primer pattern matching reports exactly the matching positions
// and error counts.
//
// Domain decisions (sub-cases the statement does not decide; not generated / not asserted)
//
//   - Patterns come from the grammar documented at MakeApatPattern: positions are
//     an IUPAC letter or a [..] class of IUPAC letters, optionally negated (!x on a
//     single letter) and optionally marked obligatory (#).  Forms the parser
//     happens to accept but the documentation does not describe (![..], !!x, !#,
//     non-nucleotide letters E, F, ..., X, U) are not generated.  1..64 positions
//     (64 itself: known finding patlen64); budgets 0..4.
//   - Sequences: lower-case acgt plus, in the substitution-only checks, IUPAC
//     ambiguity letters.  As in DESIGN.md an ambiguity letter of the *sequence* is
//     a mismatch for every plain position and a match for a negated one (negation =
//     complement over the 26 letters, apat_parse.c).  '.', '-', '[', ']' and upper
//     case are not generated in sequences (BioSequence lower-cases; the C encoder
//     maps everything else to 'a').
//   - Search windows: the documentation describes (begin, length) as the region
//     searched; the implementation scans MAX_PAT_LEN=64 symbols further on purpose
//     (circular sequences).  Matches that start at or after begin and end within
//     begin+length are required; matches that end within the next 64 symbols are
//     neither required nor forbidden; anything else reported is a violation.
//     length < 0 (whole sequence) is -1 most of the time; one window in ten, and
//     every window of TestPropWindow, is drawn from the boundary values of the two
//     arguments (other negative lengths, 0, 2^15, 2^16, 2^31-65 .. 2^32-65-begin,
//     begin up to 2^31-1): see the domain decisions at the top of window_test.go.
//     Otherwise begin is 0..len+1 (negative begin is silently clamped by the Go
//     wrappers: not generated).
//   - Pattern strings with more than 64 positions are not generated (the builder
//     does not check the limit it documents; outside the quantifier of the property).
//   - IsPatternMatchSequence (predicat.go) is judged on its verdict only, with
//     bothStrand false and true, on the whole sequence.
//   - Indels: the statement is about edit distance only, so obligatory marks are not
//     generated with indels, the budget is kept below the number of positions (else
//     the empty substring "matches"), and sequences are over acgt (the bit-parallel
//     matcher and the Go re-alignment use different relations for sequence
//     ambiguity letters).  FindAllIndex / FilterBestMatch return end-anchored raw
//     hits in that mode (apat_search.c: "may return shifted pos"): the end and the
//     error count are judged (error count = minimal edit distance of a substring
//     ending there), the nominal start is not.  AllMatches and BestMatch re-align:
//     their spans must lie inside the sequence, within the budget, at exactly the
//     reported edit distance; they are only given plain IUPAC patterns (documented
//     restriction of AllMatches).  Re-aligned spans may begin before `begin` (the
//     re-alignment window is centred on the raw hit); not asserted either way.
//     Which match is "best", and which non-overlapping subset AllMatches /
//     FilterBestMatch keep, is not stated: only genuineness and non-emptiness.
//   - LocatePattern is called as the matcher calls it: plain IUPAC pattern of at
//     least 2 positions (a 1-position pattern can only hit exactly and is never
//     re-aligned), sequence over acgt strictly longer than the pattern (documented
//     precondition, enforced by a panic).
//   - Circular sequences belong to C11; here they only appear in the buffer-reuse
//     check (len >= 64: shorter circular sequences make EncodeSequence read past
//     the input), and only recycled-vs-fresh equality is asserted for them.
package c10

import (
	"fmt"
	"testing"

	"pgregory.net/rapid"

	"verifharness/internal/evid"
	"verifharness/internal/gen"
	"verifharness/internal/ref"
)

func TestMain(m *testing.M) {
	evid.Tests(
		evid.Spec{Name: "FuzzMatch", Kind: "fuzz", Thorough: 120, ThoroughOnly: true, QuickShards: 1, ThoroughShards: 1},
		evid.Spec{Name: "TestReplay", Kind: "plain", QuickShards: 1, ThoroughShards: 1},
		evid.Spec{Name: "TestKnownFindings", Kind: "plain", QuickShards: 1, ThoroughShards: 1},
		evid.Spec{Name: "TestExhaustiveSmall", Kind: "plain", QuickShards: 16, ThoroughShards: 16, TimeoutS: 3000},
		evid.Spec{Name: "TestPropFind", Kind: "rapid", Quick: 120000, Thorough: 3000000, QuickShards: 8, ThoroughShards: 16},
		evid.Spec{Name: "TestPropStrand", Kind: "rapid", Quick: 48000, Thorough: 1200000, QuickShards: 4, ThoroughShards: 16},
		evid.Spec{Name: "TestPropIndel", Kind: "rapid", Quick: 80000, Thorough: 2400000, QuickShards: 8, ThoroughShards: 16},
		evid.Spec{Name: "TestPropLocate", Kind: "rapid", Quick: 40000, Thorough: 1200000, QuickShards: 4, ThoroughShards: 16},
		evid.Spec{Name: "TestPropReuse", Kind: "rapid", Quick: 12000, Thorough: 300000, QuickShards: 4, ThoroughShards: 16},
	)
	evid.Note("rule", "Patterns are drawn from the documented grammar (IUPAC letters, [..] classes, !x, x#; 1..63 positions, 64 excluded as known finding) together with a template they match; sequences are built by planting mutated copies of the template (at offset 0, at the very end, adjacent, overlapping, truncated) between random flanks, the number of edits being drawn around the budget (0..4); windows (begin,length) are drawn around the planted copy. Oracles: brute-force Hamming scan with obligatory positions (find, strand, reuse), independent reverse-complement of the parsed pattern (strand), Sellers / full-matrix edit-distance DP (indel, locate). Exhaustive part: every pattern of 1..3 (thorough: 1..4) letters over ACGTN x every sequence over acgt up to length 5 (thorough 6) x budgets 0..2 x {substitutions, indels}. Non-trivial = the closest window/substring of the searched region is at distance budget-1..budget+1 from the pattern (find, indel, exhaustive); strand: the pattern differs from its reverse complement and at least one match exists; locate: best distance 1..4; reuse: some step reuses the buffer for a shorter sequence than its predecessor. Distinct = hash of the whole case.")
	evid.Main(m, "C10")
}

func TestReplay(t *testing.T) { evid.Replay(t) }

func init() {
	evid.Reg("find", checkFind)
	evid.Reg("strand", checkStrand)
	evid.Reg("indel", checkIndel)
	evid.Reg("locate", checkLocate)
	evid.Reg("reuse", checkReuse)
}

func maxFlank(t *rapid.T) int {
	return rapid.SampledFrom([]int{0, 3, 10, 10, 40, 40, 120}).Draw(t, "max_flank")
}

func lenClass(n int) string {
	switch {
	case n == 1:
		return "patlen:1"
	case n <= 8:
		return "patlen:2-8"
	case n <= 32:
		return "patlen:9-32"
	case n <= 61:
		return "patlen:33-61"
	}
	return "patlen:62-63"
}

func patClasses(pp []ppos) []string {
	cl := []string{lenClass(len(pp))}
	var neg, obl, class, amb bool
	for _, p := range pp {
		neg = neg || p.Neg
		obl = obl || p.Oblig
		class = class || p.Class
		amb = amb || p.Bases&(p.Bases-1) != 0
	}
	if neg {
		cl = append(cl, "pattern_negation")
	}
	if obl {
		cl = append(cl, "pattern_obligatory")
	}
	if class {
		cl = append(cl, "pattern_class")
	}
	if amb {
		cl = append(cl, "pattern_ambiguity")
	}
	if pp[0].Neg && pp[0].Oblig {
		cl = append(cl, "pattern_starts_with_!x#")
	}
	return cl
}

// ------------------------------------------------------------------ find

func findClasses(c findCase, pp []ppos) (nontrivial bool, cl []string) {
	n := len(c.Seq)
	w := makeWindow(n, c.Begin, c.Length)
	cl = append(patClasses(pp), fmt.Sprintf("budget:%d", c.Budget))
	all := bruteHits(pp, c.Seq, c.Budget)
	req := filterHits(all, w.required)
	switch len(req) {
	case 0:
		cl = append(cl, "find_hits:0")
	case 1:
		cl = append(cl, "find_hits:1")
	default:
		cl = append(cl, "find_hits:2+")
	}
	for i, h := range req {
		if h[0] == 0 {
			cl = append(cl, "hit_at_offset_0")
		}
		if h[1] == n {
			cl = append(cl, "hit_at_sequence_end")
		}
		if h[0] == w.begin && w.begin > 0 {
			cl = append(cl, "hit_at_window_begin")
		}
		if h[1] == w.reqEnd && w.reqEnd < n {
			cl = append(cl, "hit_at_window_end")
		}
		if i > 0 && h[0] < req[i-1][1] {
			cl = append(cl, "overlapping_hits")
			break
		}
	}
	if len(filterHits(all, w.allowed)) > len(req) {
		cl = append(cl, "hit_in_slack_zone")
	}
	if c.Begin > 0 {
		cl = append(cl, "window_begin>0")
	}
	if c.Length >= 0 && c.Begin+c.Length < n {
		cl = append(cl, "window_shorter_than_rest")
	}
	cl = append(cl, windowClasses(n, c.Begin, c.Length)...)
	if n == 0 {
		cl = append(cl, "empty_sequence")
	} else if n < len(pp) {
		cl = append(cl, "sequence_shorter_than_pattern")
	} else if n == len(pp) {
		cl = append(cl, "sequence_as_long_as_pattern")
	}
	if hasAmbiguity(c.Seq) {
		cl = append(cl, "sequence_ambiguity")
	}
	obligReject := false
	for st := w.begin; st+len(pp) <= w.reqEnd; st++ {
		d, broken := hammingAt(pp, c.Seq, st)
		if d == c.Budget || d == c.Budget+1 {
			nontrivial = true
		}
		if broken && d <= c.Budget {
			obligReject = true
		}
	}
	if obligReject {
		cl = append(cl, "rejected_by_obligatory_position")
		nontrivial = true
	}
	return
}

// genFindSeq draws everything of a find case but its window; at is the offset of
// the first planted copy, tlen the number of positions of the pattern.
func genFindSeq(t *rapid.T) (c findCase, at, tlen int) {
	budget := drawBudget(t)
	low := rapid.IntRange(0, 4).Draw(t, "low_complexity") == 0
	pattern, template := genPattern(t, patOpts{lowComplx: low})
	seq, at := plant(t, template, budget, "s", maxFlank(t), low)
	if rapid.IntRange(0, 4).Draw(t, "sprinkle") == 0 {
		seq = sprinkle(t, seq)
	}
	return findCase{Pattern: pattern, Budget: budget, Seq: seq}, at, len(template)
}

func genFind(t *rapid.T) findCase {
	c, at, tlen := genFindSeq(t)
	c.Begin, c.Length = drawWindow(t, len(c.Seq), tlen, at)
	return c
}

func TestPropFind(t *testing.T) {
	rapid.Check(t, func(rt *rapid.T) {
		c := genFind(rt)
		pp, err := parsePattern(c.Pattern)
		if err != nil {
			rt.Fatalf("generator produced an unparsable pattern: %v", err)
		}
		nt, cl := findClasses(c, pp)
		evid.Eval("find", evid.Hash(c.Pattern, c.Budget, c.Seq, c.Begin, c.Length), nt, c, cl...)
		if err := checkFind(c); err != nil {
			evid.Fail(rt, "find", c, err)
		}
	})
}

// ------------------------------------------------------------------ strand

func TestPropStrand(t *testing.T) {
	rapid.Check(t, func(rt *rapid.T) {
		budget := drawBudget(rt)
		indel := rapid.IntRange(0, 3).Draw(rt, "indel") == 0
		low := rapid.IntRange(0, 5).Draw(rt, "low_complexity") == 0
		pattern, template := genPattern(rt, patOpts{lowComplx: low, noOblig: indel})
		kinds := "s"
		if indel {
			kinds = "sid"
			budget = min(budget, len(template)-1)
		}
		seq, _ := plant(rt, template, budget, kinds, maxFlank(rt), low)
		if !indel && rapid.IntRange(0, 5).Draw(rt, "sprinkle") == 0 {
			seq = sprinkle(rt, seq)
		}
		if rapid.IntRange(0, 4).Draw(rt, "same_strand") != 0 {
			seq = ref.RevComp(seq)
		}
		c := strandCase{Pattern: pattern, Budget: budget, Indel: indel, Seq: seq}
		pp, err := parsePattern(c.Pattern)
		if err != nil {
			rt.Fatalf("generator produced an unparsable pattern: %v", err)
		}
		cl := append(patClasses(pp), "strand", fmt.Sprintf("strand_indel:%v", indel))
		rcm := revcompModel(pp)
		palin := fmt.Sprint(rcm) == fmt.Sprint(pp)
		var hits bool
		if indel {
			hits = minOf(sellers(rcm, seq, 0, len(seq))) <= budget
		} else {
			hits = len(bruteHits(rcm, seq, budget)) > 0
		}
		if hits {
			cl = append(cl, "strand_rc_pattern_matches")
		}
		evid.Eval("strand", evid.Hash(c.Pattern, c.Budget, c.Indel, c.Seq), hits && !palin, c, cl...)
		if err := checkStrand(c); err != nil {
			evid.Fail(rt, "strand", c, err)
		}
	})
}

// ------------------------------------------------------------------ indel

func indelClasses(c indelCase, pp []ppos) (nontrivial bool, cl []string) {
	n := len(c.Seq)
	w := makeWindow(n, c.Begin, c.Length)
	cl = append(patClasses(pp), fmt.Sprintf("indel_budget:%d", c.Budget), fmt.Sprintf("indel_realign:%v", c.Realign))
	if w.begin <= w.reqEnd {
		ends := sellers(pp, c.Seq, w.begin, w.reqEnd)
		d := minOf(ends)
		nontrivial = d >= c.Budget-1 && d <= c.Budget+1
		switch {
		case d == 0:
			cl = append(cl, "indel_best:exact")
		case d <= c.Budget:
			cl = append(cl, "indel_best:within_budget")
		case d == c.Budget+1:
			cl = append(cl, "indel_best:budget+1")
		default:
			cl = append(cl, "indel_best:far")
		}
		if d <= c.Budget && d > 0 {
			// does the closest substring need an indel (no equally good Hamming window)?
			sub := false
			for st := w.begin; st+len(pp) <= w.reqEnd; st++ {
				if h, _ := hammingAt(pp, c.Seq, st); h == d {
					sub = true
				}
			}
			if !sub {
				cl = append(cl, "indel_needed_for_best")
			}
			if len(ends) > 1 && ends[len(ends)-1] == d && w.reqEnd == n {
				cl = append(cl, "indel_best_touches_sequence_end")
			}
			for e := 1; e < len(ends) && e < len(pp); e++ {
				if ends[e] == d && w.begin == 0 {
					cl = append(cl, "indel_best_hangs_over_sequence_start")
					break
				}
			}
		}
	}
	if c.Begin > 0 {
		cl = append(cl, "window_begin>0")
	}
	cl = append(cl, windowClasses(n, c.Begin, c.Length)...)
	if n <= len(pp) {
		cl = append(cl, "indel_sequence_not_longer_than_pattern")
	}
	return
}

func genIndel(t *rapid.T) indelCase {
	c, at, tlen := genIndelSeq(t)
	c.Begin, c.Length = drawWindow(t, len(c.Seq), tlen, at)
	return c
}

// genIndelSeq draws everything of an indel case but its window (see genFindSeq).
func genIndelSeq(t *rapid.T) (c indelCase, at, tlen int) {
	budget := drawBudget(t)
	if budget == 0 && rapid.Bool().Draw(t, "budget_up") {
		budget = 1
	}
	pure := rapid.IntRange(0, 3).Draw(t, "pure") != 0
	low := rapid.IntRange(0, 4).Draw(t, "low_complexity") == 0
	pattern, template := genPattern(t, patOpts{pure: pure, noOblig: true, minPos: 2, lowComplx: low})
	budget = min(budget, len(template)-1)
	seq, at := plant(t, template, budget, "sid", maxFlank(t), low)
	if len(seq) <= len(template) && rapid.IntRange(0, 3).Draw(t, "keep_short") != 0 {
		seq += gen.Seq(t, "pad", len(template)+1-len(seq)+rapid.IntRange(0, 3).Draw(t, "padlen"), gen.ACGT)
	}
	realign := pure
	if pure && len(seq) <= len(template) {
		evid.Excluded("indel_seq_not_longer_than_pattern", 1)
		realign = false
	}
	return indelCase{Pattern: pattern, Budget: budget, Seq: seq, Realign: realign}, at, len(template)
}

func TestPropIndel(t *testing.T) {
	rapid.Check(t, func(rt *rapid.T) {
		c := genIndel(rt)
		pp, err := parsePattern(c.Pattern)
		if err != nil {
			rt.Fatalf("generator produced an unparsable pattern: %v", err)
		}
		nt, cl := indelClasses(c, pp)
		evid.Eval("indel", evid.Hash(c.Pattern, c.Budget, c.Seq, c.Begin, c.Length, c.Realign), nt, c, cl...)
		if err := checkIndel(c); err != nil {
			evid.Fail(rt, "indel", c, err)
		}
	})
}

// ------------------------------------------------------------------ locate

func TestPropLocate(t *testing.T) {
	rapid.Check(t, func(rt *rapid.T) {
		low := rapid.IntRange(0, 4).Draw(rt, "low_complexity") == 0
		pattern, template := genPattern(rt, patOpts{pure: true, minPos: 2, lowComplx: low})
		k := rapid.IntRange(0, 3).Draw(rt, "edits")
		seq, _ := plant(rt, template, k, "sid", maxFlank(rt), low)
		if len(seq) <= len(template) {
			seq += gen.Seq(rt, "pad", len(template)+1-len(seq), gen.ACGT)
		}
		c := locateCase{Pattern: pattern, Seq: seq}
		pp, _ := parsePattern(pattern)
		ends := sellers(pp, seq, 0, len(seq))
		d := minOf(ends)
		cl := []string{"locate", lenClass(len(pp)), fmt.Sprintf("locate_best:%d", min(d, 5))}
		if ends[len(ends)-1] == d {
			cl = append(cl, "locate_best_touches_end")
		}
		for e := 1; e < len(pp) && e < len(ends); e++ {
			if ends[e] == d {
				cl = append(cl, "locate_best_hangs_over_start")
				break
			}
		}
		if len(seq) == len(pp)+1 {
			cl = append(cl, "locate_sequence_one_longer")
		}
		evid.Eval("locate", evid.Hash(c.Pattern, c.Seq), d >= 1 && d <= 4, c, cl...)
		if err := checkLocate(c); err != nil {
			evid.Fail(rt, "locate", c, err)
		}
	})
}

// ------------------------------------------------------------------ reuse

func TestPropReuse(t *testing.T) {
	rapid.Check(t, func(rt *rapid.T) {
		var c reuseCase
		np := rapid.IntRange(1, 3).Draw(rt, "npatterns")
		templates := make([]string, np)
		for i := 0; i < np; i++ {
			indel := rapid.IntRange(0, 3).Draw(rt, "indel") == 0
			p, tm := genPattern(rt, patOpts{noOblig: indel, minPos: 2})
			b := drawBudget(rt)
			if indel {
				b = min(b, len(tm)-1)
			}
			templates[i] = tm
			c.Patterns = append(c.Patterns, reusePattern{Pattern: p, Budget: b, Indel: indel})
		}
		ns := rapid.IntRange(2, 6).Draw(rt, "nsteps")
		shrinks, circ := false, false
		for i := 0; i < ns; i++ {
			pi := rapid.IntRange(0, np-1).Draw(rt, "pat")
			kinds := "s"
			if c.Patterns[pi].Indel {
				kinds = "sid"
			}
			seq, at := plant(rt, templates[pi], c.Patterns[pi].Budget, kinds, rapid.SampledFrom([]int{0, 5, 80, 200}).Draw(rt, "max_flank"), false)
			begin, length := drawWindow(rt, len(seq), len(templates[pi]), at)
			st := reuseStep{Seq: seq, Pat: pi, Begin: begin, Length: length}
			if len(seq) >= 64 && rapid.IntRange(0, 3).Draw(rt, "circular") == 0 {
				st.Circular = true
				circ = true
			}
			if i > 0 && len(seq) < len(c.Steps[i-1].Seq) {
				shrinks = true
			}
			c.Steps = append(c.Steps, st)
		}
		cl := []string{"reuse"}
		if circ {
			cl = append(cl, "reuse_with_circular_step")
		}
		evid.Eval("reuse", evid.Hash(fmt.Sprintf("%+v", c)), shrinks, c, cl...)
		if err := checkReuse(c); err != nil {
			evid.Fail(rt, "reuse", c, err)
		}
	})
}

// ------------------------------------------------------------------ exhaustive small space

func allStrings(alphabet string, minLen, maxLen int) []string {
	var out []string
	prev := []string{""}
	if minLen == 0 {
		out = append(out, "")
	}
	for l := 1; l <= maxLen; l++ {
		var cur []string
		for _, p := range prev {
			for _, c := range alphabet {
				cur = append(cur, p+string(c))
			}
		}
		if l >= minLen {
			out = append(out, cur...)
		}
		prev = cur
	}
	return out
}

func TestExhaustiveSmall(t *testing.T) {
	maxPat, maxSeq := evid.Pick(3, 4), evid.Pick(5, 6)
	pats := allStrings("ACGTN", 1, maxPat)
	seqs := allStrings(gen.ACGT, 0, maxSeq)
	shard, n := evid.Shard(), evid.NShards()
	for i, p := range pats {
		if i%n != shard {
			continue
		}
		pp, _ := parsePattern(p)
		for _, s := range seqs {
			for budget := 0; budget <= 2; budget++ {
				fc := findCase{Pattern: p, Budget: budget, Seq: s, Begin: 0, Length: -1}
				nt := false
				for st := 0; st+len(pp) <= len(s); st++ {
					if d, _ := hammingAt(pp, s, st); d == budget || d == budget+1 {
						nt = true
					}
				}
				evid.Eval("find", evid.Hash("x", p, budget, s), nt, fc, "exhaustive")
				if err := checkFind(fc); err != nil {
					evid.Fail(t, "find", fc, err)
				}
				if budget == 0 || budget >= len(pp) {
					continue
				}
				ic := indelCase{Pattern: p, Budget: budget, Seq: s, Begin: 0, Length: -1, Realign: len(s) > len(pp)}
				if !ic.Realign {
					evid.Excluded("indel_seq_not_longer_than_pattern", 1)
				}
				d := minOf(sellers(pp, s, 0, len(s)))
				evid.Eval("indel", evid.Hash("x", p, budget, s), d >= budget-1 && d <= budget+1, ic, "exhaustive")
				if err := checkIndel(ic); err != nil {
					evid.Fail(t, "indel", ic, err)
				}
			}
		}
	}
	evid.Exhaustive(fmt.Sprintf("every pattern of 1..%d letters over ACGTN x every sequence over acgt of length 0..%d x budgets 0..2, whole-sequence window: substitutions only (find) and, for 1 <= budget < pattern length, indels (indel)", maxPat, maxSeq))
}
