package c10

import (
	"fmt"
	"strings"
	"testing"

	"pgregory.net/rapid"

	"verifharness/internal/evid"
	"verifharness/internal/gen"
)

// Several workers match patterns at the same time (obiannotate --pattern,
// obimultiplex, obigrep run one goroutine per worker): every answer must be the
// one obtained alone.  The case is a list of indel-mode cases (the re-aligning
// entry points AllMatches / BestMatch / LocatePattern included); each worker
// runs the ordinary oracle-backed check of every case, for several rounds.
// Inputs are a pure function of the seed; the interleaving is not.
type concCase struct {
	Cases   []indelCase
	Workers int
	Rounds  int
}

func init() {
	evid.Reg("concurrent", checkConcurrent)
	evid.Tests(evid.Spec{Name: "TestPropConcurrent", Kind: "rapid", Quick: 800, Thorough: 20000, QuickShards: 8, ThoroughShards: 16})
}

func checkConcurrent(c concCase) error {
	for i, ic := range c.Cases {
		if err := checkIndel(ic); err != nil {
			return fmt.Errorf("case %d alone: %v", i, err)
		}
	}
	nw := max(2, c.Workers)
	errs := make(chan error, nw)
	start := make(chan struct{})
	for w := 0; w < nw; w++ {
		go func(w int) {
			<-start
			for r := 0; r < max(1, c.Rounds); r++ {
				for i := range c.Cases {
					ic := c.Cases[(i+w)%len(c.Cases)]
					if err := checkIndel(ic); err != nil {
						errs <- fmt.Errorf("with %d concurrent workers (round %d): %v — the same case is answered correctly alone", nw, r, err)
						return
					}
				}
			}
			errs <- nil
		}(w)
	}
	close(start)
	var first error
	for w := 0; w < nw; w++ {
		if err := <-errs; err != nil && first == nil {
			first = err
		}
	}
	return first
}

func TestPropConcurrent(t *testing.T) {
	rapid.Check(t, func(rt *rapid.T) {
		var c concCase
		n := rapid.IntRange(3, 10).Draw(rt, "ncases")
		for i := 0; i < n; i++ {
			ic := genIndel(rt)
			c.Cases = append(c.Cases, ic)
		}
		c.Workers = rapid.IntRange(2, 8).Draw(rt, "workers")
		c.Rounds = rapid.IntRange(2, 8).Draw(rt, "rounds")
		evid.Eval("concurrent", evid.Hash(fmt.Sprint(c)), c.Workers >= 4, nil, "concurrent_workers")
		if err := checkConcurrent(c); err != nil {
			evid.Fail(rt, "concurrent", c, err)
		}
	})
}

// ------------------------------------------------------------------ long sequences, thousands of hits

// A long template (tens of kilobases, as obipcr sees them) made of a short
// repeated unit, so that a short permissive pattern matches at thousands of
// positions: hit stacks, windows and offsets far from their first values.  The
// case stays small (unit + repeat count); the check is the ordinary find check.
type longCase struct {
	Pattern string
	Budget  int
	Unit    string
	Repeats int
	Tail    string
	Begin   int
	Length  int
}

func init() {
	evid.Reg("find_long", checkLong)
	evid.Tests(evid.Spec{Name: "TestPropLongSequence", Kind: "rapid", Quick: 96, Thorough: 2400, QuickShards: 8, ThoroughShards: 16})
}

func (c longCase) find() findCase {
	seq := ""
	for i := 0; i < c.Repeats; i++ {
		seq += c.Unit
	}
	return findCase{Pattern: c.Pattern, Budget: c.Budget, Seq: seq + c.Tail, Begin: c.Begin, Length: c.Length}
}

func checkLong(c longCase) error {
	if err := checkFind(c.find()); err != nil {
		s := err.Error()
		if len(s) > 1800 {
			s = s[:900] + " … " + s[len(s)-900:]
		}
		return fmt.Errorf("sequence = %q x %d + %q (%d symbols): %s", c.Unit, c.Repeats, c.Tail, len(c.Unit)*c.Repeats+len(c.Tail), s)
	}
	return nil
}

func TestPropLongSequence(t *testing.T) {
	rapid.Check(t, func(rt *rapid.T) {
		pattern, template := genPattern(rt, patOpts{lowComplx: true})
		var c longCase
		c.Pattern = pattern
		c.Budget = drawBudget(rt)
		// the unit holds (a mutated copy of) the template so that hits recur every len(unit) positions
		unit, _ := plant(rt, template, c.Budget, "s", 6, true)
		c.Unit = unit
		total := rapid.SampledFrom([]int{5000, 20000, 70000, 140000}).Draw(rt, "total_len")
		c.Repeats = max(1, total/max(1, len(unit)))
		c.Tail, _ = plant(rt, template, c.Budget, "s", 3, true)
		n := len(unit)*c.Repeats + len(c.Tail)
		c.Begin, c.Length = 0, -1
		if rapid.IntRange(0, 2).Draw(rt, "window") == 0 {
			c.Begin = rapid.IntRange(0, n-1).Draw(rt, "begin")
			c.Length = rapid.IntRange(1, n-c.Begin).Draw(rt, "length")
		}
		evid.Eval("find_long", evid.Hash(fmt.Sprintf("%+v", c)), c.Repeats >= 100, c, "find:sequence>=5000", fmt.Sprintf("find:total_len:%d", total))
		if err := checkLong(c); err != nil {
			evid.Fail(rt, "find_long", c, err)
		}
	})
}

// ------------------------------------------------------------------ one occurrence far inside a long sequence (indels)

// A single (mutated) occurrence of the pattern planted in a long background that
// cannot match (the pattern has no 't', the background is all 't'), at positions
// biased to powers of two minus a few symbols: any blocking / windowing of the
// search must not lose an occurrence that straddles a block edge.
type longIndelCase struct {
	Pattern string
	Budget  int
	Occ     string
	Pos     int
	Total   int
}

func init() {
	evid.Reg("indel_long", checkLongIndel)
	evid.Tests(evid.Spec{Name: "TestPropLongIndel", Kind: "rapid", Quick: 480, Thorough: 4000, QuickShards: 8, ThoroughShards: 16})
}

func checkLongIndel(c longIndelCase) error {
	if c.Pos < 0 || c.Pos+len(c.Occ) > c.Total {
		return nil
	}
	seq := strings.Repeat("t", c.Pos) + c.Occ + strings.Repeat("t", c.Total-c.Pos-len(c.Occ))
	ic := indelCase{Pattern: c.Pattern, Budget: c.Budget, Seq: seq, Begin: 0, Length: -1, Realign: true}
	if err := checkIndel(ic); err != nil {
		s := err.Error()
		if len(s) > 1500 {
			s = s[:600] + " … " + s[len(s)-800:]
		}
		return fmt.Errorf("occurrence %q planted at %d in %d x 't': %s", c.Occ, c.Pos, c.Total, s)
	}
	return nil
}

func TestPropLongIndel(t *testing.T) {
	rapid.Check(t, func(rt *rapid.T) {
		var c longIndelCase
		n := rapid.IntRange(6, 30).Draw(rt, "patlen")
		pat := make([]byte, n)
		tpl := make([]byte, n)
		for i := range pat {
			k := rapid.IntRange(0, 9).Draw(rt, "sym")
			pat[i] = "ACGACGMRSV"[k]
			tpl[i] = "acgacgaacg"[k] // a base the position accepts
		}
		c.Pattern = string(pat)
		c.Budget = rapid.IntRange(1, min(3, n-2)).Draw(rt, "budget")
		edits := c.Budget // the whole budget is used half of the time
		if rapid.Bool().Draw(rt, "fewer_edits") {
			edits = rapid.IntRange(0, c.Budget).Draw(rt, "edits")
		}
		c.Occ, _ = gen.Mutate(rt, "occ", string(tpl), edits, "acg", rapid.SampledFrom([]string{"i", "i", "i", "sid", "d"}).Draw(rt, "edit_kinds"))
		edge := rapid.SampledFrom([]int{4096, 16384, 32768, 65536, 65536, 65536, 131072}).Draw(rt, "edge")
		c.Total = edge + rapid.IntRange(100, 70000).Draw(rt, "after")
		switch rapid.IntRange(0, 3).Draw(rt, "near_edge") {
		case 0, 1: // starts just before the edge: only the first symbols lie in the first block
			c.Pos = edge - rapid.IntRange(0, c.Budget+2).Draw(rt, "just_before_edge")
		case 2:
			c.Pos = edge - rapid.IntRange(0, len(c.Occ)+2).Draw(rt, "before_edge")
		default:
			c.Pos = rapid.IntRange(0, c.Total-len(c.Occ)).Draw(rt, "pos")
		}
		if c.Pos < 0 {
			c.Pos = 0
		}
		evid.Eval("indel_long", evid.Hash(fmt.Sprintf("%+v", c)), c.Pos+len(c.Occ) > edge && c.Pos < edge, c, "indel:long_background", fmt.Sprintf("indel:edge:%d", edge))
		if err := checkLongIndel(c); err != nil {
			evid.Fail(rt, "indel_long", c, err)
		}
	})
}
