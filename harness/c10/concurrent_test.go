package c10

import (
	"fmt"
	"testing"

	"pgregory.net/rapid"

	"verifharness/internal/evid"
)

// Several workers match patterns at the same time (obiannotate --pattern,
// obimultiplex, obigrep run one goroutine per worker): every answer must be the
// one obtained alone.  The case is a list of indel-mode cases (the re-aligning
// entry points AllMatches / BestMatch / LocatePattern included); each worker
// runs the ordinary oracle-backed check of every case, for several rounds.
// Inputs are a pure function of the seed; the interleaving is not.
type concCase struct {
	Cases   []indelCase
	Workers int
	Rounds  int
}

func init() {
	evid.Reg("concurrent", checkConcurrent)
	evid.Tests(evid.Spec{Name: "TestPropConcurrent", Kind: "rapid", Quick: 800, Thorough: 20000, QuickShards: 8, ThoroughShards: 16})
}

func checkConcurrent(c concCase) error {
	for i, ic := range c.Cases {
		if err := checkIndel(ic); err != nil {
			return fmt.Errorf("case %d alone: %v", i, err)
		}
	}
	nw := max(2, c.Workers)
	errs := make(chan error, nw)
	start := make(chan struct{})
	for w := 0; w < nw; w++ {
		go func(w int) {
			<-start
			for r := 0; r < max(1, c.Rounds); r++ {
				for i := range c.Cases {
					ic := c.Cases[(i+w)%len(c.Cases)]
					if err := checkIndel(ic); err != nil {
						errs <- fmt.Errorf("with %d concurrent workers (round %d): %v — the same case is answered correctly alone", nw, r, err)
						return
					}
				}
			}
			errs <- nil
		}(w)
	}
	close(start)
	var first error
	for w := 0; w < nw; w++ {
		if err := <-errs; err != nil && first == nil {
			first = err
		}
	}
	return first
}

func TestPropConcurrent(t *testing.T) {
	rapid.Check(t, func(rt *rapid.T) {
		var c concCase
		n := rapid.IntRange(3, 10).Draw(rt, "ncases")
		for i := 0; i < n; i++ {
			ic := genIndel(rt)
			c.Cases = append(c.Cases, ic)
		}
		c.Workers = rapid.IntRange(2, 8).Draw(rt, "workers")
		c.Rounds = rapid.IntRange(2, 8).Draw(rt, "rounds")
		evid.Eval("concurrent", evid.Hash(fmt.Sprint(c)), c.Workers >= 4, nil, "concurrent_workers")
		if err := checkConcurrent(c); err != nil {
			evid.Fail(rt, "concurrent", c, err)
		}
	})
}
