package c10

import (
	"fmt"

	"git.metabarcoding.org/obitools/obitools4/obitools4/pkg/obialign"
	"git.metabarcoding.org/obitools/obitools4/obitools4/pkg/obiapat"
	"git.metabarcoding.org/obitools/obitools4/obitools4/pkg/obiseq"

	"verifharness/internal/fatal"
	"verifharness/internal/ref"
)

func bioseq(s string) *obiseq.BioSequence { return obiseq.NewBioSequence("s", []byte(s), "") }

func toHits(l [][3]int) []hit { return append([]hit(nil), l...) }

// guarded runs the calls into obitools4 on their own goroutine; stage names the
// call in progress so that a panic / fatal is reported with what was called.
func guarded(desc string, f func(stage *string)) error {
	stage := "start"
	out := fatal.Run(func() { f(&stage) })
	if !out.Completed {
		return fmt.Errorf("%s: %s did not return: %v\n%s", desc, stage, out, out.Stack)
	}
	return nil
}

// ------------------------------------------------------------------ mismatch only

// findCase: one pattern, one sequence, one search window, substitutions only.
type findCase struct {
	Pattern string
	Budget  int
	Seq     string
	Begin   int
	Length  int
}

func (c findCase) String() string {
	return fmt.Sprintf("pattern %q, %d mismatches, sequence %q, begin=%d, length=%d", c.Pattern, c.Budget, c.Seq, c.Begin, c.Length)
}

type bestTuple struct {
	Start, End, Nerr int
	Matched          bool
}

func checkFind(c findCase) error {
	pp, err := parsePattern(c.Pattern)
	if err != nil {
		return fmt.Errorf("harness: %v", err)
	}
	all := bruteHits(pp, c.Seq, c.Budget)
	w := makeWindow(len(c.Seq), c.Begin, c.Length)

	var (
		plen                 int
		found, filtered, am  []hit
		foundAgain           []hit
		isMatching           bool
		best                 bestTuple
		compileErr, seqError error
	)
	if err := guarded(c.String(), func(stage *string) {
		*stage = "MakeApatPattern"
		pat, err := obiapat.MakeApatPattern(c.Pattern, c.Budget, false)
		if err != nil {
			compileErr = err
			return
		}
		defer pat.Free()
		plen = pat.Len()
		*stage = "MakeApatSequence"
		seq, err := obiapat.MakeApatSequence(bioseq(c.Seq), false)
		if err != nil {
			seqError = err
			return
		}
		defer seq.Free()
		*stage = "FindAllIndex"
		found = toHits(pat.FindAllIndex(seq, c.Begin, c.Length))
		*stage = "IsMatching"
		isMatching = pat.IsMatching(seq, c.Begin, c.Length)
		*stage = "BestMatch"
		best.Start, best.End, best.Nerr, best.Matched = pat.BestMatch(seq, c.Begin, c.Length)
		*stage = "FilterBestMatch"
		filtered = toHits(pat.FilterBestMatch(seq, c.Begin, c.Length))
		*stage = "AllMatches"
		am = toHits(pat.AllMatches(seq, c.Begin, c.Length))
		*stage = "FindAllIndex (second call)"
		foundAgain = toHits(pat.FindAllIndex(seq, c.Begin, c.Length))
	}); err != nil {
		return err
	}
	if compileErr != nil {
		return fmt.Errorf("MakeApatPattern(%q, %d, false) refuses a pattern of the documented grammar: %v", c.Pattern, c.Budget, compileErr)
	}
	if seqError != nil {
		return fmt.Errorf("MakeApatSequence(%q) failed: %v", c.Seq, seqError)
	}
	if plen != len(pp) {
		return fmt.Errorf("pattern %q has %d positions, Len() = %d", c.Pattern, len(pp), plen)
	}
	if err := judgeHits(c.String()+": FindAllIndex", found, all, w, true); err != nil {
		return err
	}
	if fmt.Sprint(found) != fmt.Sprint(foundAgain) {
		return fmt.Errorf("%s: two successive FindAllIndex calls differ: %v then %v", c, found, foundAgain)
	}
	req := filterHits(all, w.required)
	alw := filterHits(all, w.allowed)
	if len(req) > 0 && !isMatching {
		return fmt.Errorf("%s: IsMatching = false although %v match", c, req)
	}
	if len(alw) == 0 && isMatching {
		return fmt.Errorf("%s: IsMatching = true although nothing matches (brute force)", c)
	}
	// BestMatch: a genuine match, not worse than the best match of the region
	if best.Matched {
		b := hit{best.Start, best.End, best.Nerr}
		if !hitSet(alw)[b] {
			return fmt.Errorf("%s: BestMatch = %+v is not a match of the searched region (brute force: %v)", c, best, alw)
		}
		if len(req) > 0 && best.Nerr > minErr(req) {
			return fmt.Errorf("%s: BestMatch = %+v but %v contains a match with %d mismatches", c, best, req, minErr(req))
		}
	} else if len(req) > 0 {
		return fmt.Errorf("%s: BestMatch reports no match although %v match", c, req)
	}
	// FilterBestMatch / AllMatches select among the matches: each selected entry is a
	// genuine match, and something is selected whenever something matches
	for _, x := range []struct {
		name string
		got  []hit
	}{{"FilterBestMatch", filtered}, {"AllMatches", am}} {
		if err := judgeHits(c.String()+": "+x.name, x.got, all, w, false); err != nil {
			return err
		}
		if len(req) > 0 && len(x.got) == 0 {
			return fmt.Errorf("%s: %s is empty although %v match", c, x.name, req)
		}
	}
	return nil
}

// ------------------------------------------------------------------ strand symmetry

type strandCase struct {
	Pattern string
	Budget  int
	Indel   bool
	Seq     string
}

func (c strandCase) String() string {
	return fmt.Sprintf("pattern %q, %d errors, indels=%v, sequence %q", c.Pattern, c.Budget, c.Indel, c.Seq)
}

func mirror(hs []hit, n int) []hit {
	out := make([]hit, len(hs))
	for i, h := range hs {
		out[i] = hit{n - h[1], n - h[0], h[2]}
	}
	return sortedHits(out)
}

func checkStrand(c strandCase) error {
	pp, err := parsePattern(c.Pattern)
	if err != nil {
		return fmt.Errorf("harness: %v", err)
	}
	n := len(c.Seq)
	rcs := ref.RevComp(c.Seq)
	var (
		rcErr, compileErr   error
		rcLen               int
		rcOnS, fwdOnRC      []hit
		rcMatch, fwdMatchRC bool
		rcText              string
		predOne, predBoth   bool
	)
	if err := guarded(c.String(), func(stage *string) {
		*stage = "MakeApatPattern"
		pat, err := obiapat.MakeApatPattern(c.Pattern, c.Budget, c.Indel)
		if err != nil {
			compileErr = err
			return
		}
		defer pat.Free()
		*stage = "ReverseComplement"
		rc, err := pat.ReverseComplement()
		if err != nil {
			rcErr = err
			return
		}
		defer rc.Free()
		rcLen = rc.Len()
		rcText = rc.String()
		*stage = "MakeApatSequence"
		s1, _ := obiapat.MakeApatSequence(bioseq(c.Seq), false)
		defer s1.Free()
		s2, _ := obiapat.MakeApatSequence(bioseq(rcs), false)
		defer s2.Free()
		*stage = "FindAllIndex"
		rcOnS = toHits(rc.FindAllIndex(s1, 0, -1))
		fwdOnRC = toHits(pat.FindAllIndex(s2, 0, -1))
		*stage = "IsMatching"
		rcMatch = rc.IsMatching(s1, 0, -1)
		fwdMatchRC = pat.IsMatching(s2, 0, -1)
		*stage = "IsPatternMatchSequence"
		predOne = obiapat.IsPatternMatchSequence(c.Pattern, c.Budget, false, c.Indel)(bioseq(c.Seq))
		predBoth = obiapat.IsPatternMatchSequence(c.Pattern, c.Budget, true, c.Indel)(bioseq(c.Seq))
	}); err != nil {
		return err
	}
	if compileErr != nil {
		return fmt.Errorf("MakeApatPattern(%q) refuses a pattern of the documented grammar: %v", c.Pattern, compileErr)
	}
	if rcErr != nil {
		return fmt.Errorf("ReverseComplement of pattern %q fails: %v", c.Pattern, rcErr)
	}
	if rcLen != len(pp) {
		return fmt.Errorf("ReverseComplement of pattern %q (%d positions) is %q with %d positions", c.Pattern, len(pp), rcText, rcLen)
	}
	if rcMatch != fwdMatchRC {
		return fmt.Errorf("%s: reverse-complemented pattern %q matches the sequence: %v; pattern matches the reverse-complemented sequence %q: %v", c, rcText, rcMatch, rcs, fwdMatchRC)
	}
	// the sequence predicate built on both: direct strand only / either strand
	rcm := revcompModel(pp)
	var direct, reverse bool
	if c.Indel {
		direct = minOf(sellers(pp, c.Seq, 0, n)) <= c.Budget
		reverse = minOf(sellers(rcm, c.Seq, 0, n)) <= c.Budget
	} else {
		direct = len(bruteHits(pp, c.Seq, c.Budget)) > 0
		reverse = len(bruteHits(rcm, c.Seq, c.Budget)) > 0
	}
	if predOne != direct {
		return fmt.Errorf("%s: IsPatternMatchSequence(bothStrand=false) = %v; the pattern matches the sequence: %v", c, predOne, direct)
	}
	if predBoth != (direct || reverse) {
		return fmt.Errorf("%s: IsPatternMatchSequence(bothStrand=true) = %v; the pattern matches the sequence: %v, its reverse complement matches: %v", c, predBoth, direct, reverse)
	}
	if rcMatch != reverse {
		return fmt.Errorf("%s: the reverse-complemented pattern %q matches the sequence: %v; by the model: %v", c, rcText, rcMatch, reverse)
	}
	if c.Indel {
		// with indels the raw hit positions are end-anchored ("may return shifted pos"): only the verdict is mirrored
		return nil
	}
	want := mirror(fwdOnRC, n)
	if fmt.Sprint(sortedHits(rcOnS)) != fmt.Sprint(want) {
		return fmt.Errorf("%s: reverse-complemented pattern %q finds %v; pattern on the reverse-complemented sequence %q finds %v, i.e. %v once mirrored", c, rcText, rcOnS, rcs, fwdOnRC, want)
	}
	// and both agree with the model of the reverse-complemented pattern
	model := bruteHits(rcm, c.Seq, c.Budget)
	if err := judgeHits(c.String()+": FindAllIndex of the reverse-complemented pattern "+rcText, rcOnS, model, makeWindow(n, 0, -1), true); err != nil {
		return err
	}
	return nil
}

// ------------------------------------------------------------------ indels allowed

// indelCase: Realign says whether the re-aligning entry points (AllMatches,
// BestMatch) are exercised: they only accept plain IUPAC patterns (documented at
// AllMatches) and see known finding indel_seq_not_longer_than_pattern.
type indelCase struct {
	Pattern string
	Budget  int
	Seq     string
	Begin   int
	Length  int
	Realign bool
}

func (c indelCase) String() string {
	return fmt.Sprintf("pattern %q, %d errors with indels, sequence %q, begin=%d, length=%d", c.Pattern, c.Budget, c.Seq, c.Begin, c.Length)
}

func checkIndel(c indelCase) error {
	pp, err := parsePattern(c.Pattern)
	if err != nil {
		return fmt.Errorf("harness: %v", err)
	}
	n := len(c.Seq)
	w := makeWindow(n, c.Begin, c.Length)
	// minimal edit distance of a substring of the required / of the scanned region
	reqExists := w.begin <= w.reqEnd && minOf(sellers(pp, c.Seq, w.begin, w.reqEnd)) <= c.Budget
	ends := sellers(pp, c.Seq, w.begin, w.allowEnd) // ends[e-begin] for substrings starting at or after begin
	alwExists := w.begin <= w.allowEnd && minOf(ends) <= c.Budget
	if w.begin > n {
		reqExists, alwExists = false, false
	}

	var (
		compileErr         error
		raw, filtered, am  []hit
		isMatching         bool
		best               bestTuple
	)
	if err := guarded(c.String(), func(stage *string) {
		*stage = "MakeApatPattern"
		pat, err := obiapat.MakeApatPattern(c.Pattern, c.Budget, true)
		if err != nil {
			compileErr = err
			return
		}
		defer pat.Free()
		seq, _ := obiapat.MakeApatSequence(bioseq(c.Seq), false)
		defer seq.Free()
		*stage = "IsMatching"
		isMatching = pat.IsMatching(seq, c.Begin, c.Length)
		*stage = "FindAllIndex"
		raw = toHits(pat.FindAllIndex(seq, c.Begin, c.Length))
		*stage = "FilterBestMatch"
		filtered = toHits(pat.FilterBestMatch(seq, c.Begin, c.Length))
		if c.Realign {
			*stage = "AllMatches"
			am = toHits(pat.AllMatches(seq, c.Begin, c.Length))
			*stage = "BestMatch"
			best.Start, best.End, best.Nerr, best.Matched = pat.BestMatch(seq, c.Begin, c.Length)
		}
	}); err != nil {
		return err
	}
	if compileErr != nil {
		return fmt.Errorf("MakeApatPattern(%q, %d, true) refuses a pattern of the documented grammar: %v", c.Pattern, c.Budget, compileErr)
	}
	iff := func(what string, reported bool) error {
		if reqExists && !reported {
			return fmt.Errorf("%s: %s reports no match although a substring of the searched region is within %d edits of the pattern (minimal distance %d)", c, what, c.Budget, minOf(sellers(pp, c.Seq, w.begin, w.reqEnd)))
		}
		if !alwExists && reported {
			return fmt.Errorf("%s: %s reports a match although no substring is within %d edits of the pattern (minimal distance %d)", c, what, c.Budget, minOf(ends))
		}
		return nil
	}
	if err := iff("IsMatching", isMatching); err != nil {
		return err
	}
	// raw hits (FindAllIndex, FilterBestMatch): end-anchored; the end and the error count are judged
	for _, x := range []struct {
		name string
		got  []hit
	}{{"FindAllIndex", raw}, {"FilterBestMatch", filtered}} {
		if err := iff(x.name, len(x.got) > 0); err != nil {
			return err
		}
		for _, h := range x.got {
			e := h[1]
			if e <= w.begin || e > w.allowEnd {
				return fmt.Errorf("%s: %s reports %v whose end lies outside the searched region ]%d,%d] (all: %v)", c, x.name, h, w.begin, w.allowEnd, x.got)
			}
			if h[2] > c.Budget || h[2] != ends[e-w.begin] {
				return fmt.Errorf("%s: %s reports %v: %d errors, but the closest substring ending at %d is at edit distance %d (all: %v)", c, x.name, h, h[2], e, ends[e-w.begin], x.got)
			}
		}
	}
	if !c.Realign {
		return nil
	}
	span := func(what string, st, en, k int) error {
		if st < 0 || en > n || st > en {
			return fmt.Errorf("%s: %s reports the span [%d,%d) which does not lie inside the sequence of length %d", c, what, st, en, n)
		}
		if k > c.Budget {
			return fmt.Errorf("%s: %s reports the span [%d,%d) with %d errors, beyond the budget", c, what, st, en, k)
		}
		if d := editDistance(pp, c.Seq[st:en]); d != k {
			return fmt.Errorf("%s: %s reports the span [%d,%d) = %q with %d errors; the edit distance between the pattern and that span is %d", c, what, st, en, c.Seq[st:en], k, d)
		}
		return nil
	}
	if err := iff("AllMatches", len(am) > 0); err != nil {
		return err
	}
	for _, h := range am {
		if err := span(fmt.Sprintf("AllMatches (= %v)", am), h[0], h[1], h[2]); err != nil {
			return err
		}
	}
	if err := iff("BestMatch", best.Matched); err != nil {
		return err
	}
	if best.Matched {
		if err := span(fmt.Sprintf("BestMatch (= %+v)", best), best.Start, best.End, best.Nerr); err != nil {
			return err
		}
	}
	return nil
}

// ------------------------------------------------------------------ LocatePattern

type locateCase struct {
	Pattern string // plain IUPAC letters
	Seq     string // acgt, longer than the pattern
}

func checkLocate(c locateCase) error {
	pp, err := parsePattern(c.Pattern)
	if err != nil || !isPure(pp) {
		return fmt.Errorf("harness: pattern %q is not a plain IUPAC string (%v)", c.Pattern, err)
	}
	var st, en, k int
	desc := fmt.Sprintf("LocatePattern(pattern %q, sequence %q)", c.Pattern, c.Seq)
	if err := guarded(desc, func(stage *string) {
		*stage = "LocatePattern"
		st, en, k = obialign.LocatePattern("s", []byte(c.Pattern), []byte(c.Seq))
	}); err != nil {
		return err
	}
	best := minOf(sellers(pp, c.Seq, 0, len(c.Seq)))
	if k != best {
		return fmt.Errorf("%s = (%d,%d,%d): the closest substring is at edit distance %d", desc, st, en, k, best)
	}
	if st < 0 || en > len(c.Seq) || st > en {
		return fmt.Errorf("%s = (%d,%d,%d): the span does not lie inside the sequence of length %d", desc, st, en, k, len(c.Seq))
	}
	if d := editDistance(pp, c.Seq[st:en]); d != k {
		return fmt.Errorf("%s = (%d,%d,%d): the edit distance between the pattern and the span %q is %d", desc, st, en, k, c.Seq[st:en], d)
	}
	return nil
}

// ------------------------------------------------------------------ one ApatSequence buffer reused

type reuseStep struct {
	Seq      string
	Circular bool // only with len(Seq) >= 64 (see Domain decisions)
	Pat      int  // index into Patterns
	Begin    int
	Length   int
}

type reusePattern struct {
	Pattern string
	Budget  int
	Indel   bool
}

type reuseCase struct {
	Patterns []reusePattern
	Steps    []reuseStep
}

func checkReuse(c reuseCase) error {
	type res struct {
		shared, fresh []hit
		sharedLen     int
	}
	results := make([]res, len(c.Steps))
	var compileErr error
	if err := guarded(fmt.Sprintf("%+v", c), func(stage *string) {
		pats := make([]obiapat.ApatPattern, len(c.Patterns))
		for i, p := range c.Patterns {
			*stage = "MakeApatPattern " + p.Pattern
			pat, err := obiapat.MakeApatPattern(p.Pattern, p.Budget, p.Indel)
			if err != nil {
				compileErr = err
				return
			}
			defer pat.Free()
			pats[i] = pat
		}
		var shared obiapat.ApatSequence
		for i, s := range c.Steps {
			*stage = fmt.Sprintf("step %d: MakeApatSequence (recycling)", i)
			var err error
			if i == 0 {
				shared, err = obiapat.MakeApatSequence(bioseq(s.Seq), s.Circular)
			} else {
				shared, err = obiapat.MakeApatSequence(bioseq(s.Seq), s.Circular, shared)
			}
			if err != nil {
				compileErr = err
				return
			}
			results[i].sharedLen = shared.Len()
			*stage = fmt.Sprintf("step %d: FindAllIndex on the recycled sequence", i)
			results[i].shared = toHits(pats[s.Pat].FindAllIndex(shared, s.Begin, s.Length))
			*stage = fmt.Sprintf("step %d: fresh sequence", i)
			fresh, _ := obiapat.MakeApatSequence(bioseq(s.Seq), s.Circular)
			results[i].fresh = toHits(pats[s.Pat].FindAllIndex(fresh, s.Begin, s.Length))
			fresh.Free()
		}
		if len(c.Steps) > 0 {
			shared.Free()
		}
	}); err != nil {
		return err
	}
	if compileErr != nil {
		return fmt.Errorf("%+v: %v", c, compileErr)
	}
	for i, s := range c.Steps {
		r := results[i]
		p := c.Patterns[s.Pat]
		desc := fmt.Sprintf("step %d of %d (pattern %q, %d errors, indels=%v, sequence %q, circular=%v, begin=%d, length=%d) on a recycled ApatSequence", i, len(c.Steps), p.Pattern, p.Budget, p.Indel, s.Seq, s.Circular, s.Begin, s.Length)
		if r.sharedLen != len(s.Seq) {
			return fmt.Errorf("%s: Len() = %d", desc, r.sharedLen)
		}
		if fmt.Sprint(r.shared) != fmt.Sprint(r.fresh) {
			return fmt.Errorf("%s: FindAllIndex = %v, on a fresh ApatSequence = %v", desc, r.shared, r.fresh)
		}
		if !s.Circular && !p.Indel {
			pp, err := parsePattern(p.Pattern)
			if err != nil {
				return fmt.Errorf("harness: %v", err)
			}
			if err := judgeHits(desc+": FindAllIndex", r.shared, bruteHits(pp, s.Seq, p.Budget), makeWindow(len(s.Seq), s.Begin, s.Length), true); err != nil {
				return err
			}
		}
	}
	return nil
}
