package c10

// Search windows (begin, length) at the boundary values of their *arguments*.
//
// The other properties of this package draw windows around the size of the
// sequence.  The arguments are Go ints that the wrappers hand to C as int32
// after adding MAX_PAT_LEN, and the C side mixes int, int32_t, uint32_t and
// size_t when it clips the window to the sequence: the interesting values are
// those of the argument itself (0, 1, 2^15, 2^16, 2^31-65 .. 2^31-1 — the usual
// spellings of "no limit", what obipcr -L 2147483647 feeds —, 2^31 .. 2^32),
// whatever the size of the sequence, plus the values around the sequence end.
//
// Domain decisions (in addition to those of prop_test.go)
//
//   - A window that reaches beyond the end of the sequence is the window "up to
//     the end"; a negative length (any negative value, not only -1) is the whole
//     sequence (`if length < 0` in every wrapper).
//   - begin and length beyond 32 bits: on the tree as it was pinned the wrappers
//     converted them to int32 without a check (SIGSEGV in ManberNoErr for begin =
//     2^31; FindAllIndex(seq, 0, 1<<32) scanned nothing because begin + length + 64
//     wrapped).  Repaired in the repository (the wrappers clamp the window to the
//     sequence, known_findings.txt); values up to 2^40 are generated since then.
//   - Besides the brute-force oracles of checkFind / checkIndel, two consistency
//     oracles on the real results: windows that scan the same region (every
//     window reaching the end, every negative length) give identical results for
//     all entry points; a window cut inside the sequence reports, among the raw
//     hits of the uncut search, exactly those ending within it (those ending in
//     the 64-symbol slack zone may or may not be there).

import (
	"fmt"
	"math"
	"strings"
	"testing"

	"git.metabarcoding.org/obitools/obitools4/obitools4/pkg/obiapat"
	"pgregory.net/rapid"

	"verifharness/internal/evid"
	"verifharness/internal/gen"
)

// maxWindowSum: begin + length + MAX_PAT_LEN must stay below 2^32 (see above).
const maxWindowSum = 1<<40 // (was 2^32-1 until the wrappers clamped the window to the sequence: see known_findings.txt)

// windowCase: sequence = Unit x Repeats + Seq + Unit x After + Tail (compact
// form of the long sequences), one pattern, one window.
type windowCase struct {
	Pattern string
	Budget  int
	Indel   bool
	Realign bool // indel mode: AllMatches / BestMatch are exercised (see indelCase)
	Unit    string
	Repeats int
	Seq     string
	After   int
	Tail    string
	Begin   int
	Length  int
}

func init() {
	evid.Reg("window", checkWindow)
	evid.Tests(evid.Spec{Name: "TestPropWindow", Kind: "rapid", Quick: 32000, Thorough: 500000, QuickShards: 8, ThoroughShards: 16})
	evid.Note("rule_window", "window: pattern and sequence as in find / indel (short planted sequences) or, 1 case in 24, a long sequence (2^15-1 .. 2^16+64 or 140000 symbols: a background that cannot match, one occurrence planted across position 2^15 / 2^16, at the start, at the end or anywhere, and half of the time a second one at the very end); begin and length are drawn from the boundary values of the arguments: begin in {0, 1, copy, copy+-1, n-patlen, n-patlen+1, n-1, n, n+1, n+64, 2^15, 2^16, 2^20, 2^30 (+-1), 2^31-65, 2^31-64, 2^31-1}; length in {-1, -2, -63..-65, -2^15, -2^16, -2^31+64, -2^31, -2^31-1, -2^32, -2^32-64, MinInt64} u {0, 1, patlen+-1, 63..65} u rest-of-sequence + {-patlen, -1, 0, 1, patlen, 63..65} u end-of-copy + {-1, 0, 1} u n + {-1, 0, 1, patlen, 64} u 2^k + {-65, -64, -63, -1, 0, 1} (k = 7, 8, 15, 16, 24, 30, 31) u 2^k - 64 - begin + {-1, 0, 1} (k = 15, 16, 31, 32) u {999999999, 2000000000, 2^31-66 .. 2^31+1, 3*2^30} u 2^32-65-begin - {0, 1, 2}, capped at 2^32-65-begin. Oracles: those of find / indel (brute force restricted to the window) + identical results for windows scanning the same region + raw hits of a cut window = raw hits of the uncut search ending within it. Non-trivial = some match starts at or after begin in the sequence (the length argument decides what has to be reported).")
}

func (c windowCase) seq() string {
	return strings.Repeat(c.Unit, max(0, c.Repeats)) + c.Seq + strings.Repeat(c.Unit, max(0, c.After)) + c.Tail
}

func (c windowCase) String() string {
	mode := "mismatches"
	if c.Indel {
		mode = "errors with indels"
	}
	return fmt.Sprintf("pattern %q, %d %s, sequence %q x %d + %q + %q x %d + %q (%d symbols), begin=%d, length=%d",
		c.Pattern, c.Budget, mode, c.Unit, c.Repeats, c.Seq, c.Unit, c.After, c.Tail, len(c.Unit)*(max(0, c.Repeats)+max(0, c.After))+len(c.Seq)+len(c.Tail), c.Begin, c.Length)
}

func (c windowCase) inDomain() bool {
	if c.Begin < 0 || c.Begin > 1<<40 {
		return false
	}
	return c.Length < 0 || c.Begin+c.Length+64 <= maxWindowSum
}

func shorten(s string, n int) string {
	if len(s) > 2*n {
		return s[:n] + " … " + s[len(s)-n:]
	}
	return s
}

type winResult struct {
	Raw, Filtered, All []hit
	Matching           bool
	Best               bestTuple
}

func (r winResult) String() string {
	return fmt.Sprintf("FindAllIndex=%v IsMatching=%v FilterBestMatch=%v AllMatches=%v BestMatch=%+v", r.Raw, r.Matching, r.Filtered, r.All, r.Best)
}

func sameHits(a, b []hit) bool {
	if len(a) != len(b) {
		return false
	}
	for i := range a {
		if a[i] != b[i] {
			return false
		}
	}
	return true
}

func (r winResult) equal(o winResult) bool {
	return r.Matching == o.Matching && r.Best == o.Best && sameHits(r.Raw, o.Raw) && sameHits(r.Filtered, o.Filtered) && sameHits(r.All, o.All)
}

func checkWindow(c windowCase) error {
	if !c.inDomain() {
		return nil // outside the domain (see Domain decisions); never generated
	}
	seq := c.seq()
	n := len(seq)
	long := n > 400
	wrap := func(err error) error {
		if err == nil {
			return nil
		}
		s := err.Error()
		if long {
			// the inner checks quote the whole sequence: name it instead
			s = c.String() + ": " + shorten(strings.ReplaceAll(s, fmt.Sprintf("%q", seq), "<that sequence>"), 900)
		}
		return fmt.Errorf("%s", s)
	}
	// 1. the oracles of find / indel on this window
	if c.Indel {
		if err := checkIndel(indelCase{Pattern: c.Pattern, Budget: c.Budget, Seq: seq, Begin: c.Begin, Length: c.Length, Realign: c.Realign}); err != nil {
			return wrap(err)
		}
	} else {
		if err := checkFind(findCase{Pattern: c.Pattern, Budget: c.Budget, Seq: seq, Begin: c.Begin, Length: c.Length}); err != nil {
			return wrap(err)
		}
	}
	// 2. consistency with the uncut search (begin, -1)
	realign := !c.Indel || c.Realign
	var got, whole winResult
	var compileErr error
	if err := guarded(c.String(), func(stage *string) {
		*stage = "MakeApatPattern"
		pat, err := obiapat.MakeApatPattern(c.Pattern, c.Budget, c.Indel)
		if err != nil {
			compileErr = err
			return
		}
		defer pat.Free()
		*stage = "MakeApatSequence"
		aseq, err := obiapat.MakeApatSequence(bioseq(seq), false)
		if err != nil {
			compileErr = err
			return
		}
		defer aseq.Free()
		run := func(length int, r *winResult) {
			*stage = fmt.Sprintf("FindAllIndex(%d, %d)", c.Begin, length)
			r.Raw = toHits(pat.FindAllIndex(aseq, c.Begin, length))
			*stage = fmt.Sprintf("IsMatching(%d, %d)", c.Begin, length)
			r.Matching = pat.IsMatching(aseq, c.Begin, length)
			*stage = fmt.Sprintf("FilterBestMatch(%d, %d)", c.Begin, length)
			r.Filtered = toHits(pat.FilterBestMatch(aseq, c.Begin, length))
			if realign {
				*stage = fmt.Sprintf("AllMatches(%d, %d)", c.Begin, length)
				r.All = toHits(pat.AllMatches(aseq, c.Begin, length))
				*stage = fmt.Sprintf("BestMatch(%d, %d)", c.Begin, length)
				r.Best.Start, r.Best.End, r.Best.Nerr, r.Best.Matched = pat.BestMatch(aseq, c.Begin, length)
			}
		}
		// the uncut search first, then the window, then the uncut search again:
		// the window must not depend on (nor disturb) what was searched before
		run(-1, &whole)
		run(c.Length, &got)
		var again winResult
		run(-1, &again)
		if !again.equal(whole) {
			compileErr = fmt.Errorf("%s: the search (begin=%d, length=-1) gives %s before and %s after the search with length=%d", c, c.Begin, shorten(whole.String(), 600), shorten(again.String(), 600), c.Length)
		}
	}); err != nil {
		return wrap(err)
	}
	if compileErr != nil {
		return wrap(compileErr)
	}
	if c.Length < 0 || c.Begin+c.Length >= n {
		// same scanned region: [begin, end of the sequence)
		if !got.equal(whole) {
			return fmt.Errorf("%s: the window reaches the end of the sequence, so it is the window (begin=%d, length=-1); results with length=%d: %s; with length=-1: %s",
				c, c.Begin, c.Length, shorten(got.String(), 700), shorten(whole.String(), 700))
		}
		return nil
	}
	// cut window: raw hits ending within begin+length are exactly those of the uncut search
	reqEnd, allowEnd := c.Begin+c.Length, c.Begin+c.Length+64
	inWhole := hitSet(whole.Raw)
	inGot := hitSet(got.Raw)
	for _, h := range whole.Raw {
		if h[1] <= reqEnd && !inGot[h] {
			return fmt.Errorf("%s: FindAllIndex misses %v, which ends inside the window and is reported by the search (begin=%d, length=-1); window: %s; uncut: %s",
				c, h, c.Begin, shorten(fmt.Sprint(got.Raw), 500), shorten(fmt.Sprint(whole.Raw), 500))
		}
	}
	for _, h := range got.Raw {
		if !inWhole[h] || h[1] > allowEnd {
			return fmt.Errorf("%s: FindAllIndex reports %v, which the search (begin=%d, length=-1) does not report or which ends beyond begin+length+64; window: %s; uncut: %s",
				c, h, c.Begin, shorten(fmt.Sprint(got.Raw), 500), shorten(fmt.Sprint(whole.Raw), 500))
		}
	}
	return nil
}

// ------------------------------------------------------------------ generator

func pick[T any](t *rapid.T, label string, v ...T) T { return rapid.SampledFrom(v).Draw(t, label) }

// drawEdgeWindow draws (begin, length) from the boundary values of the two
// arguments for a sequence of n symbols holding a copy of the pattern (patlen
// positions) at offset at.  The result is inside the domain stated at the top.
func drawEdgeWindow(t *rapid.T, n, patlen, at int) (begin, length int, labels []string) {
	bk := pick(t, "wbegin_kind", "0", "0", "0", "0", "0", "0", "1", "copy", "copy", "copy-1", "copy+1", "n-patlen", "n-patlen+1", "n-1", "n", "n+1", "n+64", "2^k", "2^31-65", "2^31-64", "2^31-1", "any")
	switch bk {
	case "0":
	case "1":
		begin = 1
	case "copy":
		begin = at
	case "copy-1":
		begin = at - 1
	case "copy+1":
		begin = at + 1
	case "n-patlen":
		begin = n - patlen
	case "n-patlen+1":
		begin = n - patlen + 1
	case "n-1":
		begin = n - 1
	case "n":
		begin = n
	case "n+1":
		begin = n + 1
	case "n+64":
		begin = n + 64
	case "2^k":
		begin = 1<<pick(t, "wbegin_pow", 15, 16, 20, 30) + pick(t, "wbegin_off", -1, 0, 1)
	case "2^31-65":
		begin = math.MaxInt32 - 64
	case "2^31-64":
		begin = math.MaxInt32 - 63
	case "2^31-1":
		begin = math.MaxInt32 + pick(t, "wbegin_beyond", 0, 0, 1, 2, 1<<31, 1<<32, 1<<32+1, 1<<33)
	default:
		begin = rapid.IntRange(0, n+1).Draw(t, "wbegin")
	}
	begin = min(max(begin, 0), 1<<40)
	rest := n - begin
	lk := pick(t, "wlength_kind", "negative", "negative", "small", "rest", "rest", "rest", "copy_end", "n", "2^k", "2^k", "2^k", "2^k-64-begin", "2^k-64-begin", "no_limit", "no_limit", "no_limit", "max", "any")
	switch lk {
	case "negative":
		length = pick(t, "wlength_neg", -1, -1, -2, -63, -64, -65, -(1 << 15), -(1 << 16), math.MinInt32+64, math.MinInt32, math.MinInt32-1, -(1 << 32), -(1<<32)-64, math.MinInt64)
	case "small":
		length = pick(t, "wlength_small", 0, 1, patlen-1, patlen, patlen+1, 63, 64, 65)
	case "rest":
		length = rest + pick(t, "wlength_off", -patlen, -1, 0, 0, 1, patlen, 63, 64, 65)
	case "copy_end":
		length = at + patlen - begin + pick(t, "wlength_off", -1, 0, 1)
	case "n":
		length = n + pick(t, "wlength_off", -1, 0, 1, patlen, 64)
	case "2^k":
		length = 1<<pick(t, "wlength_pow", 7, 8, 15, 16, 24, 30, 31, 31) + pick(t, "wlength_off", -65, -64, -63, -1, 0, 1)
	case "2^k-64-begin":
		length = 1<<pick(t, "wlength_pow", 15, 16, 31, 31, 32) - 64 - begin + pick(t, "wlength_off", -1, 0, 1)
	case "no_limit":
		length = pick(t, "wlength_nolimit", 999999999, 2000000000, math.MaxInt32-65, math.MaxInt32-64, math.MaxInt32-63, math.MaxInt32-1, math.MaxInt32, math.MaxInt32, 1<<31, 1<<31+1, 3<<30, 1<<32-65, 1<<32-64, 1<<32-1, 1<<32, 1<<32+1, 1<<33, 5000000000)
	case "max":
		length = maxWindowSum - 64 - begin - pick(t, "wlength_off", 0, 1, 2)
	default:
		length = rapid.IntRange(0, n+1).Draw(t, "wlength")
	}
	if lk != "negative" {
		length = max(length, 0)
		if begin+length+64 > maxWindowSum {
			length = maxWindowSum - 64 - begin
			labels = append(labels, "window:length_capped_at_2^32-65-begin")
		}
	}
	return begin, length, append(labels, "window_begin:"+bk, "window_length:"+lk)
}

// windowClasses labels the window by the value of its arguments.
func windowClasses(n, begin, length int) (cl []string) {
	switch {
	case length == -1:
		cl = append(cl, "window:length=-1")
	case length < 0:
		cl = append(cl, "window:length_negative_other_than_-1")
	case length+64 > math.MaxUint32/2 && length <= math.MaxInt32:
		cl = append(cl, "window:length+64_wraps_int32,length<=MaxInt32")
	case length > math.MaxInt32:
		cl = append(cl, "window:length>MaxInt32")
	case length >= 1<<16:
		cl = append(cl, "window:length_2^16..2^31-65")
	case length >= 1<<15:
		cl = append(cl, "window:length_2^15..2^16-1")
	case length == 0:
		cl = append(cl, "window:length=0")
	}
	switch {
	case length < 0 || begin+length > n:
		cl = append(cl, "window:reaches_beyond_sequence_end")
	case begin+length == n:
		cl = append(cl, "window:ends_at_sequence_end")
	default:
		cl = append(cl, "window:cut_inside_sequence")
	}
	switch {
	case begin > math.MaxInt32-128:
		cl = append(cl, "window:begin_near_MaxInt32")
	case begin > n:
		cl = append(cl, "window:begin>n")
	case begin == n:
		cl = append(cl, "window:begin=n")
	case begin > 0:
		cl = append(cl, "window:begin_inside_sequence")
	}
	if length >= 0 && begin+length+64 > math.MaxInt32 && begin+length+64 <= math.MaxUint32 {
		cl = append(cl, "window:begin+length+64_in_2^31..2^32")
	}
	if n > 400 {
		cl = append(cl, "window:long_sequence")
		if n >= 1<<16 {
			cl = append(cl, "window:sequence>=2^16")
		} else if n >= 1<<15 {
			cl = append(cl, "window:sequence_2^15..2^16-1")
		}
	}
	return
}

// genWindowLong: a long sequence in the compact form: a background of 't' that
// the pattern (over A, C, G and ambiguity codes without T) cannot match, one
// (mutated) occurrence planted across position 2^15 / 2^16, at the start, at the
// end or anywhere, and, half of the time, a second occurrence at the very end.
func genWindowLong(t *rapid.T, indel bool) (c windowCase, at, tlen int) {
	target := pick(t, "wlong_n", 1<<15-1, 1<<15, 1<<15+1, 1<<15+64, 1<<16-1, 1<<16, 1<<16+1, 1<<16+64, 140000)
	n := rapid.IntRange(6, 30).Draw(t, "patlen")
	pat, tpl := make([]byte, n), make([]byte, n)
	for i := range pat {
		k := rapid.IntRange(0, 9).Draw(t, "sym")
		pat[i], tpl[i] = "ACGACGMRSV"[k], "acgacgaacg"[k]
	}
	c.Pattern, c.Indel, c.Realign = string(pat), indel, indel
	kinds := []string{"s"}
	if indel {
		c.Budget = rapid.IntRange(1, min(3, n-2)).Draw(t, "budget")
		kinds = []string{"i", "sid", "d", "s"}
	} else {
		c.Budget = drawBudget(t)
	}
	occ := func(label string) string {
		o, _ := gen.Mutate(t, label, string(tpl), rapid.IntRange(0, c.Budget).Draw(t, label+"_edits"), "acg", rapid.SampledFrom(kinds).Draw(t, label+"_kinds"))
		return o
	}
	c.Seq = occ("occ")
	if rapid.Bool().Draw(t, "wlong_tail") {
		c.Tail = occ("tail")
	}
	c.Unit = "t"
	room := target - len(c.Seq) - len(c.Tail)
	switch pick(t, "wlong_pos", "edge15", "edge16", "end", "start", "any") {
	case "edge15":
		at = 1<<15 - rapid.IntRange(0, len(c.Seq)+1).Draw(t, "before_edge")
	case "edge16":
		at = 1<<16 - rapid.IntRange(0, len(c.Seq)+1).Draw(t, "before_edge")
	case "end":
		at = room
	case "start":
		at = 0
	default:
		at = rapid.IntRange(0, room).Draw(t, "pos")
	}
	at = min(max(at, 0), room)
	c.Repeats, c.After = at, room-at
	return c, at, n
}

func genWindow(t *rapid.T) (c windowCase, labels []string) {
	indel := rapid.IntRange(0, 2).Draw(t, "windel") == 2
	var at, tlen int
	if rapid.IntRange(0, 23).Draw(t, "wlong") == 23 {
		c, at, tlen = genWindowLong(t, indel)
	} else if indel {
		var ic indelCase
		ic, at, tlen = genIndelSeq(t)
		c = windowCase{Pattern: ic.Pattern, Budget: ic.Budget, Indel: true, Realign: ic.Realign, Seq: ic.Seq}
	} else {
		var fc findCase
		fc, at, tlen = genFindSeq(t)
		c = windowCase{Pattern: fc.Pattern, Budget: fc.Budget, Seq: fc.Seq}
	}
	n := len(c.Unit)*(c.Repeats+c.After) + len(c.Seq) + len(c.Tail)
	c.Begin, c.Length, labels = drawEdgeWindow(t, n, tlen, at)
	return c, labels
}

func TestPropWindow(t *testing.T) {
	rapid.Check(t, func(rt *rapid.T) {
		c, labels := genWindow(rt)
		pp, err := parsePattern(c.Pattern)
		if err != nil {
			rt.Fatalf("generator produced an unparsable pattern: %v", err)
		}
		if !c.inDomain() {
			rt.Fatalf("generator produced a window outside the domain: begin=%d length=%d", c.Begin, c.Length)
		}
		seq := c.seq()
		n := len(seq)
		cl := append(labels, windowClasses(n, c.Begin, c.Length)...)
		cl = append(cl, fmt.Sprintf("window_indel:%v", c.Indel))
		// non-trivial: some match starts at or after begin
		nt := false
		if c.Begin <= n {
			if c.Indel {
				nt = minOf(sellers(pp, seq, c.Begin, n)) <= c.Budget
			} else {
				nt = len(filterHits(bruteHits(pp, seq, c.Budget), func(h hit) bool { return h[0] >= c.Begin })) > 0
			}
		}
		if nt {
			cl = append(cl, "window:match_at_or_after_begin")
			w := makeWindow(n, c.Begin, c.Length)
			if c.Length >= 0 && w.reqEnd < n {
				cl = append(cl, "window:cut_with_match_after_begin")
			}
		}
		evid.Eval("window", evid.Hash(fmt.Sprintf("%+v", c)), nt, c, cl...)
		if err := checkWindow(c); err != nil {
			evid.Fail(rt, "window", c, err)
		}
	})
}
