package c10

import (
	"strings"
	"testing"

	"git.metabarcoding.org/obitools/obitools4/obitools4/pkg/obiapat"

	"verifharness/internal/evid"
	"verifharness/internal/fatal"
)

// TestKnownFindings runs the two shapes recorded as known findings against the
// tree under test and records in the evidence whether they still reproduce.  It
// never fails: the shapes are excluded from the generated checks.
func TestKnownFindings(t *testing.T) {
	// patlen64: a 64-position pattern does not even match its own sequence
	p64 := strings.Repeat("ACGT", 16)
	var hits [][3]int
	out := fatal.Run(func() {
		pat, err := obiapat.MakeApatPattern(p64, 0, false)
		if err != nil {
			return
		}
		defer pat.Free()
		seq, _ := obiapat.MakeApatSequence(bioseq("tt"+strings.ToLower(p64)+"gg"), false)
		defer seq.Free()
		hits = pat.FindAllIndex(seq, 0, -1)
	})
	if out.Completed && len(hits) == 1 && hits[0] == [3]int{2, 66, 0} {
		evid.Class("finding_not_reproduced:patlen64", 1)
		t.Log("known finding patlen64 does not reproduce any more")
	} else {
		evid.Class("finding_reproduced:patlen64", 1)
	}
	// indel_seq_not_longer_than_pattern: AllMatches / BestMatch panic
	for _, name := range []string{"AllMatches", "BestMatch"} {
		out = fatal.Run(func() {
			pat, _ := obiapat.MakeApatPattern("ACGTACGT", 1, true)
			defer pat.Free()
			seq, _ := obiapat.MakeApatSequence(bioseq("acctacgt"), false)
			defer seq.Free()
			if name == "AllMatches" {
				pat.AllMatches(seq, 0, -1)
			} else {
				pat.BestMatch(seq, 0, -1)
			}
		})
		if out.Completed {
			evid.Class("finding_not_reproduced:indel_seq_not_longer_than_pattern:"+name, 1)
			t.Logf("known finding indel_seq_not_longer_than_pattern does not reproduce any more for %s", name)
		} else {
			evid.Class("finding_reproduced:indel_seq_not_longer_than_pattern:"+name, 1)
		}
	}
}
