package c12

import (
	"testing"

	"verifharness/internal/evid"
)

// TestKnownFindings runs the shape recorded as a known finding against the tree
// under test and records in the evidence whether it still reproduces.  It never
// fails: the shape is excluded from the generated checks by construction (with
// primer indels allowed, every generated read is longer than every primer).
func TestKnownFindings(t *testing.T) {
	sh := Sheet{
		Markers:    []Marker{{"ACGTACGT", "TTGGCCAATTGG"}},
		Rows:       []Row{{0, Sample{Exp: "exp", Name: "s1"}}},
		E:          1,
		WithIndels: true,
	}
	worker, err := library(sh)
	if err != nil {
		t.Logf("the sheet of the known finding is not readable: %v", err)
		return
	}
	// the read is not longer than the forward primer and carries it with one error
	if _, err := runWorker(worker, Read{Seq: "acctacgt"}); err != nil {
		evid.Class("finding_reproduced:indel_read_not_longer_than_primer", 1)
	} else {
		evid.Class("finding_not_reproduced:indel_read_not_longer_than_primer", 1)
		t.Log("known finding indel_read_not_longer_than_primer does not reproduce any more")
	}
}
