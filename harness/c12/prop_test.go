// Property C12 — demultiplexing assigns the declared sample, the exact barcode,
// on either strand.
//
// Domain decisions (sub-cases the statement does not decide; not generated / not asserted)
//
//   - Sheets respect the reader's own rules: primers pairwise different across
//     markers (and forward != reverse), one tag length per marker and side, one
//     line per (marker, tag pair).  The reader ignores the error value of its own
//     checks (CheckPrimerUnicity, CheckTagLength); what happens then is not part of
//     the property.
//   - Text format: six blank/tab separated columns, sixth column always "F" (the
//     code ignores it, doc/book/formats.qmd requires F), optional "@ key=value;"
//     annotations with plain word values (no comma: the format guesser would take
//     the file for a CSV sheet; no number / boolean: typed by the header parser,
//     property C02).  CSV format: no quoting, no blank around fields.  Names are
//     words over letters, digits, '_', '.', '-'.  (TestPropSheetShape and
//     TestPropSheetShapeCLI vary the byte-level layout of the file - line ends,
//     final newline, blank / comment lines, separators, quoting, case, long
//     lines: see shape_test.go for what is generated and what is left out.)
//   - "No tag on this side" is written "-" in the two-word syntax ("tag:-", "-:tag",
//     "-:-") as the CSV template documents; a lone "-" is not generated.
//   - CSV parameters: only the names on which the template text printed by
//     `obimultiplex --template` and the reader agree (spacer, forward_spacer,
//     reverse_spacer, tag_delimiter, forward_tag_delimiter, reverse_tag_delimiter,
//     matching, primer_mismatches, indels, in their one-value and primer,value
//     forms) plus tag_indels (reader only; needed to reach the rescue extraction).
//     forward_matching / reverse_matching / forward_primer_mismatches / forward_indel
//     are described by the template but unknown to the reader (and the reader's
//     forward_mismatches / forward_indels are not described): not generated.
//     Later lines override earlier ones; a per-primer line names the primer as
//     written in the sheet.
//   - Command options: -e N / --with-indels are only combined with sheets that do
//     not declare primer_mismatches / indels themselves (precedence is not
//     documented).  -e 0 means "no mismatch allowed".
//   - Primers: IUPAC words of (8 + 3 x largest mismatch budget of the sheet)..36
//     letters (never 64: known finding C10 patlen64), budgets 0..3: with shorter
//     primers nearly every read carries accidental sites and nothing is determined.
//     Reads: lower-case acgt; empty reads only in-process (an empty FASTA record is
//     the file parsers' subject, C01).  With primer indels allowed, reads are longer
//     than every primer (known finding key=indel_read_not_longer_than_primer, the
//     C10 finding indel_seq_not_longer_than_pattern reached through obimultiplex:
//     excluded by construction, counted).
//   - tag_indels is smaller than the tag length (a larger value makes
//     lookForRescueTag index past its fragment: a meaningless configuration).
//   - The constructive and the strand-symmetry clauses are asserted when the
//     priming sites of the read, found by an independent brute-force scan of all
//     four orientations of all primers (IUPAC Hamming distance; Sellers edit
//     distance when indels are allowed), are exactly a succession of
//     non-overlapping (opening primer, closing primer of the same marker) pairs
//     with a non-empty barcode and well separated repeats of the same primer, each
//     site having one well-defined span; or when there is no site at all (one
//     flagged copy of the read).  For any other read (overlapping, crossed,
//     ambiguous sites; empty barcode) only the safety clause is asserted: which
//     sites the matcher keeps is C10's subject and not stated here.
//   - Lone priming sites (partial amplicons in a chimeric read, class "mixed"): the
//     statement lets the flanks of a tag-primer-barcode-primer-tag construct be
//     arbitrary and ranges over chimeric reads and partial priming sites, so a
//     complete construct must come out whatever partial sites lie before or after
//     it.  Among well separated, non-overlapping sites the amplicons are the pairs
//     of NEIGHBOURING sites (opening primer, closing primer of the same marker on the
//     same strand) - "a forward hit followed by the matching complementary hit
//     delimits a barcode" in the position-sorted list of all hits; an opening site
//     followed by another opening site is abandoned in favour of the later one; a
//     closing site with no opening site of its marker and strand before it, or
//     whose opening site was already closed by a nearer occurrence of the same
//     closing primer, delimits nothing; a read without any pair is output as one
//     flagged copy.  NOT decided (class "other", safety clause only): a closing
//     site whose nearest candidate opening site is separated from it by sites of
//     other primers (would the barcode span a foreign priming site? this covers a
//     foreign lone site or a whole foreign amplicon nested inside an amplicon).
//   - Tags "as extracted" are the bytes at the declared spacer distance from the
//     primer site (empty when they would lie off the read: the record must then be
//     flagged unless the side is declared tag-less).  hamming / indel: the unique
//     declared tag of that side at the least Hamming / Levenshtein distance, per
//     side, whatever the distance (the statement gives no threshold); a tie
//     designates nothing.
//   - Delimiter and rescue extraction (tag_delimiter, tag_indels): barcode,
//     direction, primers are judged as usual, the reported tags of such a side are
//     taken as they are (no position claim) and must designate the assigned sample;
//     Hamming distance between an extracted word and declared tags of another
//     length is not defined: such records are not judged (class hamming_unequal_length).
//   - Output attributes compared: sequence (+ qualities when the read has some),
//     obimultiplex_direction, _forward_primer, _reverse_primer, _forward_match,
//     _reverse_match, _forward_error, _reverse_error, _forward_tag, _reverse_tag,
//     sample, experiment, the sample's extra columns / annotations,
//     obimultiplex_error (presence).  Not compared: *_matching, *_tag_dist,
//     *_proposed_tag, obimultiplex_amplicon_rank, record identifiers, the order of
//     the records of one read, the text of the error.
package c12

import (
	"fmt"
	"runtime/debug"
	"sort"
	"strings"
	"testing"

	"git.metabarcoding.org/obitools/obitools4/obitools4/pkg/obiformats"
	"git.metabarcoding.org/obitools/obitools4/obitools4/pkg/obingslibrary"
	"git.metabarcoding.org/obitools/obitools4/obitools4/pkg/obiseq"
	"pgregory.net/rapid"

	"verifharness/internal/evid"
	"verifharness/internal/fatal"
)

func TestMain(m *testing.M) {
	// every case reads a sheet (128 KiB guess buffer, 1000-entry sample maps): the
	// live heap stays tiny, so let the collector run less often
	debug.SetGCPercent(1000)
	evid.Tests(
		evid.Spec{Name: "TestReplay", Kind: "plain", QuickShards: 1, ThoroughShards: 1},
		evid.Spec{Name: "TestKnownFindings", Kind: "plain", QuickShards: 1, ThoroughShards: 1},
		evid.Spec{Name: "TestPropDemux", Kind: "rapid", Quick: 20000, Thorough: 800000, QuickShards: 8, ThoroughShards: 16},
		evid.Spec{Name: "TestPropCLI", Kind: "rapid", Quick: 480, Thorough: 12000, QuickShards: 8, ThoroughShards: 16},
		evid.Spec{Name: "TestPropMosaic", Kind: "rapid", Quick: 6000, Thorough: 60000, QuickShards: 8, ThoroughShards: 16},
		evid.Spec{Name: "TestPropSheetShape", Kind: "rapid", Quick: 8000, Thorough: 60000, QuickShards: 8, ThoroughShards: 16},
		evid.Spec{Name: "TestPropSheetShapeCLI", Kind: "rapid", Quick: 800, Thorough: 5000, QuickShards: 8, ThoroughShards: 16},
	)
	evid.Commands("obimultiplex")
	evid.Note("rule", "A case is a sample sheet (text or CSV format; 1-3 markers with pairwise different IUPAC primers of (8+3*budget)..36 nt; per marker and side one tag length 0..8, absent / asymmetric tags, 1-5 tags per side at pairwise distance >= 1..3, 1-8 declared tag pairs; CSV parameter lines for spacers 0..5, strict/hamming/indel matching, primer mismatches 0..3, primer indels, tag delimiter and tag indels in their global, forward_/reverse_ and per-primer forms; -e / --with-indels) plus 6-14 reads built by construction: flank + tag + spacer + primer with 0..budget(+1) mismatches + barcode + the same on the other strand, in either orientation, with declared / undeclared / random tag pairs, tag substitutions and indels, chimeras of 2-3 amplicons in mixed orientations, truncated or one-primer reads, random reads, mosaics of 2-4 pieces in any order and orientation (complete amplicons; partial ones: opening primer only, closing primer only, opening or closing primer 1-3 mismatches over budget; junk; TestPropMosaic draws mosaics only). Every read is submitted as is and reverse-complemented, in-process (obiformats.ReadNGSFilter + NGSLibrary.ExtractMultiBarcodeSliceWorker, as obimultiplex does) and in batches through the real command `obimultiplex -t sheet [-u file | --keep-errors] [-e N] [--with-indels]` (fasta and fastq). Oracles: (1) constructive - an independent brute-force scan (IUPAC Hamming / Sellers) of the four orientations of every primer; when the sites are exactly well-formed pairs the expected records (barcode forward->reverse, qualities, direction, primers, matches, error counts, tags at spacer distance, sample/experiment/annotations or error flag by own exact / unique-nearest Hamming / Levenshtein lookup) are compared as a multiset; no site at all -> one flagged copy of the read; well separated sites some of which are lone (class mixed) -> the amplicons are the neighbouring (opening, matching closing) pairs, none -> one flagged copy; (2) strand symmetry between the two runs; (3) safety on every record of every read: flagged, or assigned to the sample its reported tags designate, matches within budget at the reported distance, pieces adjacent in the read. Non-trivial = a determined amplicon assigned to a sample with >= 1 primer mismatch, a non-zero spacer next to a tag, or read in reverse orientation; for check mosaic: a read with >= 1 lone priming site next to >= 1 determined amplicon that the oracle assigns to a declared sample. Distinct = hash of (sheet text, options, read). Checks shape / shapecli (TestPropSheetShape in-process, TestPropSheetShapeCLI through `obimultiplex -t file` or `-t /dev/stdin` fed through a pipe in 1-5 pieces): a sheet of the same generator (classical format favoured; CSV extra values that need quoting: commas, blanks, doubled quotes) is written with a generated byte-level shape - LF / CR LF / mixed line ends, last line with or without terminator, 0-3 lines after the last entry and lines inserted before 15-40 % of the lines (empty, comment, commented-out entry; classical: blanks-only lines, indented comments), classical: column separators = runs of 1-5 blanks / tabs, leading and trailing blanks / tabs; CSV: 30-100 % of the fields quoted, a blank after commas; every written primer and tag (rows and @param,name,primer,value lines) in a case style of its own; one comment line or one entry (pad annotation / pad column) of 200..100000 bytes around 3072 / 4096 / 8192 / 65536 (classical: up to 300000, sheets larger than the 128 KiB detection buffer), placed first, last or anywhere. The model never sees the shape. Reads: one well-formed amplicon per declared PCR in sheet order (first and last entry always exercised) plus 1-3 reads of the ordinary mixture, each as is and reverse-complemented; same three oracles. Non-trivial for shape / shapecli = the bytes of the file differ from the plain rendering and the oracle assigns an amplicon of the read (shapecli: of some read of the batch) to a declared sample; distinct = hash of (file bytes, options, read / batch).")
	evid.Main(m, "C12")
}

func TestReplay(t *testing.T) { evid.Replay(t) }

func init() {
	evid.Reg("demux", checkDemux)
	evid.Reg("cli", checkCLI)
}

// demuxCase: one sheet, the reads submitted to it.
type demuxCase struct {
	Sheet Sheet
	Reads []Read
}

// ------------------------------------------------------------------ running the library

func annOf(s *obiseq.BioSequence) map[string]any {
	out := map[string]any{}
	if !s.HasAnnotation() {
		return out
	}
	s.AnnotationsLock()
	for k, v := range s.Annotations() {
		out[k] = v
	}
	s.AnnotationsUnlock()
	return out
}

// library reads the sheet and builds the worker exactly as
// obimultiplex.IExtractBarcode does.
func library(sh Sheet) (obiseq.SeqSliceWorker, error) {
	var worker obiseq.SeqSliceWorker
	var rerr error
	text := sh.Text()
	out := fatal.Run(func() {
		lib, err := obiformats.ReadNGSFilter(strings.NewReader(text))
		if err != nil {
			rerr = err
			return
		}
		worker = lib.ExtractMultiBarcodeSliceWorker(
			obingslibrary.OptionAllowedMismatches(sh.E),
			obingslibrary.OptionAllowedIndel(sh.WithIndels),
			obingslibrary.OptionUnidentified(""),
			obingslibrary.OptionDiscardErrors(false),
		)
	})
	if !out.Completed {
		return nil, fmt.Errorf("reading the sheet did not return: %v\n%s", out, out.Stack)
	}
	if rerr != nil {
		return nil, fmt.Errorf("ReadNGSFilter rejects the sheet: %v", rerr)
	}
	return worker, nil
}

func runWorker(worker obiseq.SeqSliceWorker, rd Read) ([]outRec, error) {
	var recs []outRec
	var werr error
	out := fatal.Run(func() {
		s := obiseq.NewBioSequence("read", []byte(rd.Seq), "")
		if rd.Qual != nil {
			s.SetQualities(append([]byte(nil), rd.Qual...))
		}
		res, err := worker(obiseq.BioSequenceSlice{s})
		if err != nil {
			werr = err
			return
		}
		for _, o := range res {
			r := outRec{ID: o.Id(), Seq: o.String(), Ann: annOf(o)}
			if o.HasQualities() {
				r.Qual = append([]byte(nil), o.Qualities()...)
			}
			recs = append(recs, r)
		}
	})
	if !out.Completed {
		return nil, fmt.Errorf("the worker did not return: %v\n%s", out, out.Stack)
	}
	if werr != nil {
		return nil, fmt.Errorf("the worker returned the error %v", werr)
	}
	return recs, nil
}

// ------------------------------------------------------------------ judging one read

type verdict struct {
	Class      string
	Nontrivial bool
	Classes    []string
	// reads with lone priming sites (class "mixed")
	Lone     int  // number of lone sites
	Assigned int  // determined amplicons the oracle assigns to a sample
	Reopened bool // a lone opening site is immediately followed by the opening site of a determined amplicon
}

// judge applies the oracles to the records of one read (one orientation).
func judge(sh Sheet, ms []markerM, rd Read, recs []outRec) (verdict, error) {
	var v verdict
	if len(recs) == 0 {
		return v, fmt.Errorf("no record at all came out for the read")
	}
	for _, r := range recs {
		if err := safety(sh, ms, rd, r); err != nil {
			return v, fmt.Errorf("safety: record %v: %v", r, err)
		}
	}
	class, amps, hits, lone := classifyLone(ms, rd)
	v.Class = class
	v.Classes = append(v.Classes, "sites:"+class)
	if class == "other" {
		return v, nil
	}
	if err := constructive(sh, ms, rd, class, amps, recs); err != nil {
		return v, fmt.Errorf("constructive (priming sites by brute force %v, class %s): %v\n records: %s", hits, class, err, recsString(recs))
	}
	if class == "mixed" {
		v.Classes = append(v.Classes, mixedClasses(hits, lone, len(amps), &v)...)
	}
	if len(amps) > 1 {
		v.Classes = append(v.Classes, "chimera_determined")
	}
	for _, a := range amps {
		m := ms[a.Marker]
		v.Classes = append(v.Classes, "dir:"+a.Dir, fmt.Sprintf("primer_errors:%d", a.FErr+a.RErr), "matching:"+m.F.Matching)
		if m.F.Indel || m.R.Indel {
			v.Classes = append(v.Classes, "primer_indels_allowed")
			if a.FErr+a.RErr > 0 {
				v.Classes = append(v.Classes, "primer_indels_allowed_with_errors")
			}
		}
		if !m.F.fixed() || !m.R.fixed() {
			v.Classes = append(v.Classes, "delimited_or_rescue_tags")
			continue
		}
		row, st := identify(m, a.FTag, a.RTag)
		switch {
		case st == idAssigned:
			v.Assigned++
			v.Classes = append(v.Classes, "expected:assigned")
			w := sh.Rows[row]
			if strings.ToLower(w.FTag) != a.FTag || strings.ToLower(w.RTag) != a.RTag {
				v.Classes = append(v.Classes, "expected:assigned_by_nearest_tag")
			}
			if a.SpacerOrErrs || a.Dir == "reverse" {
				v.Nontrivial = true
			}
			if (m.F.TagLen > 0 && m.F.Spacer > 0) || (m.R.TagLen > 0 && m.R.Spacer > 0) {
				v.Classes = append(v.Classes, "spacer>0")
			}
			if m.F.TagLen != m.R.TagLen {
				v.Classes = append(v.Classes, "asymmetric_tags")
			}
			if m.F.TagLen == 0 && m.R.TagLen == 0 {
				v.Classes = append(v.Classes, "no_tags")
			}
		default:
			v.Classes = append(v.Classes, "expected:flagged_amplicon")
			if m.F.Matching != "strict" {
				v.Classes = append(v.Classes, "expected:flagged_amplicon_nearest_mode")
			}
		}
	}
	return v, nil
}

// mixedClasses labels the arrangement of lone and paired sites of a "mixed" read.
func mixedClasses(hits []hit, lone []bool, namps int, v *verdict) []string {
	set := map[string]bool{}
	for i, h := range hits {
		if !lone[i] {
			continue
		}
		v.Lone++
		open := opener(h.Kind) < 0
		nextPaired := i+1 < len(hits) && !lone[i+1]
		prevPaired := i > 0 && !lone[i-1]
		switch {
		case open && nextPaired && hits[i+1].Marker == h.Marker && hits[i+1].Kind == h.Kind:
			set["mixed:lone_opener_then_amplicon_same_primer"] = true // hit pattern + + -
			v.Reopened = true
		case open && nextPaired:
			set["mixed:lone_opener_then_amplicon_other_primer"] = true
			v.Reopened = true
		case open && prevPaired:
			set["mixed:amplicon_then_lone_opener"] = true
		case !open && prevPaired && hits[i-1].Marker == h.Marker && hits[i-1].Kind == h.Kind:
			set["mixed:amplicon_then_lone_closer_same_primer"] = true // hit pattern + - -
		case !open && prevPaired:
			set["mixed:amplicon_then_lone_closer_other_primer"] = true
		case !open && nextPaired:
			set["mixed:lone_closer_then_amplicon"] = true
		}
		if open {
			set["mixed:lone_opener"] = true
		} else {
			set["mixed:lone_closer"] = true
		}
	}
	switch {
	case namps == 0:
		set["mixed:no_amplicon"] = true
	case namps == 1:
		set["mixed:one_amplicon"] = true
	default:
		set["mixed:several_amplicons"] = true
	}
	if v.Lone > 1 {
		set["mixed:several_lone_sites"] = true
	}
	out := make([]string, 0, len(set))
	for k := range set {
		out = append(out, k)
	}
	sort.Strings(out)
	return out
}

// checkReads runs every read of the case, as is and reverse-complemented.
// It returns the index of the failing read.
func checkReads(c demuxCase, count func(rd Read, v verdict)) (int, error) {
	ms, err := interpret(c.Sheet)
	if err != nil {
		return -1, nil // the case is outside the domain (hand-edited replay file)
	}
	worker, err := library(c.Sheet)
	if err != nil {
		return -1, fmt.Errorf("%v\n--- sheet ---\n%s", err, c.Sheet.show())
	}
	for i, rd := range c.Reads {
		var both [2][]outRec
		var cls [2]string
		for o, r := range []Read{rd, rd.revcomp()} {
			recs, err := runWorker(worker, r)
			if err != nil {
				return i, fmt.Errorf("read %s: %v\n--- sheet ---\n%s", r.Seq, err, c.Sheet.show())
			}
			v, err := judge(c.Sheet, ms, r, recs)
			if err != nil {
				return i, fmt.Errorf("read %s (%s): %v\n--- sheet (-e %d, --with-indels %v) ---\n%s", r.Seq, []string{"as generated", "reverse-complemented"}[o], err, c.Sheet.E, c.Sheet.WithIndels, c.Sheet.show())
			}
			if count != nil {
				count(r, v)
			}
			both[o], cls[o] = recs, v.Class
		}
		if cls[0] != "other" && cls[1] != "other" {
			if err := symmetry(ms, both[0], both[1]); err != nil {
				return i, fmt.Errorf("strand symmetry, read %s: %v\n--- sheet ---\n%s", rd.Seq, err, c.Sheet.show())
			}
		}
	}
	return -1, nil
}

func checkDemux(c demuxCase) error {
	_, err := checkReads(c, nil)
	return err
}

func sheetClasses(sh Sheet, ms []markerM) []string {
	cl := []string{fmt.Sprintf("markers:%d", len(ms))}
	if sh.CSV {
		cl = append(cl, "format:csv")
	} else {
		cl = append(cl, "format:text")
	}
	if sh.E >= 0 {
		cl = append(cl, fmt.Sprintf("option_e:%d", sh.E))
	}
	return cl
}

func TestPropDemux(t *testing.T) {
	rapid.Check(t, func(rt *rapid.T) {
		sh := genSheet(rt)
		ms, err := interpret(sh)
		if err != nil {
			rt.Fatalf("generator produced a sheet outside the domain: %v", err)
		}
		c := demuxCase{Sheet: sh}
		n := rapid.IntRange(6, 14).Draw(rt, "nreads")
		for i := 0; i < n; i++ {
			rd, cl := genRead(rt, sh, ms)
			c.Reads = append(c.Reads, rd)
			for _, k := range cl {
				evid.Class(k, 1)
			}
		}
		for _, k := range sheetClasses(sh, ms) {
			evid.Class(k, 1)
		}
		text := sh.Text()
		idx, err := checkReads(c, func(rd Read, v verdict) {
			evid.Eval("demux", evid.Hash(text, sh.E, sh.WithIndels, rd.Seq), v.Nontrivial, demuxCase{sh, []Read{rd}}, v.Classes...)
		})
		if err != nil {
			// report the single failing read when it fails on its own
			if idx >= 0 {
				one := demuxCase{sh, []Read{c.Reads[idx]}}
				if e1 := checkDemux(one); e1 != nil {
					evid.Fail(rt, "demux", one, e1)
				}
			}
			evid.Fail(rt, "demux", c, err)
		}
	})
}
