package c12

import (
	"fmt"
	"strconv"
	"strings"

	"pgregory.net/rapid"

	"verifharness/internal/evid"
	"verifharness/internal/gen"
	"verifharness/internal/ref"
)

// uniform draws an index in [0,n) without rapid's bias towards small integers
// (ten fair bits; shrinks towards 0).
func uniform(t *rapid.T, label string, n int) int {
	v := 0
	for _, b := range rapid.SliceOfN(rapid.Bool(), 10, 10).Draw(t, label) {
		v <<= 1
		if b {
			v |= 1
		}
	}
	return v * n / 1024
}

func pick[V any](t *rapid.T, label string, vals ...V) V {
	return vals[uniform(t, label, len(vals))]
}

func chance(t *rapid.T, label string, percent int) bool {
	return uniform(t, label, 100) < percent
}

// ------------------------------------------------------------------ sheets

// genPrimer: the shortest primers grow with the largest mismatch budget of the
// sheet (8 + 3 per allowed mismatch), as real designs do; otherwise nearly every
// read carries accidental sites and nothing is determined.
func genPrimer(t *rapid.T, label string, used map[string]bool, budgetCap int) string {
	lo := 8 + 3*budgetCap
	n := gen.Len(t, label+"_len", lo, 36, 18, 24)
	p := gen.SeqMix(t, label, n, gen.ACGT, "rymkwsbdhvn", pick(t, label+"_iupac", 0, 0, 0, 10, 5))
	// primers are made pairwise different by construction
	for used[p] {
		p += "acgt"[len(used)%4 : len(used)%4+1]
	}
	used[p] = true
	return p
}

// genTags draws up to n words of length L over acgt minus the forbidden letter,
// pairwise at Hamming distance >= minDist (greedy, bounded number of draws: at
// least one word is returned).
func genTags(t *rapid.T, label string, L, n, minDist int, forbid byte) []string {
	if L == 0 {
		return []string{""}
	}
	alpha := strings.ReplaceAll(gen.ACGT, string(forbid), "")
	var out []string
	for try := 0; try < 3*n && len(out) < n; try++ {
		w := gen.Seq(t, label, L, alpha)
		ok := true
		for _, o := range out {
			if hammingEq(o, w) < minDist {
				ok = false
				break
			}
		}
		if ok {
			out = append(out, w)
		}
	}
	return out
}

func ident(t *rapid.T, label, prefix string) string {
	return prefix + gen.Seq(t, label, rapid.IntRange(1, 5).Draw(t, label+"_n"), "abcXYZ019_.-")
}

type tagPlan struct {
	FLen, RLen     int
	FDelim, RDelim byte
}

func genSheet(t *rapid.T) Sheet {
	sh := Sheet{E: -1}
	sh.CSV = chance(t, "csv", 60)
	nm := pick(t, "nmarkers", 1, 1, 1, 2, 2, 3)
	// the mismatch budgets are planned first: 0 none declared (default 2, or -e), 1 global line, 2 per-primer lines
	mismForm := 0
	if sh.CSV {
		mismForm = pick(t, "mism_form", 0, 0, 1, 1, 2)
	}
	budgetCap := pick(t, "budget_cap", 0, 1, 2, 2, 3)
	if mismForm == 0 {
		sh.E = pick(t, "e", -1, -1, -1, 0, 1, 2, 3)
		budgetCap = sh.E
		if sh.E < 0 {
			budgetCap = 2
		}
	}
	if mismForm == 2 {
		budgetCap = max(budgetCap, 2) // primers without a line keep the default
	}
	used := map[string]bool{}
	upper := pick(t, "primer_case", 0, 0, 1, 2)
	for i := 0; i < nm; i++ {
		f := genPrimer(t, "fwd", used, budgetCap)
		r := genPrimer(t, "rev", used, budgetCap)
		switch upper {
		case 0:
			f, r = strings.ToUpper(f), strings.ToUpper(r)
		case 2:
			f = strings.ToUpper(f[:len(f)/2]) + f[len(f)/2:]
		}
		sh.Markers = append(sh.Markers, Marker{f, r})
	}

	// ---- parameters (CSV) / command options
	matching := "strict"
	plans := make([]tagPlan, nm)
	primerOf := func(label string) (string, int, bool) {
		mi := rapid.IntRange(0, nm-1).Draw(t, label+"_marker")
		if rapid.Bool().Draw(t, label+"_side") {
			return sh.Markers[mi].Fwd, mi, true
		}
		return sh.Markers[mi].Rev, mi, false
	}
	var params []Param
	hasIndels := false
	minTagLen := 1 // tag_indels must stay below the tag length (domain decision)
	if sh.CSV {
		// spacer
		switch pick(t, "spacer_form", 0, 0, 1, 1, 2, 3) {
		case 1:
			params = append(params, Param{"spacer", []string{strconv.Itoa(rapid.IntRange(0, 4).Draw(t, "spacer"))}})
		case 2:
			params = append(params, Param{"forward_spacer", []string{strconv.Itoa(rapid.IntRange(0, 4).Draw(t, "fspacer"))}})
			if rapid.Bool().Draw(t, "rspacer_too") {
				params = append(params, Param{"reverse_spacer", []string{strconv.Itoa(rapid.IntRange(0, 4).Draw(t, "rspacer"))}})
			}
		case 3:
			for k := rapid.IntRange(1, 3).Draw(t, "nspacerfor"); k > 0; k-- {
				p, _, _ := primerOf("spacerfor")
				params = append(params, Param{"spacer", []string{p, strconv.Itoa(rapid.IntRange(0, 5).Draw(t, "spacerfor"))}})
			}
		}
		// tag matching
		if m := pick(t, "matching", "", "strict", "hamming", "hamming", "indel"); m != "" {
			matching = m
			params = append(params, Param{"matching", []string{m}})
		}
		// primer mismatches
		switch mismForm {
		case 1:
			params = append(params, Param{"primer_mismatches", []string{strconv.Itoa(budgetCap)}})
		case 2:
			for k := rapid.IntRange(1, 2).Draw(t, "nmismfor"); k > 0; k-- {
				p, _, _ := primerOf("mismfor")
				params = append(params, Param{"primer_mismatches", []string{p, strconv.Itoa(uniform(t, "mismfor", budgetCap+1))}})
			}
		}
		// primer indels
		switch pick(t, "indel_form", 0, 0, 0, 0, 0, 1, 2, 3) {
		case 1:
			hasIndels = true
			params = append(params, Param{"indels", []string{"true"}})
		case 2:
			hasIndels = true
			params = append(params, Param{"indels", []string{"false"}})
		case 3:
			hasIndels = true
			p, _, _ := primerOf("indelfor")
			params = append(params, Param{"indels", []string{p, "true"}})
		}
		// delimited / rescue tag extraction (safety clause only)
		if chance(t, "delimited", 12) {
			d := pick(t, "delim", "a", "c", "g", "t")
			switch pick(t, "delim_form", 0, 0, 1, 2, 3) {
			case 0:
				params = append(params, Param{"tag_delimiter", []string{d}})
				for i := range plans {
					plans[i].FDelim, plans[i].RDelim = d[0], d[0]
				}
			case 1:
				params = append(params, Param{"forward_tag_delimiter", []string{d}})
				for i := range plans {
					plans[i].FDelim = d[0]
				}
			case 2:
				params = append(params, Param{"reverse_tag_delimiter", []string{d}})
				for i := range plans {
					plans[i].RDelim = d[0]
				}
			case 3:
				p, mi, fwd := primerOf("delimfor")
				params = append(params, Param{"tag_delimiter", []string{p, d}})
				if fwd {
					plans[mi].FDelim = d[0]
				} else {
					plans[mi].RDelim = d[0]
				}
			}
			if rapid.Bool().Draw(t, "rescue") {
				k := rapid.IntRange(1, 2).Draw(t, "tag_indels")
				params = append(params, Param{"tag_indels", []string{strconv.Itoa(k)}})
				minTagLen = k + 1
			}
		}
		sh.Params = rapid.Permutation(params).Draw(t, "param_order")
		// a later global line overrides an earlier per-primer one: keep the planned delimiters in step
		// (the tag alphabets below only need a superset of the effective delimiters)
	}
	if !hasIndels && chance(t, "with_indels", 10) {
		sh.WithIndels = true
	}

	// ---- samples
	nkeys := pick(t, "nextra", 0, 0, 1, 2)
	for k := 0; k < nkeys; k++ {
		sh.ExtraKeys = append(sh.ExtraKeys, fmt.Sprintf("%s%d", pick(t, "extra_key", "plate", "position", "well", "replicate"), k))
	}
	exps := []string{ident(t, "exp", "E"), ident(t, "exp", "F")}
	minDist := 1
	if matching != "strict" {
		minDist = pick(t, "min_tag_dist", 1, 2, 3, 3, 3)
	}
	sn := 0
	var rows []Row
	for mi := 0; mi < nm; mi++ {
		L := max(minTagLen, pick(t, "taglen", 1, 2, 3, 4, 4, 6, 7, 8, 8))
		fl, rl := L, L
		switch pick(t, "tag_layout", 0, 0, 0, 0, 1, 1, 2, 3, 4) {
		case 1:
			rl = max(minTagLen, pick(t, "taglen_r", 1, 2, 3, 4, 5, 6, 8))
		case 2:
			rl = 0
		case 3:
			fl = 0
		case 4:
			fl, rl = 0, 0
		}
		plans[mi].FLen, plans[mi].RLen = fl, rl
		ftags := genTags(t, "ftag", fl, rapid.IntRange(1, 5).Draw(t, "nftags"), minDist, plans[mi].FDelim)
		rtags := genTags(t, "rtag", rl, rapid.IntRange(1, 5).Draw(t, "nrtags"), minDist, plans[mi].RDelim)
		if fl == rl && fl > 0 && rapid.Bool().Draw(t, "same_tag_sets") && plans[mi].FDelim == plans[mi].RDelim {
			rtags = ftags // symmetric designs: the one-word tag syntax becomes possible
		}
		var pairs [][2]string
		for _, f := range ftags {
			for _, r := range rtags {
				pairs = append(pairs, [2]string{f, r})
			}
		}
		pairs = rapid.Permutation(pairs).Draw(t, "pairs")
		ns := rapid.IntRange(1, min(8, len(pairs))).Draw(t, "nsamples")
		for _, p := range pairs[:ns] {
			s := Sample{Exp: pick(t, "exp_of", exps...), Name: fmt.Sprintf("s%d%s", sn, ident(t, "sample", "_")), FTag: p[0], RTag: p[1]}
			sn++
			for range sh.ExtraKeys {
				v := ""
				if sh.CSV || chance(t, "extra_present", 70) {
					v = ident(t, "extra_val", "v")
				}
				s.Extra = append(s.Extra, v)
			}
			rows = append(rows, Row{mi, s})
		}
	}
	if pick(t, "tag_case", 0, 0, 1) == 1 {
		for i := range rows {
			rows[i].FTag, rows[i].RTag = strings.ToUpper(rows[i].FTag), strings.ToUpper(rows[i].RTag)
		}
	}
	sh.Rows = rapid.Permutation(rows).Draw(t, "row_order")
	if sh.CSV {
		cols := make([]int, 5+len(sh.ExtraKeys))
		for i := range cols {
			cols[i] = i
		}
		if rapid.Bool().Draw(t, "shuffle_cols") {
			cols = rapid.Permutation(cols).Draw(t, "cols")
		}
		sh.Cols = cols
	} else {
		sh.Tabs = rapid.Bool().Draw(t, "tabs")
		sh.BareAt = rapid.Bool().Draw(t, "bare_at")
	}
	sh.Comments = chance(t, "comments", 30)
	sh.OneWordTag = rapid.Bool().Draw(t, "one_word_tag")
	return sh
}

// ------------------------------------------------------------------ reads

// plantPrimer writes an occurrence of the primer with k mismatching positions.
func plantPrimer(t *rapid.T, label string, sd sideM, k int) string {
	b := make([]byte, len(sd.Pat))
	var free []int
	for i, set := range sd.Pat {
		var in []byte
		for _, c := range []byte(gen.ACGT) {
			if set&baseBit(c) != 0 {
				in = append(in, c)
			}
		}
		b[i] = in[rapid.IntRange(0, len(in)-1).Draw(t, label+"_base")]
		if set != 15 {
			free = append(free, i)
		}
	}
	if k > len(free) {
		k = len(free)
	}
	if k > 0 {
		pos := rapid.Permutation(free).Draw(t, label+"_mism_pos")[:k]
		for _, i := range pos {
			var out []byte
			for _, c := range []byte(gen.ACGT) {
				if sd.Pat[i]&baseBit(c) == 0 {
					out = append(out, c)
				}
			}
			b[i] = out[rapid.IntRange(0, len(out)-1).Draw(t, label+"_mism_base")]
		}
	}
	return string(b)
}

func drawErrs(t *rapid.T, label string, sd sideM, overBudget *bool) int {
	switch pick(t, label+"_errs", 0, 0, 0, 0, 0, 1, 1, 1, 1, 2, 2, 2, 2, 3) {
	case 0:
		return 0
	case 1:
		return sd.Err
	case 2:
		return rapid.IntRange(0, sd.Err).Draw(t, label+"_k")
	}
	*overBudget = true
	return sd.Err + 1
}

// mutateTag applies tag errors.
func mutateTag(t *rapid.T, label, tag string, sd sideM) string {
	if tag == "" {
		return tag
	}
	alpha := strings.ReplaceAll(gen.ACGT, string(sd.Delim), "")
	kinds := "s"
	if sd.Matching == "indel" || sd.TagIndels > 0 {
		kinds = "ssid"
	}
	out, _ := gen.Mutate(t, label, tag, pick(t, label+"_n", 1, 1, 2), alpha, kinds)
	return out
}

type ampOpt struct {
	alpha   string
	partial bool
	// shape (pieces of mosaic reads): "" as drawn by the options above;
	//   "complete"    both primers within budget
	//   "open_only"   broken before (or inside) its closing primer
	//   "close_only"  broken after (or inside) its opening primer
	//   "open_over"   opening primer over the mismatch budget
	//   "close_over"  closing primer over the mismatch budget
	shape      string
	minBarcode int // added to the drawn barcode length
	row        int // > 0: the amplicon of the declared PCR sh.Rows[row-1], its tags as declared (0: marker and tags are drawn)
}

// withinBudget draws a number of primer mismatches the sheet allows.
func withinBudget(t *rapid.T, label string, sd sideM) int {
	switch pick(t, label+"_errs", 0, 0, 1, 2) {
	case 0:
		return 0
	case 1:
		return sd.Err
	}
	return rapid.IntRange(0, sd.Err).Draw(t, label+"_k")
}

// genAmplicon builds tag + spacer + primer + barcode + rc(primer) + rc(spacer) + rc(tag)
// between flanks, as the forward strand; the caller may reverse-complement it.
func genAmplicon(t *rapid.T, sh Sheet, ms []markerM, o ampOpt) (string, []string) {
	var cl []string
	var mi, tagChoice int
	if o.row > 0 {
		mi = sh.Rows[o.row-1].Marker
	} else {
		mi = rapid.IntRange(0, len(ms)-1).Draw(t, "amp_marker")
		tagChoice = pick(t, "tag_choice", 0, 0, 0, 0, 0, 0, 1, 1, 2)
	}
	m := ms[mi]
	var ftag, rtag string
	switch tagChoice {
	case 0: // a declared sample
		if o.row > 0 {
			r := sh.Rows[o.row-1]
			ftag, rtag = strings.ToLower(r.FTag), strings.ToLower(r.RTag)
			break
		}
		var rowsOf []int
		for i, r := range sh.Rows {
			if r.Marker == mi {
				rowsOf = append(rowsOf, i)
			}
		}
		r := sh.Rows[pick(t, "amp_row", rowsOf...)]
		ftag, rtag = strings.ToLower(r.FTag), strings.ToLower(r.RTag)
	case 1: // declared tags, any combination (possibly an undeclared pair)
		ftag, rtag = pick(t, "amp_ftag", m.F.Tags...), pick(t, "amp_rtag", m.R.Tags...)
		cl = append(cl, "tags:free_combination")
	case 2:
		ftag, rtag = gen.Seq(t, "rnd_ftag", max(0, m.F.TagLen), gen.ACGT), gen.Seq(t, "rnd_rtag", max(0, m.R.TagLen), gen.ACGT)
		cl = append(cl, "tags:random")
	}
	tagErrPct := 12
	if m.F.Matching != "strict" {
		tagErrPct = 45
	}
	if o.row == 0 && chance(t, "tag_errors", tagErrPct) {
		cl = append(cl, "tags:with_errors")
		switch pick(t, "tag_err_side", 0, 1, 2) {
		case 0:
			ftag = mutateTag(t, "ftag_mut", ftag, m.F)
		case 1:
			rtag = mutateTag(t, "rtag_mut", rtag, m.R)
		default:
			ftag, rtag = mutateTag(t, "ftag_mut", ftag, m.F), mutateTag(t, "rtag_mut", rtag, m.R)
		}
	}
	over := false
	var fk, rk int
	if o.shape == "" {
		fk = drawErrs(t, "fprimer", m.F, &over)
		rk = drawErrs(t, "rprimer", m.R, &over)
	} else {
		fk = withinBudget(t, "fprimer", m.F)
		rk = withinBudget(t, "rprimer", m.R)
		switch o.shape {
		case "open_over":
			fk, over = m.F.Err+rapid.IntRange(1, 3).Draw(t, "fprimer_over"), true
		case "close_over":
			rk, over = m.R.Err+rapid.IntRange(1, 3).Draw(t, "rprimer_over"), true
		}
	}
	if over {
		cl = append(cl, "primer:over_budget")
	}
	fp := plantPrimer(t, "fprimer", m.F, fk)
	rp := plantPrimer(t, "rprimer", m.R, rk)
	if (m.F.Indel || m.R.Indel) && chance(t, "primer_indel", 25) {
		cl = append(cl, "primer:with_indel")
		if rapid.Bool().Draw(t, "primer_indel_side") {
			fp, _ = gen.Mutate(t, "fprimer_indel", fp, 1, gen.ACGT, "id")
		} else {
			rp, _ = gen.Mutate(t, "rprimer_indel", rp, 1, gen.ACGT, "id")
		}
	}
	spacer := func(label string, sd sideM) string {
		if sd.TagLen <= 0 && !chance(t, label+"_anyway", 20) {
			return ""
		}
		if sd.Delim != 0 {
			return strings.Repeat(string(sd.Delim), sd.Spacer)
		}
		return gen.Seq(t, label, sd.Spacer, o.alpha)
	}
	flank := func(label string, sd sideM) string {
		f := gen.Seq(t, label, gen.Len(t, label+"_len", 0, 14, 1, 2), o.alpha)
		if chance(t, label+"_long", 2) {
			// a long read (Nanopore / PacBio): the priming site lies beyond position 10000
			unit := gen.Seq(t, label+"_unit", 37, o.alpha)
			f = strings.Repeat(unit, 330)[:rapid.IntRange(10000, 12000).Draw(t, label+"_longlen")] + f
		}
		if sd.Delim != 0 {
			f += strings.Repeat(string(sd.Delim), rapid.IntRange(0, 3).Draw(t, label+"_delims"))
		}
		return f
	}
	barcode := gen.Seq(t, "barcode", o.minBarcode+gen.Len(t, "barcode_len", 1, 60, 1, 2, 3), o.alpha)
	left := flank("lflank", m.F) + ftag + spacer("fspacer", m.F) + fp
	// the other end is assembled 5'->3' on the opposite strand, exactly like the left one
	right := ref.RevComp(flank("rflank", m.R) + rtag + spacer("rspacer", m.R) + rp)
	amp := left + barcode + right
	if o.partial {
		cl = append(cl, "partial_site")
		switch pick(t, "partial_kind", 0, 1, 2, 3) {
		case 0: // cut somewhere on the left
			amp = amp[rapid.IntRange(0, min(len(amp), len(left)+2)).Draw(t, "cut_left"):]
		case 1: // cut somewhere on the right
			amp = amp[:len(amp)-rapid.IntRange(0, min(len(amp), len(right)+2)).Draw(t, "cut_right")]
		case 2: // both ends nibbled: tags partly or entirely off the read
			a := rapid.IntRange(0, min(len(amp)/2, m.F.TagLen+m.F.Spacer+16)).Draw(t, "nibble_left")
			b := rapid.IntRange(0, min(len(amp)/2, m.R.TagLen+m.R.Spacer+16)).Draw(t, "nibble_right")
			amp = amp[a : len(amp)-b]
		case 3: // one primer missing
			if rapid.Bool().Draw(t, "drop_fwd") {
				amp = flank("lflank2", m.F) + ftag + barcode + right
			} else {
				amp = left + barcode + ref.RevComp(flank("rflank2", m.R)+rtag)
			}
		}
	}
	switch o.shape {
	case "open_only":
		// the extension stopped in the barcode, or a few nucleotides into the closing primer
		if chance(t, "break_in_primer", 25) {
			amp = left + barcode + right[:rapid.IntRange(1, max(1, len(rp)/2)).Draw(t, "break_at")]
		} else {
			amp = left + barcode[:rapid.IntRange(min(o.minBarcode, len(barcode)), len(barcode)).Draw(t, "break_at")]
		}
	case "close_only":
		if chance(t, "break_in_primer", 25) {
			amp = left[len(left)-rapid.IntRange(1, max(1, len(fp)/2)).Draw(t, "break_at"):] + barcode + right
		} else {
			amp = barcode[len(barcode)-rapid.IntRange(min(o.minBarcode, len(barcode)), len(barcode)).Draw(t, "break_at"):] + right
		}
	}
	return amp, cl
}

// genMosaic builds a chimeric read out of 2-4 pieces in any order and
// orientation: complete amplicons, partial ones (opening primer only, closing
// primer only, opening / closing primer over the mismatch budget) and junk.
// Two priming sites of the same primer are kept apart (barcodes are at least
// as long as the separation the site scan needs to tell them apart).
func genMosaic(t *rapid.T, sh Sheet, ms []markerM, alpha string) (string, []string) {
	sep := 0
	for _, m := range ms {
		sep = max(sep, m.F.Err, m.R.Err)
	}
	sep = 2*sep + 2
	if n, indel := maxPrimerLen(ms); indel {
		sep += n + 2
	}
	var seq string
	var cl []string
	seen := map[string]bool{}
	add := func(c string) {
		if !seen[c] {
			seen[c] = true
			cl = append(cl, c)
		}
	}
	for k := pick(t, "npieces", 2, 2, 2, 3, 3, 4); k > 0; k-- {
		shape := pick(t, "piece", "complete", "complete", "complete", "complete", "open_only", "open_only", "close_only", "close_only", "open_over", "close_over", "junk")
		add("piece:" + shape)
		var a string
		if shape == "junk" {
			a = gen.Seq(t, "junk", gen.Len(t, "junk_len", 0, 40, 1, 2), alpha)
		} else {
			var c []string
			a, c = genAmplicon(t, sh, ms, ampOpt{alpha: alpha, shape: shape, minBarcode: sep})
			for _, x := range c {
				add(x)
			}
		}
		if rapid.Bool().Draw(t, "orientation") {
			a = ref.RevComp(a)
		}
		seq += a
	}
	return seq, cl
}

func maxPrimerLen(ms []markerM) (n int, indel bool) {
	for _, m := range ms {
		n = max(n, len(m.F.Pat), len(m.R.Pat))
		indel = indel || m.F.Indel || m.R.Indel
	}
	return
}

// genRead draws one read of the sheet; classes describe how it was built.
func genRead(t *rapid.T, sh Sheet, ms []markerM) (Read, []string) {
	alpha := pick(t, "alphabet", gen.ACGT, gen.ACGT, gen.ACGT, "ac", "gt", "at")
	kind := pick(t, "read_kind", "amplicon", "amplicon", "amplicon", "amplicon", "amplicon", "amplicon", "chimera", "chimera", "partial", "partial", "random")
	return genReadOf(t, sh, ms, alpha, kind)
}

// genReadMosaic is genRead with mosaic reads (genMosaic) added to the mixture; the
// in-process property has a test of its own for them (TestPropMosaic).
func genReadMosaic(t *rapid.T, sh Sheet, ms []markerM) (Read, []string) {
	alpha := pick(t, "alphabet", gen.ACGT, gen.ACGT, gen.ACGT, "ac", "gt", "at")
	kind := pick(t, "read_kind", "amplicon", "amplicon", "amplicon", "amplicon", "amplicon", "chimera", "chimera", "partial", "partial", "random", "mosaic", "mosaic", "mosaic")
	return genReadOf(t, sh, ms, alpha, kind)
}

// genReadOf draws one read of the given kind.
func genReadOf(t *rapid.T, sh Sheet, ms []markerM, alpha, kind string) (Read, []string) {
	cl := []string{"built:" + kind}
	var seq string
	build := func() {
		switch kind {
		case "amplicon", "partial":
			var c []string
			seq, c = genAmplicon(t, sh, ms, ampOpt{alpha: alpha, partial: kind == "partial"})
			cl = append(cl[:1], c...)
			if rapid.Bool().Draw(t, "orientation") {
				seq = ref.RevComp(seq)
			}
		case "chimera":
			seq = ""
			cl = cl[:1]
			for k := rapid.IntRange(2, 3).Draw(t, "namplicons"); k > 0; k-- {
				a, c := genAmplicon(t, sh, ms, ampOpt{alpha: alpha, partial: chance(t, "chimera_partial", 10)})
				cl = append(cl, c...)
				if rapid.Bool().Draw(t, "orientation") {
					a = ref.RevComp(a)
				}
				seq += a
			}
		case "mosaic":
			var c []string
			seq, c = genMosaic(t, sh, ms, alpha)
			cl = append(cl[:1], c...)
		default:
			seq = gen.Seq(t, "random_read", gen.Len(t, "random_len", 0, 120, 1, 8, 9, 20), alpha)
		}
	}
	build()
	if kind == "mosaic" {
		// accidental, overlapping or crossed sites leave the read to the safety clause only: re-draw (bounded)
		c, _, _ := classify(ms, Read{Seq: seq})
		for try := 0; try < 2 && c == "other"; try++ {
			evid.Class("redrawn_after_accidental_site", 1)
			build()
			c, _, _ = classify(ms, Read{Seq: seq})
		}
		cl = append(cl, "mosaic_sites:"+c)
	}
	intended := func() bool { // built to carry well-formed sites only
		for _, c := range cl {
			if c == "primer:over_budget" || c == "primer:with_indel" || c == "partial_site" {
				return false
			}
		}
		return kind == "amplicon" || kind == "chimera"
	}
	// accidental extra priming sites make the expected answer undetermined:
	// re-draw a bounded number of times, then keep the read for the safety clause
	for try := 0; try < 2 && intended(); try++ {
		if c, _, _ := classify(ms, Read{Seq: seq}); c != "other" {
			break
		}
		evid.Class("redrawn_after_accidental_site", 1)
		build()
	}
	if intended() {
		if c, _, _ := classify(ms, Read{Seq: seq}); c == "other" {
			cl = append(cl, "accidental_site_kept")
		} else {
			cl = append(cl, "built_well_formed")
		}
	}
	if n, indel := maxPrimerLen(ms); indel && len(seq) <= n {
		// known finding (C10 key=indel_seq_not_longer_than_pattern): excluded by construction
		evid.Excluded("indel_read_not_longer_than_primer", 1)
		seq += strings.Repeat("a", n+1-len(seq))
	}
	rd := Read{Seq: seq}
	if chance(t, "with_qualities", 30) {
		rd.Qual = gen.Quals(t, "quals", len(seq), 0, 40)
	}
	return rd, cl
}
