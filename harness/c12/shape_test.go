package c12

// The byte-level shape of the sample sheet file as a generated dimension.
//
// The property ranges over "all sample sheets in both accepted formats": what a
// sheet declares does not depend on how its lines are ended, padded, commented,
// quoted or cased.  A Shape describes such a layout compactly (a seed and a few
// rates / sizes); Sheet.Text() renders the same declarations with it, the model
// (interpret) never looks at it: the library read from the shaped bytes must
// behave exactly as the library of the plain rendering.
//
// What each shape means is taken from the description of the formats
// (doc/book/formats.qmd, the text printed by `obimultiplex --template`) and from
// what the two readers evidently provide for:
//
//   - both formats: lines ended by LF or CR LF (bufio ReadLine / encoding/csv drop
//     the CR), also mixed within one file; the last line with or without a line
//     terminator; comment lines ('#' in the first column) and empty lines before,
//     between and after the entries ("The CSV file can contain comments starting
//     with the # character and empty lines"; the classical reader skips both);
//     commented-out entries; primers and tags typed in upper, lower or mixed case
//     at every place they are written (rows, and the @param,name,<primer>,value
//     form: every consumer lower-cases them); very long lines (comment lines and
//     entries carrying a long annotation) around the sizes the readers buffer by:
//     3072 (default detection window), 4096 / 8192 (bufio), 65536, 131072 (the
//     buffer the format is guessed on).
//   - classical format: columns separated by runs of blanks and tabs
//     (strings.Fields), blanks / tabs before and after a line (strings.TrimSpace,
//     applied twice), lines made of blanks only, indented comment lines.
//   - CSV format: any field between double quotes (encoding/csv), a quoted extra
//     column value holding commas, blanks or a doubled quote; a blank after the
//     comma (the reader sets TrimLeadingSpace).
//
// Domain decisions (not generated, nothing asserted):
//
//   - UTF-8 byte order mark: neither the documentation nor the code mention it
//     (today a CSV sheet with a BOM is refused, a classical one gets the BOM glued
//     to its first experiment name).
//   - CSV: blanks after a field or at the end of a line (kept as part of the value
//     by encoding/csv), lines made of blanks only (one-field records), a blank
//     before "@param" or before a quoted field holding a comma (the format
//     detector does not trim), indented comment lines, @param lines padded with
//     empty fields as spreadsheets export them, a lone CR as line end.
//   - classical format: annotations are written as before ("@ key=value; ..."),
//     other spellings of that part belong to the header parser (C02).
//   - CSV sheets larger than the 128 KiB detection buffer were refused by the tree
//     as it was pinned (a record cut at the end of the buffer was not dropped):
//     repaired in the repository (known_findings.txt) and generated since then,
//     like the classical sheets beyond that size.
//   - The in-process runs sniff a small FASTA text first, as the command does with
//     its sequence input before it reads the sheet: the detection window of the
//     mimetype package is a process-wide setting that this first sniff enlarges.

import (
	"fmt"
	"strconv"
	"strings"
	"sync"
	"testing"

	"git.metabarcoding.org/obitools/obitools4/obitools4/pkg/obiformats"
	"pgregory.net/rapid"

	"verifharness/internal/evid"
	"verifharness/internal/gen"
	"verifharness/internal/ref"
	"verifharness/internal/run"
)

// Shape is the byte-level layout of a sample sheet file.  Every per-line and
// per-field choice is drawn from a splitmix64 stream seeded with Seed, so the
// file is a pure function of (Sheet, Shape).
type Shape struct {
	Seed       uint64
	EOL        int    `json:",omitempty"` // 0: LF; 1: CR LF; 2: LF or CR LF, line by line
	NoFinalEOL bool   `json:",omitempty"` // the last line of the file has no line terminator
	Tail       string `json:",omitempty"` // lines after the last entry, one letter each: b empty, c comment, g commented-out entry, w blanks and tabs only (classical)
	Insert     int    `json:",omitempty"` // % chance, before each line, of one or two inserted lines (b, c, g, w)
	Trail      int    `json:",omitempty"` // classical: % of lines followed by blanks / tabs
	Lead       int    `json:",omitempty"` // classical: % of lines preceded by blanks / tabs
	SepMax     int    `json:",omitempty"` // classical: > 0: the columns are separated by runs of 1..SepMax blanks and tabs
	Quote      int    `json:",omitempty"` // CSV: % of fields written between double quotes
	FieldLead  int    `json:",omitempty"` // CSV: % of the fields following a comma that are preceded by a blank
	Recase     bool   `json:",omitempty"` // every written primer and tag gets a case style of its own
	LongKind   string `json:",omitempty"` // "comment": one comment line of LongLen bytes; "entry": one entry carries a pad annotation / column value of LongLen bytes
	LongLen    int    `json:",omitempty"`
	LongAt     int    `json:",omitempty"` // index of the entry concerned; for "comment": the line is put before that entry, after the last one when LongAt = number of entries
}

type smix struct{ s uint64 }

func (r *smix) next() uint64 {
	r.s += 0x9e3779b97f4a7c15
	z := r.s
	z = (z ^ (z >> 30)) * 0xbf58476d1ce4e5b9
	z = (z ^ (z >> 27)) * 0x94d049bb133111eb
	return z ^ (z >> 31)
}
func (r *smix) n(n int) int {
	if n <= 1 {
		return 0
	}
	return int(r.next() % uint64(n))
}
func (r *smix) pct(p int) bool { return p > 0 && r.n(100) < p }

// blanks: a run of 1..n blanks and tabs.
func (r *smix) blanks(n int) string {
	k := 1 + r.n(n)
	b := make([]byte, k)
	for i := range b {
		b[i] = " \t"[r.n(2)]
	}
	return string(b)
}

// recase writes a nucleotide word in one of the usual ways.
func (r *smix) recase(s string) string {
	switch r.n(6) {
	case 0:
		return s
	case 1:
		return strings.ToUpper(s)
	case 2:
		return strings.ToLower(s)
	case 3:
		return strings.ToUpper(s[:len(s)/2]) + strings.ToLower(s[len(s)/2:])
	case 4:
		b := []byte(strings.ToLower(s))
		for i := 0; i < len(b); i += 2 {
			b[i] = strings.ToUpper(string(b[i]))[0]
		}
		return string(b)
	}
	b := []byte(strings.ToLower(s))
	for i := range b {
		if r.n(2) == 0 {
			b[i] = strings.ToUpper(string(b[i]))[0]
		}
	}
	return string(b)
}

// filler: n bytes of plain letters (no comma, no blank: a word for the header parser).
func filler(n int) string {
	if n <= 0 {
		return ""
	}
	return strings.Repeat("padzyxwvut", n/10+1)[:n]
}

// sline is one logical line of the file.
type sline struct {
	kind   byte     // c comment, b empty, w blanks only, p @param, h CSV header, e entry, g commented-out entry
	fields []string // p, h, e, g: the fields / columns
	ann    string   // classical e, g: what follows '@'
	hasAt  bool     // classical e, g: the line has a '@' part
	text   string   // c: the text, '#' included
	indent bool     // c (classical): blanks before '#'
}

const padKey = "verif_pad"

// primerParam: the @param lines whose two-value form names a primer first.
var primerParam = map[string]bool{"spacer": true, "primer_mismatches": true, "indels": true, "tag_delimiter": true, "tag_indels": true}

func (sh Sheet) shapedText() string {
	text, _ := sh.shaped()
	return text
}

// shaped renders the file and tells the kind of its last line (see sline.kind).
func (sh Sheet) shaped() (string, byte) {
	sp := sh.Shape
	rng := &smix{s: sp.Seed}
	word := func(s string) string {
		if sp.Recase {
			return rng.recase(s)
		}
		return s
	}
	nrows := len(sh.Rows)
	longAt := -1
	if nrows > 0 && sp.LongKind != "" && sp.LongLen > 0 {
		longAt = ((sp.LongAt % (nrows + 1)) + nrows + 1) % (nrows + 1)
		if sp.LongKind == "entry" {
			longAt %= nrows
		}
	}
	padCol := sh.CSV && sp.LongKind == "entry" && longAt >= 0
	names := append([]string{"experiment", "sample", "sample_tag", "forward_primer", "reverse_primer"}, sh.ExtraKeys...)
	cols := sh.Cols
	if len(cols) != len(names) {
		cols = make([]int, len(names))
		for i := range cols {
			cols[i] = i
		}
	}
	arrange := func(vals []string, pad string) []string {
		out := make([]string, 0, len(cols)+1)
		for _, c := range cols {
			out = append(out, vals[c])
		}
		if padCol {
			out = append(out, pad)
		}
		return out
	}
	entry := func(i int, kind byte, name string) sline {
		r := sh.Rows[i]
		m := sh.Markers[r.Marker]
		l := sline{kind: kind}
		tag, fwd, rev := word(tagField(r.Sample, sh.OneWordTag)), word(m.Fwd), word(m.Rev)
		if sh.CSV {
			vals := []string{r.Exp, name, tag, fwd, rev}
			for k := range sh.ExtraKeys {
				v := ""
				if k < len(r.Extra) {
					v = r.Extra[k]
				}
				vals = append(vals, v)
			}
			pad := "p"
			if kind == 'e' && i == longAt {
				pad = filler(sp.LongLen)
			}
			l.fields = arrange(vals, pad)
			return l
		}
		l.fields = []string{r.Exp, name, tag, fwd, rev, "F"}
		for k, key := range sh.ExtraKeys {
			if k < len(r.Extra) && r.Extra[k] != "" {
				l.ann += " " + key + "=" + r.Extra[k] + ";"
			}
		}
		if kind == 'e' && sp.LongKind == "entry" && i == longAt {
			l.ann += " " + padKey + "=" + filler(sp.LongLen) + ";"
		}
		l.hasAt = l.ann != "" || sh.BareAt
		return l
	}
	comment := func(s string) sline { return sline{kind: 'c', text: s} }

	// ---- the lines of the plain rendering
	var lines []sline
	if sh.Comments {
		lines = append(lines, comment("# generated sample sheet"), sline{kind: 'b'})
	}
	if sh.CSV {
		for i, p := range sh.Params {
			f := []string{"@param", p.Name}
			for k, a := range p.Args {
				if k == 0 && len(p.Args) == 2 && primerParam[p.Name] {
					a = word(a)
				}
				f = append(f, a)
			}
			lines = append(lines, sline{kind: 'p', fields: f})
			if sh.Comments && i%2 == 0 {
				lines = append(lines, comment("# a comment between parameters"))
			}
		}
		lines = append(lines, sline{kind: 'h', fields: arrange(names, padKey)})
	}
	for i := range sh.Rows {
		if sp.LongKind == "comment" && i == longAt {
			lines = append(lines, comment("# "+filler(sp.LongLen-2)))
		}
		lines = append(lines, entry(i, 'e', sh.Rows[i].Name))
		if sh.Comments && i%3 == 1 {
			lines = append(lines, comment("# a comment line"))
			if !sh.CSV {
				lines = append(lines, sline{kind: 'b'})
			}
		}
	}
	if sp.LongKind == "comment" && longAt == nrows {
		lines = append(lines, comment("# "+filler(sp.LongLen-2)))
	}

	// ---- inserted lines and the tail
	extra := func(k byte) sline {
		switch k {
		case 'c':
			l := comment([]string{"#", "# note", "#comment without blank", "## section ##", "# E1 s1 aacc:ggtt ACGT TGCA F @ x=1;"}[rng.n(5)])
			l.indent = !sh.CSV && rng.n(4) == 0
			return l
		case 'g':
			if nrows == 0 {
				return sline{kind: 'b'}
			}
			i := rng.n(nrows)
			return entry(i, 'g', "ghost"+strconv.Itoa(i))
		case 'w':
			if sh.CSV {
				return sline{kind: 'b'}
			}
			return sline{kind: 'w'}
		}
		return sline{kind: 'b'}
	}
	kinds := "bcgw"
	if sh.CSV {
		kinds = "bcg"
	}
	if sp.Insert > 0 {
		var out []sline
		for _, l := range lines {
			if rng.pct(sp.Insert) {
				for k := 1 + rng.n(2); k > 0; k-- {
					out = append(out, extra(kinds[rng.n(len(kinds))]))
				}
			}
			out = append(out, l)
		}
		lines = out
	}
	for i := 0; i < len(sp.Tail); i++ {
		lines = append(lines, extra(sp.Tail[i]))
	}

	// ---- bytes
	eol := func() string {
		switch sp.EOL {
		case 1:
			return "\r\n"
		case 2:
			if rng.n(2) == 0 {
				return "\r\n"
			}
		}
		return "\n"
	}
	csvField := func(s string, first bool) string {
		must := strings.ContainsAny(s, ",\"\r\n") || strings.HasPrefix(s, " ")
		lead := ""
		if !first && !must && rng.pct(sp.FieldLead) {
			lead = " "
		}
		if must || rng.pct(sp.Quote) {
			s = `"` + strings.ReplaceAll(s, `"`, `""`) + `"`
		}
		return lead + s
	}
	render := func(l sline) string {
		switch l.kind {
		case 'b':
			return ""
		case 'w':
			return rng.blanks(4)
		case 'c':
			s := l.text
			if l.indent {
				s = rng.blanks(3) + s
			}
			if !sh.CSV && rng.pct(sp.Trail) {
				s += rng.blanks(3)
			}
			return s
		}
		var b strings.Builder
		if sh.CSV {
			if l.kind == 'g' {
				b.WriteString("#")
			}
			for i, f := range l.fields {
				if i > 0 {
					b.WriteString(",")
				}
				b.WriteString(csvField(f, i == 0))
			}
			return b.String()
		}
		sep := func() string {
			if sp.SepMax > 0 {
				return rng.blanks(sp.SepMax)
			}
			if sh.Tabs {
				return "\t"
			}
			return "  "
		}
		if rng.pct(sp.Lead) {
			b.WriteString(rng.blanks(3))
		}
		if l.kind == 'g' {
			b.WriteString([]string{"#", "# "}[rng.n(2)])
		}
		for i, f := range l.fields {
			if i > 0 {
				b.WriteString(sep())
			}
			b.WriteString(f)
		}
		if l.hasAt {
			b.WriteString(sep() + "@" + l.ann)
		}
		if rng.pct(sp.Trail) {
			b.WriteString(rng.blanks(3))
		}
		return b.String()
	}
	var b strings.Builder
	for i, l := range lines {
		b.WriteString(render(l))
		if i == len(lines)-1 && sp.NoFinalEOL && l.kind != 'b' {
			break
		}
		b.WriteString(eol())
	}
	last := byte('b')
	if len(lines) > 0 {
		last = lines[len(lines)-1].kind
	}
	return b.String(), last
}

// lastLineKind tells what the last line of the shaped file is (label of the case).
func (sh Sheet) lastLineKind() string {
	k := byte('e')
	if sh.Shape != nil {
		_, k = sh.shaped()
	}
	return map[byte]string{'e': "entry", 'c': "comment", 'b': "empty", 'w': "blanks", 'g': "commented_entry", 'h': "header", 'p': "param"}[k]
}

// show renders the sheet for an error message: the plain text, or for a shaped
// sheet its lines with every byte visible, long lines abbreviated.
func (sh Sheet) show() string {
	if sh.Shape == nil {
		return sh.Text()
	}
	text := sh.Text()
	var b strings.Builder
	fmt.Fprintf(&b, "(shape %+v, %d bytes; one quoted line per line of the file)\n", *sh.Shape, len(text))
	for _, l := range strings.SplitAfter(text, "\n") {
		if l == "" {
			continue
		}
		q := strconv.Quote(l)
		if len(q) > 400 {
			q = fmt.Sprintf("%s ...(%d bytes)... %s", q[:200], len(l), q[len(q)-100:])
		}
		b.WriteString(q + "\n")
	}
	return b.String()
}

// ------------------------------------------------------------------ generation

// longLens: line lengths around the sizes the readers buffer by.
var longLens = []int{200, 3000, 3071, 3072, 3073, 4000, 4095, 4096, 4097, 4200, 5000, 8191, 8192, 8193, 9000, 20000, 65535, 65536, 65537, 100000}
var longLensBig = []int{131071, 131072, 131073, 140000, 200000, 300000}

func genShape(t *rapid.T, sh Sheet) *Shape {
	sp := &Shape{Seed: rapid.Uint64().Draw(t, "shape_seed")}
	sp.EOL = pick(t, "shape_eol", 0, 0, 1, 1, 2)
	sp.NoFinalEOL = rapid.Bool().Draw(t, "shape_no_final_eol")
	kinds := "bcgw"
	if sh.CSV {
		kinds = "bcg"
	}
	for k := pick(t, "shape_ntail", 0, 0, 0, 1, 1, 2, 3); k > 0; k-- {
		sp.Tail += string(kinds[uniform(t, "shape_tail", len(kinds))])
	}
	sp.Insert = pick(t, "shape_insert", 0, 0, 15, 40)
	if sh.CSV {
		sp.Quote = pick(t, "shape_quote", 0, 0, 30, 100)
		sp.FieldLead = pick(t, "shape_field_lead", 0, 0, 0, 25)
	} else {
		sp.Trail = pick(t, "shape_trail", 0, 0, 30, 100)
		sp.Lead = pick(t, "shape_lead", 0, 0, 0, 30)
		sp.SepMax = pick(t, "shape_sepmax", 0, 0, 1, 3, 5)
	}
	sp.Recase = rapid.Bool().Draw(t, "shape_recase")
	switch pick(t, "shape_long", 0, 0, 0, 0, 1, 2) {
	case 1:
		sp.LongKind = "comment"
	case 2:
		sp.LongKind = "entry"
	}
	if sp.LongKind != "" {
		lens := longLens
		if chance(t, "shape_long_big", 15) { // (CSV sheets too since the repair of the detection window)
			lens = longLensBig
		}
		sp.LongLen = lens[uniform(t, "shape_longlen", len(lens))]
		n := len(sh.Rows)
		// the first and the last line are the places where a reader's buffering shows
		sp.LongAt = pick(t, "shape_longat", 0, n-1, n, uniform(t, "shape_longat_any", n+1))
	}
	return sp
}

// quotedValues: a few extra column values of a CSV sheet get a content that
// only a quoted field can carry.
func quotedValues(t *rapid.T, sh *Sheet) bool {
	if !sh.CSV || len(sh.ExtraKeys) == 0 || !chance(t, "shape_quoted_values", 40) {
		return false
	}
	done := false
	for i := range sh.Rows {
		for k := range sh.Rows[i].Extra {
			if chance(t, "shape_quoted_value", 40) {
				// (the slice is shared with the generator's rows: copy before writing)
				ex := append([]string(nil), sh.Rows[i].Extra...)
				ex[k] = "v" + pick(t, "shape_value", "a,b", "a b", "x, y", ",", `q"q`, `""`, "a,b,c,d,e,f")
				sh.Rows[i].Extra = ex
				done = true
			}
		}
	}
	return done
}

func needsQuotes(sh Sheet) bool {
	for _, r := range sh.Rows {
		for _, v := range r.Extra {
			if strings.ContainsAny(v, ",\" ") {
				return true
			}
		}
	}
	return false
}

// genShapedSheet: a sheet of the ordinary generator with a byte-level shape.
func genShapedSheet(t *rapid.T) (Sheet, []string) {
	sh := genSheet(t)
	if pick(t, "shape_format", 0, 1, 2) == 0 && sh.CSV {
		// the classical format is under-represented by genSheet (40 %) and is where
		// most hand-written readers live: redraw once
		sh = genSheet(t)
	}
	var cl []string
	if quotedValues(t, &sh) {
		cl = append(cl, "shape:csv_value_needing_quotes")
	}
	sh.Shape = genShape(t, sh)
	if sh.CSV && len(sh.Text()) > 128*1024-1024 {
		// (refused by the tree as it was pinned for most positions of the 128 KiB boundary:
		// repaired in the repository, see known_findings.txt; generated since then)
		evid.Class("shape:csv_sheet_beyond_128KiB", 1)
	}
	sp := sh.Shape
	text := sh.Text()
	cl = append(cl, "shape:eol_"+[]string{"lf", "crlf", "mixed"}[sp.EOL], "shape:last_line_"+sh.lastLineKind())
	if sp.NoFinalEOL {
		cl = append(cl, "shape:no_final_eol", "shape:no_final_eol_after_"+sh.lastLineKind())
	}
	if sp.Tail != "" {
		cl = append(cl, "shape:tail_lines")
	}
	if sp.Insert > 0 {
		cl = append(cl, "shape:inserted_lines")
	}
	if sp.Recase {
		cl = append(cl, "shape:recased_primers_and_tags")
	}
	if sh.CSV {
		if sp.Quote > 0 {
			cl = append(cl, fmt.Sprintf("shape:csv_quoted_%d%%", sp.Quote))
		}
		if sp.FieldLead > 0 {
			cl = append(cl, "shape:csv_blank_after_comma")
		}
	} else {
		if sp.Trail > 0 {
			cl = append(cl, "shape:text_trailing_blanks")
		}
		if sp.Lead > 0 {
			cl = append(cl, "shape:text_leading_blanks")
		}
		if sp.SepMax > 0 {
			cl = append(cl, fmt.Sprintf("shape:text_separator_runs_upto_%d", sp.SepMax))
		}
	}
	if sp.LongKind != "" {
		cl = append(cl, "shape:long_"+sp.LongKind)
		switch {
		case sp.LongLen > 128*1024:
			cl = append(cl, "shape:long_line>128KiB")
		case sp.LongLen >= 65535:
			cl = append(cl, "shape:long_line>=64KiB")
		case sp.LongLen > 4096:
			cl = append(cl, "shape:long_line>4096")
		case sp.LongLen >= 3071:
			cl = append(cl, "shape:long_line_3071..4096")
		}
		n := len(sh.Rows)
		switch at := ((sp.LongAt % (n + 1)) + n + 1) % (n + 1); {
		case at == 0:
			cl = append(cl, "shape:long_line_first")
		case at >= n-1:
			cl = append(cl, "shape:long_line_last")
		}
	}
	if len(text) > 128*1024 {
		cl = append(cl, "shape:sheet>128KiB")
	}
	if text == sh.plainText() {
		cl = append(cl, "shape:identical_to_plain_rendering")
	}
	return sh, cl
}

// genRowRead: the amplicon of the PCR declared by row i, as the statement
// describes it (flank, tag, spacer, primer within budget, barcode, the same on
// the other strand), in either orientation.
func genRowRead(t *rapid.T, sh Sheet, ms []markerM, i int) Read {
	var seq string
	for try := 0; try < 3; try++ {
		seq, _ = genAmplicon(t, sh, ms, ampOpt{alpha: gen.ACGT, shape: "complete", row: i + 1})
		if rapid.Bool().Draw(t, "orientation") {
			seq = ref.RevComp(seq)
		}
		if c, _, _ := classify(ms, Read{Seq: seq}); c != "other" {
			break
		}
		evid.Class("redrawn_after_accidental_site", 1)
	}
	if n, indel := maxPrimerLen(ms); indel && len(seq) <= n {
		// known finding indel_read_not_longer_than_primer: excluded by construction
		evid.Excluded("indel_read_not_longer_than_primer", 1)
		seq += strings.Repeat("a", n+1-len(seq))
	}
	return Read{Seq: seq}
}

// ------------------------------------------------------------------ the checks

var sniffOnce sync.Once

// asTheCommand does what obimultiplex has done when it comes to read its sample
// sheet: it has sniffed the format of its sequence input, which sets the
// process-wide detection window of the mimetype package.
func asTheCommand() {
	sniffOnce.Do(func() {
		obiformats.OBIMimeTypeGuesser(strings.NewReader(">r1\nacgtacgt\n"))
	})
}

func checkShape(c demuxCase) error {
	asTheCommand()
	if c.Sheet.Shape != nil && c.Sheet.plainText() != c.Sheet.Text() {
		// the same declarations in the plain rendering: when this fails too the
		// shape is not the cause, and the message says so
		plain := c
		plain.Sheet.Shape = nil
		if err := checkDemux(plain); err != nil {
			return fmt.Errorf("(fails with the plain rendering of the sheet as well) %v", err)
		}
		if err := checkDemux(c); err != nil {
			return fmt.Errorf("the same sheet written plainly (one line per entry, LF after every line) passes every oracle on these reads; written with the byte-level shape shown below it does not: %v", err)
		}
		return nil
	}
	return checkDemux(c)
}

func init() {
	evid.Reg("shape", checkShape)
	evid.Reg("shapecli", checkCLI)
}

// shapedReads: one amplicon per declared PCR, in the order of the sheet (the
// first and the last entry of the file are always exercised), plus a few reads
// of the ordinary mixture.
func shapedReads(t *rapid.T, sh Sheet, ms []markerM, nmore int) []Read {
	var reads []Read
	for i := range sh.Rows {
		reads = append(reads, genRowRead(t, sh, ms, i))
	}
	for i := 0; i < nmore; i++ {
		rd, _ := genRead(t, sh, ms)
		if len(rd.Seq) > 0 {
			reads = append(reads, rd)
		}
	}
	return reads
}

func TestPropSheetShape(t *testing.T) {
	asTheCommand()
	rapid.Check(t, func(rt *rapid.T) {
		sh, cl := genShapedSheet(rt)
		ms, err := interpret(sh)
		if err != nil {
			rt.Fatalf("generator produced a sheet outside the domain: %v", err)
		}
		if zero := (Sheet{CSV: sh.CSV, Markers: sh.Markers, Rows: sh.Rows, Params: sh.Params, ExtraKeys: sh.ExtraKeys, Cols: sh.Cols, Tabs: sh.Tabs,
			Comments: sh.Comments, OneWordTag: sh.OneWordTag, BareAt: sh.BareAt, Shape: &Shape{}}); zero.Text() != zero.plainText() && !needsQuotes(sh) {
			rt.Fatalf("harness: the empty shape does not render the plain text:\n%q\n%q", zero.Text(), zero.plainText())
		}
		c := demuxCase{Sheet: sh, Reads: shapedReads(rt, sh, ms, rapid.IntRange(1, 3).Draw(rt, "nmore"))}
		for _, k := range append(cl, sheetClasses(sh, ms)...) {
			evid.Class(k, 1)
		}
		shaped := sh.Text() != sh.plainText()
		key := evid.Hash(sh.Text(), sh.E, sh.WithIndels)
		idx, err := checkReads(c, func(rd Read, v verdict) {
			// non-trivial: the bytes of the file differ from the plain rendering and the oracle
			// assigns an amplicon of the read to a declared sample
			evid.Eval("shape", evid.Hash(key, rd.Seq), shaped && v.Assigned > 0, demuxCase{sh, []Read{rd}}, v.Classes...)
		})
		if err != nil {
			if idx >= 0 {
				one := demuxCase{sh, []Read{c.Reads[idx]}}
				if e1 := checkShape(one); e1 != nil {
					evid.Fail(rt, "shape", one, e1)
				}
			}
			evid.Fail(rt, "shape", c, checkShapeMsg(c, err))
		}
	})
}

// checkShapeMsg adds to a failure whether the plain rendering fails as well.
func checkShapeMsg(c demuxCase, err error) error {
	if e := checkShape(c); e != nil {
		return e
	}
	return err
}

func TestPropSheetShapeCLI(t *testing.T) {
	if !run.Have("obimultiplex") {
		t.Skip("obimultiplex was not built by the driver")
	}
	rapid.Check(t, func(rt *rapid.T) {
		sh, cl := genShapedSheet(rt)
		ms, err := interpret(sh)
		if err != nil {
			rt.Fatalf("generator produced a sheet outside the domain: %v", err)
		}
		c := cliCase{Sheet: sh}
		c.Fastq = rapid.Bool().Draw(rt, "fastq")
		c.Mode = pick(rt, "mode", "u", "keep", "keep", "")
		c.MaxCPU = pick(rt, "max_cpu", 0, 1, 2)
		if chance(rt, "sheet_from_pipe", 30) {
			// -t /dev/stdin: the sheet arrives through a pipe, possibly in several pieces
			c.SheetVia = "stdin"
			c.SheetPieces = pick(rt, "sheet_pieces", 1, 2, 5)
		}
		c.Reads = shapedReads(rt, sh, ms, rapid.IntRange(1, 3).Draw(rt, "nmore"))
		nontrivial := false
		for _, rd := range c.Reads {
			_, amps, _ := classify(ms, rd)
			for _, a := range amps {
				if _, st := identify(ms[a.Marker], a.FTag, a.RTag); st == idAssigned {
					nontrivial = true
				}
			}
		}
		nontrivial = nontrivial && sh.Text() != sh.plainText()
		via := "cli:sheet_from_file"
		if c.SheetVia != "" {
			via = "cli:sheet_from_pipe"
		}
		evid.Eval("shapecli", evid.Hash(sh.Text(), sh.E, sh.WithIndels, c.Mode, c.Fastq, c.SheetVia, c.SheetPieces, string(c.input())), nontrivial, c,
			append(append(cl, sheetClasses(sh, ms)...), "cli:mode_"+c.Mode, via)...)
		if err := checkCLI(c); err != nil {
			evid.Fail(rt, "shapecli", c, err)
		}
	})
}
