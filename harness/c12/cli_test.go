package c12

import (
	"bytes"
	"encoding/json"
	"fmt"
	"os"
	"path/filepath"
	"strconv"
	"strings"
	"testing"
	"time"

	"pgregory.net/rapid"

	"verifharness/internal/evid"
	"verifharness/internal/ref"
	"verifharness/internal/run"
)

// cliCase: a batch of reads demultiplexed by the real command.
type cliCase struct {
	Sheet  Sheet
	Reads  []Read
	Fastq  bool   // input written as FASTQ (reads without qualities get a constant one)
	Mode   string // "u": -u file; "keep": --keep-errors; "": flagged records are dropped
	MaxCPU int    `json:",omitempty"`
	// how the sheet reaches the command: "" a file named by -t; "stdin": -t /dev/stdin, the sheet is
	// written to the standard input of the command (a pipe) in SheetPieces pieces
	SheetVia    string `json:",omitempty"`
	SheetPieces int    `json:",omitempty"`
}

func (c cliCase) input() []byte {
	var b bytes.Buffer
	for i, r := range c.Reads {
		if c.Fastq {
			q := make([]byte, len(r.Seq))
			for k := range q {
				if r.Qual != nil {
					q[k] = r.Qual[k] + 33
				} else {
					q[k] = 'I'
				}
			}
			fmt.Fprintf(&b, "@r%d {\"verif_read\":%d}\n%s\n+\n%s\n", i, i, r.Seq, q)
		} else {
			fmt.Fprintf(&b, ">r%d {\"verif_read\":%d}\n%s\n", i, i, r.Seq)
		}
	}
	return b.Bytes()
}

func (c cliCase) read(i int) Read {
	r := c.Reads[i]
	if !c.Fastq {
		r.Qual = nil
	} else if r.Qual == nil {
		r.Qual = bytes.Repeat([]byte{'I' - 33}, len(r.Seq))
	}
	return r
}

// parseOut reads what the command wrote (FASTA or FASTQ with JSON annotations)
// and groups the records by input read.
func parseOut(data []byte, n int) ([][]outRec, error) {
	out := make([][]outRec, n)
	if len(bytes.TrimSpace(data)) == 0 {
		return out, nil
	}
	var recs []ref.Rec
	var err error
	fastq := data[0] == '@'
	if fastq {
		recs, err = ref.ParseFastq(data)
	} else {
		recs, err = ref.ParseFasta(data)
	}
	if err != nil {
		return nil, err
	}
	for _, r := range recs {
		o := outRec{ID: r.ID, Seq: r.Seq, Ann: map[string]any{}}
		if js, _, ok := ref.SplitJSONTitle(r.Title); ok {
			if err := json.Unmarshal([]byte(js), &o.Ann); err != nil {
				return nil, fmt.Errorf("record %s: annotations do not parse: %v", r.ID, err)
			}
		} else if r.Title != "" {
			return nil, fmt.Errorf("record %s: title %q carries no JSON annotations", r.ID, r.Title)
		}
		if fastq {
			o.Qual = make([]byte, len(r.Qual))
			for i, q := range r.Qual {
				o.Qual[i] = q - 33
			}
		}
		idx := -1
		if v, ok := o.num("verif_read"); ok {
			idx = v
		} else if strings.HasPrefix(r.ID, "r") {
			id := r.ID[1:]
			if k := strings.Index(id, "_sub["); k >= 0 {
				id = id[:k]
			}
			if v, err := strconv.Atoi(id); err == nil {
				idx = v
			}
		}
		if idx < 0 || idx >= n {
			return nil, fmt.Errorf("record %s cannot be traced back to an input read", r.ID)
		}
		delete(o.Ann, "verif_read")
		out[idx] = append(out[idx], o)
	}
	return out, nil
}

func tail(b []byte) string {
	if len(b) > 1500 {
		b = b[len(b)-1500:]
	}
	return string(b)
}

func checkCLI(c cliCase) error {
	ms, err := interpret(c.Sheet)
	if err != nil {
		return nil
	}
	dir, err := os.MkdirTemp(run.WorkDir(), "c12cli")
	if err != nil {
		return nil
	}
	defer os.RemoveAll(dir)
	sheetFile := filepath.Join(dir, "sheet.txt")
	if c.Sheet.CSV {
		sheetFile = filepath.Join(dir, "sheet.csv")
	}
	inFile := filepath.Join(dir, "reads.fasta")
	if c.Fastq {
		inFile = filepath.Join(dir, "reads.fastq")
	}
	unFile := filepath.Join(dir, "unidentified.out")
	if os.WriteFile(sheetFile, []byte(c.Sheet.Text()), 0o644) != nil || os.WriteFile(inFile, c.input(), 0o644) != nil {
		return nil
	}
	opt := run.Opt{Timeout: 120 * time.Second}
	if c.SheetVia == "stdin" {
		sheetFile = "/dev/stdin"
		opt.Stdin = []byte(c.Sheet.Text())
		if c.SheetPieces > 1 {
			opt.StdinPieces, opt.StdinPause = c.SheetPieces, 3*time.Millisecond
		}
	}
	args := []string{"-t", sheetFile, "--no-progressbar"}
	switch c.Mode {
	case "u":
		args = append(args, "-u", unFile)
	case "keep":
		args = append(args, "--keep-errors")
	}
	if c.Sheet.E >= 0 {
		args = append(args, "-e", strconv.Itoa(c.Sheet.E))
	}
	if c.Sheet.WithIndels {
		args = append(args, "--with-indels")
	}
	if c.MaxCPU > 0 {
		args = append(args, "--max-cpu", strconv.Itoa(c.MaxCPU))
	}
	args = append(args, inFile)
	res := run.Cmd(opt, "obimultiplex", args...)
	if res.Inconclusive() {
		evid.Class("timeout_inconclusive", 1)
		return nil
	}
	what := fmt.Sprintf("obimultiplex %s", strings.Join(args, " "))
	ctx := func() string {
		return fmt.Sprintf("\n--- sheet ---\n%s--- reads ---\n%s", c.Sheet.show(), c.input())
	}
	if res.Exit != 0 {
		return fmt.Errorf("%s exited with status %d: %s%s", what, res.Exit, tail(res.Stderr), ctx())
	}
	n := len(c.Reads)
	main, err := parseOut(res.Stdout, n)
	if err != nil {
		return fmt.Errorf("%s: standard output not readable: %v\n%s%s", what, err, tail(res.Stdout), ctx())
	}
	unid := make([][]outRec, n)
	if c.Mode == "u" {
		data, err := os.ReadFile(unFile)
		if err != nil {
			// the file is written by a goroutine the command does not wait for when nothing is flagged
			data = nil
		}
		unid, err = parseOut(data, n)
		if err != nil {
			return fmt.Errorf("%s: unidentified file not readable: %v\n%s%s", what, err, tail(data), ctx())
		}
	}
	for i := 0; i < n; i++ {
		rd := c.read(i)
		for _, r := range main[i] {
			if c.Mode != "keep" && r.flagged() {
				return fmt.Errorf("%s: read r%d: a record flagged with obimultiplex_error is written to the main output: %v%s", what, i, r, ctx())
			}
		}
		for _, r := range unid[i] {
			if !r.flagged() {
				return fmt.Errorf("%s: read r%d: a record without obimultiplex_error is written to the unidentified file: %v%s", what, i, r, ctx())
			}
		}
		recs := append(append([]outRec(nil), main[i]...), unid[i]...)
		for _, r := range recs {
			if err := safety(c.Sheet, ms, rd, r); err != nil {
				return fmt.Errorf("%s: read r%d %s: safety: record %v: %v%s", what, i, rd.Seq, r, err, ctx())
			}
		}
		class, amps, hits := classify(ms, rd)
		if class == "other" {
			continue
		}
		if c.Mode == "" {
			// flagged records are dropped: only the assigned amplicons are expected
			var kept []amplicon
			undecided := false
			for _, a := range amps {
				m := ms[a.Marker]
				if !m.F.fixed() || !m.R.fixed() {
					undecided = true
					break
				}
				if _, st := identify(m, a.FTag, a.RTag); st == idAssigned {
					kept = append(kept, a)
				}
			}
			if undecided {
				continue
			}
			if len(kept) == 0 {
				if len(recs) != 0 {
					return fmt.Errorf("%s: read r%d %s: no assigned amplicon is expected, got %s%s", what, i, rd.Seq, recsString(recs), ctx())
				}
				continue
			}
			class, amps = "paired", kept
		} else if len(recs) == 0 {
			return fmt.Errorf("%s: read r%d %s appears in no output%s", what, i, rd.Seq, ctx())
		}
		if err := constructive(c.Sheet, ms, rd, class, amps, recs); err != nil {
			return fmt.Errorf("%s: read r%d %s: constructive (priming sites by brute force %v): %v\n records: %s%s", what, i, rd.Seq, hits, err, recsString(recs), ctx())
		}
	}
	return nil
}

func TestPropCLI(t *testing.T) {
	if !run.Have("obimultiplex") {
		t.Skip("obimultiplex was not built by the driver")
	}
	rapid.Check(t, func(rt *rapid.T) {
		sh := genSheet(rt)
		ms, err := interpret(sh)
		if err != nil {
			rt.Fatalf("generator produced a sheet outside the domain: %v", err)
		}
		c := cliCase{Sheet: sh}
		c.Fastq = rapid.Bool().Draw(rt, "fastq")
		c.Mode = pick(rt, "mode", "u", "u", "keep", "")
		c.MaxCPU = pick(rt, "max_cpu", 0, 1, 2, 4)
		// (one to three reads: an input file smaller than the sample sheet - the format detection of
		// the two files shares package-global state)
		n := rapid.OneOf(rapid.IntRange(8, 30), rapid.IntRange(8, 30), rapid.IntRange(1, 3)).Draw(rt, "nreads")
		nontrivial := false
		for i := 0; i < n; i++ {
			rd, _ := genReadMosaic(rt, sh, ms)
			if len(rd.Seq) == 0 {
				continue // an empty record is the file parsers' subject (C01), not a read
			}
			c.Reads = append(c.Reads, rd)
			cls, amps, _ := classify(ms, rd)
			if cls == "mixed" {
				if len(amps) > 0 {
					evid.Class("cli:read_with_lone_sites_and_amplicon", 1)
				} else {
					evid.Class("cli:read_with_lone_sites_only", 1)
				}
			}
			if len(amps) > 0 {
				for _, a := range amps {
					if _, st := identify(ms[a.Marker], a.FTag, a.RTag); st == idAssigned && (a.SpacerOrErrs || a.Dir == "reverse") {
						nontrivial = true
					}
				}
			}
		}
		format := "format:text"
		if sh.CSV {
			format = "format:csv"
		}
		evid.Eval("cli", evid.Hash(sh.Text(), sh.E, sh.WithIndels, c.Mode, c.Fastq, string(c.input())), nontrivial, nil,
			"cli:mode_"+c.Mode, "cli:"+format, fmt.Sprintf("cli:fastq_%v", c.Fastq))
		if err := checkCLI(c); err != nil {
			evid.Fail(rt, "cli", c, err)
		}
	})
}
