package c12

// Chimeric reads made of complete amplicons, partial amplicons and junk.
//
// The statement ranges over "chimeric reads with several amplicons x reads with
// no or partial priming sites" and lets the flanks of an amplicon be arbitrary:
// a complete tag-primer-barcode-primer-tag construct must come out with its
// barcode, tags and sample whatever lies next to it, in particular the remains
// of an incomplete extension product (opening primer only, closing primer only,
// a primer over the mismatch budget), on either strand, before or after it.
// The model (classify, class "mixed") pairs neighbouring sites only; see the
// "Domain decisions" of prop_test.go for what is left undecided.

import (
	"testing"

	"pgregory.net/rapid"

	"verifharness/internal/evid"
	"verifharness/internal/gen"
)

func init() {
	evid.Reg("mosaic", checkDemux)
}

func TestPropMosaic(t *testing.T) {
	rapid.Check(t, func(rt *rapid.T) {
		sh := genSheet(rt)
		ms, err := interpret(sh)
		if err != nil {
			rt.Fatalf("generator produced a sheet outside the domain: %v", err)
		}
		c := demuxCase{Sheet: sh}
		n := rapid.IntRange(4, 8).Draw(rt, "nreads")
		for i := 0; i < n; i++ {
			alpha := pick(rt, "alphabet", gen.ACGT, gen.ACGT, gen.ACGT, "ac", "gt", "at")
			rd, cl := genReadOf(rt, sh, ms, alpha, "mosaic")
			c.Reads = append(c.Reads, rd)
			for _, k := range cl {
				evid.Class(k, 1)
			}
		}
		for _, k := range sheetClasses(sh, ms) {
			evid.Class(k, 1)
		}
		text := sh.Text()
		idx, err := checkReads(c, func(rd Read, v verdict) {
			// non-trivial: the read carries lone priming sites next to at least one determined amplicon
			// that the oracle assigns to a declared sample
			nontrivial := v.Class == "mixed" && v.Lone > 0 && v.Assigned > 0
			evid.Eval("mosaic", evid.Hash(text, sh.E, sh.WithIndels, rd.Seq), nontrivial, demuxCase{sh, []Read{rd}}, v.Classes...)
		})
		if err != nil {
			if idx >= 0 {
				one := demuxCase{sh, []Read{c.Reads[idx]}}
				if e1 := checkDemux(one); e1 != nil {
					evid.Fail(rt, "mosaic", one, e1)
				}
			}
			evid.Fail(rt, "mosaic", c, err)
		}
	})
}
