package c12

// The three oracles, applied to the records the tool returned for one read.
// Nothing in this file calls obitools4.

import (
	"bytes"
	"fmt"
	"sort"
	"strings"

	"verifharness/internal/evid"
	"verifharness/internal/ref"
)

// outRec is one record produced by the tool for a read.
type outRec struct {
	ID   string
	Seq  string
	Qual []byte // phred scores, nil when absent
	Ann  map[string]any
}

func (r outRec) str(k string) (string, bool) {
	v, ok := r.Ann[k]
	if !ok {
		return "", false
	}
	s, ok := v.(string)
	return s, ok
}

func (r outRec) num(k string) (int, bool) {
	switch v := r.Ann[k].(type) {
	case int:
		return v, true
	case float64:
		if v == float64(int(v)) {
			return int(v), true
		}
	}
	return 0, false
}

func (r outRec) String() string {
	keys := make([]string, 0, len(r.Ann))
	for k := range r.Ann {
		keys = append(keys, k)
	}
	sort.Strings(keys)
	var b strings.Builder
	fmt.Fprintf(&b, "{id=%s seq=%s", r.ID, r.Seq)
	for _, k := range keys {
		fmt.Fprintf(&b, " %s=%v", k, r.Ann[k])
	}
	b.WriteString("}")
	return b.String()
}

func recsString(rs []outRec) string {
	var parts []string
	for _, r := range rs {
		parts = append(parts, r.String())
	}
	return "[" + strings.Join(parts, "\n  ") + "]"
}

func (r outRec) flagged() bool  { _, ok := r.Ann["obimultiplex_error"]; return ok }
func (r outRec) assigned() bool { _, ok := r.Ann["sample"]; return ok }

// markerOf finds the marker a record names through its primer attributes.
func markerOf(ms []markerM, r outRec) (int, error) {
	fp, ok1 := r.str("obimultiplex_forward_primer")
	rp, ok2 := r.str("obimultiplex_reverse_primer")
	if !ok1 || !ok2 {
		return -1, fmt.Errorf("the record does not name its primers (obimultiplex_forward_primer / obimultiplex_reverse_primer)")
	}
	for i, m := range ms {
		if m.F.Primer == fp && m.R.Primer == rp {
			return i, nil
		}
	}
	return -1, fmt.Errorf("the record names the primer pair (%s, %s) which is no marker of the sheet", fp, rp)
}

func primerDist(sd sideM, match string) int {
	if sd.Indel {
		return patEdit(sd.Pat, match)
	}
	if len(match) != len(sd.Pat) {
		return 1 << 20
	}
	d := 0
	for i := range sd.Pat {
		if sd.Pat[i]&baseBit(match[i]) == 0 {
			d++
		}
	}
	return d
}

// checkSample compares the assignment carried by a record with the row the oracle designates.
func checkSample(sh Sheet, r outRec, row, status int, why string) error {
	switch status {
	case idUnjudged:
		evid.Class("hamming_unequal_length_unjudged", 1)
		return nil
	case idNone:
		if r.assigned() {
			return fmt.Errorf("assigned to sample %v although %s designate no declared sample under the declared matching mode", r.Ann["sample"], why)
		}
		if !r.flagged() {
			return fmt.Errorf("neither assigned to a sample nor flagged with obimultiplex_error")
		}
	case idAssigned:
		want := sh.Rows[row]
		if r.flagged() || !r.assigned() {
			return fmt.Errorf("%s designate sample %s (experiment %s) but the record is not assigned (obimultiplex_error=%v)", why, want.Name, want.Exp, r.Ann["obimultiplex_error"])
		}
		if s, _ := r.str("sample"); s != want.Name {
			return fmt.Errorf("assigned to sample %v, %s designate sample %s", r.Ann["sample"], why, want.Name)
		}
		if e, _ := r.str("experiment"); e != want.Exp {
			return fmt.Errorf("experiment %v reported for sample %s, the sheet says %s", r.Ann["experiment"], want.Name, want.Exp)
		}
		for k, key := range sh.ExtraKeys {
			if k < len(want.Extra) && want.Extra[k] != "" {
				if v, _ := r.str(key); v != want.Extra[k] {
					return fmt.Errorf("annotation %s=%v on the record, the sheet declares %s=%s for sample %s", key, r.Ann[key], key, want.Extra[k], want.Name)
				}
			}
		}
	}
	return nil
}

// safety is the third clause of the property, judged on one record alone:
// a record is either flagged, or assigned to the sample its own reported tags
// designate; the reported primer matches are sites of the named primers within
// budget; for fixed-position tags the reported barcode, matches and tags are
// adjacent pieces of the read at the declared distances.
func safety(sh Sheet, ms []markerM, rd Read, r outRec) error {
	if _, isAmplicon := r.Ann["obimultiplex_direction"]; !isAmplicon {
		if r.assigned() {
			return fmt.Errorf("record without extracted barcode (no obimultiplex_direction) carries sample %v", r.Ann["sample"])
		}
		if !r.flagged() {
			return fmt.Errorf("record is neither an extracted barcode nor flagged with obimultiplex_error")
		}
		if r.Seq != rd.Seq {
			return fmt.Errorf("the flagged record is not the read itself: %s", r.Seq)
		}
		return nil
	}
	mi, err := markerOf(ms, r)
	if err != nil {
		return err
	}
	m := ms[mi]
	dir, _ := r.str("obimultiplex_direction")
	if dir != "forward" && dir != "reverse" {
		return fmt.Errorf("obimultiplex_direction=%v", r.Ann["obimultiplex_direction"])
	}
	fm, ok1 := r.str("obimultiplex_forward_match")
	rm, ok2 := r.str("obimultiplex_reverse_match")
	fe, ok3 := r.num("obimultiplex_forward_error")
	re, ok4 := r.num("obimultiplex_reverse_error")
	if !ok1 || !ok2 || !ok3 || !ok4 {
		return fmt.Errorf("the record does not report its primer matches and error counts")
	}
	if d := primerDist(m.F, fm); d != fe || d > m.F.Err {
		return fmt.Errorf("forward match %s reported with %d errors: it is at distance %d of primer %s (budget %d)", fm, fe, d, m.F.Primer, m.F.Err)
	}
	if d := primerDist(m.R, rm); d != re || d > m.R.Err {
		return fmt.Errorf("reverse match %s reported with %d errors: it is at distance %d of primer %s (budget %d)", rm, re, d, m.R.Primer, m.R.Err)
	}
	ft, hasF := r.str("obimultiplex_forward_tag")
	rt, hasR := r.str("obimultiplex_reverse_tag")
	if (hasF && ft == "") || (hasR && rt == "") {
		return fmt.Errorf("empty tag attribute")
	}
	// adjacency: some position of the read carries barcode, matches and (fixed) tags as reported
	s := rd.Seq
	bc := r.Seq
	open, clos, osd, csd, otag, ctag := fm, rm, m.F, m.R, ft, rt
	if dir == "reverse" {
		bc = ref.RevComp(bc)
		open, clos, osd, csd, otag, ctag = rm, fm, m.R, m.F, rt, ft
	}
	found := false
	for st := len(open); st+len(bc)+len(clos) <= len(s) && !found; st++ {
		en := st + len(bc)
		if s[st:en] != bc || s[st-len(open):st] != open || ref.RevComp(s[en:en+len(clos)]) != clos {
			continue
		}
		if osd.fixed() && tagBefore(s, st-len(open), osd) != otag {
			continue
		}
		if csd.fixed() && tagAfter(s, en+len(clos), csd) != ctag {
			continue
		}
		if rd.Qual != nil && r.Qual != nil && !bytes.Equal(subQual(rd.Qual, st, en, dir == "reverse"), r.Qual) {
			continue
		}
		found = true
	}
	if !found {
		return fmt.Errorf("no position of the read carries the reported pieces side by side (direction %s: opening match, barcode, closing match, and the tags at the declared spacer distance; forward tag %q, reverse tag %q, qualities %v)", dir, ft, rt, r.Qual)
	}
	row, status := identify(m, ft, rt)
	return checkSample(sh, r, row, status, fmt.Sprintf("the reported tags (%q, %q)", ft, rt))
}

// constructive compares the records with the amplicons the property determines
// (as multisets).
func constructive(sh Sheet, ms []markerM, rd Read, class string, amps []amplicon, recs []outRec) error {
	if class == "none" {
		if len(recs) != 1 || recs[0].Seq != rd.Seq || !recs[0].flagged() || recs[0].assigned() {
			return fmt.Errorf("the read carries no priming site within budget: one flagged copy of the read is expected")
		}
		return nil
	}
	if class == "mixed" && len(amps) == 0 {
		// partial priming sites only: nothing to extract, the read is output flagged
		if len(recs) != 1 || recs[0].Seq != rd.Seq || !recs[0].flagged() || recs[0].assigned() {
			return fmt.Errorf("the read carries only lone priming sites (no opening primer is followed by its closing primer): one flagged copy of the read is expected")
		}
		return nil
	}
	used := make([]bool, len(recs))
	for _, a := range amps {
		m := ms[a.Marker]
		var last error
		hit := false
		for i, r := range recs {
			if used[i] {
				continue
			}
			if err := matchAmplicon(sh, m, a, r); err != nil {
				if last == nil || r.Seq == a.Barcode {
					last = err
				}
				continue
			}
			used[i], hit = true, true
			break
		}
		if !hit {
			return fmt.Errorf("expected an extracted barcode %s (direction %s, marker %s/%s, forward match %s with %d errors, reverse match %s with %d errors, forward tag %q, reverse tag %q): %v",
				a.Barcode, a.Dir, m.F.Primer, m.R.Primer, a.FMatch, a.FErr, a.RMatch, a.RErr, a.FTag, a.RTag, last)
		}
	}
	for i, r := range recs {
		if !used[i] {
			return fmt.Errorf("unexpected additional record %v (%d amplicons are determined by the priming sites)", r, len(amps))
		}
	}
	return nil
}

func matchAmplicon(sh Sheet, m markerM, a amplicon, r outRec) error {
	if r.Seq != a.Barcode {
		return fmt.Errorf("no record with that sequence")
	}
	if a.Qual != nil && !bytes.Equal(a.Qual, r.Qual) {
		return fmt.Errorf("qualities of the barcode are %v, expected %v", r.Qual, a.Qual)
	}
	want := map[string]any{
		"obimultiplex_direction":      a.Dir,
		"obimultiplex_forward_primer": m.F.Primer,
		"obimultiplex_reverse_primer": m.R.Primer,
		"obimultiplex_forward_match":  a.FMatch,
		"obimultiplex_reverse_match":  a.RMatch,
	}
	for k, v := range want {
		if got, _ := r.str(k); got != v {
			return fmt.Errorf("%s=%v, expected %v", k, r.Ann[k], v)
		}
	}
	if n, ok := r.num("obimultiplex_forward_error"); !ok || n != a.FErr {
		return fmt.Errorf("obimultiplex_forward_error=%v, expected %d", r.Ann["obimultiplex_forward_error"], a.FErr)
	}
	if n, ok := r.num("obimultiplex_reverse_error"); !ok || n != a.RErr {
		return fmt.Errorf("obimultiplex_reverse_error=%v, expected %d", r.Ann["obimultiplex_reverse_error"], a.RErr)
	}
	ft, hasF := r.str("obimultiplex_forward_tag")
	rt, hasR := r.str("obimultiplex_reverse_tag")
	if m.F.fixed() && (ft != a.FTag || hasF != (a.FTag != "")) {
		return fmt.Errorf("obimultiplex_forward_tag=%v, the bytes at spacer distance %d of the forward primer site are %q", r.Ann["obimultiplex_forward_tag"], m.F.Spacer, a.FTag)
	}
	if m.R.fixed() && (rt != a.RTag || hasR != (a.RTag != "")) {
		return fmt.Errorf("obimultiplex_reverse_tag=%v, the bytes at spacer distance %d of the reverse primer site are %q", r.Ann["obimultiplex_reverse_tag"], m.R.Spacer, a.RTag)
	}
	if m.F.fixed() && m.R.fixed() {
		row, status := identify(m, a.FTag, a.RTag)
		return checkSample(sh, r, row, status, fmt.Sprintf("the tags of the read (%q, %q)", a.FTag, a.RTag))
	}
	return nil
}

// symmetry: second clause.  got are the records of the reverse-complemented
// read, base those of the read: same (barcode, assignment) multiset, directions flipped.
//
// For a marker with delimiter-based tag extraction only barcode and direction
// are compared (that extraction belongs to the safety clause only).
func symmetry(ms []markerM, base, got []outRec) error {
	key := func(r outRec, flip bool) string {
		d, _ := r.str("obimultiplex_direction")
		if flip {
			switch d {
			case "forward":
				d = "reverse"
			case "reverse":
				d = "forward"
			}
		}
		seq := r.Seq
		if d == "" {
			// a flagged whole read comes back reverse-complemented
			if flip {
				seq = ref.RevComp(seq)
			}
		}
		if mi, err := markerOf(ms, r); err == nil && !(ms[mi].F.fixed() && ms[mi].R.fixed()) {
			return fmt.Sprintf("%s|%s|delimited", seq, d)
		}
		return fmt.Sprintf("%s|%s|%v|%v|%v", seq, d, r.Ann["sample"], r.Ann["experiment"], r.flagged())
	}
	var a, b []string
	for _, r := range base {
		a = append(a, key(r, true))
	}
	for _, r := range got {
		b = append(b, key(r, false))
	}
	sort.Strings(a)
	sort.Strings(b)
	if strings.Join(a, "\n") != strings.Join(b, "\n") {
		return fmt.Errorf("the reverse-complemented read does not yield the same barcodes and samples with flipped directions:\n read:     %s\n revcomp:  %s", recsString(base), recsString(got))
	}
	return nil
}
