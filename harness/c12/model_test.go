package c12

// Independent model of a sample sheet and of what "demultiplexing a read" means.
// Nothing in this file calls obitools4.

import (
	"fmt"
	"sort"
	"strconv"
	"strings"

	"verifharness/internal/ref"
)

// ------------------------------------------------------------------ the case

// Sample is one PCR line of the sheet.
type Sample struct {
	Exp, Name  string
	FTag, RTag string   // as written in the sheet; "" = this side carries no tag ("-")
	Extra      []string `json:",omitempty"` // values of Sheet.ExtraKeys ("" = not written, text format only)
}

type Row struct {
	Marker int
	Sample
}

// Marker is a primer pair as written in the sheet (any case, IUPAC codes allowed).
type Marker struct{ Fwd, Rev string }

// Param is one "@param,name,args..." line of the CSV format.
type Param struct {
	Name string
	Args []string
}

// Sheet is the complete description of a generated sample sheet plus the
// options of the command that interact with it.
type Sheet struct {
	CSV        bool
	Markers    []Marker
	Rows       []Row
	Params     []Param  `json:",omitempty"` // CSV only
	ExtraKeys  []string `json:",omitempty"` // CSV: extra columns; text: key=value; annotations after '@'
	Cols       []int    `json:",omitempty"` // CSV: order in which the 5+len(ExtraKeys) columns are written
	Tabs       bool     `json:",omitempty"` // text: fields separated by one tab (else by runs of blanks)
	Comments   bool     `json:",omitempty"` // comment and empty lines are interleaved
	OneWordTag bool     `json:",omitempty"` // "tag" is written instead of "tag:tag" when both sides carry the same tag
	BareAt     bool     `json:",omitempty"` // text: lines without annotations still end with '@' (as in sample/wolf_diet_ngsfilter.txt)
	E          int      // -e / --allowed-mismatches given to the command (-1: option absent)
	WithIndels bool     `json:",omitempty"` // --with-indels
	Shape      *Shape   `json:",omitempty"` // byte-level layout of the file (shape_test.go); nil: the plain rendering below
}

// Read is one input sequence (lower case acgt); Qual (optional) holds one phred score per nucleotide.
type Read struct {
	Seq  string
	Qual []byte `json:",omitempty"`
}

func (r Read) revcomp() Read {
	o := Read{Seq: ref.RevComp(r.Seq)}
	if r.Qual != nil {
		o.Qual = make([]byte, len(r.Qual))
		for i, q := range r.Qual {
			o.Qual[len(r.Qual)-1-i] = q
		}
	}
	return o
}

// ------------------------------------------------------------------ rendering (what the tool reads)

func tagField(s Sample, oneWord bool) string {
	if oneWord && s.FTag != "" && s.FTag == s.RTag {
		return s.FTag
	}
	f, r := s.FTag, s.RTag
	if f == "" {
		f = "-"
	}
	if r == "" {
		r = "-"
	}
	return f + ":" + r
}

// Text renders the sheet in the format the case describes: the plain rendering,
// or the byte-level layout described by sh.Shape (same declarations, other bytes).
func (sh Sheet) Text() string {
	if sh.Shape != nil {
		return sh.shapedText()
	}
	return sh.plainText()
}

// plainText: one line per entry, every line ended by a line feed.
func (sh Sheet) plainText() string {
	var b strings.Builder
	if sh.Comments {
		b.WriteString("# generated sample sheet\n\n")
	}
	if !sh.CSV {
		sep := "  "
		if sh.Tabs {
			sep = "\t"
		}
		for i, r := range sh.Rows {
			m := sh.Markers[r.Marker]
			b.WriteString(strings.Join([]string{r.Exp, r.Name, tagField(r.Sample, sh.OneWordTag), m.Fwd, m.Rev, "F"}, sep))
			ann := ""
			for k, key := range sh.ExtraKeys {
				if k < len(r.Extra) && r.Extra[k] != "" {
					ann += " " + key + "=" + r.Extra[k] + ";"
				}
			}
			if ann != "" {
				b.WriteString(sep + "@" + ann)
			} else if sh.BareAt {
				b.WriteString(sep + "@")
			}
			b.WriteString("\n")
			if sh.Comments && i%3 == 1 {
				b.WriteString("# a comment line\n\n")
			}
		}
		return b.String()
	}
	for i, p := range sh.Params {
		b.WriteString("@param," + p.Name)
		for _, a := range p.Args {
			b.WriteString("," + a)
		}
		b.WriteString("\n")
		if sh.Comments && i%2 == 0 {
			b.WriteString("# a comment between parameters\n")
		}
	}
	names := append([]string{"experiment", "sample", "sample_tag", "forward_primer", "reverse_primer"}, sh.ExtraKeys...)
	cols := sh.Cols
	if len(cols) != len(names) {
		cols = make([]int, len(names))
		for i := range cols {
			cols[i] = i
		}
	}
	line := func(vals []string) {
		out := make([]string, len(cols))
		for i, c := range cols {
			out[i] = vals[c]
		}
		b.WriteString(strings.Join(out, ",") + "\n")
	}
	line(names)
	for i, r := range sh.Rows {
		m := sh.Markers[r.Marker]
		vals := []string{r.Exp, r.Name, tagField(r.Sample, sh.OneWordTag), m.Fwd, m.Rev}
		for k := range sh.ExtraKeys {
			v := ""
			if k < len(r.Extra) {
				v = r.Extra[k]
			}
			vals = append(vals, v)
		}
		line(vals)
		if sh.Comments && i%3 == 1 {
			b.WriteString("# a comment line\n")
		}
	}
	return b.String()
}

// ------------------------------------------------------------------ interpretation (what the sheet declares)

type sideM struct {
	Primer    string  // lower case
	Pat       []uint8 // IUPAC set of each position, in the orientation the primer is written
	TagLen    int
	Spacer    int
	Err       int
	Indel     bool
	Matching  string
	Delim     byte // 0: fixed-position tags
	TagIndels int
	Tags      []string // distinct declared tags of this side (lower case)
}

func (s sideM) fixed() bool { return s.Delim == 0 }

type markerM struct {
	F, R  sideM
	Pairs map[[2]string]int // (forward tag, reverse tag) -> index in Sheet.Rows
}

func patOf(p string) ([]uint8, error) {
	out := make([]uint8, len(p))
	for i := 0; i < len(p); i++ {
		out[i] = ref.IUPACSet(p[i])
		if out[i] == 0 {
			return nil, fmt.Errorf("primer %q: %q is not a nucleotide code", p, p[i])
		}
	}
	return out, nil
}

func rcPat(p []uint8) []uint8 {
	out := make([]uint8, len(p))
	for i, b := range p {
		var r uint8
		if b&1 != 0 {
			r |= 8
		}
		if b&8 != 0 {
			r |= 1
		}
		if b&2 != 0 {
			r |= 4
		}
		if b&4 != 0 {
			r |= 2
		}
		out[len(p)-1-i] = r
	}
	return out
}

func baseBit(c byte) uint8 {
	switch c {
	case 'a':
		return 1
	case 'c':
		return 2
	case 'g':
		return 4
	case 't':
		return 8
	}
	return 0
}

// interpret turns the sheet into what it declares, following the description of
// the two formats (CLI template text of obimultiplex, doc/book/formats.qmd):
// defaults are spacer 0, no delimiter, strict matching, 2 primer mismatches, no
// indels; a parameter with one value applies to every primer, forward_x /
// reverse_x to every forward / reverse primer, the two-value form to the named
// primer; later lines override earlier ones.  It refuses sheets that break the
// reader's own rules (they are outside the domain of the property).
func interpret(sh Sheet) ([]markerM, error) {
	ms := make([]markerM, len(sh.Markers))
	seen := map[string]bool{}
	for i, m := range sh.Markers {
		f, r := strings.ToLower(m.Fwd), strings.ToLower(m.Rev)
		if seen[f] || seen[r] || f == r {
			return nil, fmt.Errorf("primers are not unique across markers")
		}
		seen[f], seen[r] = true, true
		fp, err := patOf(f)
		if err != nil {
			return nil, err
		}
		rp, err := patOf(r)
		if err != nil {
			return nil, err
		}
		def := sideM{Err: 2, Matching: "strict"}
		ms[i] = markerM{F: def, R: def, Pairs: map[[2]string]int{}}
		ms[i].F.Primer, ms[i].F.Pat, ms[i].F.TagLen = f, fp, -1
		ms[i].R.Primer, ms[i].R.Pat, ms[i].R.TagLen = r, rp, -1
	}
	for ri, row := range sh.Rows {
		if row.Marker < 0 || row.Marker >= len(ms) {
			return nil, fmt.Errorf("row %d names no marker", ri)
		}
		m := &ms[row.Marker]
		ft, rt := strings.ToLower(row.FTag), strings.ToLower(row.RTag)
		if m.F.TagLen >= 0 && (m.F.TagLen != len(ft) || m.R.TagLen != len(rt)) {
			return nil, fmt.Errorf("row %d: tag lengths are not uniform within the marker", ri)
		}
		m.F.TagLen, m.R.TagLen = len(ft), len(rt)
		if _, dup := m.Pairs[[2]string{ft, rt}]; dup {
			return nil, fmt.Errorf("row %d: tag pair used twice for the marker", ri)
		}
		m.Pairs[[2]string{ft, rt}] = ri
	}
	for i := range ms {
		if len(ms[i].Pairs) == 0 {
			return nil, fmt.Errorf("marker %d has no sample", i)
		}
		fs, rs := map[string]bool{}, map[string]bool{}
		for k := range ms[i].Pairs {
			fs[k[0]], rs[k[1]] = true, true
		}
		for t := range fs {
			ms[i].F.Tags = append(ms[i].F.Tags, t)
		}
		for t := range rs {
			ms[i].R.Tags = append(ms[i].R.Tags, t)
		}
		sort.Strings(ms[i].F.Tags)
		sort.Strings(ms[i].R.Tags)
	}
	// sides(which, primer): the sides a parameter line addresses
	each := func(primer string, fwd, rev bool, f func(s *sideM)) {
		primer = strings.ToLower(primer)
		for i := range ms {
			if fwd && (primer == "" || ms[i].F.Primer == primer) {
				f(&ms[i].F)
			}
			if rev && (primer == "" || ms[i].R.Primer == primer) {
				f(&ms[i].R)
			}
		}
	}
	for _, p := range sh.Params {
		name, fwd, rev := p.Name, true, true
		if strings.HasPrefix(name, "forward_") {
			name, rev = strings.TrimPrefix(name, "forward_"), false
		} else if strings.HasPrefix(name, "reverse_") {
			name, fwd = strings.TrimPrefix(name, "reverse_"), false
		}
		primer, val := "", ""
		switch len(p.Args) {
		case 1:
			val = p.Args[0]
		case 2:
			if !fwd || !rev {
				return nil, fmt.Errorf("parameter %s takes one value", p.Name)
			}
			primer, val = p.Args[0], p.Args[1]
		default:
			return nil, fmt.Errorf("parameter %s: %d values", p.Name, len(p.Args))
		}
		num := func() (int, error) {
			n, err := strconv.Atoi(val)
			if err != nil || n < 0 {
				return 0, fmt.Errorf("parameter %s: bad value %q", p.Name, val)
			}
			return n, nil
		}
		switch name {
		case "spacer":
			n, err := num()
			if err != nil {
				return nil, err
			}
			each(primer, fwd, rev, func(s *sideM) { s.Spacer = n })
		case "primer_mismatches":
			if !fwd || !rev {
				return nil, fmt.Errorf("parameter %s is not generated", p.Name)
			}
			n, err := num()
			if err != nil {
				return nil, err
			}
			each(primer, fwd, rev, func(s *sideM) { s.Err = n })
		case "tag_indels":
			n, err := num()
			if err != nil {
				return nil, err
			}
			each(primer, fwd, rev, func(s *sideM) { s.TagIndels = n })
		case "tag_delimiter":
			var d byte
			switch strings.ToLower(val) {
			case "a", "c", "g", "t":
				d = strings.ToLower(val)[0]
			case "0":
				d = 0
			default:
				return nil, fmt.Errorf("parameter %s: bad value %q", p.Name, val)
			}
			each(primer, fwd, rev, func(s *sideM) { s.Delim = d })
		case "matching":
			if primer != "" || !fwd || !rev {
				return nil, fmt.Errorf("parameter %s has only the one-value form", p.Name)
			}
			if val != "strict" && val != "hamming" && val != "indel" {
				return nil, fmt.Errorf("parameter matching: bad value %q", val)
			}
			each("", true, true, func(s *sideM) { s.Matching = val })
		case "indels":
			if !fwd || !rev {
				return nil, fmt.Errorf("parameter %s is not generated", p.Name)
			}
			if val != "true" && val != "false" {
				return nil, fmt.Errorf("parameter indels: bad value %q", val)
			}
			each(primer, fwd, rev, func(s *sideM) { s.Indel = val == "true" })
		default:
			return nil, fmt.Errorf("parameter %s is not part of the domain", p.Name)
		}
	}
	if !sh.CSV && len(sh.Params) > 0 {
		return nil, fmt.Errorf("the text format has no parameter lines")
	}
	if sh.E >= 0 {
		each("", true, true, func(s *sideM) { s.Err = sh.E })
	}
	if sh.WithIndels {
		each("", true, true, func(s *sideM) { s.Indel = true })
	}
	for i := range ms {
		for _, s := range []*sideM{&ms[i].F, &ms[i].R} {
			if s.Delim != 0 && s.TagIndels > 0 && s.TagLen > 0 && s.TagIndels >= s.TagLen {
				return nil, fmt.Errorf("tag_indels %d is not smaller than the tag length %d", s.TagIndels, s.TagLen)
			}
			if s.Delim != 0 {
				for _, t := range s.Tags {
					if strings.IndexByte(t, s.Delim) >= 0 {
						return nil, fmt.Errorf("tag %s contains its delimiter", t)
					}
				}
			}
		}
	}
	return ms, nil
}

// ------------------------------------------------------------------ priming sites by brute force

const (
	kFwd  = 0 // forward primer as written: opens a forward-orientation amplicon
	kCRev = 1 // reverse complement of the reverse primer: closes it
	kRev  = 2 // reverse primer as written: opens a reverse-orientation amplicon
	kCFwd = 3 // reverse complement of the forward primer: closes it
)

type hit struct {
	Marker, Kind int
	A, B, Err    int // read[A:B] is the priming site
}

// hammingHits: every window whose IUPAC Hamming distance to the pattern is within budget.
func hammingHits(p []uint8, s string, budget int) [][3]int {
	var out [][3]int
	m := len(p)
	for st := 0; st+m <= len(s); st++ {
		d := 0
		for i := 0; i < m && d <= budget; i++ {
			if p[i]&baseBit(s[st+i]) == 0 {
				d++
			}
		}
		if d <= budget {
			out = append(out, [3]int{st, st + m, d})
		}
	}
	return out
}

func patEdit(p []uint8, span string) int {
	n, m := len(p), len(span)
	prev := make([]int, m+1)
	cur := make([]int, m+1)
	for j := 0; j <= m; j++ {
		prev[j] = j
	}
	for i := 1; i <= n; i++ {
		cur[0] = i
		for j := 1; j <= m; j++ {
			c := prev[j-1]
			if p[i-1]&baseBit(span[j-1]) == 0 {
				c++
			}
			if v := prev[j] + 1; v < c {
				c = v
			}
			if v := cur[j-1] + 1; v < c {
				c = v
			}
			cur[j] = c
		}
		prev, cur = cur, prev
	}
	return prev[m]
}

// indelHits: priming sites when indels are allowed.  D[e] = least edit distance
// between the pattern and a substring ending at e (Sellers).  Ends within budget
// are grouped into neighbourhoods; a neighbourhood is a well-defined site only
// when one single substring reaches the least distance of the neighbourhood;
// otherwise which span is "the" match is not determined and ambiguous is set.
func indelHits(p []uint8, s string, budget int) (out [][3]int, ambiguous bool) {
	pat := strings.Repeat("x", len(p))
	D := ref.SellersEnds(pat, s, func(pi int, c byte) bool { return p[pi]&baseBit(c) != 0 })
	var ends []int
	for e := 1; e <= len(s); e++ {
		if D[e] <= budget {
			ends = append(ends, e)
		}
	}
	for i := 0; i < len(ends); {
		j := i
		for j+1 < len(ends) && ends[j+1]-ends[j] <= 2*budget+1 {
			j++
		}
		cl := ends[i : j+1]
		i = j + 1
		k, best, nbest := budget+1, -1, 0
		for _, e := range cl {
			if D[e] < k {
				k, best, nbest = D[e], e, 1
			} else if D[e] == k {
				nbest++
			}
		}
		if nbest != 1 || cl[len(cl)-1]-cl[0] > 2*budget {
			ambiguous = true
			continue
		}
		starts := 0
		st := -1
		for a := max(0, best-len(p)-k); a <= best-len(p)+k && a <= best; a++ {
			if patEdit(p, s[a:best]) == k {
				starts++
				st = a
			}
		}
		if starts != 1 {
			ambiguous = true
			continue
		}
		out = append(out, [3]int{st, best, k})
	}
	return out, ambiguous
}

// allHits lists the priming sites of every primer of every marker, in both
// orientations, sorted by position.  ambiguous: some site has no well-defined span.
func allHits(ms []markerM, s string) (hits []hit, ambiguous bool) {
	for mi, m := range ms {
		for kind := 0; kind < 4; kind++ {
			side := m.F
			if kind == kCRev || kind == kRev {
				side = m.R
			}
			p := side.Pat
			if kind == kCRev || kind == kCFwd {
				p = rcPat(p)
			}
			var hs [][3]int
			if side.Indel {
				var amb bool
				hs, amb = indelHits(p, s, side.Err)
				ambiguous = ambiguous || amb
			} else {
				hs = hammingHits(p, s, side.Err)
			}
			for _, h := range hs {
				hits = append(hits, hit{mi, kind, h[0], h[1], h[2]})
			}
		}
	}
	sort.SliceStable(hits, func(i, j int) bool { return hits[i].A < hits[j].A })
	return
}

// amplicon is what the property says must come out for one well-formed
// (opening primer, closing primer) pair of sites.
type amplicon struct {
	Marker       int
	Dir          string
	Barcode      string
	Qual         []byte
	FMatch       string
	RMatch       string
	FErr, RErr   int
	FTag, RTag   string // bytes at the declared distance from the primer sites ("" when absent / off the read); fixed-position sides only
	Open, Close  hit
	SpacerOrErrs bool
}

func subQual(q []byte, a, b int, rc bool) []byte {
	if q == nil {
		return nil
	}
	out := append([]byte(nil), q[a:b]...)
	if rc {
		for i, j := 0, len(out)-1; i < j; i, j = i+1, j-1 {
			out[i], out[j] = out[j], out[i]
		}
	}
	return out
}

// tagBefore: the tag lying before position a (5' side of a site read as written).
func tagBefore(s string, a int, sd sideM) string {
	if sd.TagLen <= 0 {
		return ""
	}
	st := a - sd.Spacer - sd.TagLen
	if st < 0 {
		return ""
	}
	return s[st : a-sd.Spacer]
}

// tagAfter: the tag lying after position d (3' side of a reverse-complemented site).
func tagAfter(s string, d int, sd sideM) string {
	if sd.TagLen <= 0 {
		return ""
	}
	en := d + sd.Spacer + sd.TagLen
	if en > len(s) {
		return ""
	}
	return ref.RevComp(s[d+sd.Spacer : en])
}

func mkAmplicon(ms []markerM, r Read, o, c hit) amplicon {
	m := ms[o.Marker]
	s := r.Seq
	a := amplicon{Marker: o.Marker, Open: o, Close: c}
	if o.Kind == kFwd {
		a.Dir = "forward"
		a.Barcode = s[o.B:c.A]
		a.Qual = subQual(r.Qual, o.B, c.A, false)
		a.FMatch, a.RMatch = s[o.A:o.B], ref.RevComp(s[c.A:c.B])
		a.FErr, a.RErr = o.Err, c.Err
		a.FTag, a.RTag = tagBefore(s, o.A, m.F), tagAfter(s, c.B, m.R)
	} else {
		a.Dir = "reverse"
		a.Barcode = ref.RevComp(s[o.B:c.A])
		a.Qual = subQual(r.Qual, o.B, c.A, true)
		a.RMatch, a.FMatch = s[o.A:o.B], ref.RevComp(s[c.A:c.B])
		a.RErr, a.FErr = o.Err, c.Err
		a.RTag, a.FTag = tagBefore(s, o.A, m.R), tagAfter(s, c.B, m.F)
	}
	a.SpacerOrErrs = a.FErr+a.RErr > 0 || (m.F.TagLen > 0 && m.F.Spacer > 0) || (m.R.TagLen > 0 && m.R.Spacer > 0)
	return a
}

// readClass says what the property determines for a read.
//
//	"none"    no priming site of any primer in either orientation: one record, the read itself, flagged
//	"paired"  the sites are exactly a succession of well separated (opening, closing) pairs: the amplicons are determined
//	"mixed"   well separated sites, some of which are lone (partial priming sites: an opening primer whose closing
//	          primer is missing or over budget, a closing primer without its opening primer, sites of another
//	          marker or strand), lying in the flanks of the (opening, closing) pairs: the amplicons are the pairs of
//	          neighbouring sites "opening primer, closing primer of the same marker on the same strand"
//	          (properties.jsonl, mechanism: the hits of all markers sorted by position, a direct hit followed by the
//	          matching complementary hit delimits a barcode); a read without any such pair is output flagged
//	"other"   anything else (overlapping, crossed, ambiguous sites, a lone site between an opening primer and the
//	          closing primer it could be matched with): only the safety clause applies
func classify(ms []markerM, r Read) (class string, amps []amplicon, hits []hit) {
	class, amps, hits, _ = classifyLone(ms, r)
	return
}

// opener gives the kind of the opening site a closing site of kind k closes (-1: k is itself an opening kind).
func opener(k int) int {
	switch k {
	case kCRev:
		return kFwd
	case kCFwd:
		return kRev
	}
	return -1
}

// classifyLone is classify, and also tells which sites are lone (lone[i] for hits[i]; nil unless paired / mixed).
func classifyLone(ms []markerM, r Read) (class string, amps []amplicon, hits []hit, lone []bool) {
	hits, amb := allHits(ms, r.Seq)
	if amb {
		return "other", nil, hits, nil
	}
	if len(hits) == 0 {
		return "none", nil, hits, nil
	}
	maxB := 0
	for _, m := range ms {
		maxB = max(maxB, m.F.Err, m.R.Err)
	}
	for i := 1; i < len(hits); i++ {
		if hits[i].A < hits[i-1].B {
			return "other", nil, hits, nil
		}
	}
	// two sites of the same pattern must be clearly apart (the matcher merges neighbours)
	for i := range hits {
		for j := i + 1; j < len(hits); j++ {
			if hits[i].Marker == hits[j].Marker && hits[i].Kind == hits[j].Kind {
				gap := hits[j].A - hits[i].B
				need := 2*maxB + 2
				if ms[hits[i].Marker].F.Indel || ms[hits[i].Marker].R.Indel {
					need += hits[i].B - hits[i].A
				}
				if gap < need {
					return "other", nil, hits, nil
				}
			}
		}
	}
	// Every closing site looks back for the nearest site that concerns it: the
	// opening primer it closes, or an earlier occurrence of itself.
	//   - none, or an earlier occurrence of itself (which took the opening primer,
	//     or had none either): the closing site is lone;
	//   - the opening primer, immediately before it: a pair;
	//   - the opening primer, with other sites in between: the statement does not
	//     say whether a barcode may span a foreign priming site -> "other".
	lone = make([]bool, len(hits))
	for i := range lone {
		lone[i] = true
	}
	for j, c := range hits {
		ok := opener(c.Kind)
		if ok < 0 {
			continue
		}
		i := j - 1
		for ; i >= 0; i-- {
			if hits[i].Marker == c.Marker && (hits[i].Kind == ok || hits[i].Kind == c.Kind) {
				break
			}
		}
		if i < 0 || hits[i].Kind == c.Kind {
			continue
		}
		if i != j-1 {
			return "other", nil, hits, nil
		}
		if c.A-hits[i].B < 1 {
			return "other", nil, hits, nil // empty barcode: not decided by the statement
		}
		lone[i], lone[j] = false, false
		amps = append(amps, mkAmplicon(ms, r, hits[i], c))
	}
	for _, l := range lone {
		if l {
			return "mixed", amps, hits, lone
		}
	}
	return "paired", amps, hits, lone
}

// ------------------------------------------------------------------ sample identification

func hammingEq(a, b string) int {
	d := 0
	for i := 0; i < len(a); i++ {
		if a[i] != b[i] {
			d++
		}
	}
	return d
}

const (
	idNone     = iota // the tags identify no declared sample: the record must be flagged
	idAssigned        // they identify the row returned
	idUnjudged        // not decided (Hamming distance between words of different lengths, delimiter modes only)
)

// propose gives the declared tag an extracted tag stands for on one side.
func propose(sd sideM, tag string) (string, int) {
	if sd.TagLen <= 0 {
		if tag == "" {
			return "", idAssigned
		}
		return "", idNone
	}
	if tag == "" {
		return "", idNone
	}
	switch sd.Matching {
	case "strict":
		return tag, idAssigned
	case "hamming", "indel":
		if sd.Matching == "hamming" && len(tag) != sd.TagLen {
			return "", idUnjudged
		}
		best, bestD, n := "", 1<<30, 0
		for _, t := range sd.Tags {
			var d int
			if sd.Matching == "hamming" {
				d = hammingEq(t, tag)
			} else {
				d = ref.Levenshtein(t, tag)
			}
			if d < bestD {
				best, bestD, n = t, d, 1
			} else if d == bestD {
				n++
			}
		}
		if n != 1 {
			return "", idNone
		}
		return best, idAssigned
	}
	return "", idNone
}

// identify: the row the pair of extracted tags designates under the declared modes.
func identify(m markerM, ftag, rtag string) (row int, status int) {
	f, sf := propose(m.F, ftag)
	r, sr := propose(m.R, rtag)
	if sf == idNone || sr == idNone {
		return -1, idNone
	}
	if sf == idUnjudged || sr == idUnjudged {
		return -1, idUnjudged
	}
	if row, ok := m.Pairs[[2]string{f, r}]; ok {
		return row, idAssigned
	}
	return -1, idNone
}
