// Property C17 — truncated or corrupt compressed input is reported, never
// silently accepted; any read error other than a clean EOF is fatal.
//
// Ground truth: a truncation is a fault by construction (except a cut exactly
// between two gzip members, which leaves a valid shorter file); for bit flips
// the codec library alone decides (internal/codec.Decompress on the faulted
// bytes): if it reports an error the command must exit non-zero; if it decodes
// the original bytes the command must either refuse the input or print exactly
// the reference output; if it decodes different bytes without error (a flip the
// codec cannot see) the case is discarded and counted.
//
// Domain decisions
//   - A truncation to 0 bytes is not a compressed input any more (an empty file
//     is a legitimate empty input) and is not generated.
//   - Standard input is exercised with gzip only: the stdin reader (zlib) knows
//     no other codec.
//   - Bit flips inside the gzip header fields that the format does not protect
//     (mtime, xfl, os ...) decode cleanly to the original bytes: they fall in the
//     "must succeed" class automatically.
package c17

import (
	"bytes"
	"errors"
	"fmt"
	"io"
	"os"
	"path/filepath"
	"strings"
	"testing"
	"time"

	"git.metabarcoding.org/obitools/obitools4/obitools4/pkg/obiformats"
	"git.metabarcoding.org/obitools/obitools4/obitools4/pkg/obiiter"
	"pgregory.net/rapid"

	"verifharness/internal/codec"
	"verifharness/internal/evid"
	"verifharness/internal/fatal"
	"verifharness/internal/run"
)

func TestMain(m *testing.M) {
	evid.Tests(
		evid.Spec{Name: "TestReplay", Kind: "plain", QuickShards: 1, ThoroughShards: 1},
		evid.Spec{Name: "TestEveryTruncation", Kind: "plain", QuickShards: 16, ThoroughShards: 16, TimeoutS: 3000},
		evid.Spec{Name: "TestPropBitFlip", Kind: "rapid", Quick: 640, Thorough: 16000, QuickShards: 16, ThoroughShards: 16},
		evid.Spec{Name: "TestPropLargeTruncation", Kind: "rapid", Quick: 96, Thorough: 960, QuickShards: 16, ThoroughShards: 16},
		evid.Spec{Name: "TestPropInjectedReadError", Kind: "rapid", Quick: 1600, Thorough: 40000, QuickShards: 16, ThoroughShards: 16},
	)
	evid.Commands("obiconvert", "obicount", "obigrep")
	evid.Note("rule", "small FASTA/FASTQ files (and CSV sequence tables, GenBank and EMBL flat files: obiconvert FILE, every second position in quick) compressed with gzip, bzip2, xz, zstd (and two-member gzip) are cut at EVERY byte position, alone or as the middle one of three input files, (quick: every position of 2 files per codec for obiconvert FILE, every 3rd for obicount/obigrep and for gzip on stdin); random single-bit flips; files whose decompressed size exceeds 1 MiB cut at sampled positions (incl. inside the trailer); in-process: a reader failing with a non-EOF error after k bytes (plain and gzip) fed to Buf -> OBIMimeTypeGuesser -> ReadFasta/ReadFastq. Oracle: the codec library alone decides (error -> the command must exit non-zero and must not print a complete-looking success; clean decode of the original -> the command either refuses the input or prints exactly the reference output; clean decode of other bytes -> discarded). Non-trivial = the fault lies after at least one complete record could be decompressed. Distinct = hash(codec, file, fault position/bit, command).")
	evid.Note("level", "fault_enumeration")
	evid.Main(m, "C17")
}

func TestReplay(t *testing.T) { evid.Replay(t) }

// ---------------------------------------------------------------- files

type FileSpec struct {
	Format string // fasta, fastq, csv (sequence table), genbank, embl
	NRec   int
	SeqLen int
	Salt   int
	Giant  int // > 0 (FASTA/FASTQ): the second record (the only one if NRec = 1) holds this many nucleotides: longer than the 1 MiB read chunk
}

func render(f FileSpec) ([]byte, int) {
	var b bytes.Buffer
	second := 0
	for i := 0; i < f.NRec; i++ {
		if i == 1 {
			second = b.Len()
		}
		n := f.SeqLen + (i*5+f.Salt)%11
		if f.Giant > 0 && i == min(1, f.NRec-1) {
			n = f.Giant
		}
		s := make([]byte, n)
		x := uint32(i*7919+f.Salt)*2654435761 + 1
		for j := range s {
			x = x*1664525 + 1013904223
			s[j] = "acgt"[(x>>24)&3]
		}
		switch f.Format {
		case "fastq":
			q := make([]byte, n)
			for j := range q {
				x = x*1664525 + 1013904223
				q[j] = byte(33 + (x>>20)%60)
			}
			fmt.Fprintf(&b, "@s%d_%d {\"rank\":%d}\n%s\n+\n%s\n", f.Salt, i, i, s, q)
		case "csv": // a sequence table as obicsv writes it
			if i == 0 {
				b.WriteString("id,rank,sequence\n")
				second = b.Len()
			}
			fmt.Fprintf(&b, "s%d_%d,%d,%s\n", f.Salt, i, i, s)
		case "genbank":
			id := fmt.Sprintf("AB%05d", (f.Salt*31+i)%100000)
			fmt.Fprintf(&b, "LOCUS       %s %d bp    DNA     linear   PLN 01-JAN-2000\nDEFINITION  record %d.\nACCESSION   %s\nVERSION     %s.1\nKEYWORDS    .\nSOURCE      Abies alba\n  ORGANISM  Abies alba\n            Eukaryota; Viridiplantae.\nFEATURES             Location/Qualifiers\n     source          1..%d\n                     /organism=\"Abies alba\"\n                     /db_xref=\"taxon:45372\"\nORIGIN\n", id, n, i, id, id, n)
			for p := 0; p < n; p += 60 {
				fmt.Fprintf(&b, "%9d", p+1)
				for q := p; q < min(n, p+60); q += 10 {
					b.WriteString(" " + string(s[q:min(n, q+10)]))
				}
				b.WriteString("\n")
			}
			b.WriteString("//\n")
		case "embl":
			id := fmt.Sprintf("AB%05d", (f.Salt*31+i)%100000)
			fmt.Fprintf(&b, "ID   %s; SV 1; linear; genomic DNA; STD; PLN; %d BP.\nXX\nAC   %s;\nXX\nDE   record %d\nXX\nOS   Abies alba\nOC   Eukaryota; Viridiplantae.\nXX\nFH   Key             Location/Qualifiers\nFH\nFT   source          1..%d\nFT                   /organism=\"Abies alba\"\nFT                   /db_xref=\"taxon:45372\"\nXX\nSQ   Sequence %d BP; 0 A; 0 C; 0 G; 0 T; 0 other;\n", id, n, id, i, n, n)
			for p := 0; p < n; p += 60 {
				line := "    "
				for q := p; q < min(n, p+60); q += 10 {
					line += " " + string(s[q:min(n, q+10)])
				}
				cnt := fmt.Sprint(min(n, p+60))
				line += strings.Repeat(" ", max(1, 80-len(line)-len(cnt))) + cnt
				b.WriteString(line + "\n")
			}
			b.WriteString("//\n")
		default:
			fmt.Fprintf(&b, ">s%d_%d {\"rank\":%d}\n%s\n", f.Salt, i, i, s)
		}
	}
	if f.NRec < 2 {
		second = b.Len()
	}
	return b.Bytes(), second
}

func compress(kind string, data []byte) []byte {
	if kind == "gzip2" { // two concatenated gzip members
		h := len(data) / 2
		a, _ := codec.Compress("gzip", data[:h])
		b, _ := codec.Compress("gzip", data[h:])
		return append(a, b...)
	}
	z, _ := codec.Compress(kind, data)
	return z
}

func decompress(kind string, data []byte) ([]byte, error) {
	if kind == "gzip2" {
		kind = "gzip"
	}
	return codec.Decompress(kind, data)
}

func ext(kind string) string {
	if kind == "gzip2" {
		return ".gz"
	}
	return codec.Ext(kind)
}

// ---------------------------------------------------------------- the check on a faulted file

type FaultCase struct {
	File     FileSpec
	Codec    string
	Cut      int // keep the first Cut bytes (0 = no truncation)
	FlipByte int // -1 = none
	FlipBit  int
	Command  string // obiconvert, obicount, obigrep
	Stdin    bool
	Multi    bool // the faulted file is the middle one of three input files (the two others are sound)
}

func init() { evid.Reg("faulted_input", checkFault) }

type verdict struct {
	mustFail   bool
	mustOK     bool
	nontrivial bool
}

func (c FaultCase) faulted() (orig, z, bad []byte, second int) {
	orig, second = render(c.File)
	z = compress(c.Codec, orig)
	bad = bytes.Clone(z)
	if c.FlipByte >= 0 && c.FlipByte < len(bad) {
		bad[c.FlipByte] ^= 1 << uint(c.FlipBit&7)
	}
	if c.Cut > 0 && c.Cut < len(bad) {
		bad = bad[:c.Cut]
	}
	return
}

// trailerStartCuts returns the truncation points that leave a gzip member with
// all its deflate data and none of its 8 trailer bytes (known finding
// gzip_cut_at_trailer_start: pgzip reports the missing trailer as a clean EOF).
func trailerStartCuts(c FaultCase, orig []byte) map[int]bool {
	out := map[int]bool{}
	switch c.Codec {
	case "gzip":
		out[len(compress("gzip", orig))-8] = true
	case "gzip2":
		h := len(orig) / 2
		a := len(compress("gzip", orig[:h]))
		b := len(compress("gzip", orig[h:]))
		out[a-8] = true
		out[a+b-8] = true
	}
	return out
}

func judge(c FaultCase) (verdict, []byte, []byte) {
	orig, _, bad, second := c.faulted()
	if c.Stdin && strings.HasPrefix(c.Codec, "gzip") {
		// known finding stdin_gzip_member_magic: on standard input zlib decides from the two
		// magic bytes whether gzip data follows; anything else - at the very beginning or
		// after a complete member - is passed through / ignored as trailing garbage
		memberStart := []int{0}
		if c.Codec == "gzip2" {
			memberStart = append(memberStart, len(compress("gzip", orig[:len(orig)/2])))
		}
		for _, m := range memberStart {
			if (c.FlipByte >= 0 && (c.FlipByte == m || c.FlipByte == m+1)) || (c.FlipByte < 0 && m > 0 && c.Cut == m+1) {
				if m == 0 && !bytes.ContainsAny(bad, ">@") {
					// the compressed bytes are read as plain text without any record
					// header: since the fix "data without any record" this is refused
					evid.Class("stdin_first_magic_destroyed_no_header_byte", 1)
					continue
				}
				evid.Excluded("stdin_gzip_member_magic", 1)
				return verdict{}, orig, bad
			}
		}
	}
	if c.Cut > 0 && c.FlipByte < 0 && !c.Stdin && trailerStartCuts(c, orig)[c.Cut] {
		// (excluded as the known finding gzip_cut_at_trailer_start until gzip input was
		// switched to the standard library reader: asserted like every other cut since then)
		evid.Class("gzip_cut_at_trailer_start", 1)
	}
	out, err := decompress(c.Codec, bad)
	var v verdict
	truncated := c.FlipByte < 0 && c.Cut > 0 && c.Cut < len(compress(c.Codec, orig))
	switch {
	case err != nil:
		v.mustFail = true
		v.nontrivial = len(out) >= second && second > 0
	case truncated && c.Codec == "gzip2" && c.Cut == len(compress("gzip", orig[:len(orig)/2])):
		// cut exactly between two members: a complete, valid, shorter gzip file - no fault at all
		evid.Class("cut_at_member_boundary_is_a_valid_file", 1)
	case truncated && c.Codec == "xz":
		// known finding xz_library_accepts_truncation: the xz library itself reports a clean end of
		// stream for a file cut inside the first block header (bytes 12..23: reads as empty) or
		// right after the last block (index and footer missing)
		evid.Excluded("xz_library_accepts_truncation", 1)
	case truncated:
		// the input IS cut short (by construction), whatever the codec library thinks of it
		v.mustFail = true
		v.nontrivial = len(out) >= second && second > 0
		evid.Class("truncation_the_codec_library_accepts", 1)
	case bytes.Equal(out, orig):
		v.mustOK = true
	}
	return v, orig, bad
}

func cmdArgs(c FaultCase, path string) []string {
	var a []string
	if c.Command == "obigrep" {
		a = append(a, "-l", "1")
	}
	if !c.Stdin {
		a = append(a, path)
	}
	return a
}

func checkFault(c FaultCase) error {
	v, orig, bad := judge(c)
	if !v.mustFail && !v.mustOK {
		evid.Class("discarded_codec_blind_or_excluded", 1)
		return nil
	}
	dir, err := os.MkdirTemp(run.WorkDir(), "c17")
	if err != nil {
		return nil
	}
	defer os.RemoveAll(dir)
	base := "in." + c.File.Format
	good := filepath.Join(dir, "ref", base)
	os.MkdirAll(filepath.Dir(good), 0o755)
	badp := filepath.Join(dir, base+ext(c.Codec))
	if os.WriteFile(good, orig, 0o644) != nil || os.WriteFile(badp, bad, 0o644) != nil {
		return nil
	}
	var res run.Result
	var multiArgs func(mid string) []string
	if c.Multi && !c.Stdin {
		other, _ := render(FileSpec{Format: c.File.Format, NRec: 3, SeqLen: 20, Salt: c.File.Salt + 7})
		first := filepath.Join(dir, "first."+c.File.Format)
		last := filepath.Join(dir, "last."+c.File.Format)
		if os.WriteFile(first, other, 0o644) != nil || os.WriteFile(last, other, 0o644) != nil {
			return nil
		}
		multiArgs = func(mid string) []string {
			a := cmdArgs(c, mid)
			a = a[:len(a)-1]
			return append(a, first, mid, last)
		}
	}
	switch {
	case c.Stdin:
		res = run.Cmd(run.Opt{Stdin: bad}, c.Command, cmdArgs(c, "")...)
	case multiArgs != nil:
		res = run.Cmd(run.Opt{}, c.Command, multiArgs(badp)...)
	default:
		res = run.Cmd(run.Opt{}, c.Command, cmdArgs(c, badp)...)
	}
	if res.Inconclusive() {
		evid.Class("timeout_inconclusive", 1)
		return nil
	}
	what := fmt.Sprintf("%s %s (%s, %d of %d compressed bytes, flip %d/%d, stdin=%v, middle of three files=%v)", c.Command, filepath.Base(badp), c.Codec, len(bad), len(compress(c.Codec, orig)), c.FlipByte, c.FlipBit, c.Stdin, c.Multi)
	if v.mustFail {
		if res.Exit == 0 {
			return fmt.Errorf("%s: the codec reports an error on these bytes but the command exits 0 (stdout %d bytes, stderr: %s)", what, len(res.Stdout), tail(res.Stderr))
		}
		return nil
	}
	// harmless fault: same result as on the pristine file
	var ref run.Result
	switch {
	case c.Stdin:
		ref = run.Cmd(run.Opt{Stdin: orig}, c.Command, cmdArgs(c, "")...)
	case multiArgs != nil:
		ref = run.Cmd(run.Opt{}, c.Command, multiArgs(good)...)
	default:
		ref = run.Cmd(run.Opt{}, c.Command, cmdArgs(c, good)...)
	}
	if ref.Inconclusive() {
		evid.Class("timeout_inconclusive", 1)
		return nil
	}
	if ref.Exit != 0 {
		return fmt.Errorf("%s: the pristine (uncorrupted, uncompressed) input itself is refused with exit %d: %s", what, ref.Exit, tail(ref.Stderr))
	}
	if res.Exit != 0 {
		// a stricter decoder (zlib on stdin checks the reserved header bits, Go's gzip does
		// not) may refuse bytes that another decoder accepts: refusing is never a violation
		evid.Class("harmless_fault_refused", 1)
		return nil
	}
	if !bytes.Equal(res.Stdout, ref.Stdout) {
		return fmt.Errorf("%s: the codec decodes the original bytes and the command exits %d, yet its %d output bytes differ from the pristine run (exit %d / %d bytes); stderr: %s", what, res.Exit, len(res.Stdout), ref.Exit, len(ref.Stdout), tail(res.Stderr))
	}
	return nil
}

func tail(b []byte) string {
	s := string(b)
	if os.Getenv("VERIF_FULL_STDERR") != "" {
		return s
	}
	head := ""
	for _, marker := range []string{"panic:", "fatal error:", "level=fatal", "level=error", "level=panic"} {
		if i := strings.Index(s, marker); i >= 0 {
			head = s[i:min(len(s), i+1500)] + "\n...\n"
			break
		}
	}
	if len(s) > 400 {
		s = s[len(s)-400:]
	}
	return strings.TrimSpace(head + s)
}

func evalFault(c FaultCase, extra ...string) verdict {
	v, _, _ := judge(c)
	cl := append([]string{"codec:" + c.Codec, "cmd:" + c.Command}, extra...)
	if c.Stdin {
		cl = append(cl, "stdin")
	}
	if c.Multi {
		cl = append(cl, "middle_of_three_files")
	}
	switch {
	case v.mustFail:
		cl = append(cl, "codec_error")
	case v.mustOK:
		cl = append(cl, "harmless_fault")
	}
	evid.Eval("faulted_input", evid.Hash(fmt.Sprintf("%+v", c)), v.nontrivial, c, cl...)
	return v
}

// ---------------------------------------------------------------- every truncation point of small files

var codecs = []string{"gzip", "bzip2", "xz", "zstd", "gzip2"}

func TestEveryTruncation(t *testing.T) {
	files := []FileSpec{{Format: "fasta", NRec: 6, SeqLen: 30, Salt: int(evid.Seed())}, {Format: "fastq", NRec: 5, SeqLen: 25, Salt: int(evid.Seed()) + 1},
		{Format: "csv", NRec: 5, SeqLen: 20, Salt: int(evid.Seed()) + 4}, {Format: "genbank", NRec: 2, SeqLen: 25, Salt: int(evid.Seed()) + 5}, {Format: "embl", NRec: 2, SeqLen: 25, Salt: int(evid.Seed()) + 6}}
	if evid.Thorough() {
		files = append(files, FileSpec{Format: "fasta", NRec: 40, SeqLen: 60, Salt: int(evid.Seed()) + 2}, FileSpec{Format: "fastq", NRec: 1, SeqLen: 10, Salt: int(evid.Seed()) + 3})
	}
	n := 0
	for _, f := range files {
		orig, _ := render(f)
		for _, k := range codecs {
			z := compress(k, orig)
			for cut := 1; cut < len(z); cut++ {
				other := f.Format != "fasta" && f.Format != "fastq"
				if other && !evid.Thorough() && cut > 12 && cut%2 == 1 && cut < len(z)-12 {
					continue // (quick: every second position of the CSV / flat files, all of them near both ends)
				}
				variants := []FaultCase{{File: f, Codec: k, Cut: cut, FlipByte: -1, Command: "obiconvert"}}
				if other {
					if k == "gzip2" {
						continue
					}
					for _, c := range variants {
						n++
						if n%evid.NShards() != evid.Shard() {
							continue
						}
						evalFault(c, "every_truncation", "format:"+f.Format)
						if err := checkFault(c); err != nil {
							evid.Fail(t, "faulted_input", c, err)
						}
					}
					continue
				}
				// (the first bytes - magic number and header - get every variant in the quick tier too)
				if cut%3 == 0 || cut <= 12 || (evid.Thorough() && (f.NRec < 40 || cut%2 == 0)) {
					variants = append(variants,
						FaultCase{File: f, Codec: k, Cut: cut, FlipByte: -1, Command: "obicount"},
						FaultCase{File: f, Codec: k, Cut: cut, FlipByte: -1, Command: "obigrep"})
					if k == "gzip" || k == "gzip2" {
						variants = append(variants, FaultCase{File: f, Codec: k, Cut: cut, FlipByte: -1, Command: "obiconvert", Stdin: true})
					}
					variants = append(variants, FaultCase{File: f, Codec: k, Cut: cut, FlipByte: -1, Command: "obiconvert", Multi: true})
				}
				for _, c := range variants {
					n++
					if n%evid.NShards() != evid.Shard() {
						continue
					}
					evalFault(c, "every_truncation")
					if err := checkFault(c); err != nil {
						evid.Fail(t, "faulted_input", c, err)
					}
				}
			}
		}
	}
	evid.Exhaustive("every truncation point 1..len-1 of the compressed small files x 5 codecs for obiconvert FILE")
}

// ---------------------------------------------------------------- bit flips

func TestPropBitFlip(t *testing.T) {
	rapid.Check(t, func(rt *rapid.T) {
		c := FaultCase{
			File:    FileSpec{Format: rapid.SampledFrom([]string{"fasta", "fastq", "fasta", "fastq", "csv", "genbank", "embl"}).Draw(rt, "format"), NRec: rapid.IntRange(1, 30).Draw(rt, "nrec"), SeqLen: rapid.IntRange(5, 80).Draw(rt, "seqlen"), Salt: rapid.IntRange(0, 1000).Draw(rt, "salt")},
			Codec:   rapid.SampledFrom(codecs).Draw(rt, "codec"),
			Command: rapid.SampledFrom([]string{"obiconvert", "obiconvert", "obicount", "obigrep"}).Draw(rt, "cmd"),
		}
		orig, _ := render(c.File)
		z := compress(c.Codec, orig)
		c.FlipByte = rapid.IntRange(0, len(z)-1).Draw(rt, "byte")
		extra := []string{}
		if rapid.IntRange(0, 2).Draw(rt, "where") == 0 {
			// the headers and trailers are a few bytes among thousands: aim at them
			start, end := 0, len(z)
			if c.Codec == "gzip2" && rapid.Bool().Draw(rt, "second_member") {
				start = len(compress("gzip", orig[:len(orig)/2]))
			} else if c.Codec == "gzip2" {
				end = len(compress("gzip", orig[:len(orig)/2]))
			}
			if rapid.Bool().Draw(rt, "header") {
				c.FlipByte = min(len(z)-1, start+rapid.IntRange(0, 11).Draw(rt, "hoff"))
				extra = append(extra, "flip_in_a_member_header")
			} else {
				c.FlipByte = max(0, end-1-rapid.IntRange(0, 11).Draw(rt, "toff"))
				extra = append(extra, "flip_in_a_member_trailer")
			}
			if start > 0 {
				extra = append(extra, "flip_in_second_member_header_or_trailer")
			}
		}
		c.FlipBit = rapid.IntRange(0, 7).Draw(rt, "bit")
		if strings.HasPrefix(c.Codec, "gzip") && (c.File.Format == "fasta" || c.File.Format == "fastq") { // the standard-input reader knows these two formats only
			c.Stdin = rapid.IntRange(0, 3).Draw(rt, "stdin") == 0
			if c.Stdin {
				c.Command = "obiconvert"
			}
		}
		if !c.Stdin {
			c.Multi = rapid.IntRange(0, 3).Draw(rt, "multi") == 0
		}
		evalFault(c, append([]string{"bit_flip"}, extra...)...)
		if err := checkFault(c); err != nil {
			evid.Fail(rt, "faulted_input", c, err)
		}
	})
}

// ---------------------------------------------------------------- large files (decompressed > 1 MiB)

func TestPropLargeTruncation(t *testing.T) {
	rapid.Check(t, func(rt *rapid.T) {
		c := FaultCase{
			File:     FileSpec{Format: rapid.SampledFrom([]string{"csv", "fasta", "fastq", "csv", "genbank", "embl", "fasta", "fastq"}).Draw(rt, "format"), NRec: rapid.IntRange(9000, 20000).Draw(rt, "nrec"), SeqLen: rapid.IntRange(100, 150).Draw(rt, "seqlen"), Salt: rapid.IntRange(0, 1000).Draw(rt, "salt")},
			Codec:    rapid.SampledFrom([]string{"gzip", "gzip", "zstd", "bzip2", "xz", "gzip2"}).Draw(rt, "codec"),
			Command:  rapid.SampledFrom([]string{"obiconvert", "obiconvert", "obicount"}).Draw(rt, "cmd"),
			FlipByte: -1,
		}
		giant := rapid.IntRange(0, 2).Draw(rt, "giant") == 2
		if giant {
			// a chromosome among reads: the fault arrives while the reader holds a single, unfinished entry
			c.File.Format = rapid.SampledFrom([]string{"fasta", "fasta", "fastq"}).Draw(rt, "giant_format")
			c.File.NRec = rapid.IntRange(1, 40).Draw(rt, "giant_nrec")
			c.File.Giant = rapid.IntRange(1100000, 2600000).Draw(rt, "giant_len")
		}
		orig, _ := render(c.File)
		z := compress(c.Codec, orig)
		switch rapid.IntRange(0, 3).Draw(rt, "where") {
		case 0: // inside the trailer / last bytes
			c.Cut = len(z) - rapid.IntRange(1, 12).Draw(rt, "fromend")
		case 1: // early: the format sniffer meets the error
			c.Cut = rapid.IntRange(20, min(len(z)-1, 200000)).Draw(rt, "cut_early")
		default:
			c.Cut = rapid.IntRange(1, len(z)-1).Draw(rt, "cut")
		}
		if strings.HasPrefix(c.Codec, "gzip") && (c.File.Format == "fasta" || c.File.Format == "fastq") { // the standard-input reader knows these two formats only
			c.Stdin = rapid.IntRange(0, 3).Draw(rt, "stdin") == 0
			if c.Stdin {
				c.Command = "obiconvert"
			}
		}
		if !c.Stdin {
			c.Multi = rapid.IntRange(0, 3).Draw(rt, "multi") == 0
		}
		cl := []string{"large_file", "format:" + c.File.Format}
		if giant {
			cl = append(cl, "record_longer_than_the_read_chunk")
		}
		if c.Cut >= len(z)-12 {
			cl = append(cl, "cut_in_trailer")
		}
		evalFault(c, cl...)
		if err := checkFault(c); err != nil {
			evid.Fail(rt, "faulted_input", c, err)
		}
	})
}

// ---------------------------------------------------------------- injected read errors, in-process

type errReader struct {
	data []byte
	pos  int
	fail int
	err  error
}

var errInjected = errors.New("injected I/O error")

func (r *errReader) Read(p []byte) (int, error) {
	if r.pos >= r.fail {
		return 0, r.err
	}
	n := copy(p, r.data[r.pos:min(r.fail, len(r.data))])
	r.pos += n
	if n == 0 {
		return 0, r.err
	}
	return n, nil
}

type InjectCase struct {
	File  FileSpec
	Gzip  bool
	FailK int // the reader fails after this many bytes (< length of the stream)
}

func init() { evid.Reg("read_error", checkInject) }

func checkInject(c InjectCase) error {
	orig, second := render(c.File)
	stream := orig
	if c.Gzip {
		stream = compress("gzip", orig)
	}
	k := c.FailK
	if k >= len(stream) {
		k = len(stream) - 1
	}
	fatal.Install()
	before := fatal.Count()
	var it obiiter.IBioSequence
	var openErr error
	haveIt := false
	opened := make(chan struct{})
	nrec := 0
	finished := make(chan struct{})
	go func() {
		out := fatal.Run(func() {
			rd, err := obiformats.Buf(&errReader{data: stream, fail: k, err: errInjected})
			if err != nil {
				openErr = err
				return
			}
			mime, r2, err := obiformats.OBIMimeTypeGuesser(rd)
			if err != nil {
				openErr = err
				return
			}
			opts := []obiformats.WithOption{obiformats.OptionsFastSeqHeaderParser(nil), obiformats.OptionsParallelWorkers(2)}
			switch mime.String() {
			case "text/fastq":
				it, err = obiformats.ReadFastq(r2, opts...)
			case "text/fasta":
				it, err = obiformats.ReadFasta(r2, opts...)
			default:
				err = fmt.Errorf("format not recognised: %s", mime.String())
			}
			if err != nil {
				openErr = err
				return
			}
			haveIt = true
		})
		if !out.Completed && openErr == nil && fatal.Count() == before {
			openErr = fmt.Errorf("open path ended abnormally: %v", out)
		}
		close(opened)
		if !haveIt {
			close(finished)
			return
		}
		for it.Next() {
			nrec += it.Get().Len()
		}
		close(finished)
	}()
	_ = second
	tick := time.NewTicker(10 * time.Millisecond)
	defer tick.Stop()
	deadline := time.After(30 * time.Second)
	for {
		select {
		case <-finished:
			if openErr != nil || fatal.Count() != before {
				return nil // reported
			}
			// give a concurrent fatal on a library goroutine a moment to be recorded
			time.Sleep(20 * time.Millisecond)
			if fatal.Count() != before {
				return nil
			}
			return fmt.Errorf("reader failing with a non-EOF error after %d of %d bytes (gzip=%v): the stream ended normally with %d records and no error was reported", k, len(stream), c.Gzip, nrec)
		case <-tick.C:
			if fatal.Count() != before {
				return nil // log.Fatal on a library goroutine: reported
			}
		case <-deadline:
			return fmt.Errorf("reader failing after %d of %d bytes: neither an error nor an end of stream within 30 s", k, len(stream))
		}
	}
}

func TestPropInjectedReadError(t *testing.T) {
	rapid.Check(t, func(rt *rapid.T) {
		c := InjectCase{
			File: FileSpec{Format: rapid.SampledFrom([]string{"fasta", "fastq"}).Draw(rt, "format"), NRec: rapid.IntRange(1, 40).Draw(rt, "nrec"), SeqLen: rapid.IntRange(5, 120).Draw(rt, "seqlen"), Salt: rapid.IntRange(0, 1000).Draw(rt, "salt")},
			Gzip: rapid.Bool().Draw(rt, "gzip"),
		}
		if rapid.IntRange(0, 29).Draw(rt, "large") == 0 {
			c.File.NRec = rapid.IntRange(9000, 14000).Draw(rt, "nrec_large")
			c.File.SeqLen = 110
		}
		orig, second := render(c.File)
		n := len(orig)
		if c.Gzip {
			n = len(compress("gzip", orig))
		}
		c.FailK = rapid.IntRange(0, n-1).Draw(rt, "failk")
		cl := []string{fmt.Sprintf("gzip:%v", c.Gzip)}
		if c.File.NRec >= 9000 {
			cl = append(cl, "large_file")
		}
		evid.Eval("read_error", evid.Hash(fmt.Sprintf("%+v", c)), !c.Gzip && c.FailK >= second && second > 0 || c.Gzip && c.FailK > n/2, c, cl...)
		if err := checkInject(c); err != nil {
			evid.Fail(rt, "read_error", c, err)
		}
	})
}

var _ = io.EOF
