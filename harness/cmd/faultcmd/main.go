// Command faultcmd is the smallest possible obitools4 "command" whose output
// stream can be made to fail (property C18).
//
// It does exactly what the main function of a command does after option parsing:
// it owns an iterator of records, hands it to the REAL obiformats.Write* function
// together with an io.WriteCloser, consumes the returned iterator (Recycle, the
// terminal action of CLIWriteBioSequences), calls obiiter.WaitForLastPipe and
// returns from main (exit status 0).  logrus is left untouched: a log.Fatalf of
// the library is a real os.Exit(1) here.
//
// The io.WriteCloser is a faulty stream: every byte it accepts is copied at once
// to the standard output of faultcmd (unbuffered), so the standard output of the
// process IS the content of the stream, whatever way the process ends.  Lines
// starting with "FAULTCMD " on stderr describe what the stream did.
//
// Records are a pure function of the arguments (same generator as the C04 check):
// batch b holds sizes[b] records "bBB_rRRR" of seqlen pseudo-random nucleotides,
// with qualities for the fastq writer, and one integer annotation "batch".
//
//	faultcmd -writer fasta|fastq|json|csv -sizes 2,0,3 -arrival 2,0,1 -seqlen 40
//	         [-gzip] [-close] [-workers 1] [-fault none|short|erronly|once|close] [-k N] [-trace]
//
// Fault kinds (k is a byte offset in the stream handed to the writer, i.e. after
// compression when -gzip is given):
//
//	none     the stream never fails
//	short    the Write call that would store the byte of offset k accepts the bytes
//	         below k, returns (n < len(p), error); every later Write returns (0, error)
//	erronly  that Write call accepts nothing and returns (0, error); every later Write
//	         returns (0, error)
//	once     that Write call accepts nothing and returns (0, error); later calls succeed
//	         (a transient error: the bytes of the refused call are lost)
//	close    every Write succeeds, Close returns an error
package main

import (
	"bytes"
	"errors"
	"flag"
	"fmt"
	"os"
	"runtime"
	"strconv"
	"strings"
	"sync"

	log "github.com/sirupsen/logrus"

	"git.metabarcoding.org/obitools/obitools4/obitools4/pkg/obiformats"
	"git.metabarcoding.org/obitools/obitools4/obitools4/pkg/obiiter"
	"git.metabarcoding.org/obitools/obitools4/obitools4/pkg/obiseq"
)

var errInjected = errors.New("faultcmd: injected output failure (no space left on device)")
var errClose = errors.New("faultcmd: injected failure of Close")

// stream is the faulty io.WriteCloser.
type stream struct {
	mu       sync.Mutex
	kind     string
	k        int64
	trace    bool
	accepted int64 // bytes accepted so far (= bytes copied to stdout)
	offered  int64 // bytes offered so far, refused ones included
	failed   bool  // sticky state of short/erronly
	fired    bool  // once: the single failure has happened
	hits     int
	closes   int
}

func (s *stream) say(format string, a ...any) {
	fmt.Fprintf(os.Stderr, "FAULTCMD "+format+"\n", a...)
}

// inClose reports whether some goroutine is currently executing Wfile.Close (the
// flush/close phase of the buffered, optionally compressing, wrapper).
func inClose() bool {
	buf := make([]byte, 1<<18)
	n := runtime.Stack(buf, true)
	return bytes.Contains(buf[:n], []byte("obiutils.(*Wfile).Close"))
}

func (s *stream) accept(p []byte) {
	if len(p) == 0 {
		return
	}
	if _, err := os.Stdout.Write(p); err != nil {
		s.say("infrastructure: cannot copy to stdout: %v", err)
		os.Exit(97)
	}
	s.accepted += int64(len(p))
}

func (s *stream) Write(p []byte) (int, error) {
	s.mu.Lock()
	defer s.mu.Unlock()
	if s.closes > 0 {
		s.say("write-after-close len=%d", len(p))
	}
	if s.trace {
		c := 0
		if inClose() {
			c = 1
		}
		s.say("write off=%d len=%d inclose=%d", s.accepted, len(p), c)
	}
	s.offered += int64(len(p))
	switch s.kind {
	case "short", "erronly":
		if s.failed {
			s.hits++
			return 0, errInjected
		}
		if s.accepted+int64(len(p)) > s.k {
			n := 0
			if s.kind == "short" {
				n = int(s.k - s.accepted)
				s.accept(p[:n])
			}
			s.failed = true
			s.hits++
			s.say("hit kind=%s k=%d call_len=%d call_accepted=%d accepted=%d", s.kind, s.k, len(p), n, s.accepted)
			return n, errInjected
		}
	case "once":
		if !s.fired && s.accepted+int64(len(p)) > s.k {
			s.fired = true
			s.hits++
			s.say("hit kind=once k=%d call_len=%d call_accepted=0 accepted=%d", s.k, len(p), s.accepted)
			return 0, errInjected
		}
	}
	s.accept(p)
	return len(p), nil
}

func (s *stream) Close() error {
	s.mu.Lock()
	defer s.mu.Unlock()
	s.closes++
	s.say("close call=%d accepted=%d", s.closes, s.accepted)
	if s.kind == "close" {
		s.hits++
		s.say("hit kind=close accepted=%d", s.accepted)
		return errClose
	}
	return nil
}

// ---------------------------------------------------------------- records (same as harness/c04)

func recID(b, i int) string { return fmt.Sprintf("b%02d_r%03d", b, i) }

func recSeq(b, i, l int) []byte {
	x := uint32(b*7919+i*104729) | 1
	s := make([]byte, l)
	for j := range s {
		x ^= x << 13
		x ^= x >> 17
		x ^= x << 5
		s[j] = "acgt"[x&3]
	}
	return s
}

func recQual(b, i, l int) []byte {
	q := make([]byte, l)
	for j := range q {
		q[j] = byte((b*5 + i*3 + j) % 41)
	}
	return q
}

func batch(b, size, seqlen int, qual bool) obiiter.BioSequenceBatch {
	sl := make(obiseq.BioSequenceSlice, 0, size)
	for i := 0; i < size; i++ {
		var s *obiseq.BioSequence
		if qual {
			s = obiseq.NewBioSequenceWithQualities(recID(b, i), recSeq(b, i, seqlen), "", recQual(b, i, seqlen))
		} else {
			s = obiseq.NewBioSequence(recID(b, i), recSeq(b, i, seqlen), "")
		}
		s.SetAttribute("batch", b)
		sl = append(sl, s)
	}
	return obiiter.MakeBioSequenceBatch("faultcmd", b, sl)
}

func ints(s string) ([]int, error) {
	if strings.TrimSpace(s) == "" {
		return nil, nil
	}
	var out []int
	for _, f := range strings.Split(s, ",") {
		v, err := strconv.Atoi(strings.TrimSpace(f))
		if err != nil {
			return nil, err
		}
		out = append(out, v)
	}
	return out, nil
}

func usage(format string, a ...any) {
	fmt.Fprintf(os.Stderr, "FAULTCMD usage-error "+format+"\n", a...)
	os.Exit(98)
}

func main() {
	writer := flag.String("writer", "fasta", "fasta|fastq|json|csv")
	sizesArg := flag.String("sizes", "1", "records per batch, comma separated")
	arrivalArg := flag.String("arrival", "", "push order of the batches (permutation of 0..n-1); default in order")
	seqlen := flag.Int("seqlen", 20, "nucleotides per record (>= 1)")
	gz := flag.Bool("gzip", false, "compressed output")
	closeFile := flag.Bool("close", false, "OptionCloseFile (otherwise OptionDontCloseFile)")
	workers := flag.Int("workers", 1, "formatting workers")
	fault := flag.String("fault", "none", "none|short|erronly|once|close")
	k := flag.Int64("k", 0, "byte offset of the fault")
	trace := flag.Bool("trace", false, "describe every Write call of the stream on stderr")
	flag.Parse()

	sizes, err := ints(*sizesArg)
	if err != nil {
		usage("sizes: %v", err)
	}
	arrival, err := ints(*arrivalArg)
	if err != nil {
		usage("arrival: %v", err)
	}
	n := len(sizes)
	if *arrivalArg == "" {
		for i := 0; i < n; i++ {
			arrival = append(arrival, i)
		}
	}
	seen := make([]bool, n)
	if len(arrival) != n {
		usage("arrival has %d entries for %d batches", len(arrival), n)
	}
	for _, b := range arrival {
		if b < 0 || b >= n || seen[b] {
			usage("arrival is not a permutation")
		}
		seen[b] = true
	}
	if *seqlen < 1 || *workers < 1 {
		usage("seqlen and workers must be >= 1")
	}
	switch *fault {
	case "none", "short", "erronly", "once", "close":
	default:
		usage("unknown fault kind %q", *fault)
	}

	out := &stream{kind: *fault, k: *k, trace: *trace}

	// the source iterator: batches pushed in the requested arrival order
	src := obiiter.MakeIBioSequence()
	src.Add(1)
	go src.WaitAndClose()
	qual := *writer == "fastq"
	go func() {
		for _, b := range arrival {
			src.Push(batch(b, sizes[b], *seqlen, qual))
		}
		src.Done()
	}()

	opts := []obiformats.WithOption{
		obiformats.OptionsParallelWorkers(*workers),
		obiformats.OptionsCompressed(*gz),
	}
	if *closeFile {
		opts = append(opts, obiformats.OptionCloseFile())
	} else {
		opts = append(opts, obiformats.OptionDontCloseFile())
	}

	var it obiiter.IBioSequence
	switch *writer {
	case "fasta":
		it, err = obiformats.WriteFasta(src, out, opts...)
	case "fastq":
		it, err = obiformats.WriteFastq(src, out, opts...)
	case "json":
		it, err = obiformats.WriteJSON(src, out, opts...)
	case "csv":
		opts = append(opts, obiformats.CSVId(true), obiformats.CSVSequence(true), obiformats.CSVKey("batch"))
		it, err = obiformats.WriteCSV(src, out, opts...)
	default:
		usage("unknown writer %q", *writer)
	}
	if err != nil {
		// what CLIWriteBioSequences does
		log.Fatalf("Write file error: %v", err)
	}

	it.Recycle()

	obiiter.WaitForLastPipe()

	out.mu.Lock()
	out.say("done accepted=%d offered=%d hits=%d closes=%d", out.accepted, out.offered, out.hits, out.closes)
	out.mu.Unlock()
}
