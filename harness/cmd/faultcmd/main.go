// Command faultcmd is the smallest possible obitools4 "command" whose output
// stream can be made to fail (property C18).
//
// It does exactly what the main function of a command does after option parsing:
// it owns an iterator of records, hands it to the REAL obiformats.Write* function
// together with an io.WriteCloser, consumes the returned iterator (Recycle, the
// terminal action of CLIWriteBioSequences), calls obiiter.WaitForLastPipe and
// returns from main (exit status 0).  logrus is left untouched: a log.Fatalf of
// the library is a real os.Exit(1) here.
//
// The io.WriteCloser is a faulty stream: every byte it accepts is copied at once
// to the standard output of faultcmd (unbuffered), so the standard output of the
// process IS the content of the stream, whatever way the process ends.  Lines
// starting with "FAULTCMD " on stderr describe what the stream did.
//
// Records are a pure function of the arguments (same generator as the C04 check):
// batch b holds sizes[b] records "bBB_rRRR" of seqlen pseudo-random nucleotides,
// with qualities for the fastq writer, and one integer annotation "batch".
//
//	faultcmd -writer fasta|fastq|json|csv -sizes 2,0,3 -arrival 2,0,1 -seqlen 40
//	         [-gzip] [-close] [-workers 1] [-fault none|short|erronly|once|close] [-k N] [-trace]
//
// Fault kinds (k is a byte offset in the stream handed to the writer, i.e. after
// compression when -gzip is given):
//
//	none     the stream never fails
//	short    the Write call that would store the byte of offset k accepts the bytes
//	         below k, returns (n < len(p), error); every later Write returns (0, error)
//	erronly  that Write call accepts nothing and returns (0, error); every later Write
//	         returns (0, error)
//	once     that Write call accepts nothing and returns (0, error); later calls succeed
//	         (a transient error: the bytes of the refused call are lost)
//	close    every Write succeeds, Close returns an error
//
// Transient faults (the stream refuses for a while and then works again, what a
// descriptor switched to non-blocking mode or a write interrupted by a signal
// gives; nothing the stream accepted is ever lost or repeated by the stream):
//
//	tshort   the Write call that would store the byte of offset k accepts the bytes
//	         below k and returns (n < len(p), error); the next -repeat - 1 Write
//	         calls accept -step bytes (fewer than offered) and return an error too;
//	         every later call succeeds
//	terronly same, the first failing call accepts nothing: (0, error)
//	shortnil that Write call accepts max(1, k - accepted) bytes and returns
//	         (n < len(p), nil) once: a short write without an error (calls of one
//	         byte cannot be cut short and are accepted whole)
//
// -errno eagain|eintr select the errno of a transient error; -rawerrno hands the
// bare syscall.Errno value back instead of an *fs.PathError around it.
//
//	faultcmd -nbexec CAP DELAYMS PAUSEMS command args...
//
// runs the command with its standard output on a pipe of capacity CAP created in
// blocking mode; once the first bytes have arrived (the command has therefore set
// up its standard output long ago) the O_NONBLOCK flag is set on the write end
// through faultcmd's own copy of the descriptor (what ssh, node or a job scheduler
// sharing the pipe do), faultcmd waits DELAYMS, then reads the pipe 4 KiB at a time
// with PAUSEMS between reads up to the end of the stream.  Everything received is
// copied to the standard output; "FAULTCMD nbexec ..." on stderr gives the exit
// status of the command, which is also the exit status of faultcmd.
//
// With -errno epipe|enospc|eio|edquot|efbig the injected error is what the
// operating system would hand back for a file: an *fs.PathError wrapping the
// errno (errors.Is(err, syscall.EPIPE) holds, etc.) instead of a private value.
//
// Real descriptors (-target, default "stream" = the faulty stream above):
//
//	file    the writers get a real *os.File opened on the regular file -out
//	tofile  the Write*ToFile function of the writer opens -out itself
//	stdout  the Write*ToStdout function of the writer (the caller decides what
//	        file descriptor 1 is: a regular file, a pipe)
//	pipe    the writers get the write end of an os.Pipe whose reader (a goroutine)
//	        consumes -k bytes, copies them to the standard output and closes its end
//	fifo    same with a named pipe created at -out, opened by Write*ToFile
//
// -fsize N (N >= 0) sets RLIMIT_FSIZE of the process to N bytes before anything
// is written (SIGXFSZ ignored): write(2) on a regular file fails with EFBIG once
// the file holds N bytes, as it fails with ENOSPC on a full disk.
//
//	faultcmd -limitexec N command args...
//
// sets the same limit and replaces itself with the command (for the real
// obitools4 commands).
package main

import (
	"bytes"
	"errors"
	"flag"
	"fmt"
	"io"
	"io/fs"
	"os"
	"os/exec"
	"os/signal"
	"runtime"
	"strconv"
	"strings"
	"sync"
	"syscall"
	"time"

	log "github.com/sirupsen/logrus"

	"git.metabarcoding.org/obitools/obitools4/obitools4/pkg/obiformats"
	"git.metabarcoding.org/obitools/obitools4/obitools4/pkg/obiiter"
	"git.metabarcoding.org/obitools/obitools4/obitools4/pkg/obiseq"
)

var errInjected error = errors.New("faultcmd: injected output failure (no space left on device)")
var errClose error = errors.New("faultcmd: injected failure of Close")

var errnos = map[string]syscall.Errno{
	"epipe":  syscall.EPIPE,
	"enospc": syscall.ENOSPC,
	"eio":    syscall.EIO,
	"edquot": syscall.EDQUOT,
	"efbig":  syscall.EFBIG,
	"eagain": syscall.EAGAIN,
	"eintr":  syscall.EINTR,
}

// limitFileSize makes write(2) on regular files fail with EFBIG beyond n bytes.
func limitFileSize(n int64) error {
	signal.Ignore(syscall.SIGXFSZ)
	lim := syscall.Rlimit{Cur: uint64(n), Max: uint64(n)}
	return syscall.Setrlimit(syscall.RLIMIT_FSIZE, &lim)
}

const fSetPipeSz, fGetPipeSz = 1031, 1032

// setPipeCap asks for a pipe capacity and returns the one obtained (0 = unknown).
func setPipeCap(f *os.File, want int) int {
	if want > 0 {
		syscall.Syscall(syscall.SYS_FCNTL, f.Fd(), fSetPipeSz, uintptr(want))
	}
	sz, _, errno := syscall.Syscall(syscall.SYS_FCNTL, f.Fd(), fGetPipeSz, 0)
	if errno != 0 {
		return 0
	}
	return int(sz)
}

// reader is the consumer of a real pipe: it copies what it reads to the standard
// output, leaves (closes its end) once it has taken k bytes, or reads up to the
// end of the stream when the stream is shorter.
func reader(r *os.File, k int64, start <-chan struct{}, done chan<- struct{}) {
	defer close(done)
	// a reader of a named pipe that leaves before the writer has opened its end
	// makes that open wait for ever: it starts once the library holds its end
	<-start
	n, err := io.CopyN(os.Stdout, r, k)
	early := err == nil // k bytes taken; otherwise the stream ended first
	r.Close()
	fmt.Fprintf(os.Stderr, "FAULTCMD reader received=%d left_after_k=%v\n", n, early)
}

// stream is the faulty io.WriteCloser.
type stream struct {
	mu       sync.Mutex
	kind     string
	k        int64
	trace    bool
	accepted int64 // bytes accepted so far (= bytes copied to stdout)
	offered  int64 // bytes offered so far, refused ones included
	failed   bool  // sticky state of short/erronly
	fired    bool  // once: the single failure has happened
	hits     int
	closes   int
	// transient kinds
	repeat int // number of consecutive failing calls
	step   int // bytes accepted by the 2nd.. failing call
	left   int // failing calls still to come once the first one has happened
}

func (s *stream) say(format string, a ...any) {
	fmt.Fprintf(os.Stderr, "FAULTCMD "+format+"\n", a...)
}

// inClose reports whether some goroutine is currently executing Wfile.Close (the
// flush/close phase of the buffered, optionally compressing, wrapper).
func inClose() bool {
	buf := make([]byte, 1<<18)
	n := runtime.Stack(buf, true)
	return bytes.Contains(buf[:n], []byte("obiutils.(*Wfile).Close"))
}

func (s *stream) accept(p []byte) {
	if len(p) == 0 {
		return
	}
	if _, err := os.Stdout.Write(p); err != nil {
		s.say("infrastructure: cannot copy to stdout: %v", err)
		os.Exit(97)
	}
	s.accepted += int64(len(p))
}

func (s *stream) Write(p []byte) (int, error) {
	s.mu.Lock()
	defer s.mu.Unlock()
	if s.closes > 0 {
		s.say("write-after-close len=%d", len(p))
	}
	if s.trace {
		c := 0
		if inClose() {
			c = 1
		}
		s.say("write off=%d len=%d inclose=%d", s.accepted, len(p), c)
	}
	s.offered += int64(len(p))
	switch s.kind {
	case "short", "erronly":
		if s.failed {
			s.hits++
			return 0, errInjected
		}
		if s.accepted+int64(len(p)) > s.k {
			n := 0
			if s.kind == "short" {
				n = int(s.k - s.accepted)
				s.accept(p[:n])
			}
			s.failed = true
			s.hits++
			s.say("hit kind=%s k=%d call_len=%d call_accepted=%d accepted=%d", s.kind, s.k, len(p), n, s.accepted)
			return n, errInjected
		}
	case "once":
		if !s.fired && s.accepted+int64(len(p)) > s.k {
			s.fired = true
			s.hits++
			s.say("hit kind=once k=%d call_len=%d call_accepted=0 accepted=%d", s.k, len(p), s.accepted)
			return 0, errInjected
		}
	case "tshort", "terronly":
		if s.fired && s.left > 0 {
			s.left--
			n := min(s.step, len(p)-1)
			s.accept(p[:n])
			s.hits++
			s.say("hit kind=%s k=%d repeated call_len=%d call_accepted=%d accepted=%d err=%v", s.kind, s.k, len(p), n, s.accepted, errInjected)
			return n, errInjected
		}
		if !s.fired && s.accepted+int64(len(p)) > s.k {
			s.fired = true
			s.left = s.repeat - 1
			n := 0
			if s.kind == "tshort" {
				n = int(s.k - s.accepted)
				s.accept(p[:n])
			}
			s.hits++
			s.say("hit kind=%s k=%d call_len=%d call_accepted=%d accepted=%d err=%v", s.kind, s.k, len(p), n, s.accepted, errInjected)
			return n, errInjected
		}
	case "shortnil":
		if !s.fired && s.accepted+int64(len(p)) > s.k {
			n := max(1, int(s.k-s.accepted))
			if n < len(p) {
				s.fired = true
				s.accept(p[:n])
				s.say("shortnil k=%d call_len=%d call_accepted=%d accepted=%d", s.k, len(p), n, s.accepted)
				return n, nil
			}
		}
	}
	s.accept(p)
	return len(p), nil
}

func (s *stream) Close() error {
	s.mu.Lock()
	defer s.mu.Unlock()
	s.closes++
	s.say("close call=%d accepted=%d", s.closes, s.accepted)
	if s.kind == "close" {
		s.hits++
		s.say("hit kind=close accepted=%d", s.accepted)
		return errClose
	}
	return nil
}

// ---------------------------------------------------------------- records (same as harness/c04)

func recID(b, i int) string { return fmt.Sprintf("b%02d_r%03d", b, i) }

func recSeq(b, i, l int) []byte {
	x := uint32(b*7919+i*104729) | 1
	s := make([]byte, l)
	for j := range s {
		x ^= x << 13
		x ^= x >> 17
		x ^= x << 5
		s[j] = "acgt"[x&3]
	}
	return s
}

func recQual(b, i, l int) []byte {
	q := make([]byte, l)
	for j := range q {
		q[j] = byte((b*5 + i*3 + j) % 41)
	}
	return q
}

func batch(b, size, seqlen int, qual bool) obiiter.BioSequenceBatch {
	sl := make(obiseq.BioSequenceSlice, 0, size)
	for i := 0; i < size; i++ {
		var s *obiseq.BioSequence
		if qual {
			s = obiseq.NewBioSequenceWithQualities(recID(b, i), recSeq(b, i, seqlen), "", recQual(b, i, seqlen))
		} else {
			s = obiseq.NewBioSequence(recID(b, i), recSeq(b, i, seqlen), "")
		}
		s.SetAttribute("batch", b)
		sl = append(sl, s)
	}
	return obiiter.MakeBioSequenceBatch("faultcmd", b, sl)
}

func ints(s string) ([]int, error) {
	if strings.TrimSpace(s) == "" {
		return nil, nil
	}
	var out []int
	for _, f := range strings.Split(s, ",") {
		v, err := strconv.Atoi(strings.TrimSpace(f))
		if err != nil {
			return nil, err
		}
		out = append(out, v)
	}
	return out, nil
}

func usage(format string, a ...any) {
	fmt.Fprintf(os.Stderr, "FAULTCMD usage-error "+format+"\n", a...)
	os.Exit(98)
}

// nbexec: see the package comment.
func nbexec(capArg, delayArg, pauseArg string, command []string) {
	capacity, err1 := strconv.Atoi(capArg)
	delay, err2 := strconv.Atoi(delayArg)
	pause, err3 := strconv.Atoi(pauseArg)
	if err1 != nil || err2 != nil || err3 != nil || capacity < 0 || delay < 0 || pause < 0 {
		usage("nbexec: bad numbers %q %q %q", capArg, delayArg, pauseArg)
	}
	var p [2]int
	if err := syscall.Pipe(p[:]); err != nil { // blocking mode, as a shell creates it
		usage("nbexec: pipe: %v", err)
	}
	syscall.CloseOnExec(p[0])
	pr := os.NewFile(uintptr(p[0]), "nbexec-read-end")
	pw := os.NewFile(uintptr(p[1]), "nbexec-write-end")
	got := setPipeCap(pw, capacity)
	cmd := exec.Command(command[0], command[1:]...)
	cmd.Stdout = pw
	cmd.Stderr = os.Stderr
	if err := cmd.Start(); err != nil {
		usage("nbexec: start %s: %v", command[0], err)
	}
	received := int64(0)
	buf := make([]byte, 4096)
	take := func() bool {
		n, err := pr.Read(buf)
		if n > 0 {
			if _, werr := os.Stdout.Write(buf[:n]); werr != nil {
				fmt.Fprintf(os.Stderr, "FAULTCMD infrastructure: cannot copy to stdout: %v\n", werr)
				os.Exit(97)
			}
			received += int64(n)
		}
		return err == nil
	}
	// the first bytes: the command is running and has set up its standard output
	more := take()
	flags, _, errno := syscall.Syscall(syscall.SYS_FCNTL, pw.Fd(), syscall.F_GETFL, 0)
	if errno == 0 {
		_, _, errno = syscall.Syscall(syscall.SYS_FCNTL, pw.Fd(), syscall.F_SETFL, flags|syscall.O_NONBLOCK)
	}
	if errno != 0 {
		usage("nbexec: fcntl: %v", errno)
	}
	pw.Close()
	fmt.Fprintf(os.Stderr, "FAULTCMD nbexec nonblock_set_after=%d pipecap=%d\n", received, got)
	time.Sleep(time.Duration(delay) * time.Millisecond)
	for more {
		more = take()
		if pause > 0 {
			time.Sleep(time.Duration(pause) * time.Millisecond)
		}
	}
	pr.Close()
	err := cmd.Wait()
	status, sig := 0, 0
	var ee *exec.ExitError
	switch {
	case err == nil:
	case errors.As(err, &ee):
		status = ee.ExitCode()
		if ws, ok := ee.Sys().(syscall.WaitStatus); ok && ws.Signaled() {
			sig = int(ws.Signal())
			status = 128 + sig
		}
	default:
		usage("nbexec: wait: %v", err)
	}
	fmt.Fprintf(os.Stderr, "FAULTCMD nbexec status=%d signal=%d received=%d\n", status, sig, received)
	os.Exit(status)
}

func main() {
	writer := flag.String("writer", "fasta", "fasta|fastq|json|csv")
	sizesArg := flag.String("sizes", "1", "records per batch, comma separated")
	arrivalArg := flag.String("arrival", "", "push order of the batches (permutation of 0..n-1); default in order")
	seqlen := flag.Int("seqlen", 20, "nucleotides per record (>= 1)")
	gz := flag.Bool("gzip", false, "compressed output")
	closeFile := flag.Bool("close", false, "OptionCloseFile (otherwise OptionDontCloseFile)")
	workers := flag.Int("workers", 1, "formatting workers")
	fault := flag.String("fault", "none", "none|short|erronly|once|close|tshort|terronly|shortnil")
	repeat := flag.Int("repeat", 1, "transient kinds: number of consecutive failing Write calls")
	step := flag.Int("step", 0, "transient kinds: bytes accepted by the second and later failing calls")
	rawErrno := flag.Bool("rawerrno", false, "with -errno: the injected error is the bare syscall.Errno")
	k := flag.Int64("k", 0, "byte offset of the fault")
	trace := flag.Bool("trace", false, "describe every Write call of the stream on stderr")
	errnoArg := flag.String("errno", "", "epipe|enospc|eio|edquot|efbig|eagain|eintr: the injected error is an *fs.PathError wrapping this errno")
	target := flag.String("target", "stream", "stream|file|tofile|stdout|pipe|fifo")
	outPath := flag.String("out", "", "path of the output (targets file, tofile, fifo)")
	fsize := flag.Int64("fsize", -1, "RLIMIT_FSIZE in bytes (-1 = unchanged)")
	pipeCap := flag.Int("pipecap", 0, "requested capacity of the pipe (targets pipe, fifo)")

	if len(os.Args) > 3 && os.Args[1] == "-limitexec" {
		n, err := strconv.ParseInt(os.Args[2], 10, 64)
		if err != nil || n < 0 {
			usage("limitexec: bad limit %q", os.Args[2])
		}
		if err := limitFileSize(n); err != nil {
			usage("limitexec: setrlimit: %v", err)
		}
		err = syscall.Exec(os.Args[3], os.Args[3:], os.Environ())
		usage("limitexec: exec %s: %v", os.Args[3], err)
	}
	if len(os.Args) > 5 && os.Args[1] == "-nbexec" {
		nbexec(os.Args[2], os.Args[3], os.Args[4], os.Args[5:])
	}
	flag.Parse()

	if *errnoArg != "" {
		e, ok := errnos[*errnoArg]
		if !ok {
			usage("unknown errno %q", *errnoArg)
		}
		errInjected = &fs.PathError{Op: "write", Path: "/faultcmd/injected.out", Err: e}
		errClose = &fs.PathError{Op: "close", Path: "/faultcmd/injected.out", Err: e}
		if *rawErrno {
			errInjected, errClose = e, e
		}
	}
	switch *target {
	case "stream", "stdout", "pipe":
	case "file", "tofile", "fifo":
		if *outPath == "" {
			usage("target %s needs -out", *target)
		}
	default:
		usage("unknown target %q", *target)
	}
	if *target != "stream" && *fault != "none" {
		usage("injected faults need the target stream")
	}
	if *fsize >= 0 {
		if err := limitFileSize(*fsize); err != nil {
			usage("setrlimit: %v", err)
		}
	}

	sizes, err := ints(*sizesArg)
	if err != nil {
		usage("sizes: %v", err)
	}
	arrival, err := ints(*arrivalArg)
	if err != nil {
		usage("arrival: %v", err)
	}
	n := len(sizes)
	if *arrivalArg == "" {
		for i := 0; i < n; i++ {
			arrival = append(arrival, i)
		}
	}
	seen := make([]bool, n)
	if len(arrival) != n {
		usage("arrival has %d entries for %d batches", len(arrival), n)
	}
	for _, b := range arrival {
		if b < 0 || b >= n || seen[b] {
			usage("arrival is not a permutation")
		}
		seen[b] = true
	}
	if *seqlen < 1 || *workers < 1 {
		usage("seqlen and workers must be >= 1")
	}
	switch *fault {
	case "none", "short", "erronly", "once", "close":
	case "tshort", "terronly", "shortnil":
		if *repeat < 1 || *step < 0 {
			usage("repeat must be >= 1 and step >= 0")
		}
	default:
		usage("unknown fault kind %q", *fault)
	}

	out := &stream{kind: *fault, k: *k, trace: *trace, repeat: *repeat, step: *step}

	// the source iterator: batches pushed in the requested arrival order
	src := obiiter.MakeIBioSequence()
	src.Add(1)
	go src.WaitAndClose()
	qual := *writer == "fastq"
	go func() {
		for _, b := range arrival {
			src.Push(batch(b, sizes[b], *seqlen, qual))
		}
		src.Done()
	}()

	opts := []obiformats.WithOption{
		obiformats.OptionsParallelWorkers(*workers),
		obiformats.OptionsCompressed(*gz),
	}
	if *closeFile {
		opts = append(opts, obiformats.OptionCloseFile())
	} else {
		opts = append(opts, obiformats.OptionDontCloseFile())
	}

	// the destination
	var dst io.WriteCloser = out
	var ownEnd *os.File    // real descriptor to close at the end when the library does not (-close not given)
	var keepAlive *os.File // fifo: a second writer, so that the reader does not meet an end of file before the library has opened the fifo
	var readerDone chan struct{}
	readerStart := make(chan struct{})
	byName := false
	switch *target {
	case "file":
		f, err := os.OpenFile(*outPath, os.O_WRONLY|os.O_CREATE|os.O_TRUNC, 0o644)
		if err != nil {
			usage("open %s: %v", *outPath, err)
		}
		dst, ownEnd = f, f
	case "tofile":
		byName = true
	case "stdout":
		dst = nil
	case "pipe":
		pr, pw, err := os.Pipe()
		if err != nil {
			usage("pipe: %v", err)
		}
		out.say("pipecap=%d", setPipeCap(pw, *pipeCap))
		readerDone = make(chan struct{})
		close(readerStart)
		go reader(pr, *k, readerStart, readerDone)
		dst, ownEnd = pw, pw
	case "fifo":
		if err := syscall.Mkfifo(*outPath, 0o600); err != nil {
			usage("mkfifo %s: %v", *outPath, err)
		}
		pr, err := os.OpenFile(*outPath, os.O_RDONLY|syscall.O_NONBLOCK, 0)
		if err != nil {
			usage("open fifo for reading: %v", err)
		}
		keepAlive, err = os.OpenFile(*outPath, os.O_WRONLY|syscall.O_NONBLOCK, 0)
		if err != nil {
			usage("open fifo (second writer): %v", err)
		}
		out.say("pipecap=%d", setPipeCap(pr, *pipeCap))
		readerDone = make(chan struct{})
		go reader(pr, *k, readerStart, readerDone)
		byName = true
	}

	var it obiiter.IBioSequence
	if *writer == "csv" {
		opts = append(opts, obiformats.CSVId(true), obiformats.CSVSequence(true), obiformats.CSVKey("batch"))
	}
	switch {
	case byName:
		// Write*ToFile opens the file and asks for it to be closed
		switch *writer {
		case "fasta":
			it, err = obiformats.WriteFastaToFile(src, *outPath, opts...)
		case "fastq":
			it, err = obiformats.WriteFastqToFile(src, *outPath, opts...)
		case "json":
			it, err = obiformats.WriteJSONToFile(src, *outPath, opts...)
		case "csv":
			it, err = obiformats.WriteCSVToFile(src, *outPath, opts...)
		default:
			usage("unknown writer %q", *writer)
		}
	case dst == nil:
		// Write*ToStdout decides itself whether the descriptor is closed; the
		// CloseFile option given above comes first and is overridden
		switch *writer {
		case "fasta":
			it, err = obiformats.WriteFastaToStdout(src, opts...)
		case "fastq":
			it, err = obiformats.WriteFastqToStdout(src, opts...)
		case "json":
			it, err = obiformats.WriteJSONToStdout(src, opts...)
		case "csv":
			it, err = obiformats.WriteCSVToStdout(src, opts...)
		default:
			usage("unknown writer %q", *writer)
		}
	default:
		switch *writer {
		case "fasta":
			it, err = obiformats.WriteFasta(src, dst, opts...)
		case "fastq":
			it, err = obiformats.WriteFastq(src, dst, opts...)
		case "json":
			it, err = obiformats.WriteJSON(src, dst, opts...)
		case "csv":
			it, err = obiformats.WriteCSV(src, dst, opts...)
		default:
			usage("unknown writer %q", *writer)
		}
	}
	if err != nil {
		// what CLIWriteBioSequences does
		log.Fatalf("Write file error: %v", err)
	}
	if *target == "fifo" {
		close(readerStart) // Write*ToFile has opened the named pipe
	}

	it.Recycle()

	obiiter.WaitForLastPipe()

	// what the end of the process does to the descriptors the library was asked
	// to leave open; an error here is an error nobody can report any more and is
	// not part of the case (the file targets are only used with data flushed by
	// the library: a regular file has no buffer of its own)
	if ownEnd != nil && !*closeFile {
		ownEnd.Close()
	}
	if keepAlive != nil {
		keepAlive.Close()
	}
	if readerDone != nil {
		<-readerDone
	}

	out.mu.Lock()
	out.say("done accepted=%d offered=%d hits=%d closes=%d", out.accepted, out.offered, out.hits, out.closes)
	out.mu.Unlock()
}
