// Package evid is the small shared runtime of every property package:
//
//   - case counters (evaluations, distinct non-trivial cases, class histogram,
//     verbatim samples) written to the file named by VERIF_EVIDENCE_OUT,
//   - failure recording: the (shrunk) failing case is written as JSON under
//     VERIF_FAIL_DIR so that the driver can turn it into a replay file,
//   - the replay registry: every check is a pure function of a JSON case, so a
//     saved failure is re-run without the generator library,
//   - the test table (budgets per tier, shard counts) printed by -verif.list.
package evid

import (
	"encoding/binary"
	"encoding/json"
	"flag"
	"fmt"
	"hash/fnv"
	"os"
	"path/filepath"
	"sort"
	"strconv"
	"strings"
	"sync"
	"testing"
)

// ---------------------------------------------------------------- test table

// Spec describes one test function of a property package to the driver.
type Spec struct {
	Name string `json:"name"` // Go test function name
	Kind string `json:"kind"` // "rapid" (driver passes -rapid.checks/-rapid.seed), "plain", or "fuzz" (native go fuzz target, thorough tier only; Thorough = seconds of fuzzing)
	// number of rapid checks (all shards together) per tier; ignored for plain tests
	Quick    int `json:"quick"`
	Thorough int `json:"thorough"`
	// number of processes the test is split into; plain tests read Shard()/NShards()
	QuickShards    int `json:"quick_shards"`
	ThoroughShards int `json:"thorough_shards"`
	// optional: per-job timeout in seconds (0 = driver default)
	TimeoutS int `json:"timeout_s,omitempty"`
	// optional: run only in the thorough tier
	ThoroughOnly bool `json:"thorough_only,omitempty"`
}

var (
	listFlag = flag.Bool("verif.list", false, "print the test table as JSON and exit")
	table    []Spec
	commands []string
	helpers  []string
)

// Commands asks the driver to build the named obitools4 commands
// (cmd/obitools/<name>) from the tree under test, with -tags verif, into
// $VERIF_BIN before the tests of this package are started.
func Commands(names ...string) { commands = append(commands, names...) }

// Helpers asks the driver to build harness main packages (harness/cmd/<name>)
// into $VERIF_BIN.
func Helpers(names ...string) { helpers = append(helpers, names...) }

// Tests registers the test table of the package (call from an init or TestMain).
func Tests(specs ...Spec) { table = append(table, specs...) }

// Main is the TestMain body shared by all property packages.
func Main(m *testing.M, property string) {
	flag.Parse()
	if *listFlag {
		b, _ := json.Marshal(table)
		fmt.Println("VERIF-TABLE " + string(b))
		b, _ = json.Marshal(map[string][]string{"commands": commands, "helpers": helpers})
		fmt.Println("VERIF-BUILD " + string(b))
		os.Exit(0)
	}
	global.property = property
	code := m.Run()
	// worker processes of the native fuzzing engine share the environment of
	// their coordinator: only the coordinator reports
	if f := flag.Lookup("test.fuzzworker"); f == nil || f.Value.String() != "true" {
		Flush()
	}
	os.Exit(code)
}

// Tier returns "quick" or "thorough".
func Tier() string {
	if os.Getenv("VERIF_TIER") == "thorough" {
		return "thorough"
	}
	return "quick"
}

// Thorough reports whether the thorough tier is running.
func Thorough() bool { return Tier() == "thorough" }

// Pick returns q in the quick tier and th in the thorough tier.
func Pick(q, th int) int {
	if Thorough() {
		return th
	}
	return q
}

func envInt(name string, def int) int {
	if v, err := strconv.Atoi(os.Getenv(name)); err == nil {
		return v
	}
	return def
}

// Shard and NShards give the position of this process among the processes the
// driver started for the same test (plain tests split their enumeration on it).
func Shard() int   { return envInt("VERIF_SHARD", 0) }
func NShards() int { return max(1, envInt("VERIF_NSHARDS", 1)) }

// Seed is the VERIF_SEED value (never 0).
func Seed() int64 {
	s := int64(envInt("VERIF_SEED", 1))
	if s == 0 {
		s = 7919
	}
	return s
}

// ---------------------------------------------------------------- counters

const maxHashes = 1 << 21
const maxSamples = 6

type state struct {
	mu          sync.Mutex
	property    string
	evaluations int64
	nontrivial  int64
	hashes      map[uint64]struct{}
	capped      bool
	classes     map[string]int64
	samples     map[string][]json.RawMessage // per check name
	excluded    map[string]int64
	notes       map[string]string
	exhaustive  map[string]bool
}

var global = &state{
	hashes:     map[uint64]struct{}{},
	classes:    map[string]int64{},
	samples:    map[string][]json.RawMessage{},
	excluded:   map[string]int64{},
	notes:      map[string]string{},
	exhaustive: map[string]bool{},
}

// Hash returns a 64-bit FNV hash of the parts (used as the identity of a case).
func Hash(parts ...any) uint64 {
	h := fnv.New64a()
	for _, p := range parts {
		switch v := p.(type) {
		case string:
			h.Write([]byte(v))
		case []byte:
			h.Write(v)
		default:
			fmt.Fprintf(h, "%v", v)
		}
		h.Write([]byte{0})
	}
	return h.Sum64()
}

// Eval counts one oracle evaluation.  check names the property sub-check, key is
// the identity of the case (see Hash), nontrivial says whether the case is
// non-trivial by the rule stated in the evidence, sample (may be nil) is the case
// itself and is kept verbatim for the first few non-trivial cases of each check.
func Eval(check string, key uint64, nontrivial bool, sample any, classes ...string) {
	g := global
	g.mu.Lock()
	defer g.mu.Unlock()
	g.evaluations++
	g.classes["check:"+check]++
	for _, c := range classes {
		g.classes[c]++
	}
	if !nontrivial {
		return
	}
	g.nontrivial++
	k := Hash(check, key)
	if _, ok := g.hashes[k]; ok {
		return
	}
	if len(g.hashes) < maxHashes {
		g.hashes[k] = struct{}{}
	} else {
		g.capped = true
	}
	if sample != nil && len(g.samples[check]) < maxSamples {
		if b, err := json.Marshal(map[string]any{"check": check, "case": sample}); err == nil && len(b) < 4000 {
			g.samples[check] = append(g.samples[check], b)
		}
	}
}

// Class increments a class counter without counting an evaluation.
func Class(name string, n int64) {
	global.mu.Lock()
	global.classes[name] += n
	global.mu.Unlock()
}

// Excluded counts cases left out of a check because they fall in a known finding.
func Excluded(finding string, n int64) {
	global.mu.Lock()
	global.excluded[finding] += n
	global.mu.Unlock()
}

// Note attaches a free-text remark to the evidence (last write wins per key).
func Note(key, text string) {
	global.mu.Lock()
	global.notes[key] = text
	global.mu.Unlock()
}

// Exhaustive records that the named finite space was enumerated completely by
// this process (the driver reports it only if every shard says so).
func Exhaustive(space string) {
	global.mu.Lock()
	global.exhaustive[space] = true
	global.mu.Unlock()
}

type fragment struct {
	Property    string                       `json:"property"`
	Evaluations int64                        `json:"evaluations"`
	Nontrivial  int64                        `json:"nontrivial"`
	Capped      bool                         `json:"capped"`
	Classes     map[string]int64             `json:"classes"`
	Samples     map[string][]json.RawMessage `json:"samples"`
	Excluded    map[string]int64             `json:"excluded"`
	Notes       map[string]string            `json:"notes"`
	Exhaustive  []string                     `json:"exhaustive"`
	HashFile    string                       `json:"hash_file"`
}

// Flush writes the evidence fragment of this process.
func Flush() {
	out := os.Getenv("VERIF_EVIDENCE_OUT")
	if out == "" {
		return
	}
	g := global
	g.mu.Lock()
	defer g.mu.Unlock()
	f := fragment{Property: g.property, Evaluations: g.evaluations, Nontrivial: g.nontrivial,
		Capped: g.capped, Classes: g.classes, Samples: g.samples, Excluded: g.excluded, Notes: g.notes,
		HashFile: out + ".hashes"}
	for k := range g.exhaustive {
		f.Exhaustive = append(f.Exhaustive, k)
	}
	sort.Strings(f.Exhaustive)
	hb := make([]byte, 0, 8*len(g.hashes))
	for h := range g.hashes {
		hb = binary.LittleEndian.AppendUint64(hb, h)
	}
	_ = os.WriteFile(f.HashFile, hb, 0o644)
	b, _ := json.Marshal(f)
	_ = os.WriteFile(out, b, 0o644)
}

// ---------------------------------------------------------------- failures & replay

// TB is the part of testing.TB / rapid.T that Fail needs.
type TB interface {
	Helper()
	Fatalf(format string, args ...any)
	Logf(format string, args ...any)
}

var failSeq sync.Map // check -> *int (only to keep names stable inside one process)

// Fail records the failing case c of the named check as a replay file and fails
// the test.  During shrinking rapid calls it again and again with smaller cases;
// the file is overwritten each time so that the last one written is the minimal
// case (rapid re-runs the minimal case last).
func Fail(t TB, check string, c any, err error) {
	t.Helper()
	b, jerr := json.MarshalIndent(map[string]any{"property": global.property, "check": check, "case": c, "error": err.Error()}, "", " ")
	if jerr != nil {
		b = []byte(fmt.Sprintf(`{"property":%q,"check":%q,"unencodable":%q,"error":%q}`, global.property, check, jerr.Error(), err.Error()))
	}
	if dir := os.Getenv("VERIF_FAIL_DIR"); dir != "" {
		name := fmt.Sprintf("%s-s%d.json", sanitize(check), Shard())
		_ = os.WriteFile(filepath.Join(dir, name), b, 0o644)
	}
	t.Fatalf("VERIF-FAIL check=%s: %v\ncase: %s", check, err, truncate(string(b), 3000))
}

func truncate(s string, n int) string {
	if len(s) > n {
		return s[:n] + "…"
	}
	return s
}

func sanitize(s string) string {
	return strings.Map(func(r rune) rune {
		if r >= 'a' && r <= 'z' || r >= 'A' && r <= 'Z' || r >= '0' && r <= '9' || r == '_' || r == '-' {
			return r
		}
		return '_'
	}, s)
}

var registry = map[string]func(raw json.RawMessage) error{}

// Register makes a check replayable: fn decodes the JSON case and runs the oracle.
func Register(check string, fn func(raw json.RawMessage) error) { registry[check] = fn }

// Reg is Register for the common shape "case struct + check function".
func Reg[C any](check string, fn func(c C) error) {
	Register(check, func(raw json.RawMessage) error {
		var c C
		if err := json.Unmarshal(raw, &c); err != nil {
			return fmt.Errorf("replay file does not decode: %w", err)
		}
		return fn(c)
	})
}

// Replay runs every saved case of VERIF_REPLAY_DIR (or the single file
// VERIF_REPLAY_FILE) through its registered check.  Call it from TestReplay.
func Replay(t *testing.T) {
	var files []string
	if f := os.Getenv("VERIF_REPLAY_FILE"); f != "" {
		files = []string{f}
	} else if d := os.Getenv("VERIF_REPLAY_DIR"); d != "" {
		files, _ = filepath.Glob(filepath.Join(d, "*.json"))
		sort.Strings(files)
	}
	for _, f := range files {
		b, err := os.ReadFile(f)
		if err != nil {
			t.Errorf("cannot read %s: %v", f, err)
			continue
		}
		var doc struct {
			Check string          `json:"check"`
			Case  json.RawMessage `json:"case"`
		}
		if err := json.Unmarshal(b, &doc); err != nil {
			t.Errorf("cannot decode %s: %v", f, err)
			continue
		}
		fn, ok := registry[doc.Check]
		if !ok {
			t.Errorf("replay file %s names unknown check %q", f, doc.Check)
			continue
		}
		Class("replayed", 1)
		if err := fn(doc.Case); err != nil {
			if dir := os.Getenv("VERIF_FAIL_DIR"); dir != "" {
				_ = os.WriteFile(filepath.Join(dir, "replay-"+filepath.Base(f)), b, 0o644)
			}
			t.Errorf("VERIF-FAIL check=%s replay=%s: %v", doc.Check, f, err)
		}
	}
}
