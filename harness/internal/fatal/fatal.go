// Package fatal lets in-process checks survive and observe the library's
// log.Fatalf / log.Panicf error reporting (logrus -> os.Exit(1)).
//
// Install replaces logrus' ExitFunc by one that records the exit code and the
// last message and then terminates *the calling goroutine only*
// (runtime.Goexit).  Run executes a function on a fresh goroutine and reports
// whether it completed, died through a logrus fatal, or panicked.
package fatal

import (
	"fmt"
	"io"
	"runtime"
	"sync"
	"sync/atomic"

	log "github.com/sirupsen/logrus"
)

var (
	installed  sync.Once
	count      atomic.Int64
	mu         sync.Mutex
	lastMsg    string
)

type hook struct{}

func (hook) Levels() []log.Level {
	return []log.Level{log.PanicLevel, log.FatalLevel, log.ErrorLevel}
}
func (hook) Fire(e *log.Entry) error {
	mu.Lock()
	lastMsg = e.Message
	mu.Unlock()
	return nil
}

// Install is idempotent.  After it, logrus output is discarded (the messages
// of fatal/error entries are kept, see LastMessage).
func Install() {
	installed.Do(func() {
		l := log.StandardLogger()
		l.ExitFunc = func(code int) {
			count.Add(1)
			runtime.Goexit()
		}
		l.AddHook(hook{})
		l.SetOutput(io.Discard)
	})
}

// Count returns the number of logrus fatal exits intercepted so far.
func Count() int64 { return count.Load() }

// LastMessage returns the message of the last fatal/panic/error log entry.
func LastMessage() string {
	mu.Lock()
	defer mu.Unlock()
	return lastMsg
}

// Outcome of Run.
type Outcome struct {
	Completed bool   // f returned normally
	Fatal     bool   // f's goroutine was terminated by a logrus fatal
	Panicked  bool   // f panicked (log.Panicf or a runtime panic)
	Panic     any    // the panic value
	Message   string // last fatal / panic message
	Stack     string
}

func (o Outcome) String() string {
	switch {
	case o.Completed:
		return "completed"
	case o.Fatal:
		return "fatal: " + o.Message
	case o.Panicked:
		return fmt.Sprintf("panic: %v", o.Panic)
	}
	return "unknown"
}

// Run executes f on a new goroutine and waits for it.
func Run(f func()) Outcome {
	Install()
	var out Outcome
	before := Count()
	done := make(chan struct{})
	go func() {
		defer close(done)
		defer func() {
			if out.Completed {
				return
			}
			if r := recover(); r != nil {
				out.Panicked = true
				out.Panic = r
				buf := make([]byte, 16<<10)
				out.Stack = string(buf[:runtime.Stack(buf, false)])
				if e, ok := r.(*log.Entry); ok {
					out.Message = e.Message
					out.Panic = e.Message
				} else {
					out.Message = fmt.Sprint(r)
				}
				return
			}
			// Goexit: neither completed nor panicking
			out.Fatal = true
			out.Message = LastMessage()
		}()
		f()
		out.Completed = true
	}()
	<-done
	if out.Fatal && Count() == before {
		// Goexit that did not come from logrus (e.g. t.FailNow in f)
		out.Message = "goroutine exited without logrus fatal"
	}
	return out
}
