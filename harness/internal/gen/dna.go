// Package gen holds rapid generators shared by several property packages.
// Every random choice is drawn through rapid so that shrinking and replay work.
package gen

import (
	"pgregory.net/rapid"
)

const (
	ACGT  = "acgt"
	IUPAC = "acgtrymkwsbdhvn"
	// FullAlphabet is the alphabet the sequence readers accept
	FullAlphabet = "acgtrymkwsbdhvn.-[]"
)

// Len draws a length in [lo, hi] from a mixture biased towards the boundaries
// listed in magic (values outside [lo,hi] are ignored) and towards lo / hi.
func Len(t *rapid.T, label string, lo, hi int, magic ...int) int {
	cands := []int{lo, hi, lo + 1, hi - 1}
	for _, m := range magic {
		for _, d := range []int{-1, 0, 1} {
			cands = append(cands, m+d)
		}
	}
	ok := cands[:0]
	for _, c := range cands {
		if c >= lo && c <= hi {
			ok = append(ok, c)
		}
	}
	if len(ok) > 0 && rapid.IntRange(0, 3).Draw(t, label+"_biased") == 0 {
		return rapid.SampledFrom(ok).Draw(t, label)
	}
	return rapid.IntRange(lo, hi).Draw(t, label)
}

// Seq draws a string of length n over alphabet.
func Seq(t *rapid.T, label string, n int, alphabet string) string {
	b := make([]byte, n)
	idx := rapid.SliceOfN(rapid.IntRange(0, len(alphabet)-1), n, n).Draw(t, label)
	for i := range b {
		b[i] = alphabet[idx[i]]
	}
	return string(b)
}

// SeqMix draws a string of length n: mostly over base, with each position taken
// from extra with probability ~1/rate (rate <= 0: never).
func SeqMix(t *rapid.T, label string, n int, base, extra string, rate int) string {
	s := []byte(Seq(t, label, n, base))
	if rate > 0 && extra != "" && n > 0 {
		k := rapid.IntRange(0, (n+rate-1)/rate).Draw(t, label+"_nextra")
		for i := 0; i < k; i++ {
			p := rapid.IntRange(0, n-1).Draw(t, label+"_xpos")
			s[p] = extra[rapid.IntRange(0, len(extra)-1).Draw(t, label+"_xsym")]
		}
	}
	return string(s)
}

// Edit is one elementary edit applied by Mutate.
type Edit struct {
	Kind byte // 's' substitution, 'i' insertion (before Pos), 'd' deletion
	Pos  int
	Sym  byte
}

// Mutate applies k generated edits (substitutions to a different symbol,
// insertions, deletions) to s, one after the other, and returns the result and
// the edits.  kinds selects among "sid".
func Mutate(t *rapid.T, label, s string, k int, alphabet, kinds string) (string, []Edit) {
	b := []byte(s)
	var edits []Edit
	for i := 0; i < k; i++ {
		kind := kinds[rapid.IntRange(0, len(kinds)-1).Draw(t, label+"_kind")]
		if len(b) == 0 {
			kind = 'i'
			if !contains(kinds, 'i') {
				break
			}
		}
		switch kind {
		case 's':
			p := rapid.IntRange(0, len(b)-1).Draw(t, label+"_pos")
			c := alphabet[rapid.IntRange(0, len(alphabet)-1).Draw(t, label+"_sym")]
			if c == b[p] {
				c = alphabet[(indexOf(alphabet, c)+1)%len(alphabet)]
			}
			b[p] = c
			edits = append(edits, Edit{'s', p, c})
		case 'i':
			p := rapid.IntRange(0, len(b)).Draw(t, label+"_pos")
			c := alphabet[rapid.IntRange(0, len(alphabet)-1).Draw(t, label+"_sym")]
			b = append(b[:p], append([]byte{c}, b[p:]...)...)
			edits = append(edits, Edit{'i', p, c})
		case 'd':
			p := rapid.IntRange(0, len(b)-1).Draw(t, label+"_pos")
			b = append(b[:p], b[p+1:]...)
			edits = append(edits, Edit{'d', p, 0})
		}
	}
	return string(b), edits
}

func contains(s string, c byte) bool { return indexOf(s, c) >= 0 }

func indexOf(s string, c byte) int {
	for i := 0; i < len(s); i++ {
		if s[i] == c {
			return i
		}
	}
	return -1
}

// Quals draws n quality scores in [lo, hi].
func Quals(t *rapid.T, label string, n, lo, hi int) []byte {
	q := rapid.SliceOfN(rapid.IntRange(lo, hi), n, n).Draw(t, label)
	b := make([]byte, n)
	for i, v := range q {
		b[i] = byte(v)
	}
	return b
}
