package gen

import (
	"fmt"

	"pgregory.net/rapid"

	"verifharness/internal/ref"
)

// RankLadder is the list rank labels are taken from (NCBI vocabulary, root side first).
var RankLadder = []string{"superkingdom", "kingdom", "phylum", "class", "order", "family", "subfamily", "genus", "species", "subspecies"}

// NoRank is the label NCBI gives to unranked nodes.
const NoRank = "no rank"

// TreeInfo describes how a generated tree was built (used for class counting).
type TreeInfo struct {
	Shape, RankMode, TaxidMode string
	Unknown                    []int // taxids that are neither nodes nor aliases
}

// TreeShapes lists the shapes Tree can build.
var TreeShapes = []string{"random", "deep", "chain", "star", "caterpillar", "broom", "binary"}

// Parents builds a parent array of n nodes of the given shape (parent[i] < i, parent[0] = 0).
func Parents(t *rapid.T, label string, n int, shape string) []int {
	p := make([]int, n)
	var r []int
	if n > 1 && (shape == "random" || shape == "deep") {
		r = rapid.SliceOfN(rapid.IntRange(0, 1<<30), n-1, n-1).Draw(t, label+"_parents")
	}
	window := 1
	if shape == "deep" {
		window = rapid.IntRange(1, 4).Draw(t, label+"_window")
	}
	for i := 1; i < n; i++ {
		switch shape {
		case "random":
			p[i] = r[i-1] % i
		case "deep": // parent among the last few nodes: long paths with short side branches
			w := min(window, i)
			p[i] = i - 1 - r[i-1]%w
		case "chain":
			p[i] = i - 1
		case "star":
			p[i] = 0
		case "caterpillar": // spine on the even indices, one leaf hanging from each spine node
			if i%2 == 0 {
				p[i] = i - 2
			} else {
				p[i] = i - 1
			}
		case "broom": // a handle (chain) of half the nodes, the rest attached to its end
			h := n / 2
			if i <= h {
				p[i] = i - 1
			} else {
				p[i] = h
			}
		case "binary":
			p[i] = (i - 1) / 2
		default:
			panic("unknown tree shape " + shape)
		}
	}
	return p
}

var nameTemplates = []string{
	"Taxon %d", "Genus species %d", "Homo sapiens subsp. %d", "[Brevibacterium] halotolerans %d",
	"unclassified Bacteria (miscellaneous) %d", "Candidatus Pelagibacter sp. HTCC%d", "'Chlorella' ellipsoidea %d",
	"X%d", "Influenza A virus (A/swine/Iowa/%d/2009(H1N1))", "environmental samples <bacteria, phylum Firmicutes> %d",
}

// Tree draws a taxonomy of n nodes: shape, taxids, ranks with "no rank" gaps,
// scientific names, nAlias merged-id aliases and nUnknown ids that belong to
// nothing, all distinct by construction.
func Tree(t *rapid.T, label string, n int, shape string, nAlias, nUnknown int) (ref.Tree, TreeInfo) {
	info := TreeInfo{Shape: shape}
	tr := ref.Tree{Parent: Parents(t, label, n, shape)}

	// ---- a pool of distinct positive ids: n for the nodes, the rest for aliases and unknown ids
	total := n + nAlias + nUnknown
	info.TaxidMode = rapid.SampledFrom([]string{"sequential", "reversed", "gaps", "permuted", "permuted_root1"}).Draw(t, label+"_taxid_mode")
	pool := make([]int, total)
	switch info.TaxidMode {
	case "sequential", "reversed":
		for i := range pool {
			pool[i] = i + 1
		}
	default:
		g := rapid.SliceOfN(rapid.SampledFrom([]int{1, 1, 1, 2, 3, 10, 1000}), total, total).Draw(t, label+"_gaps")
		id := 0
		for i := range pool {
			id += g[i]
			pool[i] = id
		}
	}
	switch info.TaxidMode {
	case "reversed": // the root has the largest node id, children have smaller ids than their parents
		for i, j := 0, n-1; i < j; i, j = i+1, j-1 {
			pool[i], pool[j] = pool[j], pool[i]
		}
	case "permuted", "permuted_root1":
		pool = rapid.Permutation(pool).Draw(t, label+"_perm")
		if info.TaxidMode == "permuted_root1" { // the root carries taxid 1 as in the NCBI taxonomy
			j := -1
			for i, v := range pool {
				if v == 1 {
					j = i
				}
			}
			if j >= 0 {
				pool[0], pool[j] = pool[j], pool[0]
			} else {
				pool[0] = 1 // ids are >= 1 and 1 is unused
			}
		}
	}
	tr.Taxid = append([]int(nil), pool[:n]...)
	if nAlias > 0 {
		targets := rapid.SliceOfN(rapid.IntRange(0, n-1), nAlias, nAlias).Draw(t, label+"_alias_targets")
		for k := 0; k < nAlias; k++ {
			tr.Alias = append(tr.Alias, [2]int{pool[n+k], targets[k]})
		}
	}
	info.Unknown = append([]int{0, -1, -pool[0]}, pool[n+nAlias:]...)
	maxID := 0
	for _, v := range pool {
		maxID = max(maxID, v)
	}
	info.Unknown = append(info.Unknown, maxID+1, 1<<31-1)

	// ---- ranks
	info.RankMode = rapid.SampledFrom([]string{"random", "random", "by_depth", "by_depth_gaps", "all_norank", "all_same", "two_labels"}).Draw(t, label+"_rank_mode")
	tr.Rank = make([]string, n)
	var rr []int
	if info.RankMode == "random" || info.RankMode == "by_depth_gaps" || info.RankMode == "two_labels" {
		rr = rapid.SliceOfN(rapid.IntRange(0, 1<<20), n, n).Draw(t, label+"_ranks")
	}
	depth := make([]int, n)
	for i := 0; i < n; i++ {
		if i > 0 {
			depth[i] = depth[tr.Parent[i]] + 1
		}
		switch info.RankMode {
		case "random": // any label anywhere (the same label may occur several times on one path), 1/3 unranked
			if rr[i]%3 == 0 {
				tr.Rank[i] = NoRank
			} else {
				tr.Rank[i] = RankLadder[(rr[i]/3)%len(RankLadder)]
			}
		case "by_depth":
			if depth[i] == 0 || depth[i] > len(RankLadder) {
				tr.Rank[i] = NoRank
			} else {
				tr.Rank[i] = RankLadder[depth[i]-1]
			}
		case "by_depth_gaps": // ladder by depth, but every other node or so is unranked
			if depth[i] == 0 || rr[i]%2 == 0 {
				tr.Rank[i] = NoRank
			} else {
				tr.Rank[i] = RankLadder[(depth[i]-1)%len(RankLadder)]
			}
		case "all_norank":
			tr.Rank[i] = NoRank
		case "all_same":
			tr.Rank[i] = "species"
		case "two_labels":
			tr.Rank[i] = []string{NoRank, "genus", "species"}[rr[i]%3]
		}
	}

	// ---- names
	nt := rapid.SliceOfN(rapid.IntRange(0, len(nameTemplates)-1), n, n).Draw(t, label+"_names")
	tr.Name = make([]string, n)
	for i := 0; i < n; i++ {
		tr.Name[i] = fmt.Sprintf(nameTemplates[nt[i]], tr.Taxid[i])
	}
	return tr, info
}
