package gen

import (
	"math"
	"strconv"
	"strings"
	"unicode"

	"pgregory.net/rapid"
)

// This file holds the shared generator of sequence records (identifier,
// definition, nucleotides, qualities, typed annotation map).  The generated
// structures are plain data (JSON-serialisable without loss, so that a failing
// case can be saved and replayed); Rec.Annotations turns the annotation list
// into the Go values the toolkit stores (int, float64, bool, string,
// map[string]int, map[string]string, []int).

// Val is one annotation value.  Kind selects the field that carries it.
type Val struct {
	Kind   string            `json:"kind"` // str | int | float | bool | mapint | mapstr | ints
	Str    string            `json:"str,omitempty"`
	Int    int64             `json:"int,omitempty"`
	Float  float64           `json:"float,omitempty"`
	Bool   bool              `json:"bool,omitempty"`
	MapInt map[string]int64  `json:"mapint,omitempty"`
	MapStr map[string]string `json:"mapstr,omitempty"`
	Ints   []int64           `json:"ints,omitempty"`
}

// Go returns the value as the toolkit holds it in memory (never a nil map/slice:
// JSON null is outside the value grammar).
func (v Val) Go() any {
	switch v.Kind {
	case "str":
		return v.Str
	case "int":
		return int(v.Int)
	case "float":
		return v.Float
	case "bool":
		return v.Bool
	case "mapint":
		m := make(map[string]int, len(v.MapInt))
		for k, x := range v.MapInt {
			m[k] = int(x)
		}
		return m
	case "mapstr":
		m := make(map[string]string, len(v.MapStr))
		for k, x := range v.MapStr {
			m[k] = x
		}
		return m
	case "ints":
		l := make([]int, len(v.Ints))
		for i, x := range v.Ints {
			l[i] = int(x)
		}
		return l
	}
	panic("gen.Val: unknown kind " + strconv.Quote(v.Kind))
}

// Strings returns every string carried by the value (values and nested keys).
func (v Val) Strings() []string {
	switch v.Kind {
	case "str":
		return []string{v.Str}
	case "mapint":
		var out []string
		for k := range v.MapInt {
			out = append(out, k)
		}
		return out
	case "mapstr":
		var out []string
		for k, x := range v.MapStr {
			out = append(out, k, x)
		}
		return out
	}
	return nil
}

// Nested reports whether the value is a map or a list.
func (v Val) Nested() bool { return v.Kind == "mapint" || v.Kind == "mapstr" || v.Kind == "ints" }

// Annot is one key/value pair of a record.
type Annot struct {
	Key string `json:"key"`
	Val Val    `json:"val"`
}

// Rec is a generated sequence record.
type Rec struct {
	ID     string  `json:"id"`
	Def    string  `json:"def,omitempty"`
	Seq    string  `json:"seq"`
	Qual   []int   `json:"qual,omitempty"` // nil: the record carries no qualities; otherwise len(Qual)==len(Seq), values 0..255
	Annots []Annot `json:"annots,omitempty"`
}

// Annotations returns the annotation map with in-memory Go values.
func (r Rec) Annotations() map[string]any {
	m := make(map[string]any, len(r.Annots))
	for _, a := range r.Annots {
		m[a.Key] = a.Val.Go()
	}
	return m
}

// QualBytes returns the qualities as bytes (nil when absent).
func (r Rec) QualBytes() []byte {
	if r.Qual == nil {
		return nil
	}
	b := make([]byte, len(r.Qual))
	for i, q := range r.Qual {
		b[i] = byte(q)
	}
	return b
}

// ReservedKeys are annotation keys with a special meaning in obiseq.BioSequence
// (SetAttribute redirects the first three to the record fields; the definition
// is stored under the fourth).  They are never generated as annotation keys.
var ReservedKeys = []string{"id", "sequence", "qualities", "definition"}

// HostileChars are the ASCII characters the title-line scanners give a meaning to.
const HostileChars = "\"\\{}[];=>@+:,'"

var hostileTokens = []string{
	`"`, `\`, `{`, `}`, `[`, `]`, `;`, `=`, `>`, `@`, `+`, `:`, `,`, `'`, ` `, `  `,
	`\"`, `\\`, `"}`, `{"`, `":`, `\"}`, `}"`, `\\"`, `\\\"`, `"{`, `{}`, `}}`, `{{`, `";`, `"`, `\n`, `\t`,
	`a`, `b`, `0`, `1`, `null`, `true`, "\u00e9", "\u00fc", "\u00a0", "\u2028", "\u3000", "\ufeff", "\U0001F600", "\U0001D518", "\u65e5\u672c", "\ufffd",
}

// uniRune draws one control-free Unicode code point (no C0/C1 controls, no
// surrogates).  Blank characters are allowed.
func uniRune(t *rapid.T, label string) rune {
	switch rapid.IntRange(0, 11).Draw(t, label+"_cls") {
	case 0, 1, 2, 3:
		return rune(rapid.IntRange(0x20, 0x7e).Draw(t, label))
	case 4:
		return rune(rapid.IntRange(0xa0, 0xff).Draw(t, label))
	case 5:
		return rune(rapid.IntRange(0x100, 0xd7ff).Draw(t, label))
	case 6:
		return rune(rapid.IntRange(0xe000, 0xffff).Draw(t, label))
	case 7:
		return rune(rapid.IntRange(0x10000, 0x10ffff).Draw(t, label))
	case 8:
		return rapid.SampledFrom([]rune{0xa0, 0x2028, 0x2029, 0xfeff, 0xfffd, 0x200b, 0x3000, 0x7e, 0x20, 0xd7ff, 0xe000, 0xffff, 0x10ffff}).Draw(t, label)
	default:
		return rune(HostileChars[rapid.IntRange(0, len(HostileChars)-1).Draw(t, label)])
	}
}

// Text draws a string of at most maxRunes "units": arbitrary control-free Unicode,
// with the characters and character pairs that matter to the header scanners
// (quotes, backslashes, braces, semicolons, '=', '>', '@', escaped quote followed
// by a brace, trailing backslash ...) heavily over-represented.
func Text(t *rapid.T, label string, maxRunes int) string {
	if maxRunes <= 0 {
		return ""
	}
	mode := rapid.IntRange(0, 9).Draw(t, label+"_mode")
	n := Len(t, label+"_n", 0, maxRunes, 1, 2)
	var sb strings.Builder
	switch {
	case mode <= 1: // plain word(s)
		const plain = "abcdefghijklmnopqrstuvwxyzABCDEFGHIJKLMNOPQRSTUVWXYZ0123456789_-. "
		for i := 0; i < n; i++ {
			sb.WriteByte(plain[rapid.IntRange(0, len(plain)-1).Draw(t, label+"_c")])
		}
	case mode <= 4: // arbitrary Unicode
		for i := 0; i < n; i++ {
			sb.WriteRune(uniRune(t, label+"_r"))
		}
	case mode <= 7: // hostile tokens only
		for i := 0; i < n; i++ {
			sb.WriteString(hostileTokens[rapid.IntRange(0, len(hostileTokens)-1).Draw(t, label+"_tok")])
		}
	default: // Unicode text with hostile tokens inserted
		for i := 0; i < n; i++ {
			if rapid.IntRange(0, 2).Draw(t, label+"_ins") == 0 {
				sb.WriteString(hostileTokens[rapid.IntRange(0, len(hostileTokens)-1).Draw(t, label+"_tok")])
			} else {
				sb.WriteRune(uniRune(t, label+"_r"))
			}
		}
	}
	return sb.String()
}

// Ident draws a record identifier: non-empty, no blank of any kind, no control
// character; may contain > @ + { } " = ; \ and non-ASCII letters.
func Ident(t *rapid.T, label string) string {
	n := Len(t, label+"_n", 1, 24, 1, 2)
	mode := rapid.IntRange(0, 3).Draw(t, label+"_mode")
	var sb strings.Builder
	for i := 0; i < n; i++ {
		var r rune
		switch {
		case mode == 0: // conventional identifier
			const plain = "abcdefghijklmnopqrstuvwxyzABCDEFGHIJKLMNOPQRSTUVWXYZ0123456789_-.:|/#"
			r = rune(plain[rapid.IntRange(0, len(plain)-1).Draw(t, label+"_c")])
		case mode == 1: // any printable ASCII but the blank
			r = rune(rapid.IntRange(0x21, 0x7e).Draw(t, label+"_c"))
		case mode == 2: // scanner-relevant characters
			const h = ">@+{}\"=;\\[]:,'a1"
			r = rune(h[rapid.IntRange(0, len(h)-1).Draw(t, label+"_c")])
		default:
			r = uniRune(t, label+"_r")
			if unicode.IsSpace(r) || r == 0x200b || r == 0xfeff || r == 0x2028 || r == 0x2029 {
				r = 'x'
			}
		}
		sb.WriteRune(r)
	}
	return sb.String()
}

var commonKeys = []string{"count", "taxid", "merged_sample", "obiclean_status", "seq_length", "sample", "forward_tag",
	"direction", "score", "obitag_bestid", "ali_length", "mode", "experiment", "scientific_name", "order_taxid"}

// Key draws an annotation key: usually identifier-like, sometimes a well-known
// obitools key, sometimes (hostile) arbitrary text.  Reserved keys are avoided.
func Key(t *rapid.T, label string, hostile bool) string {
	var k string
	switch m := rapid.IntRange(0, 9).Draw(t, label+"_mode"); {
	case m <= 1:
		k = rapid.SampledFrom(commonKeys).Draw(t, label+"_common")
	case m == 9 && hostile:
		k = Text(t, label+"_txt", 8)
	default:
		const first = "abcdefghijklmnopqrstuvwxyzABCDEFGHIJKLMNOPQRSTUVWXYZ"
		const next = first + "0123456789_-."
		n := rapid.IntRange(1, 10).Draw(t, label+"_n")
		b := make([]byte, n)
		b[0] = first[rapid.IntRange(0, len(first)-1).Draw(t, label+"_c0")]
		for i := 1; i < n; i++ {
			b[i] = next[rapid.IntRange(0, len(next)-1).Draw(t, label+"_c")]
		}
		k = string(b)
	}
	for _, r := range ReservedKeys {
		if k == r {
			k += "_"
		}
	}
	return k
}

// MaxExactInt is 2^53: every integer of magnitude up to it is a float64.
const MaxExactInt = int64(1) << 53

var intBoundaries = []int64{0, 1, -1, 2, 10, 255, 256, 65535, 1<<31 - 1, 1 << 31, -(1 << 31), 1 << 32, 1<<53 - 1, 1 << 53, -(1<<53 - 1), -(1 << 53),
	999999, 1000000, 1e15, 4503599627370496, 9007199254740990}

// Int draws an integer with |x| <= 2^53, biased to small values and to the boundaries.
func Int(t *rapid.T, label string) int64 {
	switch rapid.IntRange(0, 3).Draw(t, label+"_mode") {
	case 0:
		return int64(rapid.IntRange(-20, 1000).Draw(t, label))
	case 1:
		return rapid.SampledFrom(intBoundaries).Draw(t, label)
	default:
		return rapid.Int64Range(-MaxExactInt, MaxExactInt).Draw(t, label)
	}
}

var floatSpecials = []float64{0, math.Copysign(0, -1), 0.5, -0.5, 1, 3, -7, 0.1, 1e-7, 1e-6, 9.999999e-7, 1e20, 1e21, 9.99e20, 123456789012345680000, 1.5e300,
	math.MaxFloat64, -math.MaxFloat64, math.SmallestNonzeroFloat64, 2.2250738585072014e-308, 1 << 53, 1<<53 + 2, 0.30000000000000004, 1e22, 1e23, 3.14}

// Float draws a finite float64 (integral values, -0, subnormals and the
// exponent-format thresholds of JSON encoders included).
func Float(t *rapid.T, label string) float64 {
	switch rapid.IntRange(0, 3).Draw(t, label+"_mode") {
	case 0:
		return rapid.SampledFrom(floatSpecials).Draw(t, label)
	case 1:
		return float64(rapid.IntRange(-100000, 100000).Draw(t, label)) / 1000
	default:
		return rapid.Float64().Draw(t, label)
	}
}

// Value draws one annotation value from the grammar
// str | int | float | bool | map[string]int | map[string]string | []int.
func Value(t *rapid.T, label string, hostileKeys bool) Val {
	switch rapid.IntRange(0, 11).Draw(t, label+"_kind") {
	case 0, 1, 2, 3, 4:
		return Val{Kind: "str", Str: Text(t, label+"_s", 12)}
	case 5, 6:
		return Val{Kind: "int", Int: Int(t, label+"_i")}
	case 7:
		return Val{Kind: "float", Float: Float(t, label+"_f")}
	case 8:
		return Val{Kind: "bool", Bool: rapid.Bool().Draw(t, label+"_b")}
	case 9:
		n := rapid.IntRange(0, 3).Draw(t, label+"_mn")
		m := map[string]int64{}
		for i := 0; i < n; i++ {
			m[Key(t, label+"_mk", hostileKeys)] = Int(t, label+"_mv")
		}
		return Val{Kind: "mapint", MapInt: m}
	case 10:
		n := rapid.IntRange(0, 3).Draw(t, label+"_mn")
		m := map[string]string{}
		for i := 0; i < n; i++ {
			m[Key(t, label+"_mk", hostileKeys)] = Text(t, label+"_mv", 8)
		}
		return Val{Kind: "mapstr", MapStr: m}
	default:
		n := rapid.IntRange(0, 4).Draw(t, label+"_ln")
		l := make([]int64, n)
		for i := range l {
			l[i] = Int(t, label+"_lv")
		}
		return Val{Kind: "ints", Ints: l}
	}
}

// RecordOpt tunes Record.
type RecordOpt struct {
	MaxLen      int    // maximum sequence length (default 300); minimum is 1
	Alphabet    string // nucleotide alphabet (default IUPAC)
	Qualities   int    // 0: some records carry qualities, +1: all, -1: none
	MaxQual     int    // largest generated quality (default 93; up to 255)
	MaxAnnots   int    // maximum number of annotations (default 5)
	HostileKeys bool   // allow arbitrary text as annotation / nested map keys
	NoDef       bool   // never generate a definition
}

var qualBoundaries = []int{0, 1, 2, 10, 29, 31, 40, 41, 62, 92, 93}

// Record draws one sequence record.
func Record(t *rapid.T, label string, o RecordOpt) Rec {
	if o.MaxLen <= 0 {
		o.MaxLen = 300
	}
	if o.Alphabet == "" {
		o.Alphabet = IUPAC
	}
	if o.MaxQual <= 0 {
		o.MaxQual = 93
	}
	if o.MaxAnnots == 0 {
		o.MaxAnnots = 5
	}
	var r Rec
	r.ID = Ident(t, label+"_id")
	if !o.NoDef && rapid.IntRange(0, 2).Draw(t, label+"_hasdef") > 0 {
		r.Def = Text(t, label+"_def", 16)
	}
	n := Len(t, label+"_len", 1, o.MaxLen, 60, 120)
	if rapid.Bool().Draw(t, label+"_acgt") {
		r.Seq = SeqMix(t, label+"_seq", n, ACGT, o.Alphabet, 10)
	} else {
		r.Seq = Seq(t, label+"_seq", n, o.Alphabet)
	}
	withQ := o.Qualities > 0 || (o.Qualities == 0 && rapid.Bool().Draw(t, label+"_hasq"))
	if withQ {
		q := rapid.SliceOfN(rapid.IntRange(0, o.MaxQual), n, n).Draw(t, label+"_q")
		k := rapid.IntRange(0, 3).Draw(t, label+"_qb")
		for i := 0; i < k; i++ {
			p := rapid.SampledFrom([]int{0, 0, n - 1, n / 2}).Draw(t, label+"_qpos")
			b := rapid.SampledFrom(qualBoundaries).Draw(t, label+"_qval")
			if o.MaxQual > 93 && rapid.IntRange(0, 3).Draw(t, label+"_qhi") == 0 {
				b = rapid.SampledFrom([]int{94, 95, 127, 128, 222, 223, 255}).Draw(t, label+"_qhival")
				if b > o.MaxQual {
					b = o.MaxQual
				}
			}
			q[p] = b
		}
		r.Qual = q
	}
	na := rapid.IntRange(0, o.MaxAnnots).Draw(t, label+"_na")
	seen := map[string]bool{}
	for i := 0; i < na; i++ {
		k := Key(t, label+"_key", o.HostileKeys)
		for seen[k] {
			k += strconv.Itoa(i)
		}
		seen[k] = true
		r.Annots = append(r.Annots, Annot{Key: k, Val: Value(t, label+"_val", o.HostileKeys)})
	}
	return r
}
