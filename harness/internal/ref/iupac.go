// Package ref holds the independent reference models used as oracles.  Nothing
// in this package imports obitools4.
package ref

// IUPACSet gives, for a nucleotide code, the set of bases it stands for as a bit
// set over A=1, C=2, G=4, T=8.  The table is written out literally from the
// documentation table of doc/book/formats.qmd (U is T).  0 = not a nucleotide code.
func IUPACSet(c byte) uint8 {
	if c >= 'A' && c <= 'Z' {
		c |= 32
	}
	switch c {
	case 'a':
		return 1
	case 'c':
		return 2
	case 'g':
		return 4
	case 't', 'u':
		return 8
	case 'r': // A or G
		return 1 | 4
	case 'y': // C or T
		return 2 | 8
	case 'm': // C or A
		return 2 | 1
	case 'k': // T or G
		return 8 | 4
	case 'w': // T or A
		return 8 | 1
	case 's': // C or G
		return 2 | 4
	case 'b': // not A
		return 2 | 4 | 8
	case 'd': // not C
		return 1 | 4 | 8
	case 'h': // not G
		return 1 | 2 | 8
	case 'v': // not T
		return 1 | 2 | 4
	case 'n':
		return 15
	}
	return 0
}

// IUPACCompatible says whether two nucleotide codes share at least one base
// (symbols that are not nucleotide codes are compatible only when equal).
func IUPACCompatible(a, b byte) bool {
	sa, sb := IUPACSet(a), IUPACSet(b)
	if sa == 0 || sb == 0 {
		if a >= 'A' && a <= 'Z' {
			a |= 32
		}
		if b >= 'A' && b <= 'Z' {
			b |= 32
		}
		return a == b
	}
	return sa&sb != 0
}

// IUPACLetters is the 15-letter nucleotide alphabet (without u).
const IUPACLetters = "acgtrymkwsbdhvn"

// Complement returns the IUPAC complement of a code, keeping its case;
// '.', '-' stay, '[' and ']' are exchanged (mirror of a bracket group).
func Complement(c byte) byte {
	upper := c >= 'A' && c <= 'Z'
	l := c
	if upper {
		l |= 32
	}
	var r byte
	switch l {
	case 'a':
		r = 't'
	case 'c':
		r = 'g'
	case 'g':
		r = 'c'
	case 't', 'u':
		r = 'a'
	case 'r':
		r = 'y'
	case 'y':
		r = 'r'
	case 'm':
		r = 'k'
	case 'k':
		r = 'm'
	case 'w':
		r = 'w'
	case 's':
		r = 's'
	case 'b':
		r = 'v'
	case 'v':
		r = 'b'
	case 'd':
		r = 'h'
	case 'h':
		r = 'd'
	case 'n':
		r = 'n'
	case '[':
		return ']'
	case ']':
		return '['
	default:
		return c
	}
	if upper {
		r &^= 32
	}
	return r
}

// RevComp returns the reverse complement of s.
func RevComp(s string) string {
	b := make([]byte, len(s))
	for i := 0; i < len(s); i++ {
		b[len(s)-1-i] = Complement(s[i])
	}
	return string(b)
}
