package ref

import "fmt"

// Reference models for the paired-end aligner (property C08).  Nothing here
// shares code with obialign: plain row-major full matrices, the per-column
// score and the gap penalty are passed in by the caller.
//
// A path is the run-length encoding used by obialign: pairs (indel, diag);
// indel < 0 consumes -indel symbols of A alone, indel > 0 consumes indel
// symbols of B alone, diag >= 0 consumes diag symbols of both.
//
// Two "one side free end-gap" schemes are documented (obipairing: "3'-end gap
// free"; comments of the fill functions):
//
//	left : A-only columns are free as long as no symbol of B was consumed
//	       (B may start inside A); B-only columns are free once A is exhausted.
//	right: B-only columns are free as long as no symbol of A was consumed
//	       (A may start inside B); A-only columns are free once B is exhausted.
//
// Every other gap column costs gap (a negative number), every diagonal column
// scores score(i, j) for A[i] facing B[j].

// PEColumn is one column of a path laid over the two reads: IA / IB are the
// indices of the symbols of A and B in the column, -1 for a gap.
type PEColumn struct{ IA, IB int }

// PEColumns checks that path is well formed for reads of lengths la and lb
// (even number of entries, non negative diagonal runs, both reads consumed
// exactly) and returns its columns.
func PEColumns(path []int, la, lb int) ([]PEColumn, error) {
	if len(path) == 0 || len(path)%2 != 0 {
		return nil, fmt.Errorf("path %v does not hold (indel, diagonal) pairs", path)
	}
	var cols []PEColumn
	i, j := 0, 0
	for k := 0; k < len(path); k += 2 {
		indel, diag := path[k], path[k+1]
		if diag < 0 {
			return nil, fmt.Errorf("path %v: negative diagonal run %d at entry %d", path, diag, k+1)
		}
		switch {
		case indel < 0:
			for x := 0; x < -indel; x++ {
				if i >= la {
					return nil, fmt.Errorf("path %v consumes more than the %d symbols of A", path, la)
				}
				cols = append(cols, PEColumn{i, -1})
				i++
			}
		case indel > 0:
			for x := 0; x < indel; x++ {
				if j >= lb {
					return nil, fmt.Errorf("path %v consumes more than the %d symbols of B", path, lb)
				}
				cols = append(cols, PEColumn{-1, j})
				j++
			}
		}
		for x := 0; x < diag; x++ {
			if i >= la || j >= lb {
				return nil, fmt.Errorf("path %v consumes more than the reads hold (|A|=%d, |B|=%d)", path, la, lb)
			}
			cols = append(cols, PEColumn{i, j})
			i++
			j++
		}
	}
	if i != la || j != lb {
		return nil, fmt.Errorf("path %v consumes %d symbols of A (has %d) and %d of B (has %d)", path, i, la, j, lb)
	}
	return cols, nil
}

// PEPathScore scores the columns under one of the two schemes.  Integer
// arithmetic wraps like the aligner's own.
func PEPathScore(cols []PEColumn, la, lb int, score func(i, j int) int, gap int, left bool) int {
	s := 0
	usedA, usedB := 0, 0
	for _, c := range cols {
		switch {
		case c.IA >= 0 && c.IB >= 0:
			s += score(c.IA, c.IB)
			usedA++
			usedB++
		case c.IA >= 0: // A alone
			free := (left && usedB == 0) || (!left && usedB == lb)
			if !free {
				s += gap
			}
			usedA++
		default: // B alone
			free := (left && usedA == la) || (!left && usedA == 0)
			if !free {
				s += gap
			}
			usedB++
		}
	}
	return s
}

// PEOptimum returns the best score of any alignment of the two reads under the
// scheme and the number of distinct optimal paths (saturating at 2).
func PEOptimum(la, lb int, score func(i, j int) int, gap int, left bool) (best int, nopt int) {
	H := make([][]int, la+1)
	N := make([][]uint8, la+1)
	for i := range H {
		H[i] = make([]int, lb+1)
		N[i] = make([]uint8, lb+1)
	}
	costA := func(i, j int) int { // cost of consuming A[i-1] alone when j symbols of B are consumed
		if (left && j == 0) || (!left && j == lb) {
			return 0
		}
		return gap
	}
	costB := func(i, j int) int { // cost of consuming B[j-1] alone when i symbols of A are consumed
		if (left && i == la) || (!left && i == 0) {
			return 0
		}
		return gap
	}
	N[0][0] = 1
	for i := 1; i <= la; i++ {
		H[i][0] = H[i-1][0] + costA(i, 0)
		N[i][0] = 1
	}
	for j := 1; j <= lb; j++ {
		H[0][j] = H[0][j-1] + costB(0, j)
		N[0][j] = 1
	}
	for i := 1; i <= la; i++ {
		for j := 1; j <= lb; j++ {
			d := H[i-1][j-1] + score(i-1, j-1)
			u := H[i-1][j] + costA(i, j)
			l := H[i][j-1] + costB(i, j)
			m := d
			if u > m {
				m = u
			}
			if l > m {
				m = l
			}
			var n uint8
			if d == m {
				n += N[i-1][j-1]
			}
			if u == m {
				n += N[i-1][j]
			}
			if l == m {
				n += N[i][j-1]
			}
			if n > 2 {
				n = 2
			}
			H[i][j] = m
			N[i][j] = n
		}
	}
	return H[la][lb], int(N[la][lb])
}

// FourMerDiagonals counts, for every offset d of B relative to A (B[p] faces
// A[p+d]), the positions p at which the 4-mers B[p:p+4] and A[p+d:p+d+4] are
// equal.  Offsets without a shared 4-mer are absent.
func FourMerDiagonals(a, b string) map[int]int {
	out := map[int]int{}
	for p := 0; p+4 <= len(b); p++ {
		for q := 0; q+4 <= len(a); q++ {
			if a[q:q+4] == b[p:p+4] {
				out[q-p]++
			}
		}
	}
	return out
}

// DiagonalOverlap is the number of columns in which both reads are present
// when B is laid at offset d of A.
func DiagonalOverlap(la, lb, d int) int {
	lo := 0
	if d > lo {
		lo = d
	}
	hi := la
	if d+lb < hi {
		hi = d + lb
	}
	if hi < lo {
		return 0
	}
	return hi - lo
}
