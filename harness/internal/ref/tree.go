package ref

import (
	"fmt"
	"sort"
	"strings"
)

// Tree is the harness' own model of a taxonomy: a rooted tree given by a parent
// array over node indices (Parent[0] == 0 is the root, Parent[i] < i for i > 0:
// a "recursive tree"), one distinct taxid, one rank label and one scientific
// name per node, plus merged-id aliases (old taxid -> node).  Every query is
// answered by the most naive walk along the parent links; nothing here shares
// code or data structures with pkg/obitax.
type Tree struct {
	Parent []int    // node index of the parent; Parent[0] == 0
	Taxid  []int    // taxid of node i (all distinct)
	Rank   []string // rank label of node i
	Name   []string // scientific name of node i
	Alias  [][2]int // {old taxid, node index}; old taxids are distinct and are not taxids of nodes

	index map[int]int // taxid -> node (built lazily)
	alias map[int]int // old taxid -> node
	depth []int
}

// Validate checks the structural invariants the generators promise.
func (t *Tree) Validate() error {
	n := len(t.Parent)
	if n == 0 {
		return fmt.Errorf("empty tree")
	}
	if len(t.Taxid) != n || len(t.Rank) != n || len(t.Name) != n {
		return fmt.Errorf("array lengths differ: %d parents, %d taxids, %d ranks, %d names", n, len(t.Taxid), len(t.Rank), len(t.Name))
	}
	if t.Parent[0] != 0 {
		return fmt.Errorf("node 0 must be the root (its own parent)")
	}
	seen := map[int]bool{}
	for i := 0; i < n; i++ {
		if i > 0 && (t.Parent[i] < 0 || t.Parent[i] >= i) {
			return fmt.Errorf("parent[%d]=%d is not < %d", i, t.Parent[i], i)
		}
		if seen[t.Taxid[i]] {
			return fmt.Errorf("taxid %d used twice", t.Taxid[i])
		}
		seen[t.Taxid[i]] = true
	}
	for _, a := range t.Alias {
		if seen[a[0]] {
			return fmt.Errorf("alias %d collides with another taxid or alias", a[0])
		}
		seen[a[0]] = true
		if a[1] < 0 || a[1] >= n {
			return fmt.Errorf("alias %d points to node %d out of range", a[0], a[1])
		}
	}
	return nil
}

func (t *Tree) prepare() {
	if t.index != nil {
		return
	}
	n := len(t.Parent)
	t.index = make(map[int]int, n)
	t.alias = make(map[int]int, len(t.Alias))
	t.depth = make([]int, n)
	for i := 0; i < n; i++ {
		t.index[t.Taxid[i]] = i
		if i > 0 {
			t.depth[i] = t.depth[t.Parent[i]] + 1
		}
	}
	for _, a := range t.Alias {
		t.alias[a[0]] = a[1]
	}
}

// N is the number of nodes.
func (t *Tree) N() int { return len(t.Parent) }

// Depth of node i (root: 0).
func (t *Tree) Depth(i int) int { t.prepare(); return t.depth[i] }

// Resolve maps a taxid to a node: current taxids first, merged (old) taxids
// second.  viaAlias tells which table answered.
func (t *Tree) Resolve(taxid int) (node int, viaAlias, ok bool) {
	t.prepare()
	if i, ok := t.index[taxid]; ok {
		return i, false, true
	}
	if i, ok := t.alias[taxid]; ok {
		return i, true, true
	}
	return -1, false, false
}

// PathToRoot lists the nodes from i up to and including the root.
func (t *Tree) PathToRoot(i int) []int {
	p := []int{i}
	for i != 0 {
		i = t.Parent[i]
		p = append(p, i)
	}
	return p
}

// IsAncestorOrSelf reports whether anc lies on the path from i to the root.
func (t *Tree) IsAncestorOrSelf(anc, i int) bool {
	for {
		if i == anc {
			return true
		}
		if i == 0 {
			return false
		}
		i = t.Parent[i]
	}
}

// LCA is the deepest node that is an ancestor-or-self of both a and b: lift the
// deeper node to the depth of the other, then lift both until they meet.
func (t *Tree) LCA(a, b int) int {
	t.prepare()
	for t.depth[a] > t.depth[b] {
		a = t.Parent[a]
	}
	for t.depth[b] > t.depth[a] {
		b = t.Parent[b]
	}
	for a != b {
		a, b = t.Parent[a], t.Parent[b]
	}
	return a
}

// LCAOfSet folds LCA over a non-empty list of nodes.
func (t *Tree) LCAOfSet(nodes []int) int {
	l := nodes[0]
	for _, x := range nodes[1:] {
		l = t.LCA(l, x)
	}
	return l
}

// LCABrute is a second, definition-level LCA used to cross-check LCA itself in
// the harness' self tests: among the common ancestors-or-self, the deepest.
func (t *Tree) LCABrute(a, b int) int {
	t.prepare()
	best := 0
	for x := 0; x < len(t.Parent); x++ {
		if t.IsAncestorOrSelf(x, a) && t.IsAncestorOrSelf(x, b) && t.depth[x] > t.depth[best] {
			best = x
		}
	}
	return best
}

// AtRank returns the first node on the path from i to the root (i included)
// whose rank label is rank, or -1.
func (t *Tree) AtRank(i int, rank string) int {
	for {
		if t.Rank[i] == rank {
			return i
		}
		if i == 0 {
			return -1
		}
		i = t.Parent[i]
	}
}

// InAnyClade reports whether i is an ancestor-or-self descendant of one of the nodes.
func (t *Tree) InAnyClade(i int, clades []int) bool {
	for _, c := range clades {
		if t.IsAncestorOrSelf(c, i) {
			return true
		}
	}
	return false
}

// Ranks lists the distinct rank labels used in the tree (sorted).
func (t *Tree) Ranks() []string {
	m := map[string]bool{}
	for _, r := range t.Rank {
		m[r] = true
	}
	out := make([]string, 0, len(m))
	for r := range m {
		out = append(out, r)
	}
	sort.Strings(out)
	return out
}

// ------------------------------------------------------------------ NCBI dump files

// DumpStyle selects the layout of the generated NCBI taxdump files.
type DumpStyle struct {
	FullColumns bool  // nodes.dmp with the 13 columns of the real dump instead of the 3 that are read
	Synonyms    bool  // names.dmp carries additional non-scientific names around the scientific one
	Order       []int // order in which the nodes are written (a permutation of 0..n-1); nil = index order
}

func dmpLine(fields ...string) string {
	return strings.Join(fields, "\t|\t") + "\t|\n"
}

// NCBIDump renders nodes.dmp, names.dmp and merged.dmp in the format of the
// NCBI taxonomy dump ("field<TAB>|<TAB>field<TAB>|<newline>"; the root is its
// own parent; each node has exactly one "scientific name" line).
func (t *Tree) NCBIDump(st DumpStyle) (nodes, names, merged string) {
	n := len(t.Parent)
	order := st.Order
	if len(order) != n {
		order = make([]int, n)
		for i := range order {
			order[i] = i
		}
	}
	var nb, mb, gb strings.Builder
	for _, i := range order {
		tid := fmt.Sprint(t.Taxid[i])
		par := fmt.Sprint(t.Taxid[t.Parent[i]])
		if st.FullColumns {
			nb.WriteString(dmpLine(tid, par, t.Rank[i], "", "8", "0", "1", "0", "0", "0", "0", "0", ""))
		} else {
			nb.WriteString(dmpLine(tid, par, t.Rank[i]))
		}
		if st.Synonyms && i%2 == 0 {
			mb.WriteString(dmpLine(tid, "syn "+t.Name[i], "", "synonym"))
		}
		mb.WriteString(dmpLine(tid, t.Name[i], "", "scientific name"))
		if st.Synonyms {
			mb.WriteString(dmpLine(tid, "common "+tid, "", "genbank common name"))
			if i%3 == 0 {
				mb.WriteString(dmpLine(tid, t.Name[i]+" auth. 1999", "", "authority"))
			}
		}
	}
	for _, a := range t.Alias {
		gb.WriteString(dmpLine(fmt.Sprint(a[0]), fmt.Sprint(t.Taxid[a[1]])))
	}
	return nb.String(), mb.String(), gb.String()
}

// ------------------------------------------------------------------ enumeration

// RecursiveTrees calls f with every parent array of size n with Parent[0]=0 and
// Parent[i] < i ((n-1)! arrays), in lexicographic order.  The slice is reused.
func RecursiveTrees(n int, f func(idx int, parent []int)) int {
	p := make([]int, n)
	idx := 0
	var rec func(i int)
	rec = func(i int) {
		if i == n {
			f(idx, p)
			idx++
			return
		}
		for v := 0; v < i; v++ {
			p[i] = v
			rec(i + 1)
		}
	}
	if n >= 1 {
		rec(1)
	}
	return idx
}
