package ref

// LCS returns the length of the longest common subsequence of a and b under
// the symbol compatibility relation same, together with the length (number of
// columns) of the shortest global alignment that realises that LCS.  An
// alignment column is a diagonal (match or mismatch) or a gap; its LCS score is
// the number of compatible diagonals.  Plain full-matrix dynamic program.
func LCS(a, b string, same func(x, y byte) bool) (lcs, alilen int) {
	n, m := len(a), len(b)
	type cell struct{ s, l int }
	better := func(x, y cell) cell { // higher score, then shorter path
		if x.s > y.s || (x.s == y.s && x.l < y.l) {
			return x
		}
		return y
	}
	prev := make([]cell, m+1)
	cur := make([]cell, m+1)
	for j := 0; j <= m; j++ {
		prev[j] = cell{0, j}
	}
	for i := 1; i <= n; i++ {
		cur[0] = cell{0, i}
		for j := 1; j <= m; j++ {
			d := prev[j-1]
			if same(a[i-1], b[j-1]) {
				d.s++
			}
			d.l++
			u := prev[j]
			u.l++
			l := cur[j-1]
			l.l++
			cur[j] = better(d, better(u, l))
		}
		prev, cur = cur, prev
	}
	return prev[m].s, prev[m].l
}

// Levenshtein is the unit-cost edit distance under strict byte equality.
func Levenshtein(a, b string) int {
	return EditDistance(a, b, func(x, y byte) bool { return x == y })
}

// EditDistance is the unit-cost edit distance under the relation same.
func EditDistance(a, b string, same func(x, y byte) bool) int {
	n, m := len(a), len(b)
	prev := make([]int, m+1)
	cur := make([]int, m+1)
	for j := 0; j <= m; j++ {
		prev[j] = j
	}
	for i := 1; i <= n; i++ {
		cur[0] = i
		for j := 1; j <= m; j++ {
			c := prev[j-1]
			if !same(a[i-1], b[j-1]) {
				c++
			}
			if v := prev[j] + 1; v < c {
				c = v
			}
			if v := cur[j-1] + 1; v < c {
				c = v
			}
			cur[j] = c
		}
		prev, cur = cur, prev
	}
	return prev[m]
}

// Hamming counts the positions at which a and b (equal length) are not related by same.
func Hamming(a, b string, same func(x, y byte) bool) int {
	d := 0
	for i := 0; i < len(a) && i < len(b); i++ {
		if !same(a[i], b[i]) {
			d++
		}
	}
	return d
}

// SellersEnds runs Sellers' approximate matching of pat against text (free
// start in text).  It returns for each end position e (0..len(text)) the minimum
// edit distance between pat and some substring of text ending at e (exclusive).
func SellersEnds(pat, text string, match func(pi int, c byte) bool) []int {
	n, m := len(pat), len(text)
	prev := make([]int, m+1) // row i-1
	cur := make([]int, m+1)
	for i := 1; i <= n; i++ {
		cur[0] = i
		for j := 1; j <= m; j++ {
			c := prev[j-1]
			if !match(i-1, text[j-1]) {
				c++
			}
			if v := prev[j] + 1; v < c {
				c = v
			}
			if v := cur[j-1] + 1; v < c {
				c = v
			}
			cur[j] = c
		}
		prev, cur = cur, prev
	}
	return prev
}

// LCSBanded is LCS restricted to the cells with |i-j| <= band.  It is exact
// whenever some optimal alignment stays inside the band, which is guaranteed when
// the two sequences are known to be at most band/2 edits apart (an alignment with
// score >= n-k has at most 2k gap columns).  Memory O(band), time O(n*band).
func LCSBanded(a, b string, band int, same func(x, y byte) bool) (lcs, alilen int) {
	n, m := len(a), len(b)
	if d := n - m; d > band || -d > band {
		return -1, -1
	}
	type cell struct{ s, l int }
	const none = -1 << 30
	better := func(x, y cell) cell {
		if x.s > y.s || (x.s == y.s && x.l < y.l) {
			return x
		}
		return y
	}
	w := 2*band + 1
	prev := make([]cell, w)
	cur := make([]cell, w)
	// row 0: cells (0, j) for j in [0, band]
	for k := range prev {
		prev[k] = cell{none, 0}
	}
	for j := 0; j <= band && j <= m; j++ {
		prev[j+band] = cell{0, j} // index k = j - i + band
	}
	for i := 1; i <= n; i++ {
		for k := range cur {
			cur[k] = cell{none, 0}
		}
		for k := 0; k < w; k++ {
			j := i + k - band
			if j < 0 || j > m {
				continue
			}
			best := cell{none, 0}
			if j == 0 {
				best = cell{0, i}
			} else {
				// diagonal: (i-1, j-1) has the same k
				if d := prev[k]; d.s > none/2 {
					if same(a[i-1], b[j-1]) {
						d.s++
					}
					d.l++
					best = better(d, best)
				}
				// left: (i, j-1) is k-1 in the current row
				if k > 0 {
					if l := cur[k-1]; l.s > none/2 {
						l.l++
						best = better(l, best)
					}
				}
			}
			// up: (i-1, j) is k+1 in the previous row
			if j > 0 || true {
				if k+1 < w {
					if u := prev[k+1]; u.s > none/2 && j >= 0 {
						u.l++
						if j == 0 {
							// first column already set to (0,i)
						} else {
							best = better(u, best)
						}
					}
				}
			}
			cur[k] = best
		}
		prev, cur = cur, prev
	}
	k := m - n + band
	if k < 0 || k >= w || prev[k].s <= none/2 {
		return -1, -1
	}
	return prev[k].s, prev[k].l
}
