package ref

// String-level reference models of the sequence container operations
// (reverse complement, linear / circular window, position-bearing annotation
// transforms).  Written from the property wording and from the convention of
// the *producer* of the position-bearing annotation (obialign.BuildQualityConsensus:
// key "(%c:%02d)->(%c:%02d)" upper-cased = (base of read A : its quality)->(base
// of read B : its quality), value = 1-based position in the consensus), never
// from the transform code under test.

import (
	"fmt"
	"sort"
	"strconv"
	"strings"
)

// LowerASCII lower-cases the ASCII letters of s and leaves everything else alone.
func LowerASCII(s string) string {
	b := []byte(s)
	for i, c := range b {
		if c >= 'A' && c <= 'Z' {
			b[i] = c | 32
		}
	}
	return string(b)
}

// ReverseBytes returns a reversed copy of b (nil stays nil).
func ReverseBytes(b []byte) []byte {
	if b == nil {
		return nil
	}
	r := make([]byte, len(b))
	for i, c := range b {
		r[len(b)-1-i] = c
	}
	return r
}

// CircularWindow returns the window of length `length` starting at 0-based
// `start` of s concatenated with itself: (s+s)[start:start+length].
// Requires 0 <= start < len(s), 1 <= length <= len(s).  A linear window is the
// special case start+length <= len(s).
func CircularWindow(s string, start, length int) string {
	return (s + s)[start : start+length]
}

// CircularWindowBytes is CircularWindow for quality vectors (nil stays nil).
func CircularWindowBytes(b []byte, start, length int) []byte {
	if b == nil {
		return nil
	}
	d := append(append([]byte{}, b...), b...)
	return append([]byte{}, d[start:start+length]...)
}

// MismatchSide is one half "(X:qq)" of a pairing_mismatches key.
type MismatchSide struct {
	Nuc  byte // upper case
	Qual int
}

// ParseMismatchKey decodes "(X:qq)->(Y:qq)" (any letter case).
func ParseMismatchKey(key string) (a, b MismatchSide, err error) {
	parts := strings.Split(key, "->")
	if len(parts) != 2 {
		return a, b, fmt.Errorf("mismatch key %q is not of the form (X:qq)->(Y:qq)", key)
	}
	side := func(p string) (MismatchSide, error) {
		if len(p) < 5 || p[0] != '(' || p[len(p)-1] != ')' || p[2] != ':' {
			return MismatchSide{}, fmt.Errorf("mismatch key %q is not of the form (X:qq)->(Y:qq)", key)
		}
		q, e := strconv.Atoi(p[3 : len(p)-1])
		if e != nil {
			return MismatchSide{}, fmt.Errorf("mismatch key %q: quality not a number", key)
		}
		n := p[1]
		if n >= 'a' && n <= 'z' {
			n &^= 32
		}
		return MismatchSide{n, q}, nil
	}
	if a, err = side(parts[0]); err != nil {
		return
	}
	b, err = side(parts[1])
	return
}

// FormatMismatchKey writes a key exactly as the producer does.
func FormatMismatchKey(a, b MismatchSide) string {
	return strings.ToUpper(fmt.Sprintf("(%c:%02d)->(%c:%02d)", a.Nuc, a.Qual, b.Nuc, b.Qual))
}

// CanonMismatchKey is the identity of a key irrespective of letter case and of
// which read is written first: the two "(base:quality)" sides as an unordered
// pair.  (The property fixes the coordinate transform of the positions; which
// read is named first after a strand change is a presentation choice.)
func CanonMismatchKey(key string) (string, error) {
	a, b, err := ParseMismatchKey(key)
	if err != nil {
		return "", err
	}
	return canonSides(a, b), nil
}

func canonSides(a, b MismatchSide) string {
	s := []string{fmt.Sprintf("%c:%02d", a.Nuc, a.Qual), fmt.Sprintf("%c:%02d", b.Nuc, b.Qual)}
	sort.Strings(s)
	return s[0] + "~" + s[1]
}

// CanonMismatches turns a key->position map into canonical-key->position.  Two
// keys with the same canonical form are an error (generators avoid them).
func CanonMismatches(m map[string]int) (map[string]int, error) {
	out := make(map[string]int, len(m))
	for k, p := range m {
		c, err := CanonMismatchKey(k)
		if err != nil {
			return nil, err
		}
		if _, dup := out[c]; dup {
			return nil, fmt.Errorf("two mismatch keys share the canonical form %s", c)
		}
		out[c] = p
	}
	return out, nil
}

// MismatchesWindow gives the canonical map of the window (start, length) of a
// circular or linear sequence of length n: the 1-based position p stands at
// p and p+n in the doubled sequence; it is kept iff one of them lies in
// (start, start+length] and becomes that value minus start.
func MismatchesWindow(canon map[string]int, n, start, length int) map[string]int {
	out := map[string]int{}
	for k, p := range canon {
		for _, q := range []int{p, p + n} {
			if q > start && q <= start+length {
				out[k] = q - start
				break
			}
		}
	}
	return out
}

// MismatchesRevComp gives the canonical map after reverse complement of a
// sequence of length n: position p -> n-p+1, both bases complemented.
func MismatchesRevComp(canon map[string]int, n int) map[string]int {
	out := map[string]int{}
	for k, p := range canon {
		// canonical form "X:qq~Y:qq"
		sides := strings.Split(k, "~")
		var ms [2]MismatchSide
		for i, s := range sides {
			q, _ := strconv.Atoi(s[2:])
			ms[i] = MismatchSide{Complement(s[0]), q}
		}
		out[canonSides(ms[0], ms[1])] = n - p + 1
	}
	return out
}
