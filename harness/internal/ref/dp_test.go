package ref

import (
	"math/rand"
	"testing"
)

// the banded DP agrees with the full DP on random near-identical pairs
func TestLCSBandedAgainstFull(t *testing.T) {
	r := rand.New(rand.NewSource(7))
	for it := 0; it < 3000; it++ {
		n := 1 + r.Intn(60)
		a := make([]byte, n)
		for i := range a {
			a[i] = "acgt"[r.Intn(4)]
		}
		b := append([]byte{}, a...)
		k := r.Intn(5)
		for e := 0; e < k; e++ {
			switch r.Intn(3) {
			case 0:
				if len(b) > 0 {
					b[r.Intn(len(b))] = "acgt"[r.Intn(4)]
				}
			case 1:
				p := r.Intn(len(b) + 1)
				b = append(b[:p], append([]byte{"acgt"[r.Intn(4)]}, b[p:]...)...)
			case 2:
				if len(b) > 0 {
					p := r.Intn(len(b))
					b = append(b[:p], b[p+1:]...)
				}
			}
		}
		eq := func(x, y byte) bool { return x == y }
		L, AL := LCS(string(a), string(b), eq)
		l, al := LCSBanded(string(a), string(b), 2*k+2, eq)
		if l != L || al != AL {
			t.Fatalf("a=%s b=%s k=%d: banded (%d,%d) full (%d,%d)", a, b, k, l, al, L, AL)
		}
	}
}
