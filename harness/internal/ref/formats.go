package ref

import (
	"bytes"
	"fmt"
	"strings"
)

// Rec is the harness' own, format-independent picture of a sequence record as
// it appears in a FASTA/FASTQ file: Title is everything after the identifier on
// the title line (JSON annotations + definition for tool-written files).
type Rec struct {
	ID    string
	Title string // rest of the title line after the first blank run (leading/trailing blanks trimmed)
	Seq   string
	Qual  []byte // raw quality characters (ASCII, not shifted); nil for FASTA
}

func splitTitle(line string) (id, rest string) {
	line = strings.TrimRight(line, "\r")
	i := strings.IndexAny(line, " \t")
	if i < 0 {
		return line, ""
	}
	return line[:i], strings.TrimSpace(line[i+1:])
}

// ParseFasta is a plain line-based FASTA reader (no obitools4 code involved).
func ParseFasta(data []byte) ([]Rec, error) {
	var recs []Rec
	var cur *Rec
	var sb strings.Builder
	flush := func() {
		if cur != nil {
			cur.Seq = sb.String()
			recs = append(recs, *cur)
			sb.Reset()
		}
	}
	for n, raw := range bytes.Split(data, []byte("\n")) {
		line := strings.TrimRight(string(raw), "\r")
		if strings.HasPrefix(line, ">") {
			flush()
			id, rest := splitTitle(line[1:])
			cur = &Rec{ID: id, Title: rest}
			continue
		}
		if strings.TrimSpace(line) == "" {
			continue
		}
		if cur == nil {
			return nil, fmt.Errorf("line %d: sequence data before the first title line", n+1)
		}
		sb.WriteString(strings.TrimSpace(line))
	}
	flush()
	return recs, nil
}

// ParseFastq is a strict 4-line FASTQ reader.
func ParseFastq(data []byte) ([]Rec, error) {
	lines := strings.Split(string(data), "\n")
	if n := len(lines); n > 0 && lines[n-1] == "" {
		lines = lines[:n-1]
	}
	var recs []Rec
	for i := 0; i < len(lines); i += 4 {
		if i+3 >= len(lines) {
			return nil, fmt.Errorf("line %d: truncated FASTQ record", i+1)
		}
		h := strings.TrimRight(lines[i], "\r")
		if !strings.HasPrefix(h, "@") {
			return nil, fmt.Errorf("line %d: title line does not start with @", i+1)
		}
		if !strings.HasPrefix(lines[i+2], "+") {
			return nil, fmt.Errorf("line %d: separator line does not start with +", i+3)
		}
		id, rest := splitTitle(h[1:])
		seq := strings.TrimRight(lines[i+1], "\r")
		q := strings.TrimRight(lines[i+3], "\r")
		if len(q) != len(seq) {
			return nil, fmt.Errorf("line %d: %d quality characters for %d nucleotides", i+4, len(q), len(seq))
		}
		recs = append(recs, Rec{ID: id, Title: rest, Seq: seq, Qual: []byte(q)})
	}
	return recs, nil
}

// SplitJSONTitle separates the leading JSON object of an obitools title from
// the definition that follows it, using a real JSON scanner (string-aware brace
// matching).  ok is false when the title does not start with a JSON object.
func SplitJSONTitle(title string) (jsonPart, definition string, ok bool) {
	t := strings.TrimLeft(title, " \t")
	if !strings.HasPrefix(t, "{") {
		return "", strings.TrimSpace(title), false
	}
	depth, inStr, esc := 0, false, false
	for i := 0; i < len(t); i++ {
		c := t[i]
		switch {
		case esc:
			esc = false
		case inStr:
			if c == '\\' {
				esc = true
			} else if c == '"' {
				inStr = false
			}
		case c == '"':
			inStr = true
		case c == '{':
			depth++
		case c == '}':
			depth--
			if depth == 0 {
				return t[:i+1], strings.TrimSpace(t[i+1:]), true
			}
		}
	}
	return "", strings.TrimSpace(title), false
}
