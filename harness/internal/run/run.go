// Package run executes the real obitools4 commands (built by the driver from the
// tree under test with -tags verif into $VERIF_BIN) as subprocesses.
package run

import (
	"bytes"
	"context"
	"errors"
	"fmt"
	"io"
	"os"
	"os/exec"
	"path/filepath"
	"syscall"
	"time"
	"unsafe"
)

// Bin returns the path of a command built by the driver (see evid.Commands).
func Bin(name string) string { return filepath.Join(os.Getenv("VERIF_BIN"), name) }

// Have reports whether the driver built the named command.
func Have(name string) bool {
	_, err := os.Stat(Bin(name))
	return err == nil
}

// Result of one process.
type Result struct {
	Stdout, Stderr []byte
	Exit           int  // exit status (-1 if killed)
	TimedOut       bool // killed by the per-process timer: inconclusive, never a verdict by itself
	NoTTY          bool // Opt.StderrTTY was asked for and no pseudo-terminal could be opened (the process was not run)
	Err            error
	Wall           time.Duration
}

// Opt tunes one execution.
type Opt struct {
	Stdin   []byte
	Env     []string // appended to a clean environment (PATH, HOME, TMPDIR only)
	Dir     string
	Timeout time.Duration // default 60 s
	// StderrTTY: the standard error of the child is a pseudo-terminal (what an interactive
	// user has: progress bars are drawn); Result.NoTTY is set when none could be opened.
	StderrTTY bool
	// StdinPieces > 1: the standard input is delivered in that many pieces, StdinPause apart
	// (a slow producer at the other end of the pipe).
	StdinPieces int
	StdinPause  time.Duration
}

// slowReader hands its data out in pieces separated by pauses.
type slowReader struct {
	data   []byte
	pieces int
	pause  time.Duration
	pos    int
	piece  int
}

func (r *slowReader) Read(p []byte) (int, error) {
	if r.pos >= len(r.data) {
		return 0, io.EOF
	}
	size := (len(r.data) + r.pieces - 1) / r.pieces
	end := min(len(r.data), (r.piece+1)*size)
	if r.pos >= end {
		r.piece++
		time.Sleep(r.pause)
		end = min(len(r.data), (r.piece+1)*size)
	}
	n := copy(p, r.data[r.pos:end])
	r.pos += n
	return n, nil
}

// openPTY returns the two ends of a new pseudo-terminal.
func openPTY() (master, slave *os.File, err error) {
	master, err = os.OpenFile("/dev/ptmx", os.O_RDWR|syscall.O_NOCTTY, 0)
	if err != nil {
		return nil, nil, err
	}
	var unlock int32
	if _, _, e := syscall.Syscall(syscall.SYS_IOCTL, master.Fd(), syscall.TIOCSPTLCK, uintptr(unsafe.Pointer(&unlock))); e != 0 {
		master.Close()
		return nil, nil, e
	}
	var n uint32
	if _, _, e := syscall.Syscall(syscall.SYS_IOCTL, master.Fd(), syscall.TIOCGPTN, uintptr(unsafe.Pointer(&n))); e != 0 {
		master.Close()
		return nil, nil, e
	}
	slave, err = os.OpenFile(fmt.Sprintf("/dev/pts/%d", n), os.O_RDWR|syscall.O_NOCTTY, 0)
	if err != nil {
		master.Close()
		return nil, nil, err
	}
	return master, slave, nil
}

// WorkDir returns the private directory of this test process (removed by the driver).
func WorkDir() string {
	if d := os.Getenv("VERIF_WORKDIR"); d != "" {
		return d
	}
	return os.TempDir()
}

// resource exhaustion of the (shared, possibly heavily loaded) machine kills Go
// programs with a runtime "fatal error" and exit status 2; such a death says
// nothing about the program under test.
var exhaustionMarks = []string{
	"failed to create new OS thread",
	"runtime: out of memory",
	"cannot allocate memory",
	"resource temporarily unavailable",
	"pthread_create failed",
	"fork/exec",
}

// ResourceExhausted reports whether the process died because the machine ran
// out of threads / memory (never a verdict: inconclusive).
func (r Result) ResourceExhausted() bool {
	if r.Exit == 0 {
		return false
	}
	for _, m := range exhaustionMarks {
		if bytes.Contains(r.Stderr, []byte(m)) {
			return true
		}
	}
	return r.Err != nil && r.Exit == -1 && !r.TimedOut
}

// Inconclusive is true when the result must not be used as a verdict.
func (r Result) Inconclusive() bool { return r.TimedOut || r.NoTTY || r.ResourceExhausted() }

// Cmd runs binary name (looked up with Bin unless it contains a slash) with args.
// A run that dies of resource exhaustion is retried (up to 3 times, after a pause).
func Cmd(o Opt, name string, args ...string) Result {
	var r Result
	for attempt := 0; attempt < 4; attempt++ {
		r = cmdOnce(o, name, args...)
		if !r.ResourceExhausted() {
			return r
		}
		time.Sleep(time.Duration(attempt+1) * 500 * time.Millisecond)
	}
	return r
}

func cmdOnce(o Opt, name string, args ...string) Result {
	if o.Timeout == 0 {
		o.Timeout = 60 * time.Second
	}
	path := name
	if filepath.Base(name) == name {
		path = Bin(name)
	}
	ctx, cancel := context.WithTimeout(context.Background(), o.Timeout)
	defer cancel()
	c := exec.CommandContext(ctx, path, args...)
	c.Env = append([]string{"PATH=/usr/bin:/bin", "HOME=" + WorkDir(), "TMPDIR=" + WorkDir()}, o.Env...)
	c.Dir = o.Dir
	if c.Dir == "" {
		c.Dir = WorkDir()
	}
	if o.Stdin != nil {
		c.Stdin = bytes.NewReader(o.Stdin)
		if o.StdinPieces > 1 {
			c.Stdin = &slowReader{data: o.Stdin, pieces: o.StdinPieces, pause: o.StdinPause}
		}
	}
	var so, se bytes.Buffer
	c.Stdout, c.Stderr = &so, &se
	var drained chan struct{}
	var master, slave *os.File
	if o.StderrTTY {
		var err error
		master, slave, err = openPTY()
		if err != nil {
			return Result{NoTTY: true, Exit: -1, Err: err}
		}
		c.Stderr = slave
		drained = make(chan struct{})
		go func() {
			io.Copy(&se, master) // ends with EIO once the last slave descriptor is closed
			close(drained)
		}()
	}
	c.SysProcAttr = &syscall.SysProcAttr{Setpgid: true}
	c.Cancel = func() error { return syscall.Kill(-c.Process.Pid, syscall.SIGKILL) }
	t0 := time.Now()
	err := c.Run()
	if master != nil {
		slave.Close()
		select {
		case <-drained:
		case <-time.After(2 * time.Second):
		}
		master.Close()
		<-drained
	}
	r := Result{Stdout: so.Bytes(), Stderr: se.Bytes(), Wall: time.Since(t0), Err: err}
	if ctx.Err() != nil {
		r.TimedOut = true
		r.Exit = -1
		return r
	}
	var ee *exec.ExitError
	switch {
	case err == nil:
		r.Exit = 0
	case errors.As(err, &ee):
		r.Exit = ee.ExitCode()
	default:
		r.Exit = -1
	}
	return r
}
