// Package run executes the real obitools4 commands (built by the driver from the
// tree under test with -tags verif into $VERIF_BIN) as subprocesses.
package run

import (
	"bytes"
	"context"
	"errors"
	"os"
	"os/exec"
	"path/filepath"
	"syscall"
	"time"
)

// Bin returns the path of a command built by the driver (see evid.Commands).
func Bin(name string) string { return filepath.Join(os.Getenv("VERIF_BIN"), name) }

// Have reports whether the driver built the named command.
func Have(name string) bool {
	_, err := os.Stat(Bin(name))
	return err == nil
}

// Result of one process.
type Result struct {
	Stdout, Stderr []byte
	Exit           int  // exit status (-1 if killed)
	TimedOut       bool // killed by the per-process timer: inconclusive, never a verdict by itself
	Err            error
	Wall           time.Duration
}

// Opt tunes one execution.
type Opt struct {
	Stdin   []byte
	Env     []string // appended to a clean environment (PATH, HOME, TMPDIR only)
	Dir     string
	Timeout time.Duration // default 60 s
}

// WorkDir returns the private directory of this test process (removed by the driver).
func WorkDir() string {
	if d := os.Getenv("VERIF_WORKDIR"); d != "" {
		return d
	}
	return os.TempDir()
}

// Cmd runs binary name (looked up with Bin unless it contains a slash) with args.
func Cmd(o Opt, name string, args ...string) Result {
	if o.Timeout == 0 {
		o.Timeout = 60 * time.Second
	}
	path := name
	if filepath.Base(name) == name {
		path = Bin(name)
	}
	ctx, cancel := context.WithTimeout(context.Background(), o.Timeout)
	defer cancel()
	c := exec.CommandContext(ctx, path, args...)
	c.Env = append([]string{"PATH=/usr/bin:/bin", "HOME=" + WorkDir(), "TMPDIR=" + WorkDir()}, o.Env...)
	c.Dir = o.Dir
	if c.Dir == "" {
		c.Dir = WorkDir()
	}
	if o.Stdin != nil {
		c.Stdin = bytes.NewReader(o.Stdin)
	}
	var so, se bytes.Buffer
	c.Stdout, c.Stderr = &so, &se
	c.SysProcAttr = &syscall.SysProcAttr{Setpgid: true}
	c.Cancel = func() error { return syscall.Kill(-c.Process.Pid, syscall.SIGKILL) }
	t0 := time.Now()
	err := c.Run()
	r := Result{Stdout: so.Bytes(), Stderr: se.Bytes(), Wall: time.Since(t0), Err: err}
	if ctx.Err() != nil {
		r.TimedOut = true
		r.Exit = -1
		return r
	}
	var ee *exec.ExitError
	switch {
	case err == nil:
		r.Exit = 0
	case errors.As(err, &ee):
		r.Exit = ee.ExitCode()
	default:
		r.Exit = -1
	}
	return r
}
