// Package run executes the real obitools4 commands (built by the driver from the
// tree under test with -tags verif into $VERIF_BIN) as subprocesses.
package run

import (
	"bytes"
	"context"
	"errors"
	"os"
	"os/exec"
	"path/filepath"
	"syscall"
	"time"
)

// Bin returns the path of a command built by the driver (see evid.Commands).
func Bin(name string) string { return filepath.Join(os.Getenv("VERIF_BIN"), name) }

// Have reports whether the driver built the named command.
func Have(name string) bool {
	_, err := os.Stat(Bin(name))
	return err == nil
}

// Result of one process.
type Result struct {
	Stdout, Stderr []byte
	Exit           int  // exit status (-1 if killed)
	TimedOut       bool // killed by the per-process timer: inconclusive, never a verdict by itself
	Err            error
	Wall           time.Duration
}

// Opt tunes one execution.
type Opt struct {
	Stdin   []byte
	Env     []string // appended to a clean environment (PATH, HOME, TMPDIR only)
	Dir     string
	Timeout time.Duration // default 60 s
}

// WorkDir returns the private directory of this test process (removed by the driver).
func WorkDir() string {
	if d := os.Getenv("VERIF_WORKDIR"); d != "" {
		return d
	}
	return os.TempDir()
}

// resource exhaustion of the (shared, possibly heavily loaded) machine kills Go
// programs with a runtime "fatal error" and exit status 2; such a death says
// nothing about the program under test.
var exhaustionMarks = []string{
	"failed to create new OS thread",
	"runtime: out of memory",
	"cannot allocate memory",
	"resource temporarily unavailable",
	"pthread_create failed",
	"fork/exec",
}

// ResourceExhausted reports whether the process died because the machine ran
// out of threads / memory (never a verdict: inconclusive).
func (r Result) ResourceExhausted() bool {
	if r.Exit == 0 {
		return false
	}
	for _, m := range exhaustionMarks {
		if bytes.Contains(r.Stderr, []byte(m)) {
			return true
		}
	}
	return r.Err != nil && r.Exit == -1 && !r.TimedOut
}

// Inconclusive is true when the result must not be used as a verdict.
func (r Result) Inconclusive() bool { return r.TimedOut || r.ResourceExhausted() }

// Cmd runs binary name (looked up with Bin unless it contains a slash) with args.
// A run that dies of resource exhaustion is retried (up to 3 times, after a pause).
func Cmd(o Opt, name string, args ...string) Result {
	var r Result
	for attempt := 0; attempt < 4; attempt++ {
		r = cmdOnce(o, name, args...)
		if !r.ResourceExhausted() {
			return r
		}
		time.Sleep(time.Duration(attempt+1) * 500 * time.Millisecond)
	}
	return r
}

func cmdOnce(o Opt, name string, args ...string) Result {
	if o.Timeout == 0 {
		o.Timeout = 60 * time.Second
	}
	path := name
	if filepath.Base(name) == name {
		path = Bin(name)
	}
	ctx, cancel := context.WithTimeout(context.Background(), o.Timeout)
	defer cancel()
	c := exec.CommandContext(ctx, path, args...)
	c.Env = append([]string{"PATH=/usr/bin:/bin", "HOME=" + WorkDir(), "TMPDIR=" + WorkDir()}, o.Env...)
	c.Dir = o.Dir
	if c.Dir == "" {
		c.Dir = WorkDir()
	}
	if o.Stdin != nil {
		c.Stdin = bytes.NewReader(o.Stdin)
	}
	var so, se bytes.Buffer
	c.Stdout, c.Stderr = &so, &se
	c.SysProcAttr = &syscall.SysProcAttr{Setpgid: true}
	c.Cancel = func() error { return syscall.Kill(-c.Process.Pid, syscall.SIGKILL) }
	t0 := time.Now()
	err := c.Run()
	r := Result{Stdout: so.Bytes(), Stderr: se.Bytes(), Wall: time.Since(t0), Err: err}
	if ctx.Err() != nil {
		r.TimedOut = true
		r.Exit = -1
		return r
	}
	var ee *exec.ExitError
	switch {
	case err == nil:
		r.Exit = 0
	case errors.As(err, &ee):
		r.Exit = ee.ExitCode()
	default:
		r.Exit = -1
	}
	return r
}
