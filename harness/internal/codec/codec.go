// Package codec compresses and decompresses with the codec libraries that are
// already in obitools4's module graph (no external tools): used to prepare
// compressed inputs and as the ground truth "does the codec itself report an
// error on these bytes".
package codec

import (
	"bytes"
	"compress/gzip"
	"fmt"
	"io"

	"github.com/dsnet/compress/bzip2"
	"github.com/klauspost/compress/zstd"
	"github.com/ulikunitz/xz"
)

// Kinds lists the supported codecs; Ext gives the usual file extension.
var Kinds = []string{"gzip", "bzip2", "xz", "zstd"}

func Ext(kind string) string {
	switch kind {
	case "gzip":
		return ".gz"
	case "bzip2":
		return ".bz2"
	case "xz":
		return ".xz"
	case "zstd":
		return ".zst"
	}
	return ""
}

// Compress returns data compressed with the codec.
func Compress(kind string, data []byte) ([]byte, error) {
	var b bytes.Buffer
	var w io.WriteCloser
	var err error
	switch kind {
	case "gzip":
		w = gzip.NewWriter(&b)
	case "bzip2":
		w, err = bzip2.NewWriter(&b, nil)
	case "xz":
		w, err = xz.NewWriter(&b)
	case "zstd":
		w, err = zstd.NewWriter(&b)
	default:
		return nil, fmt.Errorf("unknown codec %q", kind)
	}
	if err != nil {
		return nil, err
	}
	if _, err = w.Write(data); err != nil {
		return nil, err
	}
	if err = w.Close(); err != nil {
		return nil, err
	}
	return b.Bytes(), nil
}

// Decompress decodes the whole stream with the codec library alone and returns
// what could be decoded together with the codec's own error (nil = clean end).
func Decompress(kind string, data []byte) ([]byte, error) {
	var r io.Reader
	var err error
	switch kind {
	case "gzip":
		r, err = gzip.NewReader(bytes.NewReader(data))
	case "bzip2":
		r, err = bzip2.NewReader(bytes.NewReader(data), nil)
	case "xz":
		r, err = xz.NewReader(bytes.NewReader(data))
	case "zstd":
		var d *zstd.Decoder
		d, err = zstd.NewReader(bytes.NewReader(data))
		if d != nil {
			defer d.Close()
		}
		r = d
	default:
		return nil, fmt.Errorf("unknown codec %q", kind)
	}
	if err != nil {
		return nil, err
	}
	out, err := io.ReadAll(r)
	return out, err
}
