package c16

// Generators of the obigrep cases: records whose identifiers, definitions,
// lengths, counts and annotation values come from small sets, and option values
// read off the generated records so that every criterion hits some records and
// misses others.

import (
	"fmt"
	"strconv"
	"strings"

	"pgregory.net/rapid"

	"verifharness/internal/evid"
	"verifharness/internal/gen"
	"verifharness/internal/ref"
)

// gPlan says how the option set of a case is chosen.
type gPlan struct {
	Label  string
	Forced []string // exactly these option kinds, in this order (nil: a random subset)
	Paired int      // -1 never, 0 drawn, +1 always
	Invert int      // -1 never, 0 drawn, +1 whenever allowed
}

var gWords = []string{"alpha", "beta", "gamma", "delta", "a1", "b2", "zz"}
var gStrVals = []string{"ab", "abc", "b", "ba", "c1", "xyz"}
var gFloatVals = []float64{-1.5, 0.25, 0.5, 1.5, 2.75, 3, 10.5}

// universal annotation keys (carried by every record of a case when selected) and optional ones
var gUniKeys = []string{"un", "uf", "us", "ub", "um"}
var gOptKeys = []string{"k", "k2", "n", "b", "count", "m", "f"}

func gKindOfKey(key string) string {
	switch key {
	case "un", "n", "count", "taxid":
		return "i"
	case "uf", "f":
		return "f"
	case "us", "k", "k2":
		return "s"
	case "ub", "b":
		return "b"
	case "um", "m":
		return "mi"
	}
	return ""
}

func gDrawAttr(rt *rapid.T, key string) gAttr {
	a := gAttr{Key: key, Kind: gKindOfKey(key)}
	switch key {
	case "count":
		a.I = rapid.SampledFrom([]int{1, 1, 2, 3, 3, 4, 6}).Draw(rt, "count")
	case "un", "n":
		a.I = rapid.IntRange(-3, 12).Draw(rt, key)
	case "uf", "f":
		a.F = rapid.SampledFrom(gFloatVals).Draw(rt, key)
	case "us", "k", "k2":
		a.S = rapid.SampledFrom(gStrVals).Draw(rt, key)
	case "ub", "b":
		a.B = rapid.Bool().Draw(rt, key)
	case "um":
		a.M = map[string]int{"x": rapid.IntRange(0, 4).Draw(rt, "um_x"), "y": rapid.IntRange(0, 4).Draw(rt, "um_y")}
	case "m":
		a.M = map[string]int{}
		for _, sk := range []string{"x", "y", "z"} {
			if rapid.Bool().Draw(rt, "m_has_"+sk) {
				a.M[sk] = rapid.IntRange(0, 4).Draw(rt, "m_"+sk)
			}
		}
	}
	return a
}

type gRecCtx struct {
	uni     []string // universal keys of the case
	lens    []int    // length palette
	fastq   bool
	tree    *ref.Tree
	iupac   bool
	maxRecs int
}

func gDrawSeq(rt *rapid.T, label string, n int, iupac bool) string {
	alpha := "acgt"
	if iupac {
		alpha = "acgtacgtacgtnry"
	}
	// short runs of a repeated letter make the {2,} patterns hit
	var sb strings.Builder
	for sb.Len() < n {
		c := alpha[rapid.IntRange(0, len(alpha)-1).Draw(rt, label)]
		k := 1
		if rapid.IntRange(0, 3).Draw(rt, label+"_run") == 0 {
			k = rapid.IntRange(2, 3).Draw(rt, label+"_runlen")
		}
		for j := 0; j < k && sb.Len() < n; j++ {
			sb.WriteByte(c)
		}
	}
	return sb.String()
}

func gDrawRec(rt *rapid.T, ctx *gRecCtx, id string) gRec {
	r := gRec{ID: id}
	nw := rapid.SampledFrom([]int{0, 0, 1, 1, 2, 3}).Draw(rt, "def_words")
	var words []string
	for i := 0; i < nw; i++ {
		words = append(words, rapid.SampledFrom(gWords).Draw(rt, "def_word"))
	}
	r.Def = strings.Join(words, " ")
	n := rapid.SampledFrom(ctx.lens).Draw(rt, "len") + rapid.SampledFrom([]int{-1, 0, 0, 1}).Draw(rt, "len_delta")
	if rapid.IntRange(0, 5).Draw(rt, "len_free") == 0 {
		n = rapid.IntRange(1, 40).Draw(rt, "len_any")
	}
	n = max(1, n)
	r.Seq = gDrawSeq(rt, "seq", n, ctx.iupac)
	if ctx.fastq {
		q := make([]byte, n)
		for i := range q {
			q[i] = "!+5?I"[rapid.IntRange(0, 4).Draw(rt, "q")]
		}
		r.Qual = string(q)
	}
	for _, k := range ctx.uni {
		r.Attrs = append(r.Attrs, gDrawAttr(rt, k))
	}
	if ctx.tree != nil {
		node := rapid.IntRange(0, ctx.tree.N()-1).Draw(rt, "taxon")
		r.Attrs = append(r.Attrs, gAttr{Key: "taxid", Kind: "i", I: ctx.tree.Taxid[node]})
	}
	for _, k := range gOptKeys {
		if rapid.IntRange(0, 2).Draw(rt, "has_"+k) == 0 {
			r.Attrs = append(r.Attrs, gDrawAttr(rt, k))
		}
	}
	if len(r.Attrs) > 1 && rapid.Bool().Draw(rt, "rotate_attrs") {
		k := rapid.IntRange(1, len(r.Attrs)-1).Draw(rt, "rotation")
		r.Attrs = append(append([]gAttr(nil), r.Attrs[k:]...), r.Attrs[:k]...)
	}
	return r
}

// ------------------------------------------------------------------ option values

type gOptCtx struct {
	pool []gRec // forward reads and mates: where the values come from
	uni  []string
	tree *ref.Tree
	ids  []string
}

func (x *gOptCtx) pivot(rt *rapid.T) gRec {
	return x.pool[rapid.IntRange(0, len(x.pool)-1).Draw(rt, "pivot")]
}

func gSub(rt *rapid.T, s string, maxLen int) string {
	if s == "" {
		return ""
	}
	l := rapid.IntRange(1, min(maxLen, len(s))).Draw(rt, "sub_len")
	p := rapid.IntRange(0, len(s)-l).Draw(rt, "sub_pos")
	return s[p : p+l]
}

func gAround(rt *rapid.T, v int) int {
	return max(0, v+rapid.SampledFrom([]int{-1, 0, 0, 1}).Draw(rt, "delta"))
}

func (x *gOptCtx) seqPattern(rt *rapid.T) string {
	p := x.pivot(rt)
	var pat string
	switch rapid.IntRange(0, 7).Draw(rt, "s_kind") {
	case 0, 1:
		pat = gSub(rt, p.Seq, 4)
	case 2:
		pat = "^" + p.Seq[:rapid.IntRange(1, min(3, len(p.Seq))).Draw(rt, "prefix")]
	case 3:
		pat = p.Seq[len(p.Seq)-rapid.IntRange(1, min(3, len(p.Seq))).Draw(rt, "suffix"):] + "$"
	case 4:
		pat = gDrawSeq(rt, "kmer", 3, false)
	case 5:
		s := []byte(gSub(rt, p.Seq, 4))
		i := rapid.IntRange(0, len(s)-1).Draw(rt, "class_pos")
		pat = string(s[:i]) + rapid.SampledFrom([]string{"[ag]", "[ct]", ".", "[^a]"}).Draw(rt, "class") + string(s[i+1:])
	case 6:
		pat = string("acgt"[rapid.IntRange(0, 3).Draw(rt, "run_letter")]) + rapid.SampledFrom([]string{"{2,}", "{3,}", "+c", "{2}g"}).Draw(rt, "run")
	default:
		pat = "^[acgt]+$"
	}
	if rapid.IntRange(0, 2).Draw(rt, "s_upper") == 0 {
		pat = strings.ToUpper(pat)
	}
	return pat
}

func (x *gOptCtx) defPattern(rt *rapid.T) string {
	p := x.pivot(rt)
	words := strings.Fields(p.Def)
	k := rapid.IntRange(0, 7).Draw(rt, "d_kind")
	if len(words) == 0 && k < 4 {
		k = 4 + k
	}
	switch k {
	case 0:
		return rapid.SampledFrom(words).Draw(rt, "d_word")
	case 1:
		return "^" + words[0]
	case 2:
		return words[len(words)-1] + "$"
	case 3:
		return gSub(rt, p.Def, 3)
	case 4:
		return rapid.SampledFrom(gWords).Draw(rt, "d_vocab")
	case 5:
		return "^$"
	case 6:
		return rapid.SampledFrom([]string{"[0-9]", "a.p", "ta$", "^[a-z]+$", "a b", "^.+ "}).Draw(rt, "d_re")
	default:
		return "^" + rapid.SampledFrom(gWords).Draw(rt, "d_vocab2") + "$"
	}
}

func (x *gOptCtx) idPattern(rt *rapid.T) string {
	p := x.pivot(rt)
	switch rapid.IntRange(0, 5).Draw(rt, "i_kind") {
	case 0:
		return gSub(rt, p.ID, 3)
	case 1:
		return "^" + p.ID[:rapid.IntRange(1, min(3, len(p.ID))).Draw(rt, "prefix")]
	case 2:
		return p.ID[len(p.ID)-rapid.IntRange(1, min(3, len(p.ID))).Draw(rt, "suffix"):] + "$"
	case 3:
		return "^" + p.ID + "$"
	case 4:
		return rapid.SampledFrom([]string{"_[0-2]$", "^[ab]", "1", "^a.*1", "b_", "^[ab1]{2}_"}).Draw(rt, "i_re")
	default:
		return rapid.SampledFrom([]string{"a", "b", "ab", "ba", "1_"}).Draw(rt, "i_lit")
	}
}

func (x *gOptCtx) attrKey(rt *rapid.T) string {
	keys := append(append([]string{}, x.uni...), gOptKeys...)
	keys = append(keys, "zz")
	return rapid.SampledFrom(keys).Draw(rt, "A_key")
}

// attrPattern draws key=pattern for -a on a scalar, non-float annotation; used holds the key of the previous -a.
func (x *gOptCtx) attrPattern(rt *rapid.T, used map[string]bool) (string, bool) {
	var keys []string
	for _, k := range append(append([]string{}, x.uni...), gOptKeys...) {
		if t := gKindOfKey(k); t == "s" || t == "i" || t == "b" {
			keys = append(keys, k)
		}
	}
	key := rapid.SampledFrom(keys).Draw(rt, "a_key")
	if len(used) > 0 && rapid.Bool().Draw(rt, "a_same_key") { // several constraints on one key
		for k := range used {
			key = k
		}
	}
	for k := range used {
		delete(used, k)
	}
	used[key] = true
	p := x.pivot(rt)
	var pat string
	a, has := p.attr(key)
	txt, _ := a.text()
	k := rapid.IntRange(0, 3).Draw(rt, "a_kind")
	if !has && k < 2 {
		k += 2
	}
	switch k {
	case 0:
		pat = "^" + txt + "$"
	case 1:
		pat = gSub(rt, txt, 2)
	case 2:
		switch gKindOfKey(key) {
		case "s":
			pat = rapid.SampledFrom([]string{"^a", "b", "c$", "^.{2}$", "[0-9]", "^ab", "a.c"}).Draw(rt, "a_re_s")
		case "i":
			pat = rapid.SampledFrom([]string{"^-", "^[0-9]$", "^1", "[02468]$", "^[1-3]$", "^.{2}$"}).Draw(rt, "a_re_i")
		default:
			pat = rapid.SampledFrom([]string{"^t", "true", "false", "ue$", "^f", "l"}).Draw(rt, "a_re_b")
		}
	default:
		pat = "."
	}
	return key + "=" + pat, true
}

func (x *gOptCtx) hasUni(k string) bool {
	for _, u := range x.uni {
		if u == k {
			return true
		}
	}
	return false
}

func (x *gOptCtx) numOperand(rt *rapid.T, p gRec) (*gNum, float64) {
	var cands []*gNum
	cands = append(cands, &gNum{Kind: "count"}, &gNum{Kind: "len"}, &gNum{Kind: "lenfn"})
	if x.hasUni("un") {
		cands = append(cands, &gNum{Kind: "attr", Key: "un"}, &gNum{Kind: "attrb", Key: "un"})
	}
	if x.hasUni("uf") {
		cands = append(cands, &gNum{Kind: "attr", Key: "uf"})
	}
	if x.hasUni("um") {
		cands = append(cands, &gNum{Kind: "mapattr", Key: "um", Sub: rapid.SampledFrom([]string{"x", "y"}).Draw(rt, "um_sub")})
	}
	n := cands[rapid.IntRange(0, len(cands)-1).Draw(rt, "num_operand")]
	if rapid.IntRange(0, 3).Draw(rt, "arith") == 0 {
		n = &gNum{Kind: rapid.SampledFrom([]string{"add", "sub", "mul"}).Draw(rt, "arith_op"), X: n, Lit: float64(rapid.IntRange(1, 3).Draw(rt, "arith_lit"))}
	}
	v, err := n.eval(p)
	if err != nil {
		v = 1
	}
	return n, v
}

var gCmps = []string{"<", "<=", ">", ">=", "==", "!="}

func (x *gOptCtx) atom(rt *rapid.T) *gExpr {
	p := x.pivot(rt)
	switch rapid.IntRange(0, 9).Draw(rt, "atom") {
	case 0, 1, 2: // numeric comparison with a literal at / around the pivot's value
		n, v := x.numOperand(rt, p)
		lit := v + float64(rapid.SampledFrom([]int{-1, 0, 0, 1}).Draw(rt, "lit_delta"))
		e := &gExpr{Op: "cmp", Cmp: rapid.SampledFrom(gCmps).Draw(rt, "cmp"), L: n, R: &gNum{Kind: "lit", Lit: lit}}
		if lit < 0 { // a literal is never written with a leading minus sign: 0 - k
			e.R = &gNum{Kind: "sub", X: &gNum{Kind: "lit", Lit: 0}, Lit: -lit}
		}
		if rapid.IntRange(0, 4).Draw(rt, "swap") == 0 {
			e.L, e.R = e.R, e.L
		}
		return e
	case 3: // comparison of two computed values
		a, _ := x.numOperand(rt, p)
		b, _ := x.numOperand(rt, p)
		return &gExpr{Op: "cmp", Cmp: rapid.SampledFrom(gCmps).Draw(rt, "cmp"), L: a, R: b}
	case 4: // string comparison
		var s *gStr
		var lit string
		switch k := rapid.IntRange(0, 3).Draw(rt, "str_operand"); {
		case k == 0 && x.hasUni("us"):
			s = &gStr{Kind: rapid.SampledFrom([]string{"attr", "attrb"}).Draw(rt, "us_form"), Key: "us"}
			a, _ := p.attr("us")
			lit = a.S
		case k == 1:
			s, lit = &gStr{Kind: "def"}, p.Def
		default:
			s, lit = &gStr{Kind: "id"}, p.ID
		}
		if rapid.IntRange(0, 3).Draw(rt, "str_miss") == 0 {
			lit = rapid.SampledFrom(gStrVals).Draw(rt, "str_lit")
		}
		return &gExpr{Op: rapid.SampledFrom([]string{"streq", "streq", "strne"}).Draw(rt, "str_op"), S: s, Lit: lit}
	case 5:
		keys := append(append([]string{}, gOptKeys...), "zz")
		return &gExpr{Op: "contains", Key: rapid.SampledFrom(keys).Draw(rt, "contains_key")}
	case 6:
		if x.hasUni("ub") {
			return &gExpr{Op: "battr", Key: "ub"}
		}
		return &gExpr{Op: "contains", Key: rapid.SampledFrom(gOptKeys).Draw(rt, "contains_key")}
	default: // optional annotation read behind a contains() guard
		key := rapid.SampledFrom([]string{"n", "count", "k", "b", "f"}).Draw(rt, "guard_key")
		var inner *gExpr
		switch gKindOfKey(key) {
		case "i", "f":
			lit := float64(rapid.IntRange(0, 4).Draw(rt, "guard_lit"))
			inner = &gExpr{Op: "cmp", Cmp: rapid.SampledFrom(gCmps).Draw(rt, "cmp"), L: &gNum{Kind: "attr", Key: key}, R: &gNum{Kind: "lit", Lit: lit}}
		case "s":
			inner = &gExpr{Op: "streq", S: &gStr{Kind: "attr", Key: key}, Lit: rapid.SampledFrom(gStrVals).Draw(rt, "guard_str")}
		default:
			inner = &gExpr{Op: "battr", Key: key}
		}
		return &gExpr{Op: rapid.SampledFrom([]string{"guard_and", "guard_and", "guard_or"}).Draw(rt, "guard"), Key: key, A: inner}
	}
}

func (x *gOptCtx) expr(rt *rapid.T, depth int) *gExpr {
	if depth <= 0 || rapid.IntRange(0, 2).Draw(rt, "leaf") > 0 {
		return x.atom(rt)
	}
	switch rapid.IntRange(0, 2).Draw(rt, "bool_op") {
	case 0:
		return &gExpr{Op: "and", A: x.expr(rt, depth-1), B: x.expr(rt, depth-1)}
	case 1:
		return &gExpr{Op: "or", A: x.expr(rt, depth-1), B: x.expr(rt, depth-1)}
	default:
		return &gExpr{Op: "not", A: x.expr(rt, depth-1)}
	}
}

func (x *gOptCtx) cladeOf(rt *rapid.T) int {
	p := x.pivot(rt)
	a, _ := p.attr("taxid")
	node, _, ok := x.tree.Resolve(a.I)
	if !ok || rapid.IntRange(0, 5).Draw(rt, "clade_any") == 0 {
		return x.tree.Taxid[rapid.IntRange(0, x.tree.N()-1).Draw(rt, "clade_node")]
	}
	path := x.tree.PathToRoot(node)
	return x.tree.Taxid[path[rapid.IntRange(0, len(path)-1).Draw(rt, "clade_level")]]
}

// optValue draws one occurrence of the selection option k with a value read
// off the records of the case (the identifier list goes to c.IDList; the
// modifiers of --approx-pattern are those already drawn in c).
func (x *gOptCtx) optValue(rt *rapid.T, c *grepCase, k string, usedA map[string]bool) (gOpt, bool) {
	o := gOpt{Name: k, Long: rapid.IntRange(0, 3).Draw(rt, "long_name") == 0}
	switch k {
	case "-l", "-L":
		o.Val = strconv.Itoa(gAround(rt, len(x.pivot(rt).Seq)))
	case "-c", "-C":
		o.Val = strconv.Itoa(gAround(rt, x.pivot(rt).gCount()))
	case "-s":
		o.Val = x.seqPattern(rt)
	case "-D":
		o.Val = x.defPattern(rt)
	case "-I":
		o.Val = x.idPattern(rt)
	case "-A":
		o.Val = x.attrKey(rt)
	case "-a":
		v, ok := x.attrPattern(rt, usedA)
		if !ok {
			return o, false
		}
		o.Val = v
	case "-p":
		o.Expr = x.expr(rt, 2)
	case "--id-list":
		for _, r := range c.Recs {
			if rapid.Bool().Draw(rt, "listed") {
				c.IDList = append(c.IDList, r.ID)
			}
		}
		for j := rapid.IntRange(0, 2).Draw(rt, "n_junk"); j > 0; j-- {
			junk := rapid.SampledFrom([]string{"zz_99", "", "a", "a_", "_0", "ab_1x"}).Draw(rt, "junk_id")
			pos := rapid.IntRange(0, len(c.IDList)).Draw(rt, "junk_pos")
			c.IDList = append(c.IDList[:pos], append([]string{junk}, c.IDList[pos:]...)...)
		}
		if len(c.IDList) > 0 && rapid.IntRange(0, 3).Draw(rt, "dup_id") == 0 {
			c.IDList = append(c.IDList, c.IDList[0])
		}
		c.IDListNoEOL = rapid.IntRange(0, 3).Draw(rt, "no_final_newline") == 0
	case "-r", "-i":
		o.Val = strconv.Itoa(x.cladeOf(rt))
	case "--require-rank":
		o.Val = rapid.SampledFrom(c.Tree.Ranks()).Draw(rt, "rank")
	case gApproxOpt:
		o.Val = x.approxPattern(rt, c.approx())
	}
	return o, true
}

// ------------------------------------------------------------------ the case

var gMaxCPUs = []int{0, 0, 1, 2, 3, 8}
var gBatches = []int{0, 0, 1, 2, 3, 5, 10}

func genGrepCase(rt *rapid.T, plan gPlan) grepCase {
	c := grepCase{Plan: plan.Label}

	// ---- which options
	kinds := plan.Forced
	if kinds == nil {
		n := rapid.SampledFrom([]int{1, 2, 2, 3, 3, 4, 4, 5, 6}).Draw(rt, "n_options")
		seen := map[string]bool{}
		for len(kinds) < n {
			k := rapid.SampledFrom(gOptKinds).Draw(rt, "option")
			if len(kinds) > 0 && rapid.IntRange(0, 3).Draw(rt, "repeat_previous") == 0 && gRepeatable[kinds[len(kinds)-1]] {
				k = kinds[len(kinds)-1] // several occurrences of a repeatable option
			}
			if seen[k] && !gRepeatable[k] {
				continue
			}
			seen[k] = true
			kinds = append(kinds, k)
		}
	}
	needTax, hasApprox := false, false
	for _, k := range kinds {
		needTax = needTax || gIsTax(k)
		hasApprox = hasApprox || k == gApproxOpt
	}
	if hasApprox { // --pattern-error, --allows-indels, --only-forward: shared by every --approx-pattern
		gDrawApproxMods(rt, &c)
	}

	// ---- the records
	paired := plan.Paired > 0 || (plan.Paired == 0 && rapid.IntRange(0, 3).Draw(rt, "paired") == 0)
	c.Fastq = rapid.IntRange(0, 2).Draw(rt, "fastq") == 0
	ctx := gRecCtx{fastq: c.Fastq, iupac: rapid.IntRange(0, 4).Draw(rt, "iupac") == 0}
	if hasApprox {
		ctx.iupac = false // reads over acgt when an approximate pattern is searched (Domain decisions, grep_approx_test.go)
	}
	for _, k := range gUniKeys {
		if rapid.Bool().Draw(rt, "uni_"+k) {
			ctx.uni = append(ctx.uni, k)
		}
	}
	ctx.lens = []int{rapid.IntRange(1, 30).Draw(rt, "len1"), rapid.IntRange(1, 30).Draw(rt, "len2")}
	if needTax {
		n := gen.Len(rt, "tax_n", 1, 25, 2, 3)
		tr, _ := gen.Tree(rt, "tree", n, rapid.SampledFrom(gen.TreeShapes).Draw(rt, "shape"), 0, 0)
		c.Tree = &tr
		ctx.tree = &tr
	}
	nrec := rapid.SampledFrom([]int{1, 2, 3, 4, 5, 6, 6, 8, 8, 10, 12, 12}).Draw(rt, "n_records")
	if evid.Thorough() && rapid.IntRange(0, 3).Draw(rt, "many_records") == 0 {
		nrec = rapid.IntRange(13, 40).Draw(rt, "n_records_large")
	}
	for i := 0; i < nrec; i++ {
		base := rapid.StringOfN(rapid.SampledFrom([]rune("ab1")), 1, 3, -1).Draw(rt, "id_base")
		id := base + "_" + strconv.Itoa(i)
		c.Recs = append(c.Recs, gDrawRec(rt, &ctx, id))
		if paired {
			c.Mates = append(c.Mates, gDrawRec(rt, &ctx, id))
		}
	}

	// ---- option values
	x := gOptCtx{pool: append(append([]gRec{}, c.Recs...), c.Mates...), uni: ctx.uni, tree: ctx.tree}
	usedA := map[string]bool{}
	effective := false
	for _, k := range kinds {
		o, ok := x.optValue(rt, &c, k, usedA)
		if !ok {
			continue
		}
		switch k {
		case "-l", "-c":
			if n, _ := strconv.Atoi(o.Val); n > 1 {
				effective = true
			}
		default:
			effective = true
		}
		c.Opts = append(c.Opts, o)
	}

	// ---- the rest of the command line
	if effective && (plan.Invert > 0 || (plan.Invert == 0 && rapid.IntRange(0, 2).Draw(rt, "invert") == 0)) {
		c.Invert = true
		c.InvertLong = rapid.IntRange(0, 3).Draw(rt, "invert_long") == 0
	}
	c.SaveDiscarded = rapid.IntRange(0, 2).Draw(rt, "save_discarded") == 0
	if paired {
		c.PairedMode = rapid.SampledFrom(append([]string{""}, gPairedModes...)).Draw(rt, "paired_mode")
		if !effective && (c.PairedMode == "andnot" || c.PairedMode == "xor") {
			// only default-valued criteria: no predicate is built, which differs from an
			// always-true criterion exactly for -v and for these two modes (Domain decisions)
			c.PairedMode = "and"
		}
	} else {
		c.OutFile = rapid.IntRange(0, 4).Draw(rt, "out_file") == 0
	}
	c.MaxCPU = rapid.SampledFrom(gMaxCPUs).Draw(rt, "max_cpu")
	c.Batch = rapid.SampledFrom(gBatches).Draw(rt, "batch_size")
	return c
}

// gAllPlans: each selection option alone, every pair of different options, and
// every repeatable option given twice.
func gAllPlans() []gPlan {
	var plans []gPlan
	for _, a := range gOptKinds {
		plans = append(plans, gPlan{Label: "single:" + a, Forced: []string{a}})
	}
	for i, a := range gOptKinds {
		for _, b := range gOptKinds[i+1:] {
			plans = append(plans, gPlan{Label: fmt.Sprintf("pair:%s+%s", a, b), Forced: []string{a, b}})
		}
	}
	for _, a := range gOptKinds {
		if gRepeatable[a] {
			plans = append(plans, gPlan{Label: "twice:" + a, Forced: []string{a, a}})
		}
	}
	return plans
}
