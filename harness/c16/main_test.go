// Property C16 — obigrep, obiannotate, obidistribute act on each record as their
// options say.  The package is built by two contributors: grep_*.go
// (obigrep, obidistribute, obimultiplex -u, paired modes) and annotate_*.go
// (obiannotate).  Each file registers its tests, commands and its part of the
// rule text from an init() function; this file only owns TestMain.
package c16

import (
	"sort"
	"strings"
	"testing"

	"verifharness/internal/evid"
)

// ruleParts collects the rule text of each contributor (append from init()).
var ruleParts = map[string]string{}

func TestMain(m *testing.M) {
	keys := make([]string, 0, len(ruleParts))
	for k := range ruleParts {
		keys = append(keys, k)
	}
	sort.Strings(keys)
	var parts []string
	for _, k := range keys {
		parts = append(parts, k+": "+ruleParts[k])
	}
	evid.Note("rule", strings.Join(parts, " || "))
	evid.Main(m, "C16")
}

func TestReplay(t *testing.T) { evid.Replay(t) }

func init() {
	evid.Tests(evid.Spec{Name: "TestReplay", Kind: "plain", QuickShards: 1, ThoroughShards: 1})
}
