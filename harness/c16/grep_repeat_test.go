package c16

// Repeatable selection options given MANY times (3-5 occurrences of one or two
// "focus" options, 0-2 of the others), on obigrep and on obiannotate (which
// embeds the same selection options and edits the selected records).
//
// What several occurrences of one option mean (obigrep --help, doc/book
// comm_sampling.qmd, and the only callers, the CLI*Predicate builders of
// pkg/obitools/obigrep/options.go — all agree):
//
//	-r / --restrict-to-taxon   alternatives: the taxon belongs to ONE of the clades
//	-i / --ignore-taxon        all apply: the taxon belongs to NONE of the clades
//	--require-rank             all apply: the lineage has EVERY requested rank
//	-s -D -I -A -a -p          all apply ("the selected sequence records will match all constraints")
//
// These are the semantics gSelection.keepOne (grep_model_test.go) already
// implements; this file adds the generator that makes each occurrence matter:
// more records, a larger taxonomy, broad patterns and values that all accept
// one chosen record (so that a conjunction of 3-5 of them is not empty), values
// of one option chosen independent of each other, and for every occurrence a
// witness record that this occurrence alone decides; occurrences of different
// options interleaved on the command line.  An occurrence is DECISIVE when
// removing it alone changes the expected selection: only then does a defect
// that drops / duplicates one occurrence of the list (first, middle or last) show.
//
// Domain decisions
//   - obiannotate with selection options: the help texts are those of obigrep
//     ("Require that …", "Selects sequence records …") and CLIAnnotationPipeline
//     applies the edits to the records the predicate selects; what happens to the
//     other records (the implementation drops them) is not documented.  Asserted:
//     every record the criteria select is written, with the edit (--length:
//     seq_length = number of nucleotides) and otherwise unchanged; a record the
//     criteria reject is either absent or written unchanged without the edit;
//     nothing else is written; the input order is kept.
//   - obiannotate with selection options is run on FASTA inputs only.  On a FASTQ
//     input the unchanged tree writes FASTA (qualities lost) whenever the first
//     batch that reaches the writer holds no selected record (WriteSequence picks
//     the format from the first batch, SeqToSliceConditionalWorker leaves rejected
//     batches empty; the FASTQ reader puts the last record of a small file in a
//     batch of its own): `obiannotate -l 5 --length` on two FASTQ records of 4 and
//     9 nt writes FASTA most of the time.  Reported to the coordinator; which
//     output format an edited selection must have is the subject of the format
//     properties, not of this one.

import (
	"fmt"
	"os"
	"path/filepath"
	"sort"
	"strconv"
	"strings"
	"testing"

	"pgregory.net/rapid"

	"verifharness/internal/evid"
	"verifharness/internal/gen"
	"verifharness/internal/ref"
	"verifharness/internal/run"
)

func init() {
	evid.Tests(
		evid.Spec{Name: "TestGrepRepeated", Kind: "rapid", Quick: 960, Thorough: 16000, QuickShards: 8, ThoroughShards: 16},
		evid.Spec{Name: "TestAnnotateSelected", Kind: "rapid", Quick: 420, Thorough: 8000, QuickShards: 6, ThoroughShards: 8},
	)
	evid.Reg("annotate_selected", checkAnnotateSelected)
	ruleParts["grep_repeated"] = "TestGrepRepeated: obigrep with one or two of the nine repeatable options (-s -D -I -A -a -p -r -i --require-rank, drawn uniformly) given 3-5 times " +
		"(the second 2-5 times), every other option 0-2 times, occurrences grouped or interleaved on the command line; 6-16 records or more (thorough up to 40), denser optional annotations, " +
		"taxonomies of 6-45 nodes. One record (the passer) is given substance (2-3 definition words, 2-3 letter identifier base, 8+ nucleotides, most optional annotations, a rank-rich lineage); " +
		"each value is the best of at most 8-12 candidates from the value generators of TestGrepSubsets plus 1-2 letter patterns and any-node clades: it accepts the passer (for -r: the first occurrence does) " +
		"and leaves the most occurrences of the same option independent; then for every occurrence of a repeated option a witness record is built, equal to the passer but for one feature " +
		"(a nucleotide, the definition, the identifier base, one annotation value or its absence, the taxon), chosen so that the reference interpreter decides differently with and without this occurrence. " +
		"-v, --save-discarded, -o, paired inputs with the six modes, --max-cpu and --batch-size as in TestGrepSubsets. Oracle: the same reference interpreter and comparison as TestGrepSubsets " +
		"(several -r are alternatives, several occurrences of any other option all apply). " +
		"Non-trivial: some option is given at least 3 times, EVERY one of its occurrences is decisive (removing that occurrence alone changes the selection the reference interpreter expects) " +
		"and the selection is neither empty nor total. " +
		"TestAnnotateSelected: obiannotate --length with the selection options of obigrep (FASTA input; half of the cases drawn as in TestGrepRepeated, half as in TestGrepSubsets; no mate file): " +
		"every record the criteria select is written with seq_length = its length and otherwise unchanged, a rejected record is absent or written unchanged without seq_length, nothing else is written, input order kept. " +
		"Non-trivial: the selection is neither empty nor total."
}

var gRepKinds = []string{"-s", "-D", "-I", "-A", "-a", "-p", "-r", "-i", "--require-rank"}
var gOnceKinds = []string{"-l", "-L", "-c", "-C", "--id-list"}

// ------------------------------------------------------------------ broad values

func (x *gOptCtx) broadSeqPattern(rt *rapid.T) string {
	p := x.pivot(rt)
	var pat string
	switch rapid.IntRange(0, 5).Draw(rt, "bs_kind") {
	case 0, 1, 2:
		pat = gSub(rt, p.Seq, 2)
	case 3:
		pat = "[" + rapid.SampledFrom([]string{"ac", "ag", "at", "cg", "ct", "gt"}).Draw(rt, "bs_class") + "]" + gSub(rt, p.Seq, 1)
	case 4:
		pat = "^" + rapid.SampledFrom([]string{"[ac]", "[gt]", "[ag]", "[ct]", "[^a]", "[^t]"}).Draw(rt, "bs_start")
	default:
		pat = rapid.SampledFrom([]string{"[ac]$", "[gt]$", "[^c]$", "[^g]$"}).Draw(rt, "bs_end")
	}
	if rapid.IntRange(0, 2).Draw(rt, "bs_upper") == 0 {
		pat = strings.ToUpper(pat)
	}
	return pat
}

func (x *gOptCtx) broadDefPattern(rt *rapid.T) string {
	p := x.pivot(rt)
	switch k := rapid.IntRange(0, 4).Draw(rt, "bd_kind"); {
	case k <= 1 && p.Def != "":
		return gSub(rt, p.Def, 1)
	case k == 2:
		return rapid.SampledFrom([]string{"a", "e", "l", "t", "m", "p", "[0-9]", " ", "^[a-z]", "[a-z]$"}).Draw(rt, "bd_letter")
	case k == 3:
		return rapid.SampledFrom([]string{"a$", "^[abg]", "[ae] ", " [abdgz]", "ta", "a[1-9]?$"}).Draw(rt, "bd_re")
	}
	return x.defPattern(rt)
}

func (x *gOptCtx) broadIDPattern(rt *rapid.T) string {
	switch rapid.IntRange(0, 3).Draw(rt, "bi_kind") {
	case 0:
		return gSub(rt, x.pivot(rt).ID, 1)
	case 1:
		return rapid.SampledFrom([]string{"a", "b", "1", "^[ab]", "^[a1]", "^[b1]", "[ab]_", "[a1]_", "[b1]_"}).Draw(rt, "bi_letter")
	case 2:
		return rapid.SampledFrom([]string{"[0-4]$", "[5-9]$", "[02468]$", "[13579]$", "_[0-9]$", "_1", "[^0]$", "[^1]$"}).Draw(rt, "bi_rank")
	}
	return x.idPattern(rt)
}

// lowClade: a clade low on the lineage of the record's taxon (the taxon, its
// parent or grand-parent; the root only when the lineage is that short or 1 time in 8).
func (x *gOptCtx) lowClade(rt *rapid.T, p gRec) int {
	a, _ := p.attr("taxid")
	node, _, ok := x.tree.Resolve(a.I)
	if !ok {
		return x.tree.Taxid[0]
	}
	path := x.tree.PathToRoot(node)
	level := rapid.SampledFrom([]int{0, 0, 0, 1, 1, 2}).Draw(rt, "clade_height")
	level = min(level, max(0, len(path)-2))
	if rapid.IntRange(0, 7).Draw(rt, "clade_anywhere") == 0 {
		level = rapid.IntRange(0, len(path)-1).Draw(rt, "clade_level")
	}
	return x.tree.Taxid[path[level]]
}

// ------------------------------------------------------------------ witnesses

// gPalette lists the values the record generator can give to an annotation.
func gPalette(key string) []gAttr {
	var out []gAttr
	add := func(a gAttr) { a.Key, a.Kind = key, gKindOfKey(key); out = append(out, a) }
	switch key {
	case "count":
		for _, v := range []int{1, 2, 3, 4, 6} {
			add(gAttr{I: v})
		}
	case "un", "n":
		for v := -3; v <= 12; v++ {
			add(gAttr{I: v})
		}
	case "uf", "f":
		for _, v := range gFloatVals {
			add(gAttr{F: v})
		}
	case "us", "k", "k2":
		for _, v := range gStrVals {
			add(gAttr{S: v})
		}
	case "ub", "b":
		add(gAttr{B: false})
		add(gAttr{B: true})
	case "um":
		for _, xv := range []int{0, 1, 2, 3, 4} {
			for _, yv := range []int{0, 2, 4} {
				add(gAttr{M: map[string]int{"x": xv, "y": (yv + xv) % 5}})
			}
		}
	case "m":
		for _, m := range []map[string]int{{}, {"x": 0}, {"x": 4}, {"y": 2}, {"z": 0}, {"x": 1, "y": 3, "z": 4}, {"x": 2, "z": 2}} {
			add(gAttr{M: m})
		}
	}
	return out
}

func gIsOptKey(key string) bool {
	for _, k := range gOptKeys {
		if k == key {
			return true
		}
	}
	return false
}

func (r gRec) withAttr(a gAttr) gRec {
	out := r
	out.Attrs = nil
	done := false
	for _, b := range r.Attrs {
		if b.Key == a.Key {
			b, done = a, true
		}
		out.Attrs = append(out.Attrs, b)
	}
	if !done {
		out.Attrs = append(out.Attrs, a)
	}
	return out
}

func (r gRec) withoutAttr(key string) gRec {
	out := r
	out.Attrs = nil
	for _, b := range r.Attrs {
		if b.Key != key {
			out.Attrs = append(out.Attrs, b)
		}
	}
	return out
}

func (r gRec) withSeq(seq string) gRec {
	out := r
	out.Seq = seq
	if r.Qual != "" {
		q := r.Qual
		for len(q) < len(seq) {
			q += "I"
		}
		out.Qual = q[:len(seq)]
	}
	return out
}

func gIDBase(id string) string {
	if i := strings.LastIndex(id, "_"); i >= 0 {
		return id[:i]
	}
	return id
}

// gVariants lists, in a fixed order, the records that differ from p by ONE
// feature the occurrences of option kind look at (same generator palettes as the
// random records): a nucleotide substituted / removed / added, another
// definition, another identifier base, an annotation removed or given another
// value, another taxon.
func gVariants(kind string, p gRec, uni []string, tree *ref.Tree) []gRec {
	var out []gRec
	seqVariants := func(lengthOnly bool) {
		if !lengthOnly {
			for i := 0; i < len(p.Seq); i++ {
				for _, l := range "acgt" {
					if byte(l) != p.Seq[i] {
						out = append(out, p.withSeq(p.Seq[:i]+string(l)+p.Seq[i+1:]))
					}
				}
			}
		}
		if len(p.Seq) > 1 {
			out = append(out, p.withSeq(p.Seq[1:]), p.withSeq(p.Seq[:len(p.Seq)-1]))
		}
		for _, l := range "acgt" {
			out = append(out, p.withSeq(p.Seq+string(l)), p.withSeq(string(l)+p.Seq))
		}
	}
	defVariants := func() {
		defs := []string{""}
		for _, w := range gWords {
			defs = append(defs, w)
		}
		for _, w := range gWords {
			for _, v := range gWords {
				defs = append(defs, w+" "+v)
			}
		}
		words := strings.Fields(p.Def)
		for i := range words {
			for _, w := range gWords {
				alt := append([]string{}, words...)
				alt[i] = w
				defs = append(defs, strings.Join(alt, " "))
			}
		}
		for _, d := range defs {
			if d != p.Def {
				q := p
				q.Def = d
				out = append(out, q)
			}
		}
	}
	idVariants := func() {
		var rec func(prefix string)
		rec = func(prefix string) {
			if prefix != "" && prefix != gIDBase(p.ID) {
				q := p
				q.ID = prefix + "_"
				out = append(out, q)
			}
			if len(prefix) < 3 {
				for _, l := range "ab1" {
					rec(prefix + string(l))
				}
			}
		}
		rec("")
	}
	attrVariants := func(keys []string) {
		for _, k := range keys {
			cur, has := p.attr(k)
			if has && gIsOptKey(k) {
				out = append(out, p.withoutAttr(k))
			}
			if !has && !gIsOptKey(k) {
				continue // a universal key the case does not use
			}
			for _, a := range gPalette(k) {
				if !has || a.json() != cur.json() {
					out = append(out, p.withAttr(a))
				}
			}
		}
	}
	switch kind {
	case "-s":
		seqVariants(false)
	case "-D":
		defVariants()
	case "-I":
		idVariants()
	case "-A", "-a":
		attrVariants(append(append([]string{}, uni...), gOptKeys...))
	case "-p":
		attrVariants(append(append([]string{}, uni...), gOptKeys...))
		seqVariants(true)
		defVariants()
		idVariants()
	case "-r", "-i", "--require-rank":
		for i := 0; i < tree.N(); i++ {
			out = append(out, p.withAttr(gAttr{Key: "taxid", Kind: "i", I: tree.Taxid[i]}))
		}
	}
	return out
}

// ------------------------------------------------------------------ the case

func genGrepRepeatCase(rt *rapid.T, label string, pairedOK bool) grepCase {
	c := grepCase{Plan: label}

	// ---- how many times each option is given
	count := map[string]int{}
	focus := rapid.SampledFrom(gRepKinds).Draw(rt, "focus")
	count[focus] = rapid.SampledFrom([]int{3, 3, 3, 4, 4, 5}).Draw(rt, "focus_count")
	if rapid.IntRange(0, 2).Draw(rt, "second_focus") == 0 {
		if f2 := rapid.SampledFrom(gRepKinds).Draw(rt, "focus2"); f2 != focus {
			count[f2] = rapid.SampledFrom([]int{2, 3, 3, 4, 5}).Draw(rt, "focus2_count")
		}
	}
	for _, k := range gRepKinds {
		if count[k] == 0 && rapid.IntRange(0, 7).Draw(rt, "other_"+k) == 0 {
			count[k] = rapid.IntRange(1, 2).Draw(rt, "other_count")
		}
	}
	for _, k := range gOnceKinds {
		if rapid.IntRange(0, 9).Draw(rt, "once_"+k) == 0 {
			count[k] = 1
		}
	}
	var kinds []string
	repeated := 0 // occurrences of options given several times: each one gets a witness record
	for _, k := range gOptKinds {
		for i := 0; i < count[k]; i++ {
			kinds = append(kinds, k)
		}
		if count[k] >= 2 {
			repeated += count[k]
		}
	}
	if rapid.Bool().Draw(rt, "interleaved") {
		kinds = rapid.Permutation(kinds).Draw(rt, "option_order")
	}
	needTax := false
	for _, k := range kinds {
		needTax = needTax || gIsTax(k)
	}

	// ---- the records
	paired := pairedOK && rapid.IntRange(0, 5).Draw(rt, "paired") == 0
	c.Fastq = rapid.IntRange(0, 2).Draw(rt, "fastq") == 0
	ctx := gRecCtx{fastq: c.Fastq, iupac: rapid.IntRange(0, 4).Draw(rt, "iupac") == 0}
	for _, k := range gUniKeys {
		if rapid.Bool().Draw(rt, "uni_"+k) {
			ctx.uni = append(ctx.uni, k)
		}
	}
	ctx.lens = []int{rapid.IntRange(1, 30).Draw(rt, "len1"), rapid.IntRange(4, 30).Draw(rt, "len2")}
	if needTax {
		n := gen.Len(rt, "tax_n", 6, 30, 8, 12)
		shapes := gen.TreeShapes
		if count["-r"]+count["-i"] >= 3 { // room for several clades that are not nested
			n = rapid.IntRange(12, 35).Draw(rt, "tax_n_clades")
		}
		if count["--require-rank"] >= 2 { // long lineages carrying many rank labels
			n = rapid.IntRange(20, 45).Draw(rt, "tax_n_ranks")
			shapes = []string{"deep", "deep", "random", "caterpillar", "broom", "binary"}
		}
		tr, _ := gen.Tree(rt, "tree", n, rapid.SampledFrom(shapes).Draw(rt, "shape"), 0, 0)
		c.Tree = &tr
		ctx.tree = &tr
	}
	nrec := rapid.SampledFrom([]int{6, 8, 8, 10, 12, 12, 14, 16}).Draw(rt, "n_records")
	nrec = max(nrec, repeated+3) // the passer, one witness per occurrence, at least two unrelated records
	if evid.Thorough() && rapid.IntRange(0, 3).Draw(rt, "many_records") == 0 {
		nrec = rapid.IntRange(nrec, 40).Draw(rt, "n_records_large")
	}
	dense := rapid.IntRange(0, 2).Draw(rt, "dense_annotations") > 0
	densify := func(r gRec) gRec {
		if !dense {
			return r
		}
		for _, k := range gOptKeys {
			if _, has := r.attr(k); !has && rapid.Bool().Draw(rt, "dense_"+k) {
				r.Attrs = append(r.Attrs, gDrawAttr(rt, k))
			}
		}
		return r
	}
	for i := 0; i < nrec; i++ {
		base := rapid.StringOfN(rapid.SampledFrom([]rune("ab1")), 1, 3, -1).Draw(rt, "id_base")
		id := base + "_" + strconv.Itoa(i)
		c.Recs = append(c.Recs, densify(gDrawRec(rt, &ctx, id)))
		if paired {
			c.Mates = append(c.Mates, densify(gDrawRec(rt, &ctx, id)))
		}
	}

	// ---- option values
	// One record, the "passer", is chosen; every value is the first of a few candidates
	// (drawn by the value generators from the passer or from any record) that accepts the
	// passer, so that the conjunction of many occurrences is not empty.  The occurrences
	// of -r are alternatives: the first one is built on the passer's lineage, the
	// following ones on the lineages of other records.  Among the candidates that accept
	// the passer, the one that leaves the most occurrences of the same option with a
	// potential witness (see below) is kept.  A bounded choice, not a rejection loop.
	idx := make([]int, len(c.Recs))
	for i := range idx {
		idx[i] = i
	}
	roles := rapid.Permutation(idx).Draw(rt, "roles")
	// the passer is given enough substance for several independent criteria of the repeated options
	{
		p := &c.Recs[roles[0]]
		if count["-D"] >= 2 && len(strings.Fields(p.Def)) < 2 {
			w := rapid.SliceOfN(rapid.SampledFrom(gWords), 2, 3).Draw(rt, "passer_def")
			p.Def = strings.Join(w, " ")
		}
		if count["-I"] >= 2 {
			base := rapid.StringOfN(rapid.SampledFrom([]rune("ab1")), 2, 3, -1).Draw(rt, "passer_id_base")
			p.ID = base + "_" + strconv.Itoa(roles[0])
			if paired {
				c.Mates[roles[0]].ID = p.ID
			}
		}
		if count["-s"] >= 2 && len(p.Seq) < 8 {
			*p = p.withSeq(gDrawSeq(rt, "passer_seq", rapid.IntRange(8, 30).Draw(rt, "passer_len"), false))
		}
		if count["--require-rank"] >= 2 { // the taxon whose lineage carries the most rank labels
			bestNode, bestLabels := 0, -1
			for node := 0; node < c.Tree.N(); node++ {
				labels := map[string]bool{}
				for _, a := range c.Tree.PathToRoot(node) {
					labels[c.Tree.Rank[a]] = true
				}
				if len(labels) > bestLabels {
					bestNode, bestLabels = node, len(labels)
				}
			}
			*p = p.withAttr(gAttr{Key: "taxid", Kind: "i", I: c.Tree.Taxid[bestNode]})
		}
		if count["-A"] >= 2 || count["-a"] >= 2 {
			for _, k := range gOptKeys {
				if _, has := p.attr(k); !has && rapid.IntRange(0, 3).Draw(rt, "passer_has_"+k) > 0 {
					p.Attrs = append(p.Attrs, gDrawAttr(rt, k))
				}
			}
		}
	}
	passer := c.Recs[roles[0]]
	slots := roles[1:] // where the witnesses go
	x := gOptCtx{pool: append(append([]gRec{}, c.Recs...), c.Mates...), uni: ctx.uni, tree: ctx.tree}
	xp := x
	xp.pool = []gRec{passer}
	passes := func(o gOpt, r gRec) bool {
		s := gSelection{Opts: []gOpt{o}, IDList: c.IDList, Tree: c.Tree, Approx: c.approx()}
		ok, _, err := s.keepOne(r)
		return err == nil && ok
	}
	usedA := map[string]bool{}
	candidate := func(k string, target gRec) gOpt {
		o := gOpt{Name: k}
		src := &xp
		if rapid.IntRange(0, 3).Draw(rt, "value_from_any_record") == 0 {
			src = &x
		}
		broad := rapid.IntRange(0, 2).Draw(rt, "broad") > 0
		switch k {
		case "-l", "-L":
			o.Val = strconv.Itoa(gAround(rt, len(src.pivot(rt).Seq)))
		case "-c", "-C":
			o.Val = strconv.Itoa(gAround(rt, src.pivot(rt).gCount()))
		case "-s":
			if broad {
				o.Val = src.broadSeqPattern(rt)
			} else {
				o.Val = src.seqPattern(rt)
			}
		case "-D":
			if broad {
				o.Val = src.broadDefPattern(rt)
			} else {
				o.Val = src.defPattern(rt)
			}
		case "-I":
			if broad {
				o.Val = src.broadIDPattern(rt)
			} else {
				o.Val = src.idPattern(rt)
			}
		case "-A":
			o.Val = src.attrKey(rt)
		case "-a":
			u := map[string]bool{}
			for key := range usedA {
				u[key] = true
			}
			o.Val, _ = src.attrPattern(rt, u)
		case "-p":
			o.Expr = src.expr(rt, 1)
		case "-r", "-i":
			switch f := rapid.IntRange(0, 7).Draw(rt, "clade_from"); {
			case f == 0:
				o.Val = strconv.Itoa(x.cladeOf(rt))
			case f <= 3 && target.ID != passer.ID && c.Tree.N() > 1: // any node but the root (the witnesses can take any taxon)
				o.Val = strconv.Itoa(c.Tree.Taxid[rapid.IntRange(1, c.Tree.N()-1).Draw(rt, "clade_node")])
			default:
				o.Val = strconv.Itoa(x.lowClade(rt, target))
			}
		case "--require-rank":
			o.Val = rapid.SampledFrom(c.Tree.Ranks()).Draw(rt, "rank")
		}
		return o
	}
	// variants of the passer (one feature changed) and, for every value chosen so far, which
	// variants it accepts: an occurrence has a potential witness when some variant is decided
	// by it alone among the occurrences of the same option
	kindVariants := map[string][]gRec{}
	variantsOf := func(k string) []gRec {
		v, done := kindVariants[k]
		if !done {
			v = gVariants(k, passer, ctx.uni, c.Tree)
			kindVariants[k] = v
		}
		return v
	}
	vectors := map[string][][]bool{}
	vector := func(o gOpt) []bool {
		vs := variantsOf(o.Name)
		out := make([]bool, len(vs))
		for i, v := range vs {
			out[i] = passes(o, v)
		}
		return out
	}
	witnessed := func(kind string, all [][]bool) int {
		n := 0
		for i := range all {
			for v := range all[i] {
				alone := true
				for h := range all {
					// and-semantics: variant rejected by i, accepted by the others; -r: the reverse
					if all[h][v] != ((h != i) != (kind == "-r")) {
						alone = false
						break
					}
				}
				if alone {
					n++
					break
				}
			}
		}
		return n
	}
	score := func(o gOpt, first bool) (int, []bool) {
		sc := 0
		if passes(o, passer) || (o.Name == "-r" && !first) {
			sc += 8
		}
		if count[o.Name] < 2 {
			return sc + 1, nil
		}
		vec := vector(o)
		return sc + witnessed(o.Name, append(append([][]bool{}, vectors[o.Name]...), vec)), vec
	}
	occurrence := map[string]int{}
	effective := false
	for _, k := range kinds {
		var o gOpt
		if k == "--id-list" {
			// the passer, most of the identifiers the witnesses will get (base of the passer, rank of the slot), other records
			o = gOpt{Name: k}
			c.IDList = append(c.IDList, passer.ID)
			for i, r := range c.Recs {
				if i != roles[0] && rapid.Bool().Draw(rt, "listed") {
					c.IDList = append(c.IDList, r.ID)
				}
				if i != roles[0] && rapid.IntRange(0, 3).Draw(rt, "witness_listed") > 0 {
					c.IDList = append(c.IDList, gIDBase(passer.ID)+"_"+strconv.Itoa(i))
				}
			}
			if rapid.Bool().Draw(rt, "shuffled_list") {
				c.IDList = rapid.Permutation(c.IDList).Draw(rt, "list_order")
			}
			c.IDListNoEOL = rapid.IntRange(0, 3).Draw(rt, "no_final_newline") == 0
		} else {
			j := occurrence[k]
			occurrence[k]++
			best, full := -1, 8+max(1, j+1)
			if count[k] < 2 {
				full = 9
			}
			var bestVec []bool
			tries := 8
			if gIsTax(k) {
				tries = 12 // cheap candidates
			}
			for m := 0; m < tries && best < full; m++ {
				target := passer
				if k == "-i" || (k == "-r" && j > 0) {
					target = c.Recs[slots[rapid.IntRange(0, len(slots)-1).Draw(rt, "clade_record")]]
				}
				cand := candidate(k, target)
				if sc, vec := score(cand, j == 0); sc > best {
					best, o, bestVec = sc, cand, vec
				}
			}
			if bestVec != nil {
				vectors[k] = append(vectors[k], bestVec)
			}
			switch k {
			case "-a":
				key, _, _ := strings.Cut(o.Val, "=")
				usedA = map[string]bool{key: true}
			}
		}
		o.Long = rapid.IntRange(0, 3).Draw(rt, "long_name") == 0
		switch k {
		case "-l", "-c":
			if n, _ := strconv.Atoi(o.Val); n > 1 {
				effective = true
			}
		default:
			effective = true
		}
		c.Opts = append(c.Opts, o)
	}

	// ---- witnesses
	// For every occurrence of an option given several times, a record is built that
	// differs from the passer by one feature (gVariants) and whose verdict hinges on this
	// occurrence alone: with it and without it the reference interpreter decides
	// differently.  The variants are scanned in their fixed order from a drawn starting
	// point; the first suitable one replaces an unrelated record (it keeps the rank of
	// the slot in its identifier).  No suitable variant: the slot keeps its random record.
	verdict := func(opts []gOpt, r gRec) (bool, bool) {
		s := gSelection{Opts: opts, IDList: c.IDList, Tree: c.Tree, Approx: c.approx()}
		ok, _, err := s.keepOne(r)
		return ok, err == nil
	}
	free := append([]int{}, slots...)
	for j, o := range c.Opts {
		if count[o.Name] < 2 || len(free) <= 2 {
			continue
		}
		variants := variantsOf(o.Name)
		if len(variants) == 0 {
			continue
		}
		start := rapid.IntRange(0, len(variants)-1).Draw(rt, "variant_start")
		without := append(append([]gOpt{}, c.Opts[:j]...), c.Opts[j+1:]...)
		placed := false
		for si := 0; si < min(3, len(free)) && !placed; si++ {
			slot := free[si]
			for vi := range variants {
				v := variants[(start+vi)%len(variants)]
				v.ID = gIDBase(v.ID) + "_" + strconv.Itoa(slot)
				if passes(o, v) != (o.Name == "-r") {
					continue // accepted by this occurrence (for -r: not in this clade)
				}
				with, ok1 := verdict(c.Opts, v)
				wo, ok2 := verdict(without, v)
				if ok1 && ok2 && with != wo {
					c.Recs[slot] = v
					if paired {
						c.Mates[slot].ID = v.ID
					}
					free = append(free[:si], free[si+1:]...)
					placed = true
					break
				}
			}
		}
	}

	// ---- the rest of the command line (as genGrepCase)
	if effective && rapid.IntRange(0, 2).Draw(rt, "invert") == 0 {
		c.Invert = true
		c.InvertLong = rapid.IntRange(0, 3).Draw(rt, "invert_long") == 0
	}
	c.SaveDiscarded = rapid.IntRange(0, 2).Draw(rt, "save_discarded") == 0
	if paired {
		c.PairedMode = rapid.SampledFrom(append([]string{""}, gPairedModes...)).Draw(rt, "paired_mode")
		if !effective && (c.PairedMode == "andnot" || c.PairedMode == "xor") {
			c.PairedMode = "and"
		}
	} else {
		c.OutFile = rapid.IntRange(0, 4).Draw(rt, "out_file") == 0
	}
	c.MaxCPU = rapid.SampledFrom(gMaxCPUs).Draw(rt, "max_cpu")
	c.Batch = rapid.SampledFrom(gBatches).Draw(rt, "batch_size")
	return c
}

// gDecisive: for every option given at least twice, how many of its
// occurrences are decisive (removing that occurrence alone changes the expected selection).
func gDecisive(c *grepCase) (given, decisive map[string]int, err error) {
	full, _, err := c.expected()
	if err != nil {
		return nil, nil, err
	}
	given, decisive = map[string]int{}, map[string]int{}
	for _, o := range c.Opts {
		given[o.Name]++
	}
	for j, o := range c.Opts {
		if given[o.Name] < 2 {
			continue
		}
		d := *c
		d.Opts = append(append([]gOpt{}, c.Opts[:j]...), c.Opts[j+1:]...)
		without, _, err := d.expected()
		if err != nil {
			return nil, nil, err
		}
		for i := range full {
			if full[i] != without[i] {
				decisive[o.Name]++
				break
			}
		}
	}
	return given, decisive, nil
}

// gRepeatClasses: the non-trivial rule of TestGrepRepeated and its labels.
func gRepeatClasses(c *grepCase) (bool, []string) {
	_, cl := gGrepClasses(c)
	given, decisive, err := gDecisive(c)
	if err != nil {
		return false, append(cl, "grep:harness_error")
	}
	some := false
	for _, l := range cl {
		some = some || l == "grep:selection:some"
	}
	names := make([]string, 0, len(given))
	for k := range given {
		names = append(names, k)
	}
	sort.Strings(names)
	allDecisive := false
	for _, k := range names {
		if given[k] < 3 {
			continue
		}
		cl = append(cl, fmt.Sprintf("grep:given_%d_times:%s", given[k], k))
		if decisive[k] == given[k] {
			cl = append(cl, "grep:3+_all_decisive:"+k)
			allDecisive = true
		} else if decisive[k] > 0 {
			cl = append(cl, "grep:3+_some_decisive:"+k)
		}
	}
	grouped := true
	seen := map[string]bool{}
	for i, o := range c.Opts {
		if seen[o.Name] && c.Opts[i-1].Name != o.Name {
			grouped = false
		}
		seen[o.Name] = true
	}
	if !grouped {
		cl = append(cl, "grep:occurrences_interleaved")
	}
	return some && allDecisive, cl
}

func TestGrepRepeated(t *testing.T) {
	rapid.Check(t, func(rt *rapid.T) {
		c := genGrepRepeatCase(rt, "repeated", true)
		nontrivial, classes := gRepeatClasses(&c)
		evid.Eval("grep", c.key(), nontrivial, c, classes...)
		if err := checkGrep(c); err != nil {
			evid.Fail(rt, "grep", c, err)
		}
	})
}

// ------------------------------------------------------------------ obiannotate with selection options

type annSelCase struct {
	Grep grepCase `json:"grep"` // records, selection options, -v, taxonomy, --max-cpu, --batch-size (no mates, no output files)
}

// gSelectionArgs writes the side files (taxonomy dump, identifier list) of a
// case in dir and returns the command-line arguments of its selection options.
func gSelectionArgs(c *grepCase, dir string) ([]string, error) {
	var args []string
	if c.Tree != nil {
		if err := os.Mkdir(filepath.Join(dir, "tax"), 0o755); err != nil {
			return nil, err
		}
		nodes, names, merged := c.Tree.NCBIDump(ref.DumpStyle{})
		for _, f := range [][2]string{{"nodes.dmp", nodes}, {"names.dmp", names}, {"merged.dmp", merged}} {
			if err := os.WriteFile(filepath.Join(dir, "tax", f[0]), []byte(f[1]), 0o644); err != nil {
				return nil, err
			}
		}
		args = append(args, "-t", "tax")
	}
	if c.ApproxModsFirst {
		args = append(args, c.approxArgs()...)
	}
	for _, o := range c.Opts {
		name := o.Name
		if o.Long {
			name = gLongName[o.Name]
		}
		switch o.Name {
		case "-p":
			args = append(args, name, o.Expr.render())
		case "--id-list":
			body := strings.Join(c.IDList, "\n")
			if !c.IDListNoEOL && len(c.IDList) > 0 {
				body += "\n"
			}
			if err := os.WriteFile(filepath.Join(dir, "ids.txt"), []byte(body), 0o644); err != nil {
				return nil, err
			}
			args = append(args, name, "ids.txt")
		default:
			args = append(args, name, o.Val)
		}
	}
	if !c.ApproxModsFirst {
		args = append(args, c.approxArgs()...)
	}
	if c.Invert {
		if c.InvertLong {
			args = append(args, "--inverse-match")
		} else {
			args = append(args, "-v")
		}
	}
	return args, nil
}

func checkAnnotateSelected(ac annSelCase) error {
	c := ac.Grep
	if c.Mates != nil || c.SaveDiscarded || c.OutFile || c.PairedMode != "" {
		return fmt.Errorf("harness: obiannotate cases have no mates and no output files")
	}
	if c.Tree != nil {
		if err := c.Tree.Validate(); err != nil {
			return fmt.Errorf("harness: %v", err)
		}
	}
	kept, why, err := c.expected()
	if err != nil {
		return err
	}
	dir, err := os.MkdirTemp(run.WorkDir(), "c16annsel")
	if err != nil {
		return fmt.Errorf("harness: %v", err)
	}
	defer os.RemoveAll(dir)
	in := "in" + c.ext()
	if err := os.WriteFile(filepath.Join(dir, in), gRender(c.Recs, c.Fastq), 0o644); err != nil {
		return fmt.Errorf("harness: %v", err)
	}
	sel, err := gSelectionArgs(&c, dir)
	if err != nil {
		return fmt.Errorf("harness: %v", err)
	}
	args := append(gParallelArgs(c.MaxCPU, c.Batch), sel...)
	args = append(args, "--length", in)
	cmd := "obiannotate " + gQuote(args)
	res, ok := gRun(dir, "obiannotate", args)
	if !ok {
		return nil
	}
	if res.Exit != 0 {
		return fmt.Errorf("%s exits %d on well-formed input and options\nstderr: %s", cmd, res.Exit, gShort(res.Stderr))
	}
	explain := func(err error) error {
		var sb strings.Builder
		for i, r := range c.Recs {
			v, w := "rejected", why[i]
			if kept[i] {
				v = "selected"
			}
			if w == "" {
				w = "satisfies every criterion"
			} else {
				w = "fails " + w
			}
			fmt.Fprintf(&sb, "\n  %s: %s (%s)", r.ID, v, w)
		}
		return fmt.Errorf("%s\n%v\nreference interpreter:%s\nstderr: %s", cmd, err, sb.String(), gShort(res.Stderr))
	}
	got, err := gParse(res.Stdout)
	if err != nil {
		return explain(fmt.Errorf("standard output is unreadable: %v\n%s", err, gShort(res.Stdout)))
	}
	index := map[string]int{}
	for i, r := range c.Recs {
		index[r.ID] = i
	}
	written := make([]bool, len(c.Recs))
	last := -1
	for _, o := range got {
		i, known := index[o.ID]
		if !known {
			return explain(fmt.Errorf("record %q was written; it is not an input record", o.ID))
		}
		if written[i] {
			return explain(fmt.Errorf("record %s was written twice", o.ID))
		}
		written[i] = true
		if i < last {
			return explain(fmt.Errorf("record %s is written after record %s: the input order is lost", o.ID, c.Recs[last].ID))
		}
		last = i
		want := c.Recs[i]
		if kept[i] {
			if err := gSame(want, o, func(k string) bool { return k == "seq_length" }); err != nil {
				return explain(fmt.Errorf("selected record: %v", err))
			}
			v, has := o.Attrs["seq_length"]
			if !has {
				return explain(fmt.Errorf("record %s satisfies the criteria and was written without the requested edit (seq_length); annotations: %v", o.ID, o.Attrs))
			}
			if f, isNum := v.(float64); !isNum || f != float64(len(want.Seq)) {
				return explain(fmt.Errorf("record %s: seq_length=%v, the sequence has %d nucleotides", o.ID, v, len(want.Seq)))
			}
		} else {
			if _, has := o.Attrs["seq_length"]; has {
				return explain(fmt.Errorf("record %s does not satisfy the criteria (%s) and was edited (seq_length=%v)", o.ID, why[i], o.Attrs["seq_length"]))
			}
			if err := gSame(want, o, nil); err != nil {
				return explain(fmt.Errorf("rejected record written: %v", err))
			}
		}
	}
	for i, r := range c.Recs {
		if kept[i] && !written[i] {
			return explain(fmt.Errorf("record %s satisfies the criteria and is not in the output (the edit was not applied to it)", r.ID))
		}
	}
	return nil
}

func TestAnnotateSelected(t *testing.T) {
	rapid.Check(t, func(rt *rapid.T) {
		var c grepCase
		if rapid.Bool().Draw(rt, "repeated_options") {
			c = genGrepRepeatCase(rt, "annotate-repeated", false)
		} else {
			c = genGrepCase(rt, gPlan{Label: "annotate-subset", Paired: -1})
		}
		c.SaveDiscarded, c.OutFile = false, false
		c.Fastq = false // FASTA inputs only (Domain decisions)
		for i := range c.Recs {
			c.Recs[i].Qual = ""
		}
		_, classes := gRepeatClasses(&c)
		some := false
		for i, l := range classes {
			some = some || l == "grep:selection:some"
			classes[i] = "annotate_selected:" + strings.TrimPrefix(l, "grep:")
		}
		ac := annSelCase{Grep: c}
		evid.Eval("annotate_selected", c.key(), some, ac, classes...)
		if err := checkAnnotateSelected(ac); err != nil {
			evid.Fail(rt, "annotate_selected", ac, err)
		}
	})
}
